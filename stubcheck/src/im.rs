//! indexmap::{IndexMap, IndexSet} against prelude/indexmap.rs, ports_indexmap.rs, rules_indexmap.rs,
//! udp_indexmap.rs, fs_indexset.rs, indexset.rs, uring_indexmap.rs, run_indexmap.rs, hosttcp_indexmap.rs.
//!
//! Spec view of a map: Seq<(K, V)> = the entries in iteration order.  The executable view is
//! `m.iter().collect()`; `obs` additionally demands that iter / keys / values / get_index / len agree on it.
use crate::{ensure, hit, mutant, Cx, Rng, R};
use indexmap::map::Entry;
use indexmap::{IndexMap, IndexSet};
use std::collections::VecDeque;
use std::fmt::Debug;

pub(crate) type K = u8;
pub(crate) type V = u32;

// ---------------------------------------------------------------- spec functions (indexmap.rs) ----
pub fn im_has<W>(s: &[(K, W)], k: K) -> bool {
    s.iter().any(|e| e.0 == k)
}
/// `choose|i| s[i].0 == k`: by axiom_indexmap_unique there is one such i
pub fn im_idx<W>(s: &[(K, W)], k: K) -> usize {
    s.iter().position(|e| e.0 == k).expect("im_idx of an absent key")
}
pub fn im_get<W: Clone>(s: &[(K, W)], k: K) -> W {
    s[im_idx(s, k)].1.clone()
}
pub fn im_unique<W>(s: &[(K, W)]) -> bool {
    (0..s.len()).all(|i| (i + 1..s.len()).all(|j| s[i].0 != s[j].0))
}
pub fn update<T: Clone>(s: &[T], i: usize, x: T) -> Vec<T> {
    let mut n = s.to_vec();
    n[i] = x;
    n
}
pub fn push<T: Clone>(s: &[T], x: T) -> Vec<T> {
    let mut n = s.to_vec();
    n.push(x);
    n
}
pub fn drop_last<T: Clone>(s: &[T]) -> Vec<T> {
    s[..s.len() - 1].to_vec()
}
pub fn im_upsert<W: Clone>(s: &[(K, W)], k: K, v: W) -> Vec<(K, W)> {
    if mutant("upsert") && im_has(s, k) {
        return push(&seq_remove(s, im_idx(s, k)), (k, v)); // wrong: re-insertion moves the key to the end
    }
    if im_has(s, k) { update(s, im_idx(s, k), (k, v)) } else { push(s, (k, v)) }
}
/// `if i == n - 1 { s.drop_last() } else { s.update(i, s[n - 1]).drop_last() }`
pub fn swap_removed<T: Clone>(s: &[T], i: usize) -> Vec<T> {
    let n = s.len();
    if mutant("swap_remove") {
        return seq_remove(s, i); // wrong: order-preserving removal
    }
    if i == n - 1 { drop_last(s) } else { drop_last(&update(s, i, s[n - 1].clone())) }
}
pub fn seq_remove<T: Clone>(s: &[T], i: usize) -> Vec<T> {
    let mut n = s.to_vec();
    n.remove(i);
    n
}
/// seq_filter_by (vecdeque.rs) / vec_filter_by (barriers_std.rs): the recursive definition, literally
pub fn seq_filter_by<T: Clone>(s: &[T], keep: &dyn Fn(&T) -> bool) -> Vec<T> {
    if s.is_empty() {
        vec![]
    } else {
        let mut p = seq_filter_by(&s[..s.len() - 1], keep);
        if keep(&s[s.len() - 1]) {
            if mutant("retain") {
                p.insert(0, s[s.len() - 1].clone()); // wrong: reversed order
            } else {
                p.push(s[s.len() - 1].clone());
            }
        }
        p
    }
}

// ---------------------------------------------------------------- state generation / observation ----
pub(crate) fn gen_map_with<W>(rng: &mut Rng, mut mk: impl FnMut(&mut Rng) -> W) -> IndexMap<K, W> {
    let mut m = IndexMap::new();
    let ops = rng.range(0, 28);
    for _ in 0..ops {
        let k = rng.u8() % 16;
        match rng.below(10) {
            0 | 1 => {
                m.swap_remove(&k);
            }
            2 => {
                m.shift_remove(&k);
            }
            _ => {
                let v = mk(rng);
                m.insert(k, v);
            }
        }
    }
    m
}
pub(crate) fn gen_map(rng: &mut Rng) -> IndexMap<K, V> {
    gen_map_with(rng, |r| r.u32() % 1000)
}
fn gen_dq(rng: &mut Rng) -> VecDeque<u32> {
    let n = rng.range(0, 4);
    (0..n).map(|_| rng.u32() % 100).collect()
}
fn gen_map_dq(rng: &mut Rng) -> IndexMap<K, VecDeque<u32>> {
    gen_map_with(rng, gen_dq)
}
/// a key that is present with probability ~1/2 (when the map is non-empty)
pub(crate) fn pick_key<W>(rng: &mut Rng, m: &IndexMap<K, W>) -> K {
    if !m.is_empty() && rng.bool() { *m.get_index(rng.below(m.len())).unwrap().0 } else { rng.u8() % 20 }
}
/// the view; all order-exposing observers must agree on it
pub(crate) fn obs<W: Clone + PartialEq + Debug>(m: &IndexMap<K, W>) -> Result<Vec<(K, W)>, String> {
    let v: Vec<(K, W)> = m.iter().map(|(k, v)| (*k, v.clone())).collect();
    ensure!(m.len() == v.len(), "len() {} != number of iterated entries {}", m.len(), v.len());
    for i in 0..v.len() {
        match m.get_index(i) {
            Some((k, w)) if *k == v[i].0 && *w == v[i].1 => {}
            o => return Err(format!("get_index({i}) = {o:?} disagrees with iter() = {v:?}")),
        }
    }
    ensure!(m.get_index(v.len()).is_none(), "get_index(len) is Some");
    Ok(v)
}
pub(crate) fn pick_index<W>(rng: &mut Rng, m: &IndexMap<K, W>) -> usize {
    rng.below(m.len() + 3)
}
pub(crate) fn pred(rng: &mut Rng) -> impl Fn(&u8) -> bool + Copy {
    let m = rng.range(1, 5) as u8;
    let r = rng.u8() % m;
    let neg = rng.chance(1, 4);
    move |k: &u8| (*k % m == r) != neg
}

const BASE: &[&str] = &["indexmap.rs", "ports_indexmap.rs"];

pub fn run(cx: &mut Cx) {
    // ------------------------------------------------------------ type invariant + constructors
    cx.check_in(BASE, "axiom_indexmap_unique", |rng| {
        let m = gen_map(rng);
        let s = obs(&m)?;
        ensure!(im_unique(&s), "duplicate key in {s:?}");
        Ok(())
    });
    cx.check_in(BASE, "IndexMap::new", |_| {
        let m: IndexMap<K, V> = IndexMap::new();
        ensure!(obs(&m)?.is_empty(), "new() is not empty");
        Ok(())
    });
    cx.check("udp_indexmap.rs::<IndexMap as Default>::default", |_| {
        let m: IndexMap<K, V> = Default::default();
        ensure!(obs(&m)?.is_empty(), "default() is not empty");
        Ok(())
    });
    cx.check_in(BASE, "IndexMap::len", |rng| {
        let m = gen_map(rng);
        let s = obs(&m)?;
        ensure!(m.len() == s.len(), "len {} view {s:?}", m.len());
        Ok(())
    });
    cx.check_in(BASE, "IndexMap::is_empty", |rng| {
        let m = if rng.chance(1, 4) { IndexMap::new() } else { gen_map(rng) };
        let s = obs(&m)?;
        ensure!(m.is_empty() == (s.len() == 0), "is_empty {} view {s:?}", m.is_empty());
        Ok(())
    });
    cx.want(&["present", "absent"]).check_in(BASE, "IndexMap::contains_key", |rng| {
        let m = gen_map(rng);
        let s = obs(&m)?;
        let k = pick_key(rng, &m);
        hit(if im_has(&s, k) { "present" } else { "absent" });
        ensure!(m.contains_key(&k) == im_has(&s, k), "contains_key({k}) on {s:?}");
        Ok(())
    });
    // ------------------------------------------------------------ insert / get / get_mut / get_index
    cx.want(&["overwrite", "overwrite-not-last", "append"]).check_in(BASE, "IndexMap::insert", |rng| {
        let mut m = gen_map(rng);
        let pre = obs(&m)?;
        let (k, v) = (pick_key(rng, &m), rng.u32());
        hit(if !im_has(&pre, k) { "append" } else if im_idx(&pre, k) + 1 < pre.len() { "overwrite-not-last" } else { "overwrite" });
        if im_has(&pre, k) {
            hit("overwrite");
        }
        let r = m.insert(k, v);
        let post = obs(&m)?;
        ensure!(post == im_upsert(&pre, k, v), "insert({k},{v}): {pre:?} -> {post:?}, spec {:?}", im_upsert(&pre, k, v));
        let exp = if im_has(&pre, k) { Some(im_get(&pre, k)) } else { None };
        ensure!(r == exp, "insert({k},{v}) on {pre:?} returned {r:?}, spec {exp:?}");
        Ok(())
    });
    cx.want(&["present", "absent"]).check_in(BASE, "IndexMap::get", |rng| {
        let m = gen_map(rng);
        let s = obs(&m)?;
        let k = pick_key(rng, &m);
        hit(if im_has(&s, k) { "present" } else { "absent" });
        let exp = if im_has(&s, k) { Some(im_get(&s, k)) } else { None };
        ensure!(m.get(&k).copied() == exp, "get({k}) on {s:?} = {:?}, spec {exp:?}", m.get(&k));
        Ok(())
    });
    cx.want(&["some", "none"]).check_in(BASE, "IndexMap::get_mut", |rng| {
        let mut m = gen_map(rng);
        let pre = obs(&m)?;
        let k = pick_key(rng, &m);
        let nv = rng.u32();
        match m.get_mut(&k) {
            Some(v) => {
                hit("some");
                ensure!(im_has(&pre, k) && *v == im_get(&pre, k), "get_mut({k}) on {pre:?} = Some({v})");
                *v = nv;
                let post = obs(&m)?;
                let exp = update(&pre, im_idx(&pre, k), (k, nv));
                ensure!(post == exp, "write through get_mut({k}): {pre:?} -> {post:?}, spec {exp:?}");
            }
            None => {
                hit("none");
                ensure!(!im_has(&pre, k), "get_mut({k}) on {pre:?} = None");
                ensure!(obs(&m)? == pre, "get_mut miss changed the map");
            }
        }
        Ok(())
    });
    cx.want(&["in", "out"]).check_in(BASE, "IndexMap::get_index", |rng| {
        let m = gen_map(rng);
        let s = obs(&m)?;
        let i = pick_index(rng, &m);
        hit(if i < s.len() { "in" } else { "out" });
        let exp = if i < s.len() { Some((s[i].0, s[i].1)) } else { None };
        let got = m.get_index(i).map(|(k, v)| (*k, *v));
        ensure!(got == exp, "get_index({i}) on {s:?} = {got:?}, spec {exp:?}");
        Ok(())
    });
    cx.want(&["in", "out"]).check_in(&["rules_indexmap.rs", "udp_indexmap.rs"], "IndexMap::get_index_mut", |rng| {
        let mut m = gen_map(rng);
        let pre = obs(&m)?;
        let i = pick_index(rng, &m);
        hit(if i < pre.len() { "in" } else { "out" });
        let nv = rng.u32();
        match m.get_index_mut(i) {
            Some((k, v)) => {
                ensure!(i < pre.len() && *k == pre[i].0 && *v == pre[i].1, "get_index_mut({i}) on {pre:?} = ({k},{v})");
                *v = nv;
                let post = obs(&m)?;
                let exp = update(&pre, i, (pre[i].0, nv));
                ensure!(post == exp, "write through get_index_mut({i}): {pre:?} -> {post:?}, spec {exp:?}");
            }
            None => {
                ensure!(i >= pre.len(), "get_index_mut({i}) on {pre:?} = None");
                ensure!(obs(&m)? == pre, "get_index_mut miss changed the map");
            }
        }
        Ok(())
    });
    // ------------------------------------------------------------ removal
    cx.want(&["absent", "last", "middle"]).check_in(BASE, "IndexMap::swap_remove", |rng| {
        let mut m = gen_map(rng);
        let pre = obs(&m)?;
        let k = pick_key(rng, &m);
        hit(if !im_has(&pre, k) { "absent" } else if im_idx(&pre, k) + 1 == pre.len() { "last" } else { "middle" });
        let r = m.swap_remove(&k);
        let post = obs(&m)?;
        if !im_has(&pre, k) {
            ensure!(r.is_none() && post == pre, "swap_remove({k}) of absent key: {pre:?} -> {post:?}, r {r:?}");
        } else {
            let exp = swap_removed(&pre, im_idx(&pre, k));
            ensure!(r == Some(im_get(&pre, k)), "swap_remove({k}) on {pre:?} returned {r:?}");
            ensure!(post == exp, "swap_remove({k}): {pre:?} -> {post:?}, spec {exp:?}");
        }
        Ok(())
    });
    cx.want(&["absent", "last", "middle"]).check_in(BASE, "IndexMap::shift_remove", |rng| {
        let mut m = gen_map(rng);
        let pre = obs(&m)?;
        let k = pick_key(rng, &m);
        hit(if !im_has(&pre, k) { "absent" } else if im_idx(&pre, k) + 1 == pre.len() { "last" } else { "middle" });
        let r = m.shift_remove(&k);
        let post = obs(&m)?;
        if !im_has(&pre, k) {
            ensure!(r.is_none() && post == pre, "shift_remove({k}) of absent key: {pre:?} -> {post:?}, r {r:?}");
        } else {
            let exp = seq_remove(&pre, im_idx(&pre, k));
            ensure!(r == Some(im_get(&pre, k)), "shift_remove({k}) on {pre:?} returned {r:?}");
            ensure!(post == exp, "shift_remove({k}): {pre:?} -> {post:?}, spec {exp:?}");
        }
        Ok(())
    });
    cx.want(&["out", "last", "middle"]).check("udp_indexmap.rs::IndexMap::swap_remove_index", |rng| {
        let mut m = gen_map(rng);
        let pre = obs(&m)?;
        let i = pick_index(rng, &m);
        hit(if i >= pre.len() { "out" } else if i + 1 == pre.len() { "last" } else { "middle" });
        let r = m.swap_remove_index(i);
        let post = obs(&m)?;
        if i >= pre.len() {
            ensure!(r.is_none() && post == pre, "swap_remove_index({i}) out of range: {pre:?} -> {post:?}, r {r:?}");
        } else {
            let exp = swap_removed(&pre, i);
            ensure!(r == Some(pre[i]), "swap_remove_index({i}) on {pre:?} returned {r:?}");
            ensure!(post == exp, "swap_remove_index({i}): {pre:?} -> {post:?}, spec {exp:?}");
        }
        Ok(())
    });
    cx.check("uring_indexmap.rs::IndexMap::clear", |rng| {
        let mut m = gen_map(rng);
        m.clear();
        ensure!(obs(&m)?.is_empty(), "clear() left entries");
        Ok(())
    });
    // ------------------------------------------------------------ entry API
    // indexmap.rs: prophecy-carrying struct Entry; executable as the composite entry(k).or_default()
    cx.want(&["present", "absent"]).check("indexmap.rs::IndexMap::entry + Entry::or_default", |rng| {
        let mut m = gen_map_dq(rng);
        let pre = obs(&m)?;
        let k = pick_key(rng, &m);
        hit(if im_has(&pre, k) { "present" } else { "absent" });
        let nv = gen_dq(rng);
        {
            let r = m.entry(k).or_default();
            if im_has(&pre, k) {
                ensure!(*r == im_get(&pre, k), "or_default on present key {k}: {r:?} vs {pre:?}");
            } else {
                ensure!(r.is_empty(), "or_default on absent key {k} is not empty: {r:?}");
            }
            if rng.bool() {
                *r = nv.clone();
            } else {
                r.push_back(7);
            }
        }
        let post = obs(&m)?;
        let fin_r = m.get(&k).cloned().ok_or("key absent after or_default")?;
        let exp = im_upsert(&pre, k, fin_r);
        ensure!(post == exp, "entry({k}).or_default(): {pre:?} -> {post:?}, spec {exp:?}");
        Ok(())
    });
    cx.want(&["present", "absent"]).check("indexmap.rs::IndexMap::entry + Entry::or_insert", |rng| {
        let mut m = gen_map_dq(rng);
        let pre = obs(&m)?;
        let k = pick_key(rng, &m);
        hit(if im_has(&pre, k) { "present" } else { "absent" });
        let dflt = gen_dq(rng);
        let nv = gen_dq(rng);
        {
            let r = m.entry(k).or_insert(dflt.clone());
            if im_has(&pre, k) {
                ensure!(*r == im_get(&pre, k), "or_insert on present key {k}: {r:?} vs {pre:?}");
            } else {
                ensure!(*r == dflt, "or_insert on absent key {k}: {r:?}, default {dflt:?}");
            }
            if rng.bool() { *r = nv.clone(); }
        }
        let post = obs(&m)?;
        let fin_r = m.get(&k).cloned().ok_or("key absent after or_insert")?;
        let exp = im_upsert(&pre, k, fin_r);
        ensure!(post == exp, "entry({k}).or_insert(..): {pre:?} -> {post:?}, spec {exp:?}");
        Ok(())
    });
    cx.want(&["present", "absent"]).check("fs_indexset.rs::Entry::or_insert_with", |rng| {
        let mut m = gen_map(rng);
        let pre = obs(&m)?;
        let k = pick_key(rng, &m);
        hit(if im_has(&pre, k) { "present" } else { "absent" });
        let (fv, nv) = (rng.u32(), rng.u32());
        let write = rng.bool();
        let fin_r;
        {
            let r = m.entry(k).or_insert_with(|| fv);
            if im_has(&pre, k) {
                ensure!(*r == im_get(&pre, k), "or_insert_with on present key {k}: {r} vs {pre:?}");
            } else {
                ensure!(*r == fv, "or_insert_with on absent key {k}: {r} != f() = {fv}");
            }
            if write {
                *r = nv;
            }
            fin_r = *r;
        }
        let post = obs(&m)?;
        let exp = im_upsert(&pre, k, fin_r);
        ensure!(post == exp, "entry({k}).or_insert_with(): {pre:?} -> {post:?}, spec {exp:?}");
        Ok(())
    });
    // enum form (ports_indexmap.rs `entry`, udp_indexmap.rs `entry_e`)
    for name in ["ports_indexmap.rs::IndexMap::entry", "udp_indexmap.rs::IndexMap::entry_e"] {
        cx.want(&["occupied", "vacant"]).check(name, |rng| {
            let mut m = gen_map(rng);
            let pre = obs(&m)?;
            let k = pick_key(rng, &m);
            match m.entry(k) {
                Entry::Occupied(o) => {
                    hit("occupied");
                    ensure!(im_has(&pre, k), "entry({k}) Occupied on {pre:?}");
                    ensure!(*o.key() == k, "occupied key {} != {k}", o.key());
                    // *o.map == *old(self): what the handle shows is the old map
                    ensure!(o.index() == im_idx(&pre, k) && *o.get() == im_get(&pre, k), "occupied entry shows a different map");
                }
                Entry::Vacant(v) => {
                    hit("vacant");
                    ensure!(!im_has(&pre, k), "entry({k}) Vacant on {pre:?}");
                    ensure!(*v.key() == k, "vacant key {} != {k}", v.key());
                    ensure!(v.index() == pre.len(), "vacant entry shows a different map");
                }
            }
            // *final(o.map) == *final(self) with the handle dropped unused: the map is unchanged
            ensure!(obs(&m)? == pre, "entry dropped without use changed the map");
            Ok(())
        });
    }
    for name in ["ports_indexmap.rs::VacantEntry::insert", "udp_indexmap.rs::VacantEntry::insert"] {
        cx.check(name, |rng| {
            let mut m = gen_map(rng);
            let pre = obs(&m)?;
            let k = loop {
                let k = rng.u8() % 24;
                if !im_has(&pre, k) {
                    break k;
                }
            };
            let (value, nv) = (rng.u32(), rng.u32());
            let fin_r;
            match m.entry(k) {
                Entry::Occupied(_) => return Err(format!("entry({k}) Occupied on {pre:?}")),
                Entry::Vacant(v) => {
                    let r = v.insert(value);
                    ensure!(*r == value, "VacantEntry::insert returned a slot holding {r}, not {value}");
                    if rng.bool() {
                        *r = nv;
                    }
                    fin_r = *r;
                }
            }
            let post = obs(&m)?;
            let exp = push(&pre, (k, fin_r));
            ensure!(post == exp, "VacantEntry::insert: {pre:?} -> {post:?}, spec {exp:?}");
            Ok(())
        });
    }
    cx.want(&["occupied", "vacant"]).check("ports_indexmap.rs::Entry::or_default", |rng| {
        let mut m = gen_map_dq(rng);
        let pre = obs(&m)?;
        let k = pick_key(rng, &m);
        let e = m.entry(k);
        let occ = matches!(e, Entry::Occupied(_));
        hit(if occ { "occupied" } else { "vacant" });
        {
            let r = e.or_default();
            if occ {
                ensure!(im_has(&pre, k) && *r == im_get(&pre, k), "or_default on occupied {k}: {r:?} vs {pre:?}");
            } else {
                ensure!(r.is_empty(), "or_default on vacant {k}: {r:?}");
            }
            r.push_back(rng.u32() % 100);
        }
        let post = obs(&m)?;
        let exp = im_upsert(&pre, k, m.get(&k).cloned().ok_or("key absent after or_default")?);
        ensure!(post == exp, "or_default: {pre:?} -> {post:?}, spec {exp:?}");
        Ok(())
    });
    cx.want(&["occupied", "vacant"]).check("udp_indexmap.rs::MapEntry::and_modify", |rng| {
        let mut m = gen_map(rng);
        let pre = obs(&m)?;
        let k = pick_key(rng, &m);
        let nv = rng.u32();
        let has = im_has(&pre, k);
        hit(if has { "occupied" } else { "vacant" });
        let mut seen = None;
        {
            let e = m.entry(k);
            let r = e.and_modify(|v| {
                seen = Some(*v);
                *v = nv;
            });
            ensure!(*r.key() == k, "and_modify changed the key");
            ensure!(matches!(r, Entry::Occupied(_)) == has, "and_modify changed the variant");
            // r.cur()
            match &r {
                Entry::Occupied(o) => ensure!(o.index() == im_idx(&pre, k) && *o.get() == nv, "r.cur() is not the in-place update"),
                Entry::Vacant(v) => ensure!(v.index() == pre.len(), "r.cur() changed for a vacant entry"),
            }
        }
        let post = obs(&m)?;
        if has {
            ensure!(seen == Some(im_get(&pre, k)), "closure saw {seen:?}, spec {:?}", im_get(&pre, k));
            let exp = update(&pre, im_idx(&pre, k), (k, nv));
            ensure!(post == exp, "and_modify: {pre:?} -> {post:?}, spec {exp:?}");
        } else {
            ensure!(seen.is_none() && post == pre, "and_modify on a vacant entry ran the closure or changed the map");
        }
        Ok(())
    });
    cx.want(&["occupied", "vacant"]).check("udp_indexmap.rs::MapEntry::index", |rng| {
        let mut m = gen_map(rng);
        let pre = obs(&m)?;
        let k = pick_key(rng, &m);
        hit(if im_has(&pre, k) { "occupied" } else { "vacant" });
        let i = m.entry(k).index();
        let exp = if im_has(&pre, k) { im_idx(&pre, k) } else { pre.len() };
        ensure!(i == exp, "entry({k}).index() = {i}, spec {exp} on {pre:?}");
        Ok(())
    });
    cx.want(&["occupied", "vacant"]).check("udp_indexmap.rs::MapEntry::or_insert_with", |rng| {
        let mut m = gen_map(rng);
        let pre = obs(&m)?;
        let k = pick_key(rng, &m);
        let (fv, nv) = (rng.u32(), rng.u32());
        let has = im_has(&pre, k);
        hit(if has { "occupied" } else { "vacant" });
        let fin_r;
        {
            let r = m.entry(k).or_insert_with(|| fv);
            ensure!(*r == if has { im_get(&pre, k) } else { fv }, "or_insert_with({k}) slot holds {r}");
            if rng.bool() {
                *r = nv;
            }
            fin_r = *r;
        }
        let post = obs(&m)?;
        let exp = if has { update(&pre, im_idx(&pre, k), (k, fin_r)) } else { push(&pre, (k, fin_r)) };
        ensure!(post == exp, "or_insert_with({k}): {pre:?} -> {post:?}, spec {exp:?}");
        Ok(())
    });
    // ------------------------------------------------------------ order-exposing iterators
    cx.check_in(&["udp_indexmap.rs", "ports_indexmap.rs"], "IndexMap::keys", |rng| {
        let m = gen_map(rng);
        let s = obs(&m)?;
        let ks: Vec<K> = m.keys().copied().collect();
        let exp: Vec<K> = s.iter().map(|e| e.0).collect();
        ensure!(ks == exp, "keys() = {ks:?}, im_keys = {exp:?}");
        Ok(())
    });
    cx.want(&["true", "false"]).check_in(&["udp_indexmap.rs", "ports_indexmap.rs"], "Keys::any", |rng| {
        let m = gen_map(rng);
        let s = obs(&m)?;
        let p = pred(rng);
        let r = m.keys().any(|k| p(k));
        hit(if r { "true" } else { "false" });
        // f is a pure function of the key: f.ensures((k,), b) <==> b == p(k)
        if r {
            ensure!(s.iter().any(|e| p(&e.0)), "any = true but no key satisfies p in {s:?}");
        } else {
            ensure!(s.iter().all(|e| !p(&e.0)), "any = false but a key satisfies p in {s:?}");
        }
        Ok(())
    });
    cx.check("fs_indexset.rs::IndexMap::keys", |rng| {
        let m = gen_map(rng);
        let s = obs(&m)?;
        let mut it = m.keys();
        let mut got = vec![];
        while let Some(k) = it.next() {
            got.push(*k);
        }
        let exp: Vec<K> = s.iter().map(|e| e.0).collect();
        ensure!(got == exp, "keys() yields {got:?}, im_keys = {exp:?}");
        ensure!(it.next().is_none() && it.next().is_none(), "keys() yields again after None");
        Ok(())
    });
    cx.check("uring_indexmap.rs::IndexMap::values", |rng| {
        let m = gen_map(rng);
        let s = obs(&m)?;
        let mut it = m.values();
        let mut got = vec![];
        while let Some(v) = it.next() {
            got.push(*v);
        }
        ensure!(got.len() == s.len() && (0..s.len()).all(|i| got[i] == s[i].1), "values() yields {got:?} on {s:?}");
        ensure!(it.next().is_none(), "values() yields again after None");
        Ok(())
    });
    cx.check("hosttcp_indexmap.rs::IndexMap::values", |rng| {
        let m = gen_map(rng);
        let s = obs(&m)?;
        let got: Vec<V> = m.values().copied().collect();
        let exp: Vec<V> = s.iter().map(|e| e.1).collect();
        ensure!(got == exp, "values() = {got:?}, im_values = {exp:?}");
        Ok(())
    });
    cx.check("hosttcp_indexmap.rs::Values::any", |rng| {
        let m = gen_map_with(rng, |r| r.u32() % 8);
        let s = obs(&m)?;
        let p = pred(rng);
        let r = m.values().any(|v| p(&(*v as u8)));
        ensure!(r == s.iter().any(|e| p(&(e.1 as u8))), "values().any = {r} on {s:?}");
        Ok(())
    });
    cx.check("run_indexmap.rs::IndexMap::iter", |rng| {
        let m = gen_map(rng);
        let via_index: Vec<(K, V)> = (0..m.len()).map(|i| m.get_index(i).map(|(k, v)| (*k, *v)).unwrap()).collect();
        let got: Vec<(K, V)> = m.iter().map(|(k, v)| (*k, *v)).collect();
        ensure!(got == via_index, "iter() = {got:?}, positions = {via_index:?}");
        Ok(())
    });
    cx.check("run_indexmap.rs::Iter::any", |rng| {
        let m = gen_map_with(rng, |r| r.u32() % 8);
        let s = obs(&m)?;
        let p = pred(rng);
        let r = m.iter().any(|(k, v)| p(&(k.wrapping_add(*v as u8))));
        ensure!(r == s.iter().any(|e| p(&(e.0.wrapping_add(e.1 as u8)))), "iter().any = {r} on {s:?}");
        Ok(())
    });
    cx.check("hosttcp_indexmap.rs::<IndexMap as Index<&K>>::index", |rng| {
        let mut m = gen_map(rng);
        if m.is_empty() {
            m.insert(rng.u8() % 16, rng.u32());
        }
        let s = obs(&m)?;
        let k = s[rng.below(s.len())].0; // index_req: im_has(self@, k)
        ensure!(m[&k] == im_get(&s, k), "map[&{k}] = {}, spec {}", m[&k], im_get(&s, k));
        Ok(())
    });
    cx.check("hosttcp_indexmap.rs::<IndexMap as IndexMut<&K>>::index_mut", |rng| {
        let mut m = gen_map(rng);
        if m.is_empty() {
            m.insert(rng.u8() % 16, rng.u32());
        }
        let pre = obs(&m)?;
        let k = pre[rng.below(pre.len())].0;
        let nv = rng.u32();
        {
            let o = &mut m[&k];
            ensure!(*o == im_get(&pre, k), "&mut map[&{k}] holds {o}");
            *o = nv;
        }
        let exp = update(&pre, im_idx(&pre, k), (k, nv));
        let post = obs(&m)?;
        ensure!(post == exp, "map[&{k}] = {nv}: {pre:?} -> {post:?}, spec {exp:?}");
        Ok(())
    });
    cx.check("fs_indexset.rs::IndexMap::retain", |rng| {
        let mut m = gen_map(rng);
        let pre = obs(&m)?;
        let p = pred(rng);
        m.retain(|k, _| p(k));
        let post = obs(&m)?;
        let exp = seq_filter_by(&pre, &|kv: &(K, V)| p(&kv.0));
        ensure!(post == exp, "retain: {pre:?} -> {post:?}, im_filter_keys = {exp:?}");
        Ok(())
    });

    // ================================================================ nettable_ext.rs / udp_indexmap.rs (widened)
    cx.check("nettable_ext.rs::IndexMap::keys", |rng| {
        let m = gen_map(rng);
        let s = obs(&m)?;
        let ks: Vec<K> = m.keys().copied().collect();
        ensure!(ks == s.iter().map(|e| e.0).collect::<Vec<K>>(), "keys() = {ks:?} on {s:?}");
        Ok(())
    });
    cx.want(&["true", "false"]).check("nettable_ext.rs::Keys::any", |rng| {
        let m = gen_map(rng);
        let s = obs(&m)?;
        let p = pred(rng);
        let r = m.keys().any(|k| p(k));
        hit(if r { "true" } else { "false" });
        ensure!(r == s.iter().any(|e| p(&e.0)), "keys().any = {r} on {s:?}");
        Ok(())
    });
    // retain with a closure that MUTATES the values: im_retain_by(old, new, rel) for the relation the closure's
    // contract gives: rel(k, v, v2, b) <==> v2 == g(k, v) && b == keep(k, v)
    cx.want(&["dropped", "kept", "all-dropped"]).check("nettable_ext.rs::IndexMap::retain (im_retain_by, value-mutating closure)", |rng| {
        fn im_retain_by(o: &[(K, V)], n: &[(K, V)], g: &dyn Fn(K, V) -> V, keep: &dyn Fn(K, V) -> bool) -> bool {
            match o.split_last() {
                None => n.is_empty(),
                Some((&(k, v), o_rest)) => {
                    // exists v2. rel(k, v, v2, false)   <==>  !keep(k, v)
                    (!keep(k, v) && im_retain_by(o_rest, n, g, keep))
                        || match n.split_last() {
                            Some((&(k2, v2), n_rest)) => k2 == k && v2 == g(k, v) && keep(k, v) && im_retain_by(o_rest, n_rest, g, keep),
                            None => false,
                        }
                }
            }
        }
        let mut m = gen_map(rng);
        let pre = obs(&m)?;
        let p = pred(rng);
        let add = rng.u32() % 7;
        let on_value = rng.bool();
        let g = move |k: K, v: V| v.wrapping_mul(3).wrapping_add(add + k as u32);
        let keep = move |k: K, v: V| if on_value { p(&(v as u8)) } else { p(&k) };
        m.retain(|k, v| {
            let b = keep(*k, *v);
            *v = g(*k, *v);
            b
        });
        let post = obs(&m)?;
        if post.len() < pre.len() {
            hit("dropped");
        }
        if !post.is_empty() {
            hit("kept");
        } else if !pre.is_empty() {
            hit("all-dropped");
        }
        ensure!(im_retain_by(&pre, &post, &g, &keep), "retain: {pre:?} -> {post:?} is not a retain-image under the closure's relation");
        Ok(())
    });
    cx.want(&["present", "absent"]).check("nettable_ext.rs::IndexMap::entry + Entry<K, Vec<T>>::or_default", |rng| {
        let mut m: IndexMap<K, Vec<u32>> = gen_map_with(rng, |r| (0..r.range(0, 3)).map(|_| r.u32() % 100).collect());
        let pre = obs(&m)?;
        let k = pick_key(rng, &m);
        hit(if im_has(&pre, k) { "present" } else { "absent" });
        {
            let r = m.entry(k).or_default();
            if im_has(&pre, k) {
                ensure!(*r == im_get(&pre, k), "or_default on present key {k}: {r:?} vs {pre:?}");
            } else {
                ensure!(r.is_empty(), "or_default on absent key {k} is not empty: {r:?}");
            }
            r.push(rng.u32() % 100);
        }
        let post = obs(&m)?;
        let exp = im_upsert(&pre, k, m.get(&k).cloned().ok_or("key absent after or_default")?);
        ensure!(post == exp, "entry({k}).or_default(): {pre:?} -> {post:?}, spec {exp:?}");
        Ok(())
    });
    cx.check("udp_indexmap.rs::IndexMap::iter", |rng| {
        let m = gen_map(rng);
        let via_index: Vec<(K, V)> = (0..m.len()).map(|i| m.get_index(i).map(|(k, v)| (*k, *v)).unwrap()).collect();
        let got: Vec<(K, V)> = m.iter().map(|(k, v)| (*k, *v)).collect();
        ensure!(got == via_index, "iter() = {got:?}, positions = {via_index:?}");
        Ok(())
    });
    cx.check("udp_indexmap.rs::IndexMap::retain (predicate on (key, value), values untouched)", |rng| {
        let mut m = gen_map_with(rng, |r| r.u32() % 16);
        let pre = obs(&m)?;
        let p = pred(rng);
        let pk = move |kv: &(K, V)| p(&kv.0.wrapping_add(kv.1 as u8));
        m.retain(|k, v| pk(&(*k, *v)));
        let post = obs(&m)?;
        let exp = seq_filter_by(&pre, &pk);
        ensure!(post == exp, "retain: {pre:?} -> {post:?}, seq_filter_by = {exp:?}");
        Ok(())
    });
    cx.check("udp_indexmap.rs::MapIter::{filter, map} + SIter::collect", |rng| {
        let m = gen_map_with(rng, |r| r.u32() % 16);
        let s = obs(&m)?;
        let p = pred(rng);
        let pk = move |kv: &(K, V)| p(&kv.0.wrapping_add(kv.1 as u8));
        let g = |k: &K, v: &V| (*k as u32) * 1000 + *v;
        // filter alone
        let f: Vec<(K, V)> = m.iter().filter(|(k, v)| pk(&(**k, **v))).map(|(k, v)| (*k, *v)).collect();
        let exp_f = seq_filter_by(&s, &pk);
        ensure!(f == exp_f, "iter().filter(p) = {f:?}, seq_filter_by = {exp_f:?}");
        // map alone: one result per item, in order
        let mp: Vec<u32> = m.iter().map(|(k, v)| g(k, v)).collect();
        ensure!(mp.len() == s.len() && (0..s.len()).all(|i| mp[i] == g(&s[i].0, &s[i].1)), "iter().map(g) = {mp:?} on {s:?}");
        // the chain turmoil writes
        let chain: Vec<u32> = m.iter().filter(|(k, v)| pk(&(**k, **v))).map(|(k, v)| g(k, v)).collect();
        let exp: Vec<u32> = exp_f.iter().map(|e| g(&e.0, &e.1)).collect();
        ensure!(chain == exp, "iter().filter(p).map(g).collect() = {chain:?}, spec {exp:?}");
        Ok(())
    });

    // ================================================================ IndexSet
    fn gen_set(rng: &mut Rng) -> IndexSet<u8> {
        let mut s = IndexSet::new();
        for _ in 0..rng.range(0, 24) {
            let x = rng.u8() % 16;
            if rng.chance(1, 4) {
                s.swap_remove(&x);
            } else {
                s.insert(x);
            }
        }
        s
    }
    fn sobs(s: &IndexSet<u8>) -> Result<Vec<u8>, String> {
        let v: Vec<u8> = s.iter().copied().collect();
        ensure!(v.len() == s.len(), "IndexSet len() {} != iterated {}", s.len(), v.len());
        Ok(v)
    }
    fn pick_elem(rng: &mut Rng, s: &IndexSet<u8>) -> u8 {
        if !s.is_empty() && rng.bool() { *s.get_index(rng.below(s.len())).unwrap() } else { rng.u8() % 20 }
    }
    const SETS: &[&str] = &["indexset.rs", "udp_indexmap.rs", "fs_indexset.rs"];
    cx.check_in(SETS, "axiom_indexset_unique", |rng| {
        let v = sobs(&gen_set(rng))?;
        ensure!((0..v.len()).all(|i| (i + 1..v.len()).all(|j| v[i] != v[j])), "duplicates in {v:?}");
        Ok(())
    });
    cx.check_in(SETS, "IndexSet::new", |_| {
        ensure!(sobs(&IndexSet::<u8>::new())?.is_empty(), "new() not empty");
        Ok(())
    });
    cx.check_in(SETS, "IndexSet::len", |rng| {
        let s = gen_set(rng);
        ensure!(s.len() == sobs(&s)?.len(), "len");
        Ok(())
    });
    cx.check_in(&["indexset.rs", "udp_indexmap.rs"], "IndexSet::is_empty", |rng| {
        let s = if rng.chance(1, 4) { IndexSet::new() } else { gen_set(rng) };
        ensure!(s.is_empty() == (sobs(&s)?.len() == 0), "is_empty");
        Ok(())
    });
    cx.check_in(SETS, "IndexSet::contains", |rng| {
        let s = gen_set(rng);
        let v = sobs(&s)?;
        let x = pick_elem(rng, &s);
        ensure!(s.contains(&x) == v.contains(&x), "contains({x}) on {v:?}");
        Ok(())
    });
    cx.want(&["present", "absent"]).check_in(SETS, "IndexSet::insert", |rng| {
        let mut s = gen_set(rng);
        let pre = sobs(&s)?;
        let x = pick_elem(rng, &s);
        hit(if pre.contains(&x) { "present" } else { "absent" });
        let b = s.insert(x);
        let post = sobs(&s)?;
        let exp = if pre.contains(&x) { pre.clone() } else { push(&pre, x) };
        ensure!(b == !pre.contains(&x) && post == exp, "insert({x}): {pre:?} -> {post:?} returned {b}, spec {exp:?}");
        Ok(())
    });
    cx.check("indexset.rs::IndexSet::get_index", |rng| {
        let s = gen_set(rng);
        let v = sobs(&s)?;
        let i = rng.below(v.len() + 3);
        ensure!(s.get_index(i).copied() == v.get(i).copied(), "get_index({i}) on {v:?}");
        Ok(())
    });
    cx.check("udp_indexmap.rs::IndexSet::get", |rng| {
        let s = gen_set(rng);
        let v = sobs(&s)?;
        let x = pick_elem(rng, &s);
        let exp = if v.contains(&x) { Some(x) } else { None };
        ensure!(s.get(&x).copied() == exp, "get({x}) on {v:?}");
        Ok(())
    });
    cx.want(&["absent", "last", "middle"]).check_in(&["udp_indexmap.rs", "fs_indexset.rs"], "IndexSet::swap_remove", |rng| {
        let mut s = gen_set(rng);
        let pre = sobs(&s)?;
        let x = pick_elem(rng, &s);
        let b = s.swap_remove(&x);
        let post = sobs(&s)?;
        // is_swap_removed(old, old.index_of(x)) / is_swap_remove(old, x)
        let exp = match pre.iter().position(|y| *y == x) {
            Some(i) => {
                hit(if i + 1 == pre.len() { "last" } else { "middle" });
                swap_removed(&pre, i)
            }
            None => {
                hit("absent");
                pre.clone()
            }
        };
        ensure!(b == pre.contains(&x) && post == exp, "swap_remove({x}): {pre:?} -> {post:?} returned {b}, spec {exp:?}");
        Ok(())
    });
    cx.check("udp_indexmap.rs::IndexSet::from<[T; N]>", |rng| {
        fn chk<const N: usize>(a: [u8; N]) -> R {
            let s = IndexSet::from(a);
            let v: Vec<u8> = s.iter().copied().collect();
            for x in 0..=255u8 {
                ensure!(v.contains(&x) == a.contains(&x), "from({a:?}) = {v:?}: membership of {x} differs");
            }
            if N == 1 {
                ensure!(v == vec![a[0]], "from([x]) = {v:?}");
            }
            Ok(())
        }
        let mut g = || rng.u8() % 6;
        match g() % 5 {
            0 => chk::<0>([]),
            1 => chk([g()]),
            2 => chk([g(), g()]),
            3 => chk([g(), g(), g()]),
            _ => chk([g(), g(), g(), g(), g()]),
        }
    });
    cx.check("udp_indexmap.rs::<IndexSet as Clone>::clone", |rng| {
        let s = gen_set(rng);
        ensure!(sobs(&s.clone())? == sobs(&s)?, "clone differs");
        Ok(())
    });
    cx.check("udp_indexmap.rs::<IndexSet as Default>::default", |_| {
        ensure!(sobs(&IndexSet::<u8>::default())?.is_empty(), "default() not empty");
        Ok(())
    });
    cx.check("udp_indexmap.rs::IndexSet::into_iter (as the Vec of the elements, `for` position)", |rng| {
        let s = gen_set(rng);
        let v = sobs(&s)?;
        let mut got = vec![];
        for x in s {
            got.push(x);
        }
        ensure!(got == v, "for x in set yields {got:?}, view {v:?}");
        Ok(())
    });
    cx.check("fs_indexset.rs::IndexSet::into_iter + IndexSetIntoIter::collect", |rng| {
        let s = gen_set(rng);
        let by_index: Vec<u8> = (0..s.len()).map(|i| *s.get_index(i).unwrap()).collect();
        let v: Vec<u8> = s.into_iter().collect();
        ensure!(v == by_index, "into_iter().collect() = {v:?}, positions {by_index:?}");
        Ok(())
    });
}
