//! tokio::sync::{mpsc bounded, mpsc unbounded, oneshot, Mutex} against hosttcp_sync.rs, udp_mpsc.rs,
//! ports_tokio.rs, barriers_tokio.rs.
//!
//! Executable model of a bounded channel: FIFO `q` of the accepted and not yet received values, `cap`,
//! `closed` (receiver dropped or closed -- what the Sender sees), `disconnected` (every sender dropped -- what
//! the Receiver sees).  The state is tracked next to the real channel while a random prefix of operations
//! runs; the contract under test is then evaluated on one more operation and the resulting real state is
//! observed through capacity()/max_capacity()/is_closed() and by draining the receiver.
use crate::{ensure, hit, mutant, panics, Cx, Rng, R};
use std::task::{Context, Poll, Waker};
use tokio::sync::mpsc::error::{TryRecvError, TrySendError};
use tokio::sync::{mpsc, oneshot};

const MPSC_MAX_CAP: usize = usize::MAX >> 3;

struct Ch {
    txs: Vec<mpsc::Sender<u32>>, // all handles of the one channel (clones)
    rx: Option<mpsc::Receiver<u32>>,
    q: Vec<u32>,
    hist: Vec<u32>,     // everything ever accepted, in order
    received: Vec<u32>, // everything ever received, in order
    cap: usize,
    closed: bool,
}
impl Ch {
    fn tx(&mut self, rng: &mut Rng) -> &mpsc::Sender<u32> {
        let i = rng.below(self.txs.len());
        &self.txs[i]
    }
}
/// `rx_close`: may the generated prefix call `Receiver::close()`?  (Sender-side contracts: yes, their `closed`
/// is "receiver dropped or closed".  Receiver-side contracts: no -- the stubs give the receiver no `close`,
/// turmoil never calls it, and `disconnected` is defined as "every sender dropped".)
fn gen_chan(rng: &mut Rng, rx_close: bool) -> Ch {
    let cap = rng.range(1, 4);
    let (tx, rx) = mpsc::channel::<u32>(cap);
    let mut c = Ch { txs: vec![tx], rx: Some(rx), q: vec![], hist: vec![], received: vec![], cap, closed: false };
    if rng.chance(1, 3) {
        let t = c.txs[0].clone();
        c.txs.push(t);
    }
    for _ in 0..rng.range(0, 10) {
        match rng.below(12) {
            0..=5 => {
                let v = rng.u32() % 1000;
                if c.tx(rng).try_send(v).is_ok() {
                    c.q.push(v);
                    c.hist.push(v);
                }
            }
            6..=9 => {
                if let Some(rx) = c.rx.as_mut() {
                    if let Ok(v) = rx.try_recv() {
                        c.received.push(v);
                        if !c.q.is_empty() {
                            c.q.remove(0);
                        }
                    }
                }
            }
            10 if rx_close => {
                if let Some(rx) = c.rx.as_mut() {
                    rx.close();
                    c.closed = true;
                }
            }
            11 if rx_close => {
                c.rx = None;
                c.closed = true;
            }
            _ => {}
        }
    }
    c
}
/// the Sender-side view after an operation: cap, closed, queue (the queue by draining, if a receiver exists)
fn check_sender_state(c: &mut Ch, q_exp: &[u32], what: &str) -> R {
    let tx = &c.txs[0];
    ensure!(tx.max_capacity() == c.cap, "{what}: cap changed to {}", tx.max_capacity());
    ensure!(tx.is_closed() == c.closed, "{what}: closed is {}, model {}", tx.is_closed(), c.closed);
    if !c.closed {
        ensure!(tx.capacity() == c.cap - q_exp.len(), "{what}: free slots {}, model cap {} - len {}", tx.capacity(), c.cap, q_exp.len());
    }
    if let Some(rx) = c.rx.as_mut() {
        let mut got = vec![];
        while let Ok(v) = rx.try_recv() {
            got.push(v);
        }
        ensure!(got == q_exp, "{what}: queue drained from the receiver {got:?}, model {q_exp:?}");
        // hist: nothing lost, nothing reordered
        let all: Vec<u32> = c.received.iter().chain(got.iter()).copied().collect();
        ensure!(all == c.hist, "{what}: everything received {all:?} is not the send history {:?}", c.hist);
    }
    Ok(())
}
fn chk_try_send(rng: &mut Rng) -> R {
    let mut c = gen_chan(rng, true);
    let v = 5000 + rng.u32() % 1000;
    let (q, cap, closed) = (c.q.clone(), c.cap, c.closed);
    let r = c.tx(rng).try_send(v);
    let st = format!("try_send({v}) on queue {q:?} cap {cap} closed {closed}");
    let q2 = match r {
        Ok(()) => {
            hit("ok");
            ensure!(!closed && q.len() < cap, "{st} = Ok");
            c.hist.push(v);
            [&q[..], &[v]].concat()
        }
        Err(TrySendError::Full(x)) => {
            hit("full");
            ensure!(x == v && !closed && q.len() >= cap, "{st} = Full({x})");
            q.clone()
        }
        Err(TrySendError::Closed(x)) => {
            hit(if q.len() >= cap { "closed-and-full" } else { "closed" });
            hit("closed");
            ensure!(x == v && closed, "{st} = Closed({x})");
            q.clone()
        }
    };
    check_sender_state(&mut c, &q2, &st)
}
fn chk_try_recv(rng: &mut Rng) -> R {
    let mut c = gen_chan(rng, false);
    let Some(mut rx) = c.rx.take() else { return Ok(()) };
    let disconnected = rng.chance(1, 3);
    if disconnected {
        c.txs.clear();
    }
    let q = c.q.clone();
    let st = format!("try_recv on queue {q:?} disconnected {disconnected}");
    let step = |rx: &mut mpsc::Receiver<u32>| -> Result<u32, TryRecvError> { rx.try_recv() };
    let r = step(&mut rx);
    let q2: Vec<u32> = match r {
        Ok(v) => {
            hit(if disconnected { "value-after-disconnect" } else { "value" });
            hit("value");
            let front = if mutant("fifo") { q.last() } else { q.first() };
            ensure!(Some(&v) == front, "{st} = Ok({v})");
            q[1..].to_vec()
        }
        Err(TryRecvError::Empty) => {
            hit("empty");
            ensure!(q.is_empty() && !disconnected, "{st} = Empty");
            q.clone()
        }
        Err(TryRecvError::Disconnected) => {
            hit("disconnected");
            ensure!(q.is_empty() && disconnected, "{st} = Disconnected");
            q.clone()
        }
    };
    // final(self)@ == { queue: skip(1) / unchanged, disconnected unchanged }
    let mut rest = vec![];
    let end = loop {
        match step(&mut rx) {
            Ok(v) => rest.push(v),
            Err(e) => break e,
        }
    };
    ensure!(rest == q2, "{st}: remaining queue {rest:?}, model {q2:?}");
    ensure!((end == TryRecvError::Disconnected) == disconnected, "{st}: after draining {end:?}");
    Ok(())
}

/// poll_recv with a no-op waker, outside any runtime (corrected contract of hosttcp_sync.rs)
fn chk_poll_recv(rng: &mut Rng) -> R {
    let mut c = gen_chan(rng, false);
    let Some(mut rx) = c.rx.take() else { return Ok(()) };
    let disconnected = rng.chance(1, 3);
    if disconnected {
        c.txs.clear();
    }
    let q = c.q.clone();
    let st = format!("poll_recv on queue {q:?} disconnected {disconnected}");
    let mut cx = Context::from_waker(Waker::noop());
    let r = rx.poll_recv(&mut cx);
    if q.is_empty() && !disconnected {
        ensure!(r.is_pending(), "{st} = {r:?}, but (empty && !disconnected) ==> Pending");
    }
    let q2: Vec<u32> = match r {
        Poll::Ready(Some(v)) => {
            hit(if disconnected { "value-after-disconnect" } else { "value" });
            let front = if mutant("fifo") { q.last() } else { q.first() };
            ensure!(Some(&v) == front, "{st} = Ready(Some({v}))");
            q[1..].to_vec()
        }
        Poll::Ready(None) => {
            hit("ready-none");
            ensure!(q.is_empty() && disconnected, "{st} = Ready(None)");
            q.clone()
        }
        Poll::Pending => {
            hit(if q.is_empty() { "pending-empty" } else { "pending-nonempty" });
            q.clone() // any state; nothing changes
        }
    };
    // final(self)@: queue as predicted, `disconnected` unchanged (observed with try_recv, which has no budget)
    ensure!(rx.len() == q2.len(), "{st}: {} message(s) left, model {q2:?}", rx.len());
    let mut rest = vec![];
    let end = loop {
        match rx.try_recv() {
            Ok(v) => rest.push(v),
            Err(e) => break e,
        }
    };
    ensure!(rest == q2, "{st}: remaining queue {rest:?}, model {q2:?}");
    ensure!((end == TryRecvError::Disconnected) == disconnected, "{st}: after draining {end:?}");
    Ok(())
}

pub fn run(cx: &mut Cx) {
    // ------------------------------------------------------------------ channel construction
    for name in ["hosttcp_sync.rs::mpsc_channel", "udp_mpsc.rs::mpsc::channel"] {
        cx.check(name, |rng| {
            // requires 0 < cap <= usize::MAX >> 3
            let cap = match rng.below(6) {
                0 => 1,
                1 => MPSC_MAX_CAP,
                2 => MPSC_MAX_CAP - rng.below(1000),
                3 => 1 + rng.u64() as usize % MPSC_MAX_CAP,
                _ => rng.range(1, 64),
            };
            let (tx, mut rx) = mpsc::channel::<u32>(cap);
            ensure!(tx.max_capacity() == cap && tx.capacity() == cap, "channel({cap}): cap {} free {}", tx.max_capacity(), tx.capacity());
            ensure!(!tx.is_closed(), "channel({cap}): sender sees a closed channel");
            ensure!(rx.try_recv() == Err(TryRecvError::Empty), "channel({cap}): receiver not (empty, connected)");
            ensure!(rx.len() == 0 && rx.max_capacity() == cap, "channel({cap}): receiver view differs from sender view");
            Ok(())
        });
    }
    for name in ["hosttcp_sync.rs::mpsc_channel (requires is tight: cap 0 and cap > usize::MAX >> 3 panic)", "udp_mpsc.rs::mpsc::channel (requires is tight: buffer 0 and buffer > usize::MAX >> 3 panic)"] {
        cx.check_n(name, 64, |rng| {
            ensure!(panics(|| mpsc::channel::<u32>(0)).is_some(), "channel(0) does not panic");
            let big = MPSC_MAX_CAP + 1 + rng.u64() as usize % (usize::MAX - MPSC_MAX_CAP);
            ensure!(panics(|| mpsc::channel::<u32>(big)).is_some(), "channel({big}) does not panic");
            Ok(())
        });
    }
    // ports_tokio.rs (corrected): `requires 0 < buffer <= usize::MAX >> 3`, no ensures: the claim is "does not panic"
    cx.check("ports_tokio.rs::mpsc::channel", |rng| {
        let buffer = match rng.below(5) {
            0 => 1,
            1 => MPSC_MAX_CAP - rng.below(3),
            2 => 1 + rng.u64() as usize % MPSC_MAX_CAP,
            _ => rng.range(1, 1 << 20),
        };
        if let Some(msg) = panics(|| mpsc::channel::<u32>(buffer)) {
            return Err(format!("channel({buffer}) satisfies `requires 0 < buffer <= usize::MAX >> 3` but the real tokio panics: {msg:?}"));
        }
        Ok(())
    });
    cx.check_n("ports_tokio.rs::mpsc::channel (requires is tight: buffer 0 and buffer > usize::MAX >> 3 panic)", 64, |rng| {
        ensure!(panics(|| mpsc::channel::<u32>(0)).is_some(), "channel(0) does not panic");
        let big = MPSC_MAX_CAP + 1 + rng.u64() as usize % (usize::MAX - MPSC_MAX_CAP);
        ensure!(panics(|| mpsc::channel::<u32>(big)).is_some(), "channel({big}) does not panic");
        Ok(())
    });
    // ------------------------------------------------------------------ bounded send side
    for name in ["hosttcp_sync.rs::MpscSender::try_send", "udp_mpsc.rs::mpsc::Sender::try_send"] {
        cx.want(&["ok", "full", "closed", "closed-and-full"]).check(name, chk_try_send);
    }
    cx.want(&["ok", "full", "closed"]).check("hosttcp_sync.rs::MpscSender::try_reserve + Permit::send", |rng| {
        let mut c = gen_chan(rng, true);
        let v = 5000 + rng.u32() % 1000;
        let (q, cap, closed) = (c.q.clone(), c.cap, c.closed);
        let st = format!("try_reserve on queue {q:?} cap {cap} closed {closed}");
        let i = rng.below(c.txs.len());
        let q2 = match c.txs[i].try_reserve() {
            Ok(p) => {
                hit("ok");
                ensure!(!closed && q.len() < cap, "{st} = Ok");
                p.send(v); // fin == before with v pushed
                c.hist.push(v);
                [&q[..], &[v]].concat()
            }
            Err(TrySendError::Full(())) => {
                hit("full");
                ensure!(!closed && q.len() >= cap, "{st} = Full");
                q.clone()
            }
            Err(TrySendError::Closed(())) => {
                hit("closed");
                ensure!(closed, "{st} = Closed");
                q.clone()
            }
        };
        check_sender_state(&mut c, &q2, &st)
    });
    // ------------------------------------------------------------------ bounded receive side
    for name in ["hosttcp_sync.rs::MpscReceiver::try_recv", "udp_mpsc.rs::mpsc::Receiver::try_recv"] {
        cx.want(&["value", "value-after-disconnect", "empty", "disconnected"]).check(name, chk_try_recv);
    }
    cx.want(&["value", "value-after-disconnect", "pending-empty", "ready-none"]).check("hosttcp_sync.rs::MpscReceiver::poll_recv (outside a runtime: unconstrained budget)", chk_poll_recv);
    cx.want(&["empty", "nonempty"]).check("hosttcp_sync.rs::MpscReceiver::{is_empty, len}", |rng| {
        let mut c = gen_chan(rng, false);
        let Some(rx) = c.rx.take() else { return Ok(()) };
        if rng.chance(1, 3) {
            c.txs.clear(); // disconnected: the queued messages stay
        }
        hit(if c.q.is_empty() { "empty" } else { "nonempty" });
        ensure!(rx.len() == c.q.len(), "len() = {}, model queue {:?}", rx.len(), c.q);
        ensure!(rx.is_empty() == c.q.is_empty(), "is_empty() = {}, model queue {:?}", rx.is_empty(), c.q);
        Ok(())
    });
    // The same contract inside a tokio task: poll_recv takes part in tokio's cooperative scheduling budget
    // (128 operations per task poll); once it is used up poll_recv answers Pending whatever the queue holds.
    {
        let rt = tokio::runtime::Builder::new_current_thread().build().unwrap();
        // Corrected contract: Ready(Some(v)) only for the front of a non-empty queue (which it pops); Ready(None) only
        // if empty and disconnected; Pending leaves the channel untouched and may come in ANY state (budget);
        // empty && !disconnected ==> Pending.
        cx.want(&["pending-nonempty", "pending-empty", "ready-none"]).check_n("hosttcp_sync.rs::MpscReceiver::poll_recv (inside a tokio task: cooperative budget)", 128, |rng| {
            let n = rng.range(0, 400);
            let disconnect = rng.chance(1, 3);
            rt.block_on(async {
                tokio::spawn(async move {
                    let (tx, mut rx) = mpsc::channel::<u32>(512);
                    for i in 0..n {
                        tx.try_send(i as u32).map_err(|_| "generator: try_send failed".to_string())?;
                    }
                    let mut tx = Some(tx);
                    if disconnect {
                        tx = None;
                    }
                    let (mut i, mut polls) = (0usize, 0usize);
                    std::future::poll_fn(move |cx| {
                        let _keep = &tx;
                        polls += 1;
                        if polls > 1000 {
                            return Poll::Ready(Err(format!("no progress after 1000 task polls ({i} of {n} received)")));
                        }
                        loop {
                            let before = rx.len(); // model queue = messages i..n
                            if before != n - i {
                                return Poll::Ready(Err(format!("queue length {before}, model {}", n - i)));
                            }
                            match rx.poll_recv(cx) {
                                Poll::Ready(Some(v)) => {
                                    if before == 0 || v != i as u32 || rx.len() != before - 1 {
                                        return Poll::Ready(Err(format!("poll_recv = Ready(Some({v})) on a queue of {before} whose front is {i}; {} left", rx.len())));
                                    }
                                    i += 1;
                                }
                                Poll::Ready(None) => {
                                    hit("ready-none");
                                    return Poll::Ready(if before == 0 && disconnect { Ok(()) } else { Err(format!("poll_recv = Ready(None) on a queue of {before}, disconnected {disconnect}")) });
                                }
                                Poll::Pending => {
                                    if rx.len() != before {
                                        return Poll::Ready(Err(format!("poll_recv = Pending changed the queue: {before} -> {}", rx.len())));
                                    }
                                    if before == 0 && !disconnect {
                                        hit("pending-empty");
                                        return Poll::Ready(Ok(())); // the terminal state of a connected channel
                                    }
                                    // Pending although a message / the end of the stream is available: the budget.
                                    hit(if before > 0 { "pending-nonempty" } else { "pending-before-none" });
                                    cx.waker().wake_by_ref();
                                    return Poll::Pending; // next task poll: fresh budget
                                }
                            }
                            // (empty && !disconnected) ==> Pending is enforced by the two Ready arms above
                        }
                    })
                    .await
                })
                .await
                .map_err(|e| format!("task failed: {e}"))?
            })
        });
        // try_send / try_recv do not take part in the budget: same run, non-blocking calls only
        cx.check_n("hosttcp_sync.rs + udp_mpsc.rs::{try_send, try_recv} (inside a tokio task: no budget involved)", 64, |rng| {
            let n = rng.range(129, 400);
            rt.block_on(async {
                tokio::spawn(async move {
                    let (tx, mut rx) = mpsc::channel::<u32>(n);
                    for i in 0..n {
                        ensure!(tx.try_send(i as u32).is_ok(), "try_send #{i} of {n} failed with free capacity");
                    }
                    ensure!(matches!(tx.try_send(0), Err(TrySendError::Full(0))), "try_send on a full channel");
                    for i in 0..n {
                        ensure!(rx.try_recv() == Ok(i as u32), "try_recv #{i} of {n}");
                    }
                    ensure!(rx.try_recv() == Err(TryRecvError::Empty), "try_recv on an empty channel");
                    Ok(())
                })
                .await
                .map_err(|e| format!("task failed: {e}"))?
            })
        });
    }
    // ------------------------------------------------------------------ oneshot
    for name in ["hosttcp_sync.rs::OneshotSender::{is_closed, send}", "barriers_tokio.rs::oneshot::channel + oneshot::Sender::send"] {
        cx.want(&["ok", "err"]).check(name, |rng| {
            let (tx, rx) = oneshot::channel::<u32>();
            let (tx_other, mut rx_other) = oneshot::channel::<u32>(); // os_fresh: an unrelated id
            let v = rng.u32();
            let mut rx = Some(rx);
            let gone = match rng.below(4) {
                0 => {
                    rx = None;
                    true
                }
                1 => {
                    rx.as_mut().unwrap().close();
                    true
                }
                _ => false,
            };
            // hosttcp_sync.rs::OneshotSender::is_closed: b == receiver_dropped()
            ensure!(tx.is_closed() == gone, "is_closed() = {} with receiver gone={gone}", tx.is_closed());
            let r = tx.send(v);
            hit(if r.is_err() { "err" } else { "ok" });
            ensure!(r.is_err() == gone, "send with receiver gone={gone} returned {r:?}");
            if let Err(x) = r {
                ensure!(x == v, "send handed back {x}, not {v}");
            } else {
                let got = rx.as_mut().unwrap().try_recv();
                ensure!(got == Ok(v), "receiver sees {got:?} after send({v})");
            }
            ensure!(matches!(rx_other.try_recv(), Err(oneshot::error::TryRecvError::Empty)), "send fired another channel");
            drop(tx_other);
            Ok(())
        });
    }
    // ------------------------------------------------------------------ unbounded mpsc (barriers_tokio.rs World model)
    cx.want(&["ok", "err"]).check("barriers_tokio.rs::UnboundedSender::send + <UnboundedSender as Clone>::clone", |rng| {
        struct U {
            txs: Vec<mpsc::UnboundedSender<u32>>,
            rx: Option<mpsc::UnboundedReceiver<u32>>,
            log: Vec<u32>,
            closed: bool,
        }
        let mut w: Vec<U> = (0..rng.range(1, 3))
            .map(|_| {
                let (tx, rx) = mpsc::unbounded_channel();
                U { txs: vec![tx], rx: Some(rx), log: vec![], closed: false }
            })
            .collect();
        for step in 0..rng.range(1, 16) {
            let c = rng.below(w.len());
            match rng.below(10) {
                0 => {
                    let t = w[c].txs[0].clone();
                    ensure!(t.same_channel(&w[c].txs[0]), "a clone is not a handle of the same channel");
                    w[c].txs.push(t);
                }
                1 => {
                    if let Some(rx) = w[c].rx.as_mut() {
                        rx.close();
                    }
                    w[c].closed = true;
                }
                2 => {
                    w[c].rx = None;
                    w[c].closed = true;
                }
                _ => {
                    let m = step as u32 * 100 + rng.u32() % 100;
                    let h = rng.below(w[c].txs.len());
                    let r = w[c].txs[h].send(m);
                    ensure!(r.is_err() == w[c].closed, "send on channel {c} (closed {}) = {r:?}", w[c].closed);
                    hit(if r.is_err() { "err" } else { "ok" });
                    match r {
                        Err(e) => ensure!(e.0 == m, "SendError hands back {}, not {m}", e.0),
                        Ok(()) => w[c].log.push(m), // after_mpsc_send
                    }
                }
            }
        }
        // mpsc_log: what each receiver sees is its own channel's log, in send order, and nothing else
        for (i, u) in w.iter_mut().enumerate() {
            if let Some(rx) = u.rx.as_mut() {
                let mut got = vec![];
                while let Ok(v) = rx.try_recv() {
                    got.push(v);
                }
                ensure!(got == u.log, "channel {i}: received {got:?}, log {:?}", u.log);
            }
        }
        Ok(())
    });
    // ------------------------------------------------------------------ tokio::sync::Mutex::new (udp_mpsc.rs)
    cx.check("udp_mpsc.rs::Mutex::new", |rng| {
        let t = rng.bytes(8);
        let m = tokio::sync::Mutex::new(t.clone());
        ensure!(*m.try_lock().map_err(|_| "fresh mutex is locked")? == t, "content differs");
        ensure!(m.into_inner() == t, "into_inner differs");
        Ok(())
    });
}
