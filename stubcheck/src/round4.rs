//! Round 4: top_iter.rs, top_cfg.rs, worldapi_std.rs, netshim_io.rs, nettable_task.rs, hosttcp_mutex.rs and the
//! explicit-cell `Mutex::lock` of fsshim_std.rs.
use crate::im::{self, obs, K, V};
use crate::{ensure, hit, panics, seqs, Cx, Rng};
use bytes::{Bytes, BytesMut};
use rand::SeedableRng;
use rand_distr::Distribution;
use std::collections::VecDeque;
use tokio::io::ReadBuf;

fn pred(rng: &mut Rng) -> impl Fn(&u8) -> bool + Copy {
    im::pred(rng)
}
/// every f64 class Exp::new has to decide on
fn gen_lambda(rng: &mut Rng) -> f64 {
    match rng.below(12) {
        0 => 0.0,
        1 => -0.0,
        2 => f64::INFINITY,
        3 => f64::NEG_INFINITY,
        4 => f64::NAN,
        5 => -f64::NAN,
        6 => f64::MIN_POSITIVE,
        7 => -f64::MIN_POSITIVE,
        8 => f64::from_bits(rng.u64()),
        9 => -((1 + rng.u32()) as f64) / 1000.0,
        _ => (1 + rng.u32()) as f64 / 1000.0,
    }
}

pub fn run(cx: &mut Cx) {
    // ============================================================================================ top_iter.rs
    // The stub iterator is "the exclusive borrow of the elements not yielded yet"; next() = split_first_mut.  Executable
    // content: elements come front to back, each once, with their current value; a write through a yielded reference
    // (also one kept while the iteration goes on) lands in exactly that element; elements never yielded keep their value.
    cx.want(&["partial", "exhausted", "empty"]).check("top_iter.rs::<VecDeque as IdiomDequeIterMut>::idiom_iter_mut + DequeIterMut::next", |rng| {
        let mut d = seqs::gen_deque(rng, 50);
        let pre = seqs::view(&d);
        let k = if rng.bool() { pre.len() + 1 } else { rng.range(0, pre.len()) }; // number of next() calls
        let mut exp = pre.clone();
        {
            let mut it = d.iter_mut();
            let mut kept: Vec<(usize, &mut u8)> = vec![];
            let mut i = 0;
            for _ in 0..k {
                match it.next() {
                    Some(x) => {
                        ensure!(i < pre.len() && *x == pre[i], "next() #{i} yields {x}, the deque holds {pre:?}");
                        kept.push((i, x));
                        i += 1;
                    }
                    None => {
                        ensure!(i == pre.len(), "next() = None after {i} of {} elements", pre.len());
                        ensure!(it.next().is_none(), "next() yields again after None");
                    }
                }
            }
            hit(if pre.is_empty() { "empty" } else if i == pre.len() { "exhausted" } else { "partial" });
            // writes through the references, in an order unrelated to the iteration order
            while !kept.is_empty() {
                let (j, x) = kept.swap_remove(rng.below(kept.len()));
                if rng.bool() {
                    *x = 200 + rng.u8() % 50;
                }
                exp[j] = *x;
            }
        }
        ensure!(seqs::view(&d) == exp, "after the borrow: {:?}, spec {exp:?} (was {pre:?})", seqs::view(&d));
        Ok(())
    });
    cx.want(&["partial", "exhausted", "empty"]).check("top_iter.rs::IndexMap::iter_mut + MapIterMut::next", |rng| {
        let mut m = im::gen_map(rng);
        let pre = obs(&m)?;
        let k = if rng.bool() { pre.len() + 1 } else { rng.range(0, pre.len()) };
        let mut exp = pre.clone();
        {
            let mut it = m.iter_mut();
            let mut kept: Vec<(usize, &K, &mut V)> = vec![];
            let mut i = 0;
            for _ in 0..k {
                match it.next() {
                    Some((key, v)) => {
                        ensure!(i < pre.len() && *key == pre[i].0 && *v == pre[i].1, "next() #{i} yields ({key},{v}), the map holds {pre:?}");
                        kept.push((i, key, v));
                        i += 1;
                    }
                    None => {
                        ensure!(i == pre.len(), "next() = None after {i} of {} entries", pre.len());
                        ensure!(it.next().is_none(), "next() yields again after None");
                    }
                }
            }
            hit(if pre.is_empty() { "empty" } else if i == pre.len() { "exhausted" } else { "partial" });
            while !kept.is_empty() {
                let (j, key, v) = kept.swap_remove(rng.below(kept.len()));
                if rng.bool() {
                    *v = 5000 + rng.u32() % 100;
                }
                exp[j] = (*key, *v); // key shared: its final value is its old value
            }
        }
        let post = obs(&m)?;
        ensure!(post == exp, "after the borrow: {post:?}, spec {exp:?} (was {pre:?})");
        Ok(())
    });

    // ============================================================================================ top_cfg.rs / worldapi_std.rs
    // Exp::new: Ok <==> lambda_ok(lambda), read as `lambda >= 0.0` (what rand_distr 0.5.1 tests: !(lambda >= 0) is Err, so
    // NaN and every negative number are rejected and +0.0, -0.0 and +inf are accepted); the distribution is identified by
    // its parameter (`exp_lambda(r) == lambda` / `r.lambda() == lambda`, uninterpreted): equal parameters, equal samples.
    for name in ["top_cfg.rs::Exp::<f64>::new (f64_exp_lambda_ok read as lambda >= 0.0)", "worldapi_std.rs::Exp::<f64>::new (exp_lambda_ok read as lambda >= 0.0)"] {
        cx.want(&["ok", "err-negative", "err-nan", "ok-zero", "ok-neg-zero", "ok-inf"]).check(name, |rng| {
            let l = gen_lambda(rng);
            let ok = l >= 0.0;
            let r = rand_distr::Exp::new(l);
            hit(if l.is_nan() { "err-nan" } else if !ok { "err-negative" } else if l == 0.0 && l.is_sign_negative() { "ok-neg-zero" } else if l == 0.0 { "ok-zero" } else if l.is_infinite() { "ok-inf" } else { "ok" });
            ensure!(r.is_ok() == ok, "Exp::new({l:?}) = {r:?}, lambda >= 0.0 is {ok}");
            if let Ok(e) = r {
                // identified by its parameter: a second distribution built from the same lambda samples identically
                let e2 = rand_distr::Exp::new(f64::from_bits(l.to_bits())).map_err(|_| "second Exp::new failed")?;
                let seed = rng.u64();
                let (mut g1, mut g2) = (rand::rngs::SmallRng::seed_from_u64(seed), rand::rngs::SmallRng::seed_from_u64(seed));
                for _ in 0..4 {
                    let (a, b): (f64, f64) = (e.sample(&mut g1), e2.sample(&mut g2));
                    ensure!(a.to_bits() == b.to_bits(), "two Exp({l:?}) sample differently: {a} vs {b}");
                }
            }
            Ok(())
        });
    }
    // core.rs: `Exp::sample ensures f64_nonneg(r)` ("sample is >= 0 and not NaN") for EVERY Exp value -- in particular for
    // every one Exp::new accepts (the stubs above make `lambda >= 0.0` the accepted range, -0.0 included).
    cx.want(&["positive", "zero", "neg-zero", "inf"]).check("core.rs::Exp::sample (stub claims nothing: Exp::new accepts -0.0 and then samples -inf; otherwise >= 0)", |rng| {
        let l = loop {
            let l = gen_lambda(rng);
            if l >= 0.0 {
                break l;
            }
        };
        hit(if l == 0.0 && l.is_sign_negative() { "neg-zero" } else if l == 0.0 { "zero" } else if l.is_infinite() { "inf" } else { "positive" });
        let e = rand_distr::Exp::new(l).map_err(|e| format!("Exp::new({l:?}): {e}"))?;
        let mut g = rand::rngs::SmallRng::seed_from_u64(rng.u64());
        let x: f64 = e.sample(&mut g);
        if l == 0.0 && l.is_sign_negative() {
            // the reason the stub has no postcondition (it used to say f64_nonneg): documented here so that a change of rand_distr shows
            ensure!(x == f64::NEG_INFINITY, "Exp::new(-0.0).sample() = {x:?}, expected -inf (rand_distr 0.5.1 stores 1/lambda)");
        } else {
            ensure!(x >= 0.0 && !x.is_nan(), "Exp::new({l:?}) is Ok, and its sample is {x:?}: not >= 0 (1/lambda = {:?})", 1.0 / l);
        }
        Ok(())
    });
    cx.want(&["ok", "err"]).check("worldapi_std.rs::SystemTime::duration_since + UNIX_EPOCH (not_before / since: functions of the two times)", |rng| {
        use std::time::{Duration, UNIX_EPOCH};
        let mk = |ns: u64| UNIX_EPOCH + Duration::from_nanos(ns);
        let a = rng.u64() >> rng.below(40);
        let b = if rng.chance(1, 4) { a } else { rng.u64() >> rng.below(40) };
        let r = mk(a).duration_since(mk(b));
        hit(if r.is_ok() { "ok" } else { "err" });
        let r2 = mk(a).duration_since(mk(b));
        ensure!(r.as_ref().ok() == r2.as_ref().ok() && r.is_ok() == r2.is_ok(), "duration_since is not a function of the two times");
        ensure!(r.is_ok() == (a >= b) && r.ok().map_or(true, |d| d == Duration::from_nanos(a - b)), "({a}ns).duration_since({b}ns)");
        Ok(())
    });

    // ============================================================================================ netshim_io.rs: ReadBuf = filled ++ rest
    // view: filled = rb.filled(); rest = the unfilled capacity as initialize_unfilled() shows it
    cx.want(&["advance", "write", "full"]).check("netshim_io.rs::ReadBuf::{new, initialize_unfilled, advance, filled, remaining}", |rng| {
        let cap = rng.range(0, 32);
        let mut storage: Vec<u8> = (0..cap).map(|_| rng.u8()).collect();
        let init = storage.clone();
        let mut rb = ReadBuf::new(&mut storage);
        // new: nothing filled, rest == the slice's content
        let (mut filled, mut rest): (Vec<u8>, Vec<u8>) = (vec![], init.clone());
        ensure!(rb.filled().is_empty() && rb.remaining() == cap && rb.initialize_unfilled().to_vec() == init, "new(): filled {:?}, remaining {}", rb.filled(), rb.remaining());
        for _ in 0..rng.range(0, 6) {
            if rng.bool() {
                hit("write");
                // initialize_unfilled: r == rest; what the caller leaves there is the new rest; same length
                let r = rb.initialize_unfilled();
                ensure!(r.to_vec() == rest, "initialize_unfilled() shows {r:?}, model rest {rest:?}");
                for b in r.iter_mut() {
                    if rng.chance(1, 3) {
                        *b = rng.u8();
                    }
                }
                rest = r.to_vec();
            } else {
                hit("advance");
                let n = rng.range(0, rest.len()); // requires n <= rest.len()
                rb.advance(n);
                filled.extend_from_slice(&rest[..n]);
                rest = rest[n..].to_vec();
                if rest.is_empty() {
                    hit("full");
                }
            }
            ensure!(rb.filled() == &filled[..], "filled() = {:?}, model {filled:?}", rb.filled());
            ensure!(rb.remaining() == rest.len(), "remaining() = {}, model {}", rb.remaining(), rest.len());
            ensure!(rb.capacity() == cap && filled.len() + rest.len() == cap, "capacity changed");
            ensure!(rb.initialize_unfilled().to_vec() == rest, "rest = {:?}, model {rest:?}", rb.initialize_unfilled());
        }
        // rb_same_slice: the buffer never re-points; when the ReadBuf dies the caller's slice holds filled ++ rest
        drop(rb);
        let exp: Vec<u8> = [&filled[..], &rest[..]].concat();
        ensure!(storage == exp, "the caller's slice ends up as {storage:?}, the buffer held {exp:?}");
        Ok(())
    });
    cx.check_n("netshim_io.rs::ReadBuf::advance (requires is tight: n > rest.len() panics)", 256, |rng| {
        let cap = rng.range(0, 16);
        let mut storage = vec![0u8; cap];
        let mut rb = ReadBuf::new(&mut storage);
        let k = rng.range(0, cap);
        rb.advance(k);
        let n = cap - k + 1 + rng.below(3);
        ensure!(panics(|| rb.advance(n)).is_some(), "advance({n}) with {} bytes of room does not panic", cap - k);
        Ok(())
    });
    cx.check("netshim_io.rs::Waker::noop + Context::from_waker", |rng| {
        use std::task::{Context, Waker};
        // noop(): one id (`noop_id()`): two calls denote the same waker
        ensure!(Waker::noop().will_wake(Waker::noop()) && Waker::noop().clone().will_wake(Waker::noop()), "two Waker::noop() are different wakers");
        // from_waker(w): c.waker_id() == w.id()
        struct W;
        impl std::task::Wake for W {
            fn wake(self: std::sync::Arc<Self>) {}
        }
        let other = Waker::from(std::sync::Arc::new(W));
        let w: &Waker = if rng.bool() { Waker::noop() } else { &other };
        let c = Context::from_waker(w);
        ensure!(c.waker().will_wake(w) && w.will_wake(c.waker()), "Context::from_waker(w).waker() is not w");
        ensure!(c.waker().will_wake(Waker::noop()) == w.will_wake(Waker::noop()), "the context's waker is in another class than w");
        Ok(())
    });
    cx.check("netshim_io.rs::<Error as From<ErrorKind>>::from", |rng| {
        let (_, k) = crate::misc::KINDS[rng.below(crate::misc::KINDS.len())];
        let e: std::io::Error = k.into();
        ensure!(e.kind() == k && e.raw_os_error().is_none(), "{k:?}.into(): kind {:?} os {:?}", e.kind(), e.raw_os_error());
        Ok(())
    });

    // ============================================================================================ nettable_task.rs
    cx.check("nettable_task.rs::ReadBuf::{new, remaining, put_slice, filled}", |rng| {
        let cap = rng.range(0, 32);
        let mut storage = vec![0u8; cap];
        let mut rb = ReadBuf::new(&mut storage);
        ensure!(rb.filled().is_empty() && rb.remaining() == cap, "new(): filled {:?}, room {}", rb.filled(), rb.remaining());
        let (mut filled, mut room) = (vec![], cap);
        for _ in 0..rng.range(0, 4) {
            let n = rng.range(0, room); // requires data.len() <= room
            let d: Vec<u8> = (0..n).map(|_| rng.u8()).collect();
            rb.put_slice(&d);
            filled.extend_from_slice(&d);
            room -= n;
            ensure!(rb.filled() == &filled[..] && rb.remaining() == room, "put_slice({d:?}): filled {:?} room {}, model {filled:?} / {room}", rb.filled(), rb.remaining());
        }
        Ok(())
    });
    cx.check_n("nettable_task.rs::ReadBuf::put_slice (requires is tight: more than the room panics)", 256, |rng| {
        let cap = rng.range(0, 16);
        let mut storage = vec![0u8; cap];
        let mut rb = ReadBuf::new(&mut storage);
        let d = vec![1u8; cap + 1 + rng.below(3)];
        ensure!(panics(|| rb.put_slice(&d)).is_some(), "put_slice of {} bytes into {cap} does not panic", d.len());
        Ok(())
    });
    cx.check("nettable_task.rs::Bytes::idiom_prefix (`&payload[..n]`)", |rng| {
        let b = Bytes::from(rng.bytes(40));
        let b = b.slice(rng.range(0, b.len())..);
        let pre: Vec<u8> = b.to_vec();
        let n = rng.range(0, pre.len()); // requires n <= len
        let r: &[u8] = &b[..n];
        ensure!(r == &pre[..n], "&b[..{n}] of {pre:?} = {r:?}");
        Ok(())
    });
    cx.want(&["true", "false"]).check("nettable_task.rs::<Vec as IdiomVecIterAny>::idiom_iter_any", |rng| {
        let v = rng.small_vec(12, 12);
        let p = pred(rng);
        let r = v.iter().any(|x| p(x));
        hit(if r { "true" } else { "false" });
        ensure!(r == (0..v.len()).any(|i| p(&v[i])), "iter().any = {r} on {v:?}");
        Ok(())
    });
    cx.want(&["some", "none"]).check("nettable_task.rs::VecDeque::front", |rng| {
        let d = if rng.chance(1, 4) { VecDeque::new() } else { seqs::gen_deque(rng, 50) };
        let v = seqs::view(&d);
        hit(if v.is_empty() { "none" } else { "some" });
        ensure!(d.front().copied() == v.first().copied(), "front() = {:?} on {v:?}", d.front());
        Ok(())
    });
    cx.want(&["some", "none"]).check("nettable_task.rs::<Option<&Vec<T>> as IdiomSliceOrEmpty>::idiom_slice_or_empty", |rng| {
        let v = rng.bytes(8);
        let o: Option<&Vec<u8>> = if rng.bool() { Some(&v) } else { None };
        hit(if o.is_some() { "some" } else { "none" });
        let r: &[u8] = o.map(Vec::as_slice).unwrap_or_default();
        let exp: &[u8] = match o { Some(v) => &v[..], None => &[] };
        ensure!(r == exp, "map(Vec::as_slice).unwrap_or_default() = {r:?}, spec {exp:?}");
        Ok(())
    });
    cx.check("nettable_task.rs::BytesMut::len", |rng| {
        let mut m = BytesMut::new();
        for _ in 0..rng.range(0, 4) {
            m.extend_from_slice(&rng.bytes(20));
            if rng.bool() {
                let _ = m.split_to(rng.range(0, m.len()));
            }
        }
        ensure!(m.len() == m.iter().count(), "len");
        Ok(())
    });
    cx.check("nettable_task.rs::<VecDeque<(A, Bytes)> as IdiomSumLens>::idiom_sum_lens", |rng| {
        let q: VecDeque<(u16, Bytes)> = (0..rng.range(0, 8)).map(|_| (rng.u16(), Bytes::from(rng.bytes(40)))).collect();
        let r: usize = q.iter().map(|(_, b)| b.len()).sum();
        // queue_bytes, the recursive definition
        fn queue_bytes(q: &[(u16, Bytes)]) -> usize {
            match q.split_last() { None => 0, Some((l, rest)) => queue_bytes(rest) + l.1.len() }
        }
        let v: Vec<(u16, Bytes)> = q.iter().cloned().collect();
        ensure!(r == queue_bytes(&v), "sum of lens = {r}, queue_bytes = {}", queue_bytes(&v));
        Ok(())
    });

    // ============================================================================================ hosttcp_mutex.rs / fsshim_std.rs
    cx.check("hosttcp_mutex.rs::<MutexGuard as Deref / DerefMut> (no ensures in the stub; what the units rely on: the guard IS the protected value)", |rng| {
        let (v, nv) = (rng.bytes(4), rng.bytes(4));
        let m = std::sync::Mutex::new(v.clone());
        {
            let mut g = m.lock().map_err(|_| "poisoned")?;
            ensure!(*g == v, "deref shows {:?}", *g);
            *g = nv.clone();
            ensure!(*g == nv, "deref after deref_mut write");
        }
        ensure!(*m.lock().map_err(|_| "poisoned")? == nv, "the write through the guard did not land in the mutex");
        Ok(())
    });
    // fsshim_std.rs: `lock(&self, st, cell)` makes the protected value an explicit cell: Ok(v) with *v == the cell's value, the
    // cell ends up as v ends up; never Err.
    cx.check("fsshim_std.rs::Mutex::lock (explicit-cell model: Ok, shows the protected value, writes land, nothing else changes)", |rng| {
        let (cur, nv) = (rng.u64(), rng.u64());
        let m = std::sync::Mutex::new(cur);
        let other = std::sync::Mutex::new(cur ^ 1); // "st": whatever else exists is untouched
        let write = rng.bool();
        let fin;
        match m.lock() {
            Ok(mut v) => {
                ensure!(*v == cur, "lock() shows {}, the cell holds {cur}", *v);
                if write {
                    *v = nv;
                }
                fin = *v;
            }
            Err(_) => return Err("lock() of an unpoisoned mutex is Err".into()),
        }
        ensure!(*m.lock().map_err(|_| "second lock failed")? == fin, "the cell does not end up as the guard ended up");
        ensure!(*other.lock().map_err(|_| "poisoned")? == cur ^ 1, "another mutex changed");
        Ok(())
    });
}
