//! Round 5: vecdeque.rs (swap_remove_back / swap_remove_front), fs_torn.rs, fs_latency.rs, the additions to uring_ext.rs
//! and worldapi_std.rs, udp_await.rs, netshim_find.rs, netdns_str.rs, hosttcp_sync.rs (Handle::try_current).
use crate::im::{self, obs, seq_remove, K};
use crate::{ensure, hit, panics, seqs, Cx, Rng};
use indexmap::IndexSet;
use rand::{Rng as _, RngCore, SeedableRng};
use std::collections::VecDeque;
use std::time::Duration;

fn pred(rng: &mut Rng) -> impl Fn(&u8) -> bool + Copy {
    im::pred(rng)
}
/// durations of every magnitude (the interesting boundary for f64 arithmetic is 2^52 ns)
fn gen_dur_wide(rng: &mut Rng) -> Duration {
    let bits = rng.range(1, 64) as u32;
    Duration::from_nanos(rng.u64() >> (64 - bits))
}
/// f in [0, 1], biased to the ends
fn gen_unit(rng: &mut Rng) -> f64 {
    match rng.below(6) {
        0 => 1.0,
        1 => 0.0,
        2 => 1.0 - f64::EPSILON / 2.0, // the largest f64 below 1
        3 => f64::MIN_POSITIVE,
        _ => (rng.u64() >> 11) as f64 / (1u64 << 53) as f64,
    }
}

pub fn run(cx: &mut Cx) {
    // ============================================================================================ vecdeque.rs
    cx.want(&["out", "last", "middle", "first"]).check("vecdeque.rs::VecDeque::swap_remove_back", |rng| {
        let mut d = seqs::gen_deque(rng, 50);
        let pre = seqs::view(&d);
        let i = rng.below(pre.len() + 3);
        hit(if i >= pre.len() { "out" } else if i + 1 == pre.len() { "last" } else if i == 0 { "first" } else { "middle" });
        let r = d.swap_remove_back(i);
        if i >= pre.len() {
            ensure!(r.is_none() && seqs::view(&d) == pre, "swap_remove_back({i}) out of range: {pre:?} -> {:?}, r {r:?}", seqs::view(&d));
        } else {
            // old.update(i, old.last()).drop_last()
            let mut exp = pre.clone();
            exp[i] = *pre.last().unwrap();
            exp.pop();
            ensure!(r == Some(pre[i]) && seqs::view(&d) == exp, "swap_remove_back({i}): {pre:?} -> {:?} returned {r:?}, spec {exp:?}", seqs::view(&d));
        }
        Ok(())
    });
    cx.want(&["out", "last", "middle", "first"]).check("vecdeque.rs::VecDeque::swap_remove_front", |rng| {
        let mut d = seqs::gen_deque(rng, 50);
        let pre = seqs::view(&d);
        let i = rng.below(pre.len() + 3);
        hit(if i >= pre.len() { "out" } else if i == 0 { "first" } else if i + 1 == pre.len() { "last" } else { "middle" });
        let r = d.swap_remove_front(i);
        if i >= pre.len() {
            ensure!(r.is_none() && seqs::view(&d) == pre, "swap_remove_front({i}) out of range: {pre:?} -> {:?}, r {r:?}", seqs::view(&d));
        } else {
            // old.update(i, old.first()).drop_first()
            let mut exp = pre.clone();
            exp[i] = pre[0];
            exp.remove(0);
            ensure!(r == Some(pre[i]) && seqs::view(&d) == exp, "swap_remove_front({i}): {pre:?} -> {:?} returned {r:?}, spec {exp:?}", seqs::view(&d));
        }
        Ok(())
    });
    cx.want(&["empty", "nonempty"]).check("uring_ext.rs::VecDeque::is_empty", |rng| {
        let d = if rng.chance(1, 3) { VecDeque::new() } else { seqs::gen_deque(rng, 50) };
        hit(if seqs::view(&d).is_empty() { "empty" } else { "nonempty" });
        ensure!(d.is_empty() == (seqs::view(&d).len() == 0), "is_empty");
        Ok(())
    });

    // ============================================================================================ fs_torn.rs
    cx.check("fs_torn.rs::u64::div_ceil", |rng| {
        let a = match rng.below(4) { 0 => u64::MAX - rng.u64() % 3, 1 => rng.u64() % 100, _ => rng.u64() };
        let b = match rng.below(4) { 0 => u64::MAX - rng.u64() % 3, 1 => 1 + rng.u64() % 100, _ => 1 + rng.u64() % (u64::MAX - 1) }; // requires b > 0
        let spec = (a as i128 + b as i128 - 1) / b as i128; // ceil_div over int
        ensure!(a.div_ceil(b) as i128 == spec, "{a}.div_ceil({b}) = {}, ceil_div = {spec}", a.div_ceil(b));
        Ok(())
    });
    cx.check_n("fs_torn.rs::u64::div_ceil (requires is tight: a zero divisor panics)", 64, |rng| {
        let a = rng.u64();
        let z = std::hint::black_box(0u64);
        ensure!(panics(|| a.div_ceil(z)).is_some(), "{a}.div_ceil(0) does not panic");
        Ok(())
    });
    cx.want(&["lo", "hi", "point-range", "full-range"]).check("fs_torn.rs::idiom_random_range_incl (`rng.random_range(lo..=hi)` on usize)", |rng| {
        let mut g: Box<dyn RngCore> = Box::new(rand::rngs::SmallRng::seed_from_u64(rng.u64()));
        let lo = match rng.below(3) { 0 => 0, 1 => rng.below(100), _ => rng.u64() as usize };
        let hi = match rng.below(4) { 0 => lo, 1 => usize::MAX, 2 => lo.saturating_add(rng.below(4)), _ => lo + rng.u64() as usize % (usize::MAX - lo).max(1) }; // requires lo <= hi
        if lo == hi {
            hit("point-range");
        }
        if lo == 0 && hi == usize::MAX {
            hit("full-range");
        }
        let gd: &mut dyn RngCore = &mut *g;
        let r = gd.random_range(lo..=hi);
        if r == lo {
            hit("lo");
        }
        if r == hi {
            hit("hi");
        }
        ensure!(lo <= r && r <= hi, "random_range({lo}..={hi}) = {r}");
        Ok(())
    });
    cx.want(&["some", "none", "mixed"]).check("fs_torn.rs::idiom_filter_map_rel + FmOut::collect (order of filter_map + collect, stateful closure)", |rng| {
        // fm_ok(s, r, rel), literally
        fn fm_ok(s: &[u8], r: &[(u8, u32)], rel: &dyn Fn(u8, (u8, u32)) -> bool) -> bool {
            match s.split_last() {
                None => r.is_empty(),
                Some((sl, s_rest)) => fm_ok(s_rest, r, rel) || r.split_last().is_some_and(|(rl, r_rest)| fm_ok(s_rest, r_rest, rel) && rel(*sl, *rl)),
            }
        }
        let v = rng.small_vec(12, 12);
        let p = pred(rng);
        // the closure draws from a generator: its answers depend on the call order
        let mut g = rand::rngs::SmallRng::seed_from_u64(rng.u64());
        let mut calls: Vec<u8> = vec![];
        let out: Vec<(u8, u32)> = v
            .iter()
            .filter_map(|x| {
                calls.push(*x);
                let draw = g.next_u32() % 4;
                if p(x) && draw != 0 { Some((*x, draw)) } else { None }
            })
            .collect::<Vec<_>>();
        hit(if out.is_empty() { "none" } else if out.len() == v.len() { "some" } else { "mixed" });
        // rel(t, b): "the closure may have produced b for t"
        let rel = |t: u8, b: (u8, u32)| b.0 == t && p(&t) && b.1 != 0 && b.1 < 4;
        ensure!(fm_ok(&v, &out, &rel), "filter_map(..).collect() of {v:?} = {out:?} is not an order-preserving selection");
        ensure!(calls == v, "the closure is not called once per element in order: {calls:?} on {v:?}");
        Ok(())
    });

    // ============================================================================================ fs_latency.rs
    cx.want(&["nan", "above", "below", "one"]).check("fs_latency.rs::f64::min (b == 1.0 ==> r <= 1.0)", |rng| {
        let a = match rng.below(8) { 0 => f64::NAN, 1 => -f64::NAN, 2 => f64::INFINITY, 3 => f64::NEG_INFINITY, 4 => 1.0, 5 => 1.0 + f64::EPSILON, 6 => -0.0, _ => f64::from_bits(rng.u64()) };
        hit(if a.is_nan() { "nan" } else if a > 1.0 { "above" } else if a == 1.0 { "one" } else { "below" });
        let r = a.min(1.0);
        ensure!(r <= 1.0, "{a:?}.min(1.0) = {r:?} is not <= 1.0"); // f64_le_one: false for NaN
        Ok(())
    });
    // Duration::mul_f64 (corrected stub): a GUARD -- it returns only if f is non-negative and finite (`ensures f64_nonneg_finite(f)`),
    // and `f64_le_one(f) && self.ns@ < 2^52 ==> r.ns@ <= self.ns@`.
    // (a) the bounded postcondition: below 2^52 ns f64 still resolves nanoseconds
    cx.want(&["one", "below-one"]).check("fs_latency.rs::Duration::mul_f64 (f <= 1.0 and self < 2^52 ns ==> r <= self)", |rng| {
        let bits = rng.range(1, 52) as u32;
        let d = Duration::from_nanos(rng.u64() >> (64 - bits));
        let f = gen_unit(rng);
        hit(if f == 1.0 { "one" } else { "below-one" });
        let r = d.mul_f64(f);
        ensure!(r <= d, "{d:?}.mul_f64({f:?}) = {r:?} > self");
        Ok(())
    });
    //     tightness: without the 2^52 bound the clause is false (this is why the bound is there; found in round 5)
    cx.check_n("fs_latency.rs::Duration::mul_f64 (tightness: above 2^52 ns the product can round up)", 1, |_rng| {
        let d = Duration::new(10_000_000, 1);
        let r = d.mul_f64(1.0);
        ensure!(r > d, "{d:?}.mul_f64(1.0) = {r:?} no longer exceeds self: the 2^52 bound of the stub could be dropped");
        Ok(())
    });
    // (b) the guard: whenever std returns (does not panic), f was non-negative and finite; for negative / NaN f it panics
    cx.want(&["returns", "panics"]).check_n("fs_latency.rs::Duration::mul_f64 (guard: returns only for non-negative finite f)", 512, |rng| {
        let d = Duration::from_nanos(1 + rng.u64() % 10_000_000_000);
        let f = match rng.below(7) { 0 => -0.5, 1 => f64::NAN, 2 => f64::NEG_INFINITY, 3 => -f64::MIN_POSITIVE * 1e300, 4 => -(rng.u32() as f64 + 1.0) / 1000.0, 5 => 0.0, _ => (rng.u32() as f64) / 4e9 };
        match panics(|| d.mul_f64(f)) {
            None => { hit("returns"); ensure!(f >= 0.0 && f.is_finite(), "{d:?}.mul_f64({f:?}) returned although f is not non-negative finite"); }
            Some(_) => { hit("panics"); ensure!(!(f >= 0.0 && f.is_finite()), "{d:?}.mul_f64({f:?}) panicked for a non-negative finite f with a small duration"); }
        }
        Ok(())
    });
    cx.want(&["out", "last", "middle"]).check("fs_latency.rs::IndexSet::shift_remove_index", |rng| {
        let mut s: IndexSet<u8> = IndexSet::new();
        for _ in 0..rng.range(0, 20) {
            let x = rng.u8() % 16;
            if rng.chance(1, 4) { s.swap_remove(&x); } else { s.insert(x); }
        }
        let pre: Vec<u8> = s.iter().copied().collect();
        let i = rng.below(pre.len() + 3);
        hit(if i >= pre.len() { "out" } else if i + 1 == pre.len() { "last" } else { "middle" });
        let r = s.shift_remove_index(i);
        let post: Vec<u8> = s.iter().copied().collect();
        if i >= pre.len() {
            ensure!(r.is_none() && post == pre, "shift_remove_index({i}) out of range: {pre:?} -> {post:?}, r {r:?}");
        } else {
            let exp = seq_remove(&pre, i);
            ensure!(r == Some(pre[i]) && post == exp, "shift_remove_index({i}): {pre:?} -> {post:?} returned {r:?}, spec {exp:?}");
        }
        Ok(())
    });

    // ============================================================================================ uring_ext.rs additions
    cx.want(&["zero", "power", "between", "top"]).check("uring_ext.rs::u32::next_power_of_two + axiom_next_pow2", |rng| {
        let x: u32 = match rng.below(6) {
            0 => 0,
            1 => 1 << rng.below(32),                  // a power of two (<= 2^31)
            2 => (1u32 << rng.range(1, 31)) + 1,       // just above one
            3 => 0x8000_0000 - rng.u32() % 3,          // the top of the domain
            4 => 0x4000_0000 - rng.u32() % 3 + 1,      // around 2^30
            _ => rng.u32() >> rng.range(1, 31),
        };
        if x > 0x8000_0000 {
            return Ok(()); // requires x <= 2^31
        }
        hit(if x == 0 { "zero" } else if x.is_power_of_two() { "power" } else if x > 0x4000_0000 { "top" } else { "between" });
        let r = x.next_power_of_two();
        ensure!(r >= x && r >= 1, "{x}.next_power_of_two() = {r} is below x or 0");
        ensure!((0..32).any(|k| r == 1u32 << k), "{x}.next_power_of_two() = {r} is not a power of two"); // spec_is_pow2
        ensure!(x < 1 || (r as u64) < 2 * x as u64, "{x}.next_power_of_two() = {r} is not < 2x");
        ensure!(x > 0x4000_0000 || r <= 0x4000_0000, "{x} <= 2^30 but next_power_of_two() = {r} > 2^30");
        Ok(())
    });
    cx.check_n("uring_ext.rs::u32::next_power_of_two (requires is tight: above 2^31 it panics (debug) or wraps to 0 (release))", 64, |rng| {
        let x = std::hint::black_box(0x8000_0001u32 + rng.u32() % 0x7fff_ffff);
        match std::panic::catch_unwind(|| x.next_power_of_two()) {
            Err(_) => Ok(()),
            Ok(r) => {
                ensure!(r < x, "{x}.next_power_of_two() = {r}: no overflow, the precondition could be weaker");
                Ok(())
            }
        }
    });
    cx.want(&["none", "unique-min", "tied-min"]).check("uring_ext.rs::<Vec as IdiomIterMapMin>::idiom_iter_map_min (`v.iter().map(f).min()`)", |rng| {
        let v = rng.small_vec(10, 12);
        let m = rng.range(1, 5) as u8;
        let f = move |x: &u8| (*x % m, *x / m); // a key with a total order
        let mut calls = 0;
        let r = v.iter().map(|x| { calls += 1; f(x) }).min();
        ensure!(r.is_none() == v.is_empty(), "min() = {r:?} on {v:?}");
        match r {
            None => hit("none"),
            Some(k) => {
                hit(if v.iter().filter(|x| f(x) == k).count() > 1 { "tied-min" } else { "unique-min" });
                ensure!(v.iter().any(|x| f(x) == k), "min() = {k:?} is nobody's key in {v:?}");
                ensure!(v.iter().all(|x| k <= f(x)), "min() = {k:?} is not <= every key of {v:?}"); // key_le
                ensure!(calls == v.len(), "f called {calls} times on {} elements", v.len());
            }
        }
        Ok(())
    });

    // ============================================================================================ worldapi_std.rs additions
    cx.check("worldapi_std.rs::IndexMap::keys (slice-iterator model: remaining() == seq_refs(im_keys))", |rng| {
        let m = im::gen_map(rng);
        let s = obs(&m)?;
        let mut it = m.keys();
        let mut got: Vec<K> = vec![];
        while let Some(k) = it.next() {
            got.push(*k);
        }
        ensure!(got == s.iter().map(|e| e.0).collect::<Vec<K>>(), "keys() yields {got:?} on {s:?}");
        ensure!(it.next().is_none() && it.next().is_none(), "keys() yields again after None"); // will_return_none
        // `for k in m.keys()`, the use the model is made for
        let mut n = 0;
        for k in m.keys() {
            ensure!(*k == s[n].0, "for-loop element {n}");
            n += 1;
        }
        ensure!(n == s.len(), "for-loop length");
        Ok(())
    });
    cx.check("worldapi_std.rs::<RangeInclusive as Clone>::clone", |rng| {
        let a = rng.u16() % 100;
        let mut r = a..=a + rng.u16() % 5;
        for _ in 0..rng.below(7) {
            r.next();
        }
        let c = r.clone();
        ensure!(c == r && c.start() == r.start() && c.end() == r.end() && c.clone().count() == r.clone().count(), "clone of {r:?} is {c:?}");
        Ok(())
    });

    // ============================================================================================ netshim_find.rs / netdns_str.rs
    cx.want(&["some-first", "some-later", "none"]).check("netshim_find.rs::<Vec as IdiomVecFindP>::idiom_copied_find_p (`v.iter().copied().find(f)`)", |rng| {
        // seq_find_first, literally
        fn seq_find_first(s: &[u8], p: &dyn Fn(&u8) -> bool) -> Option<u8> {
            if s.is_empty() { None } else if p(&s[0]) { Some(s[0]) } else { seq_find_first(&s[1..], p) }
        }
        let v = rng.small_vec(16, 12);
        let p = pred(rng);
        let r = v.iter().copied().find(|x| p(x));
        let exp = seq_find_first(&v, &p);
        hit(match v.iter().position(|x| p(x)) { None => "none", Some(0) => "some-first", Some(_) => "some-later" });
        ensure!(r == exp, "find = {r:?}, seq_find_first = {exp:?} on {v:?}");
        Ok(())
    });
    cx.want(&["equal", "different"]).check("netdns_str.rs::axiom_str_ext (&str == is content equality; string-literal match arms)", |rng| {
        let names = ["localhost", "local", "", "localhost.", "é"];
        let a: String = names[rng.below(names.len())].chars().collect(); // another object than the literal
        let b: String = if rng.bool() { a.chars().collect() } else { names[rng.below(names.len())].to_string() };
        let (sa, sb): (&str, &str) = (&a, &b);
        let same = sa.chars().eq(sb.chars()); // a@ == b@
        hit(if same { "equal" } else { "different" });
        ensure!((sa == sb) == same, "{sa:?} == {sb:?} is {}, contents equal: {same}", sa == sb);
        // Verus reads the arm `"localhost" => ..` as equality with the literal
        let arm = match sa { "localhost" => true, _ => false };
        ensure!(arm == sa.chars().eq("localhost".chars()), "match arm \"localhost\" on {sa:?}");
        Ok(())
    });
    cx.check("netdns_str.rs::Option<&T>::copied", |rng| {
        let x = (rng.u16(), rng.u8());
        let o: Option<&(u16, u8)> = if rng.bool() { Some(&x) } else { None };
        let exp = match o { Some(v) => Some(*v), None => None };
        ensure!(o.copied() == exp, "{o:?}.copied()");
        Ok(())
    });

    // ============================================================================================ hosttcp_sync.rs
    cx.want(&["outside", "block_on", "enter-guard", "task"]).check_n("hosttcp_sync.rs::Handle::try_current (r is Ok <==> a runtime is entered)", 400, |rng| {
        use tokio::runtime::{Builder, Handle};
        ensure!(Handle::try_current().is_err(), "try_current() is Ok outside every runtime");
        hit("outside");
        let rt = Builder::new_current_thread().build().map_err(|e| e.to_string())?;
        match rng.below(3) {
            0 => {
                hit("block_on");
                ensure!(rt.block_on(async { Handle::try_current().is_ok() }), "try_current() is Err inside block_on");
            }
            1 => {
                hit("enter-guard");
                let g = rt.enter();
                ensure!(Handle::try_current().is_ok(), "try_current() is Err under Runtime::enter()");
                drop(g);
            }
            _ => {
                hit("task");
                let ok = rt.block_on(async { tokio::spawn(async { Handle::try_current().is_ok() }).await }).map_err(|e| e.to_string())?;
                ensure!(ok, "try_current() is Err inside a spawned task");
            }
        }
        ensure!(Handle::try_current().is_err(), "try_current() is still Ok after the runtime was left");
        Ok(())
    });

    // ============================================================================================ udp_await.rs
    {
        let rt = tokio::runtime::Builder::new_current_thread().build().unwrap();
        let n_rt = cx.n.min(1500);
        // `rx.recv().await` on a bounded channel: resumes with the FIFO head of (queue ++ arrived), which leaves the queue; None
        // only if the queue is empty and every sender is gone (never while a sender is pinned).
        cx.want(&["queued", "arrived-while-suspended", "none"]).check_n("udp_await.rs::mpsc::Receiver::recv + RecvFut::await_model", n_rt, |rng| {
            use tokio::sync::mpsc;
            let cap = rng.range(1, 4);
            let (tx, mut rx) = mpsc::channel::<u32>(cap);
            let mut q: Vec<u32> = vec![];
            for i in 0..rng.range(0, cap) {
                let v = 100 + i as u32;
                tx.try_send(v).map_err(|_| "generator: try_send failed")?;
                q.push(v);
            }
            let late: Vec<u32> = (0..rng.range(0, 3)).map(|i| 900 + i as u32).collect(); // arrive while the receiver is suspended
            let keep_sender = rng.bool(); // `pinned`
            let rounds = q.len() + late.len() + 1;
            let (late2, kept) = (late.clone(), keep_sender);
            let got: Vec<Option<u32>> = rt.block_on(async move {
                let sender = tokio::spawn(async move {
                    tokio::task::yield_now().await;
                    for v in late2 {
                        if tx.send(v).await.is_err() {
                            break;
                        }
                    }
                    if kept {
                        Some(tx) // handed back: stays alive
                    } else {
                        None
                    }
                });
                let mut got = vec![];
                let mut kept_tx = None;
                for i in 0..rounds {
                    if i + 1 == rounds {
                        // the last recv: everything has been handed out; it can only return if no sender is left
                        kept_tx = sender.await.ok().flatten();
                        if kept_tx.is_some() {
                            break; // pinned: recv() would suspend forever, which is what the model says (no None)
                        }
                        got.push(rx.recv().await);
                        break;
                    }
                    got.push(rx.recv().await);
                }
                drop(kept_tx);
                got
            });
            let all: Vec<u32> = q.iter().chain(late.iter()).copied().collect();
            for (i, g) in got.iter().enumerate() {
                match g {
                    Some(m) => {
                        hit(if i < q.len() { "queued" } else { "arrived-while-suspended" });
                        ensure!(i < all.len() && *m == all[i], "recv #{i} = Some({m}), queue ++ arrived = {all:?}");
                    }
                    None => {
                        hit("none");
                        ensure!(i == all.len() && !keep_sender, "recv #{i} = None with {} message(s) outstanding, sender pinned: {keep_sender}", all.len().saturating_sub(i));
                    }
                }
            }
            ensure!(got.len() == all.len() + usize::from(!keep_sender), "received {got:?}, expected all of {all:?}");
            Ok(())
        });
        // `m.lock().await`: resumes holding the lock on that same value; writes through the guard land in the mutex
        cx.want(&["free", "contended"]).check_n("udp_await.rs::Mutex::lock + LockFut::await_model (tokio::sync::Mutex)", n_rt, |rng| {
            use std::sync::Arc;
            let m = Arc::new(tokio::sync::Mutex::new(rng.u32() % 1000));
            let contended = rng.bool();
            hit(if contended { "contended" } else { "free" });
            let add = 1 + rng.u32() % 5;
            let m2 = m.clone();
            let (seen, before_other, after) = rt.block_on(async move {
                let v0 = *m.lock().await;
                let other = if contended {
                    // another task holds the lock first and moves the shared value on (`moved_on`)
                    let m3 = m.clone();
                    let g = m3.clone().lock_owned().await;
                    Some(tokio::spawn(async move {
                        let mut g = g;
                        tokio::task::yield_now().await;
                        *g += 1000;
                    }))
                } else {
                    None
                };
                let mut g = m.lock().await; // suspends while the other task holds the lock
                let seen = *g;
                *g += add;
                drop(g);
                if let Some(o) = other {
                    let _ = o.await;
                }
                (seen, v0, *m.lock().await)
            });
            let exp_seen = before_other + if contended { 1000 } else { 0 };
            ensure!(seen == exp_seen, "the guard shows {seen}, the mutex held {exp_seen} when the lock was granted");
            ensure!(after == seen + add && *m2.try_lock().map_err(|_| "still locked")? == after, "the write through the guard did not land: {after}");
            Ok(())
        });
    }
}
