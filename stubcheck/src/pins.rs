//! Source pins (see Cx::pin): the `requires` clauses -- and the few `ensures` clauses corrected after a
//! stubcheck finding -- whose weakening a dynamic test cannot see, because the generators only draw inputs
//! from the domain the clause describes.  If one of these fails the stub text changed: re-read the stub,
//! adapt the checker named in the comment, then update the pin.
use crate::Cx;

pub fn run(cx: &mut Cx) {
    // ---- corrected after stubcheck findings (chan.rs, misc.rs)
    cx.pin("ports_tokio.rs", "mpsc::channel", "pub fn channel<T>(buffer: usize) -> (r: (Sender<T>, Receiver<T>)) requires 0 < buffer <= (usize::MAX >> 3)");
    cx.pin("hosttcp_sync.rs", "MpscReceiver::poll_recv [Pending arm]", "Poll::Pending => final(self)@ == old(self)@,");
    cx.pin("hosttcp_sync.rs", "MpscReceiver::poll_recv [empty && connected]", "(old(self)@.queue.len() == 0 && !old(self)@.disconnected) ==> r is Pending");
    cx.pin("core.rs", "RngCore::random_bool", "fn random_bool(&mut self, p: f64) -> bool requires f64_is_probability(p);");
    cx.pin("hosttcp_atomic.rs", "AtomicUsize::load", "pub fn load(&self, o: AtomicOrdering) -> (r: usize) requires !(o is Release) && !(o is AcqRel)");
    cx.pin("hosttcp_atomic.rs", "AtomicUsize::fetch_update", "requires f.requires((old(self).v,)), !(fo is Release) && !(fo is AcqRel)");
    // ---- other preconditions outside of which the real library panics
    cx.pin("hosttcp_sync.rs", "mpsc_channel", "requires 0 < cap <= MPSC_MAX_CAP");
    cx.pin("hosttcp_sync.rs", "MPSC_MAX_CAP", "pub const MPSC_MAX_CAP: usize = usize::MAX >> 3;");
    cx.pin("udp_mpsc.rs", "mpsc::channel", "requires 0 < buffer <= (usize::MAX >> 3)");
    cx.pin("core.rs", "RngCore::random_range_usize", "fn random_range_usize(&mut self, lo: usize, hi: usize) -> (r: usize) requires lo < hi");
    cx.pin("hosttcp_bytes.rs", "Bytes::advance", "pub fn advance(&mut self, cnt: usize) requires cnt <= old(self)@.len()");
    cx.pin("hosttcp_bytes.rs", "Bytes::split_to", "pub fn split_to(&mut self, at: usize) -> (r: Bytes) requires at <= old(self)@.len()");
    cx.pin("hosttcp_bytes.rs", "Bytes::slice", "requires range.start <= range.end <= self@.len()");
    cx.pin("hosttcp_bytes.rs", "<Bytes as Index<RangeTo<usize>>>::index_req", "index.end <= self@.len()");
    cx.pin("nettcp_bytes.rs", "BytesMut::split_to", "pub fn split_to(&mut self, at: usize) -> (r: BytesMut) requires at <= old(self)@.len()");
    cx.pin("nettcp_bytes.rs", "BytesMut::advance", "pub fn advance(&mut self, cnt: usize) requires cnt <= old(self)@.len()");
    cx.pin("hosttcp_io.rs", "ReadBuf::put_slice", "requires buf@.len() <= old(self)@.cap - old(self)@.filled.len()");
    cx.pin("time.rs", "<Duration as SubSpecImpl>::sub_req", "open spec fn sub_req(self, rhs: Duration) -> bool { self.ns@ >= rhs.ns@ }");
    cx.pin("rules_idiom.rs", "idiom_drain_to", "requires n <= old(self).idiom_seq().len()");
    cx.pin("hosttcp_indexmap.rs", "<IndexMap as Index<&K>>::index_req", "open spec fn index_req(&self, index: &&K) -> bool { im_has(self@, **index) }");
    cx.pin("uring_std.rs", "VecDeque::drain", "requires is_full_range(range)");
    cx.pin("uring_ext.rs", "Vec::drain", "requires 0 <= range_lo(range) <= range_hi(range, old(v)@.len() as int) <= old(v)@.len()");
    cx.pin("ports_dns.rs", "str::parse [requires parse_pre]", "[str::parse::<F>] (s: &str) -> (r: core::result::Result<F, F::Err>) requires parse_pre::<F>(s@),");
    cx.pin("ports_dns.rs", "axiom_parse_pre_ip", "pub broadcast axiom fn axiom_parse_pre_ip(s: Seq<char>) ensures #[trigger] parse_pre::<IpAddr>(s);");
    cx.pin("ports_dns.rs", "axiom_parse_pre_u16", "pub broadcast axiom fn axiom_parse_pre_u16(s: Seq<char>) ensures #[trigger] parse_pre::<u16>(s);");
    cx.pin("ports_dns.rs", "axiom_parse_pre_sock", "pub broadcast axiom fn axiom_parse_pre_sock(s: Seq<char>) ensures #[trigger] parse_pre::<SocketAddr>(s) == sock_text_unscoped(s);");
    cx.pin("ports_dns.rs", "<SocketAddr as FromStr>::from_str [under sock_text_unscoped]", "ensures sock_text_unscoped(s@) ==> match r { Ok(a) => parse_sock_spec(s@) == Some(a), Err(_) => parse_sock_spec(s@).is_none() }");
    cx.pin("ports_dns.rs", "SocketAddr::V6 [requires v6_plain]", "pub fn V6(a: SocketAddrV6) -> (r: SocketAddr) requires v6_plain(a),");
    cx.pin("ports_dns.rs", "idiom_panic_unless", "pub fn idiom_panic_unless(c: bool) ensures c");
    cx.pin("fs_vec.rs", "<[T]>::fill [corrected]", "vstd::pervasive::cloned::<T>(v, #[trigger] final(s)@[i])");
    cx.pin("netshim_io.rs", "ReadBuf::advance", "pub fn advance(&mut self, n: usize) requires n <= old(self)@.rest.len(),");
    cx.pin("nettable_task.rs", "ReadBuf::put_slice", "requires data@.len() <= old(self).room(),");
    cx.pin("nettable_task.rs", "Bytes::idiom_prefix", "pub fn idiom_prefix(&self, n: usize) -> (r: &[u8]) requires n <= self@.len(),");
    cx.pin("nettable_task.rs", "idiom_sum_lens", "requires queue_bytes(self.idiom_sl_seq()) <= usize::MAX,");
    cx.pin("fs_torn.rs", "u64::div_ceil", "[u64::div_ceil] (a: u64, b: u64) -> (r: u64) requires b > 0");
    cx.pin("fs_torn.rs", "idiom_random_range_incl", "pub fn idiom_random_range_incl(rng: &mut dyn RngCore, lo: usize, hi: usize) -> (r: usize) requires lo <= hi");
    cx.pin("uring_ext.rs", "u32::next_power_of_two", "[u32::next_power_of_two] (x: u32) -> (r: u32) requires x <= 0x8000_0000u32,");
    cx.pin("uring_ext.rs", "axiom_next_pow2", "pub broadcast axiom fn axiom_next_pow2(x: u32) requires x <= 0x8000_0000u32,");
    cx.pin("fs_vec.rs", "axiom_vec_imut_range", "requires r.start <= r.end <= pre.len()");
}
