//! std::net against prelude/net.rs (+ udp_io.rs SocketAddr::from).
//!
//! The stub types are plain structs over the address bits with *derived* PartialOrd/Ord (exec) and the
//! spec ordering `int_cmp(ip_key(a), ip_key(b))`.  Abstraction real -> model: Ipv4Addr -> to_bits() (u32,
//! first octet most significant), Ipv6Addr -> to_bits() (u128, first segment most significant).
use crate::{ensure, hit, mutant, Cx, Rng};
use std::cmp::Ordering;
use std::net::{IpAddr, Ipv4Addr, Ipv6Addr, SocketAddr};

// the stub types, verbatim shape and derives
#[derive(Clone, Copy, PartialEq, Eq, PartialOrd, Ord, Debug, Hash)]
pub(crate) struct M4 {
    bits: u32,
}
#[derive(Clone, Copy, PartialEq, Eq, PartialOrd, Ord, Debug, Hash)]
pub(crate) struct M6 {
    bits: u128,
}
#[derive(Clone, Copy, PartialEq, Eq, PartialOrd, Ord, Debug, Hash)]
pub(crate) enum MIp {
    V4(M4),
    V6(M6),
}
pub(crate) fn abs4(a: Ipv4Addr) -> M4 {
    M4 { bits: u32::from(a) }
}
pub(crate) fn abs6(a: Ipv6Addr) -> M6 {
    M6 { bits: u128::from(a) }
}
pub(crate) fn abs(a: IpAddr) -> MIp {
    match a {
        IpAddr::V4(x) => MIp::V4(abs4(x)),
        IpAddr::V6(x) => MIp::V6(abs6(x)),
    }
}
/// ip_key as a 129-bit integer (carry, low 128 bits): V4 -> bits, V6 -> 2^32 + bits
fn ip_key(a: MIp) -> (u8, u128) {
    match a {
        MIp::V4(x) => (0, x.bits as u128),
        MIp::V6(x) => {
            let (lo, carry) = x.bits.overflowing_add(if mutant("ip_key") { 0 } else { 0x1_0000_0000 });
            (carry as u8, lo)
        }
    }
}
fn int_cmp(a: (u8, u128), b: (u8, u128)) -> Option<Ordering> {
    Some(a.cmp(&b))
}

pub(crate) fn gen4(rng: &mut Rng) -> Ipv4Addr {
    let r = rng.u32();
    let bits = match rng.below(14) {
        0 => 0,
        1 => 0xffff_ffff,
        2 => 0x7f00_0001,
        3 => 0x7f00_0000 | (r & 0x00ff_ffff), // 127/8
        4 => 0x7eff_ffff,
        5 => 0x8000_0000,
        6 => 0xe000_0000 | (r & 0x0fff_ffff), // 224/4
        7 => 0xdfff_ffff,
        8 => 0xf000_0000 | (r & 0x0fff_ffff), // 240/4
        9 => r & 0xff,                         // tiny
        10 => 0xc0a8_0000 | (r & 0xffff),      // 192.168/16 (turmoil's default subnet)
        _ => r,
    };
    Ipv4Addr::from(bits)
}
pub(crate) fn gen6(rng: &mut Rng) -> Ipv6Addr {
    let r = rng.u128();
    let bits = match rng.below(12) {
        0 => 0,
        1 => 1,
        2 => r & 0xff,
        3 => 0xff00_0000_0000_0000_0000_0000_0000_0000 | (r >> 8), // ff00::/8
        4 => 0xfe80_0000_0000_0000_0000_0000_0000_0000 | (r >> 64), // link local
        5 => 0x0000_0000_0000_0000_0000_ffff_0000_0000 | (r & 0xffff_ffff), // v4-mapped
        6 => 0x0000_0000_0000_0000_0000_ffff_7f00_0001,               // ::ffff:127.0.0.1
        7 => r & 0xffff_ffff,                                         // below 2^32
        8 => u128::MAX - (r & 0xff),                                  // ip_key carries into bit 128
        9 => 0xfeff_ffff_ffff_ffff_ffff_ffff_ffff_ffff,
        _ => r,
    };
    Ipv6Addr::from(bits)
}
pub(crate) fn gen(rng: &mut Rng) -> IpAddr {
    if rng.bool() { IpAddr::V4(gen4(rng)) } else { IpAddr::V6(gen6(rng)) }
}
/// a pair that is often equal / adjacent
fn gen_pair(rng: &mut Rng) -> (IpAddr, IpAddr) {
    let a = gen(rng);
    let b = match rng.below(5) {
        0 => a,
        1 => match a {
            IpAddr::V4(x) => IpAddr::V4(Ipv4Addr::from(u32::from(x).wrapping_add(1))),
            IpAddr::V6(x) => IpAddr::V6(Ipv6Addr::from(u128::from(x).wrapping_sub(1))),
        },
        2 => match a {
            // same low bits, other family
            IpAddr::V4(x) => IpAddr::V6(Ipv6Addr::from(u32::from(x) as u128)),
            IpAddr::V6(x) => IpAddr::V4(Ipv4Addr::from(u128::from(x) as u32)),
        },
        _ => gen(rng),
    };
    (a, b)
}

pub fn run(cx: &mut Cx) {
    // ---------------------------------------------------------------- ordering / equality
    cx.want(&["v4-v4", "v6-v6", "v4-v6", "v6-v4", "equal", "key-above-2^128"]).check("net.rs::<IpAddr as PartialOrdSpecImpl>::partial_cmp_spec (ip_key order vs std IpAddr: Ord)", |rng| {
        let (a, b) = gen_pair(rng);
        let spec = int_cmp(ip_key(abs(a)), ip_key(abs(b)));
        hit(match (a.is_ipv4(), b.is_ipv4()) { (true, true) => "v4-v4", (false, false) => "v6-v6", (true, false) => "v4-v6", (false, true) => "v6-v4" });
        if a == b {
            hit("equal");
        }
        if ip_key(abs(a)).0 == 1 || ip_key(abs(b)).0 == 1 {
            hit("key-above-2^128");
        }
        ensure!(a.partial_cmp(&b) == spec, "{a} vs {b}: std partial_cmp {:?}, ip_key order {spec:?}", a.partial_cmp(&b));
        ensure!(Some(a.cmp(&b)) == spec, "{a} vs {b}: std cmp {:?}, ip_key order {spec:?}", a.cmp(&b));
        ensure!((a < b) == (spec == Some(Ordering::Less)) && (a <= b) == (spec != Some(Ordering::Greater)), "{a} vs {b}: operators");
        if a.is_ipv4() && b.is_ipv6() {
            ensure!(a < b, "V4 {a} does not sort before V6 {b}");
        }
        Ok(())
    });
    cx.check("net.rs::IpAddr #[derive(PartialOrd, Ord)] (exec order of the stub enum vs std)", |rng| {
        let (a, b) = gen_pair(rng);
        ensure!(abs(a).cmp(&abs(b)) == a.cmp(&b), "{a} vs {b}: derived {:?}, std {:?}", abs(a).cmp(&abs(b)), a.cmp(&b));
        ensure!(abs(a).partial_cmp(&abs(b)) == a.partial_cmp(&b), "{a} vs {b}: derived partial_cmp");
        Ok(())
    });
    cx.check("net.rs::Ipv4Addr #[derive(PartialOrd, Ord)] (numeric order of bits vs std)", |rng| {
        let a = gen4(rng);
        let b = if rng.chance(1, 4) { Ipv4Addr::from(u32::from(a) ^ (1 << rng.below(32))) } else { gen4(rng) };
        ensure!(abs4(a).cmp(&abs4(b)) == a.cmp(&b), "{a} vs {b}: bits order {:?}, std {:?}", abs4(a).cmp(&abs4(b)), a.cmp(&b));
        Ok(())
    });
    cx.check("net.rs::Ipv6Addr #[derive(PartialOrd, Ord)] (numeric order of bits vs std)", |rng| {
        let a = gen6(rng);
        let b = if rng.chance(1, 4) { Ipv6Addr::from(u128::from(a) ^ (1 << rng.below(128))) } else { gen6(rng) };
        ensure!(abs6(a).cmp(&abs6(b)) == a.cmp(&b), "{a} vs {b}: bits order {:?}, std {:?}", abs6(a).cmp(&abs6(b)), a.cmp(&b));
        Ok(())
    });
    cx.check("net.rs::<Ipv4Addr/Ipv6Addr/IpAddr as PartialEqSpecImpl>::eq_spec", |rng| {
        let (a, b) = gen_pair(rng);
        ensure!((a == b) == (abs(a) == abs(b)), "{a} == {b}: std {}, model {}", a == b, abs(a) == abs(b));
        Ok(())
    });
    // ---------------------------------------------------------------- Ipv4Addr
    cx.check("net.rs::Ipv4Addr::{UNSPECIFIED, LOCALHOST, BROADCAST}", |_| {
        ensure!(abs4(Ipv4Addr::UNSPECIFIED).bits == 0, "UNSPECIFIED");
        ensure!(abs4(Ipv4Addr::LOCALHOST).bits == 0x7f00_0001, "LOCALHOST");
        ensure!(abs4(Ipv4Addr::BROADCAST).bits == 0xffff_ffff, "BROADCAST");
        Ok(())
    });
    cx.check("net.rs::Ipv4Addr::new", |rng| {
        let (a, b, c, d) = (rng.u8(), rng.u8(), rng.u8(), rng.u8());
        let spec = ((a as u32) << 24) | ((b as u32) << 16) | ((c as u32) << 8) | (d as u32);
        let r = abs4(Ipv4Addr::new(a, b, c, d));
        ensure!(r.bits == spec, "new({a},{b},{c},{d}).bits = {:#x}, spec {spec:#x}", r.bits);
        Ok(())
    });
    cx.check("net.rs::Ipv4Addr::is_loopback", |rng| {
        let a = gen4(rng);
        let spec = if mutant("loopback") { abs4(a).bits == 0x7f00_0001 } else { (abs4(a).bits >> 24) == 127 };
        ensure!(a.is_loopback() == spec, "{a}");
        Ok(())
    });
    cx.check("net.rs::Ipv4Addr::is_unspecified", |rng| {
        let a = gen4(rng);
        ensure!(a.is_unspecified() == (abs4(a).bits == 0), "{a}");
        Ok(())
    });
    cx.check("net.rs::Ipv4Addr::is_broadcast", |rng| {
        let a = gen4(rng);
        ensure!(a.is_broadcast() == (abs4(a).bits == 0xffff_ffff), "{a}");
        Ok(())
    });
    cx.check("net.rs::Ipv4Addr::is_multicast", |rng| {
        let a = gen4(rng);
        ensure!(a.is_multicast() == ((abs4(a).bits >> 28) == 0xe), "{a}");
        Ok(())
    });
    // ---------------------------------------------------------------- Ipv6Addr
    cx.check("net.rs::Ipv6Addr::{UNSPECIFIED, LOCALHOST}", |_| {
        ensure!(abs6(Ipv6Addr::UNSPECIFIED).bits == 0 && abs6(Ipv6Addr::LOCALHOST).bits == 1, "constants");
        Ok(())
    });
    cx.check("net.rs::Ipv6Addr::new", |rng| {
        let s: [u16; 8] = std::array::from_fn(|_| if rng.chance(1, 4) { 0 } else { rng.u16() });
        let [a, b, c, d, e, f, g, h] = s;
        let spec = ((a as u128) << 112) | ((b as u128) << 96) | ((c as u128) << 80) | ((d as u128) << 64)
            | ((e as u128) << 48) | ((f as u128) << 32) | ((g as u128) << 16) | (h as u128);
        let r = abs6(Ipv6Addr::new(a, b, c, d, e, f, g, h));
        ensure!(r.bits == spec, "new({s:x?}).bits = {:#x}, spec {spec:#x}", r.bits);
        Ok(())
    });
    cx.check("net.rs::Ipv6Addr::is_loopback", |rng| {
        let a = gen6(rng);
        ensure!(a.is_loopback() == (abs6(a).bits == 1), "{a}");
        Ok(())
    });
    cx.check("net.rs::Ipv6Addr::is_unspecified", |rng| {
        let a = gen6(rng);
        ensure!(a.is_unspecified() == (abs6(a).bits == 0), "{a}");
        Ok(())
    });
    cx.check("net.rs::Ipv6Addr::is_multicast", |rng| {
        let a = gen6(rng);
        ensure!(a.is_multicast() == ((abs6(a).bits >> 120) == 0xff), "{a}");
        Ok(())
    });
    // ---------------------------------------------------------------- IpAddr
    cx.check("net.rs::IpAddr::{is_loopback, is_unspecified, is_multicast, is_ipv4, is_ipv6}", |rng| {
        let a = gen(rng);
        let (lb, un, mc) = match abs(a) {
            MIp::V4(x) => ((x.bits >> 24) == 127, x.bits == 0, (x.bits >> 28) == 0xe),
            MIp::V6(x) => (x.bits == 1, x.bits == 0, (x.bits >> 120) == 0xff),
        };
        ensure!(a.is_loopback() == lb, "{a}.is_loopback()");
        ensure!(a.is_unspecified() == un, "{a}.is_unspecified()");
        ensure!(a.is_multicast() == mc, "{a}.is_multicast()");
        ensure!(a.is_ipv4() == matches!(abs(a), MIp::V4(_)) && a.is_ipv6() == matches!(abs(a), MIp::V6(_)), "{a}.is_ipv4/6()");
        Ok(())
    });
    // ---------------------------------------------------------------- SocketAddr as (ip, port)
    cx.check("net.rs::SocketAddr::{new, ip, port, is_ipv4, is_ipv6} + eq_spec", |rng| {
        let (a, b) = gen_pair(rng);
        let (p, q) = (rng.u16() % 4, rng.u16() % 4);
        let (x, y) = (SocketAddr::new(a, p), SocketAddr::new(b, q));
        ensure!(x.ip() == a && x.port() == p, "new({a},{p}) -> ({}, {})", x.ip(), x.port());
        ensure!(x.is_ipv4() == a.is_ipv4() && x.is_ipv6() == a.is_ipv6(), "is_ipv4/6 of {x}");
        ensure!((x == y) == (a == b && p == q), "{x} == {y} is {}", x == y);
        Ok(())
    });
    cx.check("net.rs::SocketAddr::{set_ip, set_port}", |rng| {
        let (a, b) = gen_pair(rng);
        let (p, q) = (rng.u16(), rng.u16());
        let mut x = SocketAddr::new(a, p);
        x.set_ip(b);
        ensure!(x.ip() == b && x.port() == p, "set_ip({b}) on ({a},{p}) -> ({}, {})", x.ip(), x.port());
        ensure!(x == SocketAddr::new(b, p), "set_ip result is not equal to new(ip, port): {x:?}");
        x.set_port(q);
        ensure!(x.ip() == b && x.port() == q, "set_port({q}) -> ({}, {})", x.ip(), x.port());
        ensure!(x == SocketAddr::new(b, q), "set_port result is not equal to new(ip, port): {x:?}");
        Ok(())
    });
    cx.want(&["v4-broadcast", "v4-other", "v6"]).check("udp_indexmap.rs::SocketAddr::idiom_is_v4_broadcast", |rng| {
        // stands for the match arm `SocketAddr::V4(dst) if dst.ip().is_broadcast()`
        let a = match rng.below(4) { 0 => IpAddr::V4(Ipv4Addr::BROADCAST), 1 => IpAddr::V6(Ipv6Addr::from(0xffff_ffffu128)), _ => gen(rng) };
        let x = SocketAddr::new(a, rng.u16());
        let real = match x { SocketAddr::V4(dst) if dst.ip().is_broadcast() => true, _ => false };
        let spec = match abs(a) { MIp::V4(m) => m.bits == 0xffff_ffff, MIp::V6(_) => false };
        hit(if spec { "v4-broadcast" } else if a.is_ipv4() { "v4-other" } else { "v6" });
        ensure!(real == spec, "{x}: arm taken {real}, spec {spec}");
        Ok(())
    });
    // nettcp_sockaddr.rs: SocketAddr in its enum shape; model = V4{ip_, port_} | V6{ip_, port_}
    cx.want(&["v4", "v6", "equal"]).check("nettcp_sockaddr.rs::SockAddr::{new, ip, port, is_ipv4, is_ipv6} + SocketAddrV4/V6::{ip, port} + eq_spec", |rng| {
        #[derive(PartialEq, Eq, Debug, Clone, Copy)]
        enum MSock { V4(M4, u16), V6(M6, u16) }
        let absx = |x: SocketAddr| match x {
            SocketAddr::V4(a) => MSock::V4(abs4(*a.ip()), a.port()),
            SocketAddr::V6(a) => MSock::V6(abs6(*a.ip()), a.port()),
        };
        let (a, b) = gen_pair(rng);
        let (p, q) = (rng.u16() % 3, rng.u16() % 3);
        let (x, y) = (SocketAddr::new(a, p), SocketAddr::new(b, q));
        hit(if a.is_ipv4() { "v4" } else { "v6" });
        // new: r.sip() == ip, r.sport() == port, variant follows the address family
        match (absx(x), abs(a)) {
            (MSock::V4(m, port), MIp::V4(n)) => ensure!(m == n && port == p, "new({a},{p}) = {x:?}"),
            (MSock::V6(m, port), MIp::V6(n)) => ensure!(m == n && port == p, "new({a},{p}) = {x:?}"),
            _ => return Err(format!("new({a},{p}) = {x:?}: wrong variant")),
        }
        ensure!(x.ip() == a && x.port() == p, "ip()/port() of {x:?}");
        ensure!(x.is_ipv4() == matches!(x, SocketAddr::V4(_)) && x.is_ipv6() == matches!(x, SocketAddr::V6(_)), "is_ipv4/is_ipv6 of {x:?}");
        match x {
            SocketAddr::V4(v) => ensure!(IpAddr::V4(*v.ip()) == a && v.port() == p, "SocketAddrV4::ip/port of {v:?}"),
            SocketAddr::V6(v) => ensure!(IpAddr::V6(*v.ip()) == a && v.port() == p, "SocketAddrV6::ip/port of {v:?}"),
        }
        // derived structural equality of the model == std equality (flowinfo / scope id 0), lemma_sockaddr_ext
        if x == y {
            hit("equal");
        }
        ensure!((x == y) == (absx(x) == absx(y)) && (x == y) == (a == b && p == q), "{x} == {y}: std {}, model {}", x == y, absx(x) == absx(y));
        Ok(())
    });
    cx.check("udp_io.rs::SocketAddr::from<(IpAddr, u16)>", |rng| {
        let a = gen(rng);
        let p = rng.u16();
        let x = SocketAddr::from((a, p));
        ensure!(x.ip() == a && x.port() == p && x == SocketAddr::new(a, p), "from(({a},{p})) = {x}");
        Ok(())
    });
}
