//! core.rs (min/max, Ordering, Option, io::Error, rand), clock_time.rs (Option::replace), ports_std.rs
//! (RangeInclusive), hosttcp_atomic.rs (AtomicUsize, Mutex), fs_stdhash.rs (HashSet/HashMap), fs_path.rs
//! (equality of paths is a congruence), barriers_std.rs / clock_world.rs (RefCell), run_tokio.rs (mem::replace).
use crate::{ensure, hit, mutant, panics, Cx, Rng};
use rand::{Rng as _, SeedableRng};
use std::cmp::Ordering;
use std::collections::{BTreeMap, BTreeSet, HashMap, HashSet};
use std::io;
use std::path::Path;
use std::sync::atomic::{AtomicUsize, Ordering as AO};

/// ordered by `key` only: lets the checks tell *which* argument min/max return
#[derive(Clone, Copy, Debug)]
struct Tagged {
    key: u8,
    tag: u32,
}
impl PartialEq for Tagged {
    fn eq(&self, o: &Tagged) -> bool {
        self.key == o.key
    }
}
impl Eq for Tagged {}
impl PartialOrd for Tagged {
    fn partial_cmp(&self, o: &Tagged) -> Option<Ordering> {
        Some(self.cmp(o))
    }
}
impl Ord for Tagged {
    fn cmp(&self, o: &Tagged) -> Ordering {
        self.key.cmp(&o.key)
    }
}
fn same(a: Tagged, b: Tagged) -> bool {
    a.key == b.key && a.tag == b.tag
}
fn gen_ordering(rng: &mut Rng) -> Ordering {
    [Ordering::Less, Ordering::Equal, Ordering::Greater][rng.below(3)]
}

/// the stub's ErrorKind enum, variant by variant, against std's
pub(crate) const KINDS: &[(&str, io::ErrorKind)] = &[
    ("NotFound", io::ErrorKind::NotFound),
    ("PermissionDenied", io::ErrorKind::PermissionDenied),
    ("ConnectionRefused", io::ErrorKind::ConnectionRefused),
    ("ConnectionReset", io::ErrorKind::ConnectionReset),
    ("ConnectionAborted", io::ErrorKind::ConnectionAborted),
    ("NotConnected", io::ErrorKind::NotConnected),
    ("AddrInUse", io::ErrorKind::AddrInUse),
    ("AddrNotAvailable", io::ErrorKind::AddrNotAvailable),
    ("BrokenPipe", io::ErrorKind::BrokenPipe),
    ("AlreadyExists", io::ErrorKind::AlreadyExists),
    ("WouldBlock", io::ErrorKind::WouldBlock),
    ("InvalidInput", io::ErrorKind::InvalidInput),
    ("InvalidData", io::ErrorKind::InvalidData),
    ("TimedOut", io::ErrorKind::TimedOut),
    ("WriteZero", io::ErrorKind::WriteZero),
    ("Interrupted", io::ErrorKind::Interrupted),
    ("Unsupported", io::ErrorKind::Unsupported),
    ("UnexpectedEof", io::ErrorKind::UnexpectedEof),
    ("OutOfMemory", io::ErrorKind::OutOfMemory),
    ("Other", io::ErrorKind::Other),
    ("NotADirectory", io::ErrorKind::NotADirectory),
    ("IsADirectory", io::ErrorKind::IsADirectory),
    ("DirectoryNotEmpty", io::ErrorKind::DirectoryNotEmpty),
    ("HostUnreachable", io::ErrorKind::HostUnreachable),
    ("NetworkUnreachable", io::ErrorKind::NetworkUnreachable),
    ("InvalidFilename", io::ErrorKind::InvalidFilename),
    ("StorageFull", io::ErrorKind::StorageFull),
];

fn gen_path(rng: &mut Rng) -> String {
    let mut s = String::new();
    if rng.chance(1, 3) {
        s.push('/');
    }
    let n = rng.range(0, 4);
    for i in 0..n {
        if i > 0 {
            s.push('/');
        }
        s.push_str(["a", "b", "c", ".", "..", "", "a.txt"][rng.below(7)]);
    }
    if rng.chance(1, 4) {
        s.push('/');
    }
    s
}
/// a different spelling that std normalises to the same component sequence (most of the time)
fn respell(rng: &mut Rng, p: &str) -> String {
    let mut s = p.to_string();
    for _ in 0..rng.range(1, 3) {
        match rng.below(4) {
            0 => s = s.replace('/', "//"),
            1 => {
                if !s.is_empty() {
                    s.push('/')
                }
            }
            2 => {
                if !s.is_empty() && !s.ends_with('/') {
                    s.push_str("/.")
                }
            }
            _ => s = s.replacen('/', "/./", 1),
        }
    }
    s
}

pub fn run(cx: &mut Cx) {
    // =============================================================== core.rs
    cx.want(&["less", "equal", "greater"]).check("core.rs::std::cmp::min", |rng| {
        let a = Tagged { key: rng.u8() % 4, tag: rng.u32() };
        let b = Tagged { key: rng.u8() % 4, tag: rng.u32() };
        hit(match a.cmp(&b) { Ordering::Less => "less", Ordering::Equal => "equal", Ordering::Greater => "greater" });
        let r = std::cmp::min(a, b);
        let exp = if a.partial_cmp(&b) == Some(Ordering::Greater) || (mutant("min_tie") && a == b) { b } else { a };
        ensure!(same(r, exp), "min({a:?}, {b:?}) = {r:?}, spec {exp:?}");
        Ok(())
    });
    cx.want(&["less", "equal", "greater"]).check("core.rs::std::cmp::max", |rng| {
        let a = Tagged { key: rng.u8() % 4, tag: rng.u32() };
        let b = Tagged { key: rng.u8() % 4, tag: rng.u32() };
        hit(match a.cmp(&b) { Ordering::Less => "less", Ordering::Equal => "equal", Ordering::Greater => "greater" });
        let r = std::cmp::max(a, b);
        let exp = if a.partial_cmp(&b) == Some(Ordering::Greater) { a } else { b };
        ensure!(same(r, exp), "max({a:?}, {b:?}) = {r:?}, spec {exp:?}");
        Ok(())
    });
    cx.check("core.rs::Ordering::then", |rng| {
        let (a, b) = (gen_ordering(rng), gen_ordering(rng));
        ensure!(a.then(b) == if a == Ordering::Equal { b } else { a }, "{a:?}.then({b:?}) = {:?}", a.then(b));
        Ok(())
    });
    cx.check("core.rs::Ordering::reverse", |rng| {
        let a = gen_ordering(rng);
        let exp = match a { Ordering::Less => Ordering::Greater, Ordering::Greater => Ordering::Less, Ordering::Equal => Ordering::Equal };
        ensure!(a.reverse() == exp, "{a:?}.reverse() = {:?}", a.reverse());
        Ok(())
    });
    cx.check("core.rs::Option::get_or_insert_with", |rng| {
        let old: Option<u32> = if rng.bool() { Some(rng.u32()) } else { None };
        let mut o = old;
        let (fv, nv) = (rng.u32(), rng.u32());
        let fin_r;
        {
            let r = o.get_or_insert_with(|| fv);
            match old {
                Some(x) => ensure!(*r == x, "Some({x}).get_or_insert_with: slot holds {r}"),
                None => ensure!(*r == fv, "None.get_or_insert_with: slot holds {r}, f() = {fv}"),
            }
            if rng.bool() {
                *r = nv;
            }
            fin_r = *r;
        }
        ensure!(o == Some(fin_r), "after the borrow: {o:?}, final slot {fin_r}");
        Ok(())
    });
    cx.check("clock_time.rs::Option::replace", |rng| {
        let old: Option<u32> = if rng.bool() { Some(rng.u32()) } else { None };
        let mut o = old;
        let v = rng.u32();
        let r = o.replace(v);
        ensure!(o == Some(v) && r == old, "{old:?}.replace({v}) -> {r:?}, left {o:?}");
        Ok(())
    });
    cx.check("run_tokio.rs::std::mem::replace", |rng| {
        let old = rng.bytes(6);
        let src = rng.bytes(6);
        let mut d = old.clone();
        let r = std::mem::replace(&mut d, src.clone());
        ensure!(d == src && r == old, "replace");
        Ok(())
    });
    cx.check("core.rs::Error::{new, from, other, kind, raw_os_error}", |rng| {
        let (name, k) = KINDS[rng.below(KINDS.len())];
        ensure!(format!("{k:?}") == name, "stub variant {name} is std's {k:?}");
        let e = io::Error::new(k, "some message");
        ensure!(e.kind() == k && e.raw_os_error().is_none(), "Error::new({k:?}, _): kind {:?} os {:?}", e.kind(), e.raw_os_error());
        let e = io::Error::from(k);
        ensure!(e.kind() == k && e.raw_os_error().is_none(), "Error::from({k:?}): kind {:?} os {:?}", e.kind(), e.raw_os_error());
        let e = io::Error::other("some message");
        ensure!(e.kind() == io::ErrorKind::Other && e.raw_os_error().is_none(), "Error::other: kind {:?}", e.kind());
        Ok(())
    });
    cx.check("core.rs::Error::from_raw_os_error", |rng| {
        let code = match rng.below(3) { 0 => rng.u32() as i32, 1 => (rng.u32() % 140) as i32, _ => -((rng.u32() % 140) as i32) };
        let e = io::Error::from_raw_os_error(code);
        ensure!(e.raw_os_error() == Some(code), "from_raw_os_error({code}).raw_os_error() = {:?}", e.raw_os_error());
        Ok(())
    });
    cx.check("core.rs::RngCore::random_range_usize", |rng| {
        let mut r = rand::rngs::SmallRng::seed_from_u64(rng.u64());
        let lo = match rng.below(3) { 0 => 0, 1 => rng.below(100), _ => rng.u64() as usize >> 1 };
        let hi = match rng.below(3) { 0 => lo + 1, 1 => lo + 1 + rng.below(100), _ => lo + 1 + (rng.u64() as usize >> 1) }; // requires lo < hi
        let x = r.random_range(lo..hi);
        ensure!(lo <= x && x < hi, "random_range({lo}..{hi}) = {x}");
        Ok(())
    });
    // `requires f64_is_probability(p)`: uninterpreted in Verus, read as 0.0 <= p <= 1.0 (what rand checks)
    cx.check("core.rs::RngCore::random_bool (f64_is_probability(p) read as 0.0 <= p <= 1.0)", |rng| {
        let mut r = rand::rngs::SmallRng::seed_from_u64(rng.u64());
        let p = match rng.below(6) {
            0 => 0.0,
            1 => 1.0,
            2 => f64::MIN_POSITIVE,
            3 => 1.0 - f64::EPSILON / 2.0,
            _ => (rng.u64() >> 11) as f64 / (1u64 << 53) as f64,
        };
        ensure!((0.0..=1.0).contains(&p), "generator: {p} is not a probability");
        ensure!(panics(|| r.random_bool(p)).is_none(), "random_bool({p}) panics inside the precondition");
        Ok(())
    });
    cx.check_n("core.rs::RngCore::random_bool (requires is tight: p outside [0, 1] or NaN panics)", 256, |rng| {
        let mut r = rand::rngs::SmallRng::seed_from_u64(rng.u64());
        let p = match rng.below(6) { 0 => 1.0 + f64::EPSILON, 1 => -f64::MIN_POSITIVE, 2 => f64::NAN, 3 => f64::INFINITY, _ => f64::from_bits(rng.u64()) };
        if (0.0..=1.0).contains(&p) {
            return Ok(());
        }
        ensure!(panics(|| r.random_bool(p)).is_some(), "random_bool({p}) does not panic: the precondition could be weaker");
        Ok(())
    });
    cx.check("core.rs::Exp::sample (stub claims nothing; documented: positive lambda samples >= 0, not NaN)", |rng| {
        use rand_distr::Distribution;
        let mut r = rand::rngs::SmallRng::seed_from_u64(rng.u64());
        let lambda = match rng.below(4) { 0 => 1.0, 1 => f64::MIN_POSITIVE, 2 => 1e300, _ => (1 + rng.u32()) as f64 / 1000.0 };
        let d = rand_distr::Exp::new(lambda).map_err(|e| format!("Exp::new({lambda}): {e}"))?;
        let x: f64 = d.sample(&mut r);
        ensure!(x >= 0.0 && !x.is_nan(), "Exp({lambda}).sample() = {x}");
        Ok(())
    });
    cx.check("core.rs::axiom_f64_{mul,add,sub,div}_total", |rng| {
        let (a, b) = (f64::from_bits(rng.u64()), if rng.chance(1, 4) { 0.0 } else { f64::from_bits(rng.u64()) });
        ensure!(panics(|| std::hint::black_box((a * b, a + b, a - b, a / b))).is_none(), "f64 arithmetic panicked on {a} {b}");
        Ok(())
    });

    // =============================================================== nettable_std.rs
    cx.want(&["some", "none"]).check("nettable_std.rs::Option::or_else", |rng| {
        let o: Option<u32> = if rng.bool() { Some(rng.u32()) } else { None };
        let fr: Option<u32> = if rng.bool() { Some(rng.u32()) } else { None };
        let mut called = 0;
        let r = o.or_else(|| {
            called += 1;
            fr
        });
        if o.is_some() {
            hit("some");
            ensure!(r == o && called == 0, "{o:?}.or_else(..) = {r:?} (closure called {called}x)");
        } else {
            hit("none");
            ensure!(r == fr && called == 1, "None.or_else(|| {fr:?}) = {r:?} (closure called {called}x)");
        }
        Ok(())
    });
    cx.check("nettable_std.rs::Option<&T>::copied", |rng| {
        let x = rng.u32();
        let o: Option<&u32> = if rng.bool() { Some(&x) } else { None };
        let exp = match o { Some(y) => Some(*y), None => None };
        ensure!(o.copied() == exp, "{o:?}.copied() = {:?}", o.copied());
        Ok(())
    });
    cx.want(&["true", "false"]).check("nettable_std.rs::<[T]>::contains", |rng| {
        let v = rng.small_vec(12, 12);
        let x = rng.u8() % 12;
        let r = v[..].contains(&x);
        hit(if r { "true" } else { "false" });
        ensure!(r == v.iter().any(|y| *y == x), "{v:?}.contains({x}) = {r}");
        Ok(())
    });

    // =============================================================== netclose_task.rs / nettcp_task.rs: Waker
    // will_wake is modelled as an exact function of the two wakers (`waker_same(a, b)`, resp. `a.id() == b.id()`), and
    // clone as identity (`r == *self`, resp. `r.id() == self.id()`); Context::waker() is a function of the context.
    // Executable content: will_wake is an equivalence relation, a clone is in the class of its original, and a
    // context hands out a waker of the class it was built from.  (std documents will_wake as best-effort.)
    {
        use std::sync::Arc;
        use std::task::{Context, Wake, Waker};
        struct W(#[allow(dead_code)] u32);
        impl Wake for W {
            fn wake(self: Arc<Self>) {}
        }
        let rt = tokio::runtime::Builder::new_current_thread().build().unwrap();
        // wakers of two different tokio tasks, and of the block_on root
        let task_waker = |rt: &tokio::runtime::Runtime| rt.block_on(async { tokio::spawn(std::future::poll_fn(|cx| std::task::Poll::Ready(cx.waker().clone()))).await.unwrap() });
        let root_waker: Waker = rt.block_on(std::future::poll_fn(|cx| std::task::Poll::Ready(cx.waker().clone())));
        let (a, b) = (Arc::new(W(1)), Arc::new(W(2)));
        let pool: Vec<Waker> = vec![
            Waker::noop().clone(),
            Waker::from(a.clone()),
            Waker::from(a.clone()),
            Waker::from(b.clone()),
            task_waker(&rt),
            task_waker(&rt),
            root_waker,
        ];
        for name in ["netclose_task.rs::Waker::{will_wake, clone} + Context::waker", "nettcp_task.rs::Waker::{will_wake, clone} + Context::waker", "nettable_task.rs::Waker::{will_wake, clone} + Context::waker"] {
            cx.want(&["same", "different"]).check(name, |rng| {
                let (x, y, z) = (&pool[rng.below(pool.len())], &pool[rng.below(pool.len())], &pool[rng.below(pool.len())]);
                hit(if x.will_wake(y) { "same" } else { "different" });
                ensure!(x.will_wake(x), "will_wake is not reflexive");
                ensure!(x.will_wake(y) == y.will_wake(x), "will_wake is not symmetric");
                ensure!(!(x.will_wake(y) && y.will_wake(z)) || x.will_wake(z), "will_wake is not transitive");
                let c = x.clone();
                ensure!(c.will_wake(x) && x.will_wake(&c), "a clone does not will_wake its original");
                ensure!(c.will_wake(y) == x.will_wake(y) && y.will_wake(&c) == y.will_wake(x), "clone changes the will_wake class");
                let cx2 = Context::from_waker(x);
                ensure!(cx2.waker().will_wake(x) && cx2.waker().will_wake(cx2.waker()), "Context::waker() is not the context's waker");
                Ok(())
            });
        }
    }

    // =============================================================== ports_std.rs
    // nettable_std.rs states the same through uninterpreted ri_start / ri_end ("the bounds the range was built with")
    cx.check_in(&["ports_std.rs", "nettable_std.rs"], "RangeInclusive::{start, end}", |rng| {
        let (a, b) = (rng.u16(), rng.u16()); // empty ranges (a > b) included
        let r = a..=b;
        ensure!(*r.start() == a && *r.end() == b, "({a}..={b}).start/end = {}/{}", r.start(), r.end());
        Ok(())
    });
    cx.check("ports_std.rs::<RangeInclusive as Clone>::clone", |rng| {
        let a = rng.u16() % 100;
        let mut r = a..=a + rng.u16() % 5;
        for _ in 0..rng.below(7) {
            r.next(); // partly / fully consumed: the `exhausted` flag is part of the value
        }
        let c = r.clone();
        ensure!(c == r && c.start() == r.start() && c.end() == r.end() && c.clone().count() == r.clone().count(), "clone of {r:?} is {c:?}");
        Ok(())
    });

    // =============================================================== hosttcp_atomic.rs
    cx.check("hosttcp_atomic.rs::AtomicUsize::{new, load}", |rng| {
        let v = rng.u64() as usize;
        ensure!(AtomicUsize::new(v).load(AO::SeqCst) == v, "new/load");
        Ok(())
    });
    cx.want(&["wrap", "no-wrap"]).check("hosttcp_atomic.rs::AtomicUsize::fetch_add", |rng| {
        let v = match rng.below(3) { 0 => usize::MAX - rng.below(5), 1 => rng.below(100), _ => rng.u64() as usize };
        let d = match rng.below(3) { 0 => usize::MAX - rng.below(5), 1 => rng.below(100), _ => rng.u64() as usize };
        let a = AtomicUsize::new(v);
        let ord = [AO::Relaxed, AO::Release, AO::Acquire, AO::AcqRel, AO::SeqCst][rng.below(5)];
        let r = a.fetch_add(d, ord);
        let sum = v as u128 + d as u128;
        hit(if sum > usize::MAX as u128 { "wrap" } else { "no-wrap" });
        let exp = if sum <= usize::MAX as u128 { sum as usize } else { (sum - usize::MAX as u128 - 1) as usize };
        ensure!(r == v && a.load(AO::SeqCst) == exp, "fetch_add({d}) on {v}: returned {r}, now {}, spec {exp}", a.load(AO::SeqCst));
        Ok(())
    });
    cx.want(&["ok", "err"]).check("hosttcp_atomic.rs::AtomicUsize::fetch_update", |rng| {
        let v = rng.u64() as usize % 100;
        let a = AtomicUsize::new(v);
        let limit = rng.below(100);
        let d = rng.below(50);
        // f.ensures((p,), o)  <==>  o == f(p)
        let f = |p: usize| if p >= d && p <= limit { Some(p - d) } else { None };
        let r = a.fetch_update(AO::AcqRel, AO::Acquire, f);
        let now = a.load(AO::SeqCst);
        hit(if r.is_ok() { "ok" } else { "err" });
        match r {
            Ok(p) => ensure!(p == v && f(p) == Some(now), "fetch_update on {v} = Ok({p}), now {now}, f(p) = {:?}", f(p)),
            Err(p) => ensure!(p == v && f(p).is_none() && now == v, "fetch_update on {v} = Err({p}), now {now}, f(p) = {:?}", f(p)),
        }
        Ok(())
    });
    // corrected: load requires o not in {Release, AcqRel}; fetch_update requires fo not in {Release, AcqRel}
    cx.check("hosttcp_atomic.rs::AtomicUsize::{load, fetch_update} (every ordering the preconditions admit)", |rng| {
        let v = rng.below(100);
        let a = AtomicUsize::new(v);
        let all = [AO::Relaxed, AO::Release, AO::Acquire, AO::AcqRel, AO::SeqCst];
        let loads = [AO::Relaxed, AO::Acquire, AO::SeqCst];
        let (o, so, fo) = (loads[rng.below(3)], all[rng.below(5)], loads[rng.below(3)]);
        match panics(|| a.load(o)) {
            Some(msg) => return Err(format!("load({o:?}) panics inside the precondition: {msg:?}")),
            None => ensure!(a.load(o) == v, "load({o:?}) = {}, cell holds {v}", a.load(o)),
        }
        if let Some(msg) = panics(|| a.fetch_update(so, fo, |x| if x % 2 == 0 { Some(x + 1) } else { None })) {
            return Err(format!("fetch_update({so:?}, {fo:?}, _) panics inside the precondition: {msg:?}"));
        }
        Ok(())
    });
    cx.check_n("hosttcp_atomic.rs::AtomicUsize::{load, fetch_update} (requires is tight: Release / AcqRel load orderings panic)", 64, |rng| {
        let a = AtomicUsize::new(rng.below(100));
        let all = [AO::Relaxed, AO::Release, AO::Acquire, AO::AcqRel, AO::SeqCst];
        let bad = [AO::Release, AO::AcqRel][rng.below(2)];
        ensure!(panics(|| a.load(bad)).is_some(), "load({bad:?}) does not panic");
        let so = all[rng.below(5)];
        ensure!(panics(|| a.fetch_update(so, bad, |x| Some(x))).is_some(), "fetch_update({so:?}, {bad:?}, _) does not panic");
        Ok(())
    });
    cx.check_n("hosttcp_atomic.rs::Mutex::lock (r is Ok: a mutex no holder panicked under)", 200, |rng| {
        let m = std::sync::Mutex::new(Some(rng.u32()));
        ensure!(m.lock().is_ok(), "first lock failed");
        let t = m.lock().map_err(|_| "second lock failed")?.take();
        ensure!(t.is_some() && m.lock().is_ok(), "lock after take failed");
        Ok(())
    });

    // =============================================================== barriers_std.rs / clock_world.rs: RefCell as a plain cell
    cx.check("barriers_std.rs::RefCell::{new, borrow, borrow_mut}", |rng| {
        let (v, nv) = (rng.u32(), rng.u32());
        let c = std::cell::RefCell::new(v);
        ensure!(*c.borrow() == v, "borrow after new");
        {
            let mut r = c.borrow_mut();
            ensure!(*r == v, "borrow_mut shows {}", *r);
            *r = nv;
        }
        ensure!(*c.borrow() == nv, "write through borrow_mut lost");
        Ok(())
    });
    cx.check("clock_world.rs::RefCell::get_mut", |rng| {
        let (v, nv) = (rng.u32(), rng.u32());
        let mut c = std::cell::RefCell::new(v);
        {
            let r = c.get_mut();
            ensure!(*r == v, "get_mut shows {}", *r);
            *r = nv;
        }
        ensure!(c.into_inner() == nv, "write through get_mut lost");
        Ok(())
    });

    // =============================================================== fs_stdhash.rs: HashSet / HashMap over Set / Map views
    fn gen_hs(rng: &mut Rng) -> (HashSet<u8>, BTreeSet<u8>) {
        let (mut h, mut m) = (HashSet::new(), BTreeSet::new());
        for _ in 0..rng.range(0, 20) {
            let k = rng.u8() % 16;
            if rng.chance(1, 4) {
                h.remove(&k);
                m.remove(&k);
            } else {
                h.insert(k);
                m.insert(k);
            }
        }
        (h, m)
    }
    fn set_view(h: &HashSet<u8>) -> BTreeSet<u8> {
        (0..=255u8).filter(|k| h.contains(k)).collect()
    }
    cx.check("fs_stdhash.rs::HashSet::{new, len, is_empty, contains}", |rng| {
        let e: HashSet<u8> = HashSet::new();
        ensure!(set_view(&e).is_empty() && e.len() == 0 && e.is_empty(), "new()");
        let (h, m) = gen_hs(rng);
        ensure!(set_view(&h) == m, "generator: contents {:?} vs {m:?}", set_view(&h));
        let k = rng.u8() % 20;
        ensure!(h.len() == m.len() && h.is_empty() == m.is_empty() && h.contains(&k) == m.contains(&k), "len/is_empty/contains({k}) on {m:?}");
        Ok(())
    });
    cx.check("fs_stdhash.rs::HashSet::insert", |rng| {
        let (mut h, mut m) = gen_hs(rng);
        let k = rng.u8() % 20;
        let b = h.insert(k);
        ensure!(b == !m.contains(&k), "insert({k}) on {m:?} returned {b}");
        m.insert(k);
        ensure!(set_view(&h) == m, "insert({k}) -> {:?}, spec {m:?}", set_view(&h));
        Ok(())
    });
    cx.check("fs_stdhash.rs::HashSet::remove", |rng| {
        let (mut h, mut m) = gen_hs(rng);
        let k = rng.u8() % 20;
        let b = h.remove(&k);
        ensure!(b == m.contains(&k), "remove({k}) on {m:?} returned {b}");
        m.remove(&k);
        ensure!(set_view(&h) == m, "remove({k}) -> {:?}, spec {m:?}", set_view(&h));
        Ok(())
    });
    cx.check("fs_stdhash.rs::HashSet::{into_iter, iter, drain} + StdHashIter::{collect, count}", |rng| {
        let (mut h, m) = gen_hs(rng);
        let no_dup = |v: &Vec<u8>| v.iter().collect::<BTreeSet<_>>().len() == v.len();
        let it: Vec<u8> = h.iter().copied().collect();
        ensure!(no_dup(&it) && it.len() == m.len() && it.iter().all(|x| m.contains(x)), "iter() = {it:?} on {m:?}");
        ensure!(h.iter().count() == m.len(), "iter().count()");
        let ii: Vec<u8> = h.clone().into_iter().collect();
        ensure!(no_dup(&ii) && ii.iter().copied().collect::<BTreeSet<u8>>() == m, "into_iter() = {ii:?} on {m:?}");
        let dr: Vec<u8> = h.drain().collect();
        ensure!(no_dup(&dr) && dr.iter().copied().collect::<BTreeSet<u8>>() == m && set_view(&h).is_empty(), "drain() = {dr:?} on {m:?}, left {:?}", set_view(&h));
        Ok(())
    });
    fn gen_hm(rng: &mut Rng) -> (HashMap<u8, u32>, BTreeMap<u8, u32>) {
        let (mut h, mut m) = (HashMap::new(), BTreeMap::new());
        for _ in 0..rng.range(0, 20) {
            let k = rng.u8() % 16;
            if rng.chance(1, 4) {
                h.remove(&k);
                m.remove(&k);
            } else {
                let v = rng.u32() % 1000;
                h.insert(k, v);
                m.insert(k, v);
            }
        }
        (h, m)
    }
    fn map_view(h: &HashMap<u8, u32>) -> BTreeMap<u8, u32> {
        (0..=255u8).filter_map(|k| h.get(&k).map(|v| (k, *v))).collect()
    }
    cx.check("fs_stdhash.rs::HashMap::{new, len, contains_key, get}", |rng| {
        let e: HashMap<u8, u32> = HashMap::new();
        ensure!(map_view(&e).is_empty() && e.len() == 0, "new()");
        let (h, m) = gen_hm(rng);
        ensure!(map_view(&h) == m, "generator: contents differ");
        let k = rng.u8() % 20;
        ensure!(h.len() == m.len() && h.contains_key(&k) == m.contains_key(&k) && h.get(&k) == m.get(&k), "len/contains_key/get({k}) on {m:?}");
        Ok(())
    });
    cx.check("fs_stdhash.rs::HashMap::insert", |rng| {
        let (mut h, mut m) = gen_hm(rng);
        let (k, v) = (rng.u8() % 20, rng.u32());
        let r = h.insert(k, v);
        ensure!(r == m.get(&k).copied(), "insert({k},{v}) on {m:?} returned {r:?}");
        m.insert(k, v);
        ensure!(map_view(&h) == m, "insert({k},{v}) -> {:?}, spec {m:?}", map_view(&h));
        Ok(())
    });
    cx.check("fs_stdhash.rs::HashMap::remove", |rng| {
        let (mut h, mut m) = gen_hm(rng);
        let k = rng.u8() % 20;
        let r = h.remove(&k);
        ensure!(r == m.get(&k).copied(), "remove({k}) on {m:?} returned {r:?}");
        m.remove(&k);
        ensure!(map_view(&h) == m, "remove({k}) -> {:?}, spec {m:?}", map_view(&h));
        Ok(())
    });
    cx.check("fs_stdhash.rs::HashMap::{into_iter, iter, keys, values, drain}", |rng| {
        let (mut h, m) = gen_hm(rng);
        let ii: Vec<(u8, u32)> = h.clone().into_iter().collect();
        ensure!(ii.len() == m.len() && ii.iter().copied().collect::<BTreeMap<u8, u32>>() == m, "into_iter() = {ii:?} on {m:?}");
        ensure!(h.iter().count() == m.len() && h.values().count() == m.len(), "iter()/values() length");
        let ks: Vec<u8> = h.keys().copied().collect();
        ensure!(ks.len() == m.len() && ks.iter().copied().collect::<BTreeSet<u8>>().len() == ks.len() && ks.iter().all(|k| m.contains_key(k)), "keys() = {ks:?} on {m:?}");
        let n = h.drain().count();
        ensure!(n == m.len() && map_view(&h).is_empty(), "drain(): {n} items, left {:?}", map_view(&h));
        Ok(())
    });

    // =============================================================== fs_path.rs
    // The stub identifies a path with an abstract value on which exec `==` is spec equality, and makes
    // parent() / starts_with() / as_os_str().is_empty() spec functions of that value.  That is sound iff std's
    // Path equality is a congruence for those operations (and for Hash, since paths are IndexMap keys).
    cx.want(&["equal-respelled", "no-parent", "empty"]).check("fs_path.rs::Path (== is a congruence for parent / starts_with / as_os_str().is_empty / Hash; clone, to_path_buf)", |rng| {
        use std::hash::{BuildHasher, RandomState};
        let ps = gen_path(rng);
        let qs = if rng.chance(3, 4) { respell(rng, &ps) } else { gen_path(rng) };
        let bs = if rng.bool() { gen_path(rng) } else { ps.chars().take(rng.below(ps.len() + 1)).collect() };
        let (p, q, base) = (Path::new(&ps), Path::new(&qs), Path::new(&bs));
        ensure!(p.to_path_buf() == p && p.to_path_buf().clone() == p.to_path_buf(), "to_path_buf/clone of {ps:?} is not equal to it");
        if p == q {
            hit(if ps == qs { "same-spelling" } else { "equal-respelled" });
            if p.parent().is_none() {
                hit("no-parent");
            }
            if p.as_os_str().is_empty() {
                hit("empty");
            }
            ensure!(p.parent() == q.parent(), "{ps:?} == {qs:?} but parent() differs: {:?} vs {:?}", p.parent(), q.parent());
            ensure!(p.starts_with(base) == q.starts_with(base), "{ps:?} == {qs:?} but starts_with({bs:?}) differs");
            ensure!(base.starts_with(p) == base.starts_with(q), "{ps:?} == {qs:?} but {bs:?}.starts_with(_) differs");
            ensure!(p.as_os_str().is_empty() == q.as_os_str().is_empty(), "{ps:?} == {qs:?} but as_os_str().is_empty() differs");
            let h = RandomState::new();
            ensure!(h.hash_one(p) == h.hash_one(q), "{ps:?} == {qs:?} but the hashes differ");
        }
        Ok(())
    });
}
