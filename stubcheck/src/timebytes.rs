//! std::time::Duration / tokio::time::Instant against prelude/time.rs, clock_time.rs, rules_time.rs;
//! bytes::{Bytes, BytesMut, Buf} against hosttcp_bytes.rs, netclose_bytes.rs, udp_bytes.rs;
//! tokio::io::ReadBuf against hosttcp_io.rs.
//!
//! Duration / Instant are mathematical naturals (nanoseconds) in the stubs: view(d) = d.as_nanos(),
//! view(i) = nanoseconds since a fixed base instant.  Inputs stay inside the range where the real
//! operations do not overflow (the stub's stated assumption).
use crate::{ensure, hit, mutant, Cx, Rng};
use bytes::{Buf, BufMut, Bytes, BytesMut};
use std::cmp::Ordering;
use std::time::Duration;
use tokio::io::ReadBuf;
use tokio::time::Instant;

fn ns(d: Duration) -> u128 {
    d.as_nanos()
}
fn gen_dur(rng: &mut Rng) -> Duration {
    match rng.below(8) {
        0 => Duration::ZERO,
        1 => Duration::from_nanos(rng.u64() % 2000),
        2 => Duration::from_nanos(rng.u64()),
        3 => Duration::new(rng.u64() >> 2, rng.u32() % 1_000_000_000),
        4 => Duration::from_millis(rng.u32() as u64),
        5 => Duration::new(rng.u64() % 100, 999_999_999 - rng.u32() % 3),
        6 => Duration::new(rng.u64() % 100, rng.u32() % 3),
        _ => Duration::from_micros(rng.u64() % 10_000_000),
    }
}
/// pairs that are often equal or one tick apart
fn gen_dur_pair(rng: &mut Rng) -> (Duration, Duration) {
    let a = gen_dur(rng);
    let b = match rng.below(5) {
        0 => a,
        1 => a + Duration::from_nanos(1),
        2 => a.saturating_sub(Duration::from_nanos(1)),
        _ => gen_dur(rng),
    };
    (a, b)
}
fn nat_cmp(a: u128, b: u128) -> Option<Ordering> {
    Some(a.cmp(&b))
}
fn sat(a: u128, b: u128) -> u128 {
    if a >= b { a - b } else if mutant("sat_sub") { b - a } else { 0 }
}

// ---- bytes state generation ----
fn gen_bytes(rng: &mut Rng) -> Bytes {
    let data = rng.bytes(40);
    let mut b = match rng.below(4) {
        0 => Bytes::copy_from_slice(&data),
        1 => Bytes::from(data),
        2 => {
            let mut m = BytesMut::new();
            m.extend_from_slice(&data);
            m.freeze()
        }
        _ => Bytes::from_static(b"static bytes: 0123456789abcdefghijklmnopqrstuvwxyz"),
    };
    // views into shared storage
    for _ in 0..rng.range(0, 4) {
        let n = b.len();
        match rng.below(5) {
            0 => {
                let at = rng.range(0, n);
                let _head = b.split_to(at);
            }
            1 => {
                let at = rng.range(0, n);
                let _tail = b.split_off(at);
            }
            2 => b.advance(rng.range(0, n)),
            3 => {
                let lo = rng.range(0, n);
                let hi = rng.range(lo, n);
                b = b.slice(lo..hi);
            }
            _ => b = b.clone(),
        }
    }
    b
}
/// the view: the byte string; len / deref / chunk must agree on it
fn bview(b: &Bytes) -> Result<Vec<u8>, String> {
    let v: Vec<u8> = b.iter().copied().collect();
    ensure!(v.len() == b.len() && b.chunk() == &v[..] && b.remaining() == v.len(), "Bytes observers disagree");
    Ok(v)
}
fn gen_bytes_mut(rng: &mut Rng) -> BytesMut {
    let mut m = if rng.bool() { BytesMut::new() } else { BytesMut::with_capacity(rng.range(0, 64)) };
    for _ in 0..rng.range(0, 6) {
        let n = m.len();
        match rng.below(7) {
            0 | 1 => m.extend_from_slice(&rng.bytes(20)),
            2 => m.put_u8(rng.u8()),
            3 => {
                let _ = m.split_to(rng.range(0, n));
            }
            4 => {
                let _ = m.split_off(rng.range(0, n));
            }
            5 => m.advance(rng.range(0, n)),
            _ => m.reserve(rng.range(0, 100)),
        }
    }
    m
}

pub fn run(cx: &mut Cx) {
    // =============================================================== Duration (time.rs)
    cx.check("time.rs::<Duration as PartialEqSpecImpl>::eq_spec", |rng| {
        let (a, b) = gen_dur_pair(rng);
        ensure!((a == b) == (ns(a) == ns(b)), "{a:?} == {b:?}");
        Ok(())
    });
    cx.check("time.rs::<Duration as PartialOrdSpecImpl>::partial_cmp_spec", |rng| {
        let (a, b) = gen_dur_pair(rng);
        ensure!(a.partial_cmp(&b) == nat_cmp(ns(a), ns(b)), "{a:?} vs {b:?}");
        ensure!((a < b) == (ns(a) < ns(b)) && (a <= b) == (ns(a) <= ns(b)) && (a > b) == (ns(a) > ns(b)) && (a >= b) == (ns(a) >= ns(b)), "operators {a:?} {b:?}");
        Ok(())
    });
    cx.check("rules_time.rs::<Duration as OrdSpecImpl>::cmp_spec", |rng| {
        let (a, b) = gen_dur_pair(rng);
        ensure!(a.cmp(&b) == ns(a).cmp(&ns(b)), "{a:?} vs {b:?}");
        Ok(())
    });
    cx.check("rules_time.rs::<Duration as Default>::default", |_| {
        ensure!(ns(Duration::default()) == 0, "default is not zero");
        Ok(())
    });
    cx.check("time.rs::Duration::ZERO", |_| {
        ensure!(ns(Duration::ZERO) == 0, "ZERO");
        Ok(())
    });
    cx.check("time.rs::<Duration as Add>::add", |rng| {
        let (a, b) = gen_dur_pair(rng);
        ensure!(ns(a + b) == ns(a) + ns(b), "{a:?} + {b:?} = {:?}", a + b);
        Ok(())
    });
    cx.check("time.rs::<Duration as Sub>::sub", |rng| {
        let (a, b) = gen_dur_pair(rng);
        let (a, b) = if a >= b { (a, b) } else { (b, a) }; // sub_req: self.ns >= rhs.ns
        ensure!(ns(a - b) == ns(a) - ns(b), "{a:?} - {b:?} = {:?}", a - b);
        Ok(())
    });
    for name in ["time.rs::<Duration as AddAssign>::add_assign", "clock_time.rs::<Duration as AddAssignSpecImpl>::add_assign_spec"] {
        cx.check(name, |rng| {
            let (a, b) = gen_dur_pair(rng);
            let mut x = a;
            x += b;
            ensure!(ns(x) == ns(a) + ns(b), "{a:?} += {b:?} gives {x:?}");
            Ok(())
        });
    }
    cx.check("time.rs::Duration::from_millis", |rng| {
        let ms = match rng.below(4) { 0 => u64::MAX - rng.u64() % 3, 1 => rng.u64() % 3000, _ => rng.u64() };
        ensure!(ns(Duration::from_millis(ms)) == ms as u128 * 1_000_000, "from_millis({ms})");
        Ok(())
    });
    cx.check("time.rs::Duration::from_secs", |rng| {
        let s = match rng.below(4) { 0 => u64::MAX - rng.u64() % 3, 1 => rng.u64() % 3000, _ => rng.u64() };
        ensure!(ns(Duration::from_secs(s)) == s as u128 * 1_000_000_000, "from_secs({s})");
        Ok(())
    });
    cx.check("time.rs::Duration::from_nanos", |rng| {
        let n = match rng.below(4) { 0 => u64::MAX - rng.u64() % 3, 1 => rng.u64() % 3000, _ => rng.u64() };
        ensure!(ns(Duration::from_nanos(n)) == n as u128, "from_nanos({n})");
        Ok(())
    });
    cx.check("time.rs::Duration::as_millis", |rng| {
        // view through secs/subsec so that as_nanos is not used on both sides
        let d = gen_dur(rng);
        let n = d.as_secs() as u128 * 1_000_000_000 + d.subsec_nanos() as u128;
        ensure!(d.as_millis() == n / 1_000_000, "{d:?}.as_millis() = {}", d.as_millis());
        Ok(())
    });
    cx.check("time.rs::Duration::as_nanos", |rng| {
        let d = gen_dur(rng);
        let n = d.as_secs() as u128 * 1_000_000_000 + d.subsec_nanos() as u128;
        ensure!(d.as_nanos() == n, "{d:?}.as_nanos() = {}", d.as_nanos());
        Ok(())
    });
    cx.check("time.rs::Duration::is_zero", |rng| {
        let d = gen_dur(rng);
        ensure!(d.is_zero() == (ns(d) == 0), "{d:?}.is_zero()");
        Ok(())
    });
    cx.check("time.rs::Duration::saturating_sub", |rng| {
        let (a, b) = gen_dur_pair(rng);
        ensure!(ns(a.saturating_sub(b)) == sat(ns(a), ns(b)), "{a:?}.saturating_sub({b:?}) = {:?}", a.saturating_sub(b));
        Ok(())
    });

    // =============================================================== tokio::time::Instant (time.rs)
    let base = Instant::now(); // no runtime: the std clock
    let at = move |x: u64| base + Duration::from_nanos(x);
    let iview = move |i: Instant| i.duration_since(base).as_nanos();
    let gen_off = |rng: &mut Rng| match rng.below(4) { 0 => rng.u64() % 1000, 1 => rng.u64() >> 2, _ => rng.u64() % 10_000_000_000 };
    let gen_off_pair = move |rng: &mut Rng| {
        let a = gen_off(rng);
        let b = match rng.below(4) { 0 => a, 1 => a + 1, 2 => a.saturating_sub(1), _ => gen_off(rng) };
        (a, b)
    };
    cx.check("time.rs::<Instant as PartialEqSpecImpl/PartialOrdSpecImpl>::{eq_spec, partial_cmp_spec}", |rng| {
        let (a, b) = gen_off_pair(rng);
        let (x, y) = (at(a), at(b));
        ensure!(iview(x) == a as u128 && iview(y) == b as u128, "view of base+{a}ns");
        ensure!((x == y) == (a == b), "eq at {a} {b}");
        ensure!(x.partial_cmp(&y) == nat_cmp(a as u128, b as u128) && x.cmp(&y) == a.cmp(&b), "cmp at {a} {b}");
        ensure!((x < y) == (a < b) && (x <= y) == (a <= b), "operators at {a} {b}");
        Ok(())
    });
    cx.check("time.rs::<Instant as Add<Duration>>::add", |rng| {
        let a = gen_off(rng);
        let d = Duration::from_nanos(gen_off(rng));
        ensure!(iview(at(a) + d) == a as u128 + ns(d), "base+{a}ns + {d:?}");
        Ok(())
    });
    cx.check("time.rs::<Instant as Sub<Instant>>::sub (saturating)", |rng| {
        let (a, b) = gen_off_pair(rng);
        let d = at(a) - at(b);
        ensure!(ns(d) == sat(a as u128, b as u128), "(base+{a}ns) - (base+{b}ns) = {d:?}");
        Ok(())
    });
    // now()/elapsed(): `tokio_now()` is a constant of the stub, i.e. the paused clock does not move inside one
    // synchronous step.  Checked on a paused current-thread runtime, between awaits.
    {
        let rt = tokio::runtime::Builder::new_current_thread().enable_time().start_paused(true).build().unwrap();
        let n = cx.n.min(500);
        cx.check_n("time.rs::Instant::{now, elapsed} (paused tokio clock, one synchronous step)", n, |rng| {
            rt.block_on(async {
                let t0 = Instant::now();
                tokio::time::advance(Duration::from_nanos(rng.u64() % 5_000_000_000)).await;
                // --- one synchronous step: now() is one value
                let n1 = Instant::now();
                std::hint::black_box((0..200).sum::<u32>());
                let n2 = Instant::now();
                ensure!(n1 == n2, "now() moved inside a synchronous step: {n1:?} -> {n2:?}");
                let past = t0;
                let future = n1 + Duration::from_nanos(1 + rng.u64() % 1000);
                ensure!(past.elapsed() == n1 - past, "elapsed() of a past instant {:?} != now - self {:?}", past.elapsed(), n1 - past);
                ensure!(future.elapsed() == Duration::ZERO, "elapsed() of a future instant = {:?}, spec 0", future.elapsed());
                ensure!(n1.elapsed() == Duration::ZERO, "now().elapsed() != 0");
                Ok(())
            })
        });
    }

    // =============================================================== bytes::Bytes
    cx.check_in(&["hosttcp_bytes.rs", "netclose_bytes.rs", "nettcp_bytes.rs", "nettable_ext.rs"], "Bytes::new", |_| {
        ensure!(bview(&Bytes::new())?.is_empty(), "Bytes::new() not empty");
        Ok(())
    });
    cx.check_in(&["hosttcp_bytes.rs", "udp_bytes.rs", "nettcp_bytes.rs"], "Bytes::copy_from_slice", |rng| {
        let d = rng.bytes(40);
        ensure!(bview(&Bytes::copy_from_slice(&d))? == d, "copy_from_slice({d:?})");
        Ok(())
    });
    cx.check_in(&["hosttcp_bytes.rs", "netclose_bytes.rs", "udp_bytes.rs", "nettcp_bytes.rs", "nettable_ext.rs"], "Bytes::len", |rng| {
        let b = gen_bytes(rng);
        ensure!(b.len() == bview(&b)?.len(), "len");
        Ok(())
    });
    cx.check_in(&["hosttcp_bytes.rs", "netclose_bytes.rs", "udp_bytes.rs", "nettcp_bytes.rs"], "Bytes::is_empty", |rng| {
        let b = if rng.chance(1, 4) { Bytes::new() } else { gen_bytes(rng) };
        ensure!(b.is_empty() == (bview(&b)?.len() == 0), "is_empty");
        Ok(())
    });
    cx.check_in(&["hosttcp_bytes.rs", "netclose_bytes.rs", "udp_bytes.rs", "nettcp_bytes.rs"], "<Bytes as Clone>::clone", |rng| {
        let b = gen_bytes(rng);
        ensure!(bview(&b.clone())? == bview(&b)?, "clone differs");
        Ok(())
    });
    cx.check_in(&["udp_bytes.rs", "nettcp_bytes.rs"], "<Bytes as Deref>::deref", |rng| {
        let b = gen_bytes(rng);
        let by_index: Vec<u8> = (0..b.len()).map(|i| b[i]).collect();
        let r: &[u8] = &b;
        ensure!(r.to_vec() == by_index && r == b.as_ref(), "deref");
        Ok(())
    });
    cx.check("hosttcp_bytes.rs::Bytes::advance", |rng| {
        let mut b = gen_bytes(rng);
        let pre = bview(&b)?;
        let cnt = rng.range(0, pre.len()); // requires cnt <= len
        b.advance(cnt);
        ensure!(bview(&b)? == pre[cnt..].to_vec(), "advance({cnt}) on {pre:?} -> {:?}", bview(&b)?);
        Ok(())
    });
    cx.check("hosttcp_bytes.rs::Bytes::split_to", |rng| {
        let mut b = gen_bytes(rng);
        let pre = bview(&b)?;
        let at = rng.range(0, pre.len()); // requires at <= len
        let r = b.split_to(at);
        let (r, b) = if mutant("split_to") { (b, r) } else { (r, b) };
        ensure!(bview(&r)? == pre[..at].to_vec() && bview(&b)? == pre[at..].to_vec(), "split_to({at}) on {pre:?} -> {:?} / {:?}", bview(&r)?, bview(&b)?);
        Ok(())
    });
    cx.check("hosttcp_bytes.rs::Bytes::slice", |rng| {
        let b = gen_bytes(rng);
        let pre = bview(&b)?;
        let lo = rng.range(0, pre.len());
        let hi = rng.range(lo, pre.len()); // requires lo <= hi <= len
        let r = b.slice(lo..hi);
        ensure!(bview(&r)? == pre[lo..hi].to_vec() && bview(&b)? == pre, "slice({lo}..{hi}) on {pre:?} -> {:?}", bview(&r)?);
        Ok(())
    });
    cx.check("hosttcp_bytes.rs::<Bytes as Index<RangeTo<usize>>>::index", |rng| {
        let b = gen_bytes(rng);
        let pre = bview(&b)?;
        let n = rng.range(0, pre.len()); // index_req: end <= len
        let o: &[u8] = &b[..n];
        ensure!(o.to_vec() == pre[..n].to_vec(), "&b[..{n}]");
        Ok(())
    });
    cx.check("hosttcp_bytes.rs::<&[u8] as Buf>::remaining", |rng| {
        let d = rng.bytes(40);
        let s: &[u8] = &d[rng.range(0, d.len())..];
        ensure!(Buf::remaining(&s) == s.len(), "remaining of a slice");
        Ok(())
    });
    // Bytes equality is equality of contents (nettcp_bytes.rs eq_spec; nettable_ext.rs: axiom_bytes_ext makes a
    // Bytes *be* its content, `eq` and `clone` are then spec equality)
    for name in ["nettcp_bytes.rs::<Bytes as PartialEqSpecImpl>::eq_spec", "nettable_ext.rs::axiom_bytes_ext + <Bytes as PartialEq>::eq + <Bytes as Clone>::clone"] {
        cx.want(&["equal-shared", "equal-distinct-storage", "different"]).check(name, |rng| {
            let a = gen_bytes(rng);
            let b = match rng.below(4) {
                0 => {
                    hit("equal-shared");
                    a.clone()
                }
                1 => {
                    hit("equal-distinct-storage");
                    Bytes::from(bview(&a)?) // same content, other allocation
                }
                2 => {
                    let mut v = bview(&a)?;
                    if v.is_empty() { v.push(1) } else { let i = rng.below(v.len()); v[i] ^= 1 << rng.below(8); }
                    Bytes::from(v)
                }
                _ => gen_bytes(rng),
            };
            let same = bview(&a)? == bview(&b)?;
            if !same {
                hit("different");
            }
            ensure!((a == b) == same, "{a:?} == {b:?} is {}, contents equal: {same}", a == b);
            ensure!(a.clone() == a, "a clone is not equal to its original");
            Ok(())
        });
    }
    cx.check("nettable_ext.rs::Bytes::copy_from_slice<S: ByteSource> (from &[u8] and from &Bytes)", |rng| {
        let d = rng.bytes(40);
        ensure!(bview(&Bytes::copy_from_slice(&d[..]))? == d, "copy_from_slice(&[u8])");
        let src = gen_bytes(rng);
        ensure!(bview(&Bytes::copy_from_slice(&src))? == bview(&src)?, "copy_from_slice(&Bytes) through deref");
        Ok(())
    });

    // =============================================================== bytes::BytesMut (netclose_bytes.rs, nettcp_bytes.rs)
    fn mview(m: &BytesMut) -> Result<Vec<u8>, String> {
        let v: Vec<u8> = m.iter().copied().collect();
        ensure!(v.len() == m.len() && m.chunk() == &v[..], "BytesMut observers disagree");
        Ok(v)
    }
    cx.check("nettcp_bytes.rs::<BytesMut as Deref>::deref", |rng| {
        let m = gen_bytes_mut(rng);
        let by_index: Vec<u8> = (0..m.len()).map(|i| m[i]).collect();
        let r: &[u8] = &m;
        ensure!(r.to_vec() == by_index && r == m.as_ref(), "deref");
        Ok(())
    });
    cx.want(&["empty-ext", "grow"]).check("nettcp_bytes.rs::BytesMut::extend_from_slice", |rng| {
        let mut m = gen_bytes_mut(rng);
        let pre = mview(&m)?;
        let ext = if rng.chance(1, 5) { vec![] } else { rng.bytes(200) };
        hit(if ext.is_empty() { "empty-ext" } else { "grow" });
        m.extend_from_slice(&ext);
        let exp: Vec<u8> = [&pre[..], &ext[..]].concat();
        ensure!(mview(&m)? == exp, "extend_from_slice: {} + {} bytes -> {} bytes", pre.len(), ext.len(), m.len());
        Ok(())
    });
    cx.check("nettcp_bytes.rs::BytesMut::split_to", |rng| {
        let mut m = gen_bytes_mut(rng);
        let pre = mview(&m)?;
        let at = rng.range(0, pre.len()); // requires at <= len
        let r = m.split_to(at);
        ensure!(mview(&r)? == pre[..at].to_vec() && mview(&m)? == pre[at..].to_vec(), "split_to({at}) on {pre:?} -> {:?} / {:?}", mview(&r)?, mview(&m)?);
        // the two halves are independent buffers afterwards
        let mut r = r;
        r.extend_from_slice(b"xyz");
        ensure!(mview(&m)? == pre[at..].to_vec(), "writing to the split-off head changed the tail");
        Ok(())
    });
    cx.check("nettcp_bytes.rs::BytesMut::advance", |rng| {
        let mut m = gen_bytes_mut(rng);
        let pre = mview(&m)?;
        let cnt = rng.range(0, pre.len()); // requires cnt <= len
        m.advance(cnt);
        ensure!(mview(&m)? == pre[cnt..].to_vec(), "advance({cnt}) on {pre:?} -> {:?}", mview(&m)?);
        Ok(())
    });
    cx.check("nettcp_bytes.rs::BytesMut::freeze", |rng| {
        let m = gen_bytes_mut(rng);
        let pre = mview(&m)?;
        ensure!(bview(&m.freeze())? == pre, "freeze changed the content");
        Ok(())
    });
    cx.check_in(&["netclose_bytes.rs", "nettcp_bytes.rs"], "BytesMut::new", |_| {
        let m = BytesMut::new();
        ensure!(m.len() == 0 && m.is_empty() && m[..].is_empty(), "BytesMut::new() not empty");
        Ok(())
    });
    cx.check_in(&["netclose_bytes.rs", "nettcp_bytes.rs"], "BytesMut::len", |rng| {
        let m = gen_bytes_mut(rng);
        ensure!(m.len() == m.iter().count() && m.len() == m[..].len(), "len");
        Ok(())
    });
    cx.check_in(&["netclose_bytes.rs", "nettcp_bytes.rs"], "BytesMut::is_empty", |rng| {
        let m = if rng.chance(1, 4) { BytesMut::new() } else { gen_bytes_mut(rng) };
        ensure!(m.is_empty() == (m.iter().count() == 0), "is_empty");
        Ok(())
    });
    cx.check_in(&["netclose_bytes.rs", "nettcp_bytes.rs"], "BytesMut::clear", |rng| {
        let mut m = gen_bytes_mut(rng);
        m.clear();
        ensure!(m.iter().count() == 0 && m.len() == 0, "clear left bytes");
        Ok(())
    });

    // =============================================================== tokio::io::ReadBuf (hosttcp_io.rs)
    // view = (filled bytes, capacity)
    fn with_readbuf<T>(rng: &mut Rng, f: impl FnOnce(&mut Rng, &mut ReadBuf<'_>) -> T) -> T {
        let cap = rng.range(0, 32);
        let mut init = vec![0u8; cap];
        let mut uninit = [std::mem::MaybeUninit::<u8>::uninit(); 32];
        let mut rb = if rng.bool() { ReadBuf::new(&mut init) } else { ReadBuf::uninit(&mut uninit[..cap]) };
        for _ in 0..rng.range(0, 4) {
            match rng.below(5) {
                0 => rb.clear(),
                1 => {
                    let k = rng.range(0, rb.filled().len());
                    rb.set_filled(k);
                }
                _ => {
                    let n = rng.range(0, rb.remaining());
                    let d: Vec<u8> = (0..n).map(|_| rng.u8()).collect();
                    rb.put_slice(&d);
                }
            }
        }
        f(rng, &mut rb)
    }
    cx.check("hosttcp_io.rs::axiom_readbuf_bounded", |rng| {
        with_readbuf(rng, |_, rb| {
            ensure!(rb.filled().len() <= rb.capacity(), "filled {} > capacity {}", rb.filled().len(), rb.capacity());
            Ok(())
        })
    });
    cx.check("hosttcp_io.rs::ReadBuf::capacity", |rng| {
        let cap = rng.range(0, 64);
        let mut s = vec![0u8; cap];
        let mut rb = ReadBuf::new(&mut s);
        let n = rng.range(0, cap);
        rb.put_slice(&vec![1u8; n]);
        ensure!(rb.capacity() == cap, "capacity {} of a buffer over {cap} bytes", rb.capacity());
        Ok(())
    });
    cx.check("hosttcp_io.rs::ReadBuf::remaining", |rng| {
        with_readbuf(rng, |_, rb| {
            ensure!(rb.remaining() == rb.capacity() - rb.filled().len(), "remaining {} cap {} filled {}", rb.remaining(), rb.capacity(), rb.filled().len());
            Ok(())
        })
    });
    cx.check("hosttcp_io.rs::ReadBuf::put_slice", |rng| {
        with_readbuf(rng, |rng, rb| {
            let (pre, cap) = (rb.filled().to_vec(), rb.capacity());
            let n = rng.range(0, cap - pre.len()); // requires buf.len() <= cap - filled.len()
            let d: Vec<u8> = (0..n).map(|_| rng.u8()).collect();
            rb.put_slice(&d);
            let exp: Vec<u8> = [&pre[..], &d[..]].concat();
            ensure!(rb.filled() == &exp[..] && rb.capacity() == cap, "put_slice({d:?}) on {pre:?}/{cap} -> {:?}/{}", rb.filled(), rb.capacity());
            Ok(())
        })
    });
}
