//! Round 3: stubs added to the prelude after the first merge of stubcheck --
//! uring_ext.rs, udp_sock.rs, ports_dns.rs, hosttcp_task.rs, barriers_build.rs / barriers_wait.rs / barriers_await.rs,
//! fsshim_std.rs, seedflow_rand.rs / seedflow_tokio.rs / seedflow_std.rs, step_std.rs, barriers_uuid.rs, and the small
//! additions to nettable_ext.rs, nettable_std.rs, netclose_idiom.rs, nettcp_try.rs.
//!
//! Many of these stubs are stated over UNINTERPRETED functions (parse_ip_spec, draw_val, seeded_u64, rt_seed, ...): the
//! value is not claimed, only the SHAPE -- "the result is a function of these arguments and of nothing else".  For those
//! the check is a determinism / congruence test: equal arguments (built independently) give equal results.
use crate::im::{im_get, im_has, im_idx, obs, pick_index, pick_key, push, seq_filter_by, seq_remove, swap_removed, update, K, V};
use crate::{ensure, hit, im, netaddr, panics, seqs, Cx, Rng, R};
use indexmap::map::Entry;
use indexmap::IndexMap;
use rand::{Rng as _, RngCore, SeedableRng};
use std::collections::VecDeque;
use std::net::{IpAddr, Ipv4Addr, Ipv6Addr, SocketAddr, SocketAddrV4, SocketAddrV6};
use std::str::FromStr;
use std::task::Poll;

fn pred(rng: &mut Rng) -> impl Fn(&u8) -> bool + Copy {
    im::pred(rng)
}

// ---------------------------------------------------------------------------------------------- text generators
fn gen_name(rng: &mut Rng) -> String {
    let n = rng.range(0, 5);
    (0..n).map(|_| ['a', 'b', 'c', '.', 'é', '0'][rng.below(6)]).collect()
}
/// same contents, different String object (other capacity / built char by char)
fn recopy(s: &str) -> String {
    let mut t = String::with_capacity(s.len() + 17);
    for c in s.chars() {
        t.push(c);
    }
    t
}
/// address-like text: valid renderings, near misses and junk
fn gen_addr_text(rng: &mut Rng, with_port: bool) -> String {
    let ip = netaddr::gen(rng);
    let mut s = if with_port { SocketAddr::new(ip, rng.u16()).to_string() } else { ip.to_string() };
    match rng.below(8) {
        0 => s.push(['x', ' ', ':', '9', ']'][rng.below(5)]),
        1 => {
            if !s.is_empty() {
                let i = rng.below(s.chars().count());
                s = s.chars().enumerate().filter(|(j, _)| *j != i).map(|(_, c)| c).collect();
            }
        }
        2 => s = s.replace('.', ".0"),
        3 => s = format!(" {s}"),
        4 => s = (0..rng.range(0, 8)).map(|_| ['1', '2', '.', ':', 'f', '[', ']', 'z', '5', '6'][rng.below(10)]).collect(),
        5 => s = s.replace("::", ":0:"),
        _ => {}
    }
    s
}
fn gen_u16_text(rng: &mut Rng) -> String {
    match rng.below(8) {
        0 => String::new(),
        1 => format!("{}", 65530 + rng.below(12)), // around the overflow boundary
        2 => format!("+{}", rng.u16()),
        3 => format!("-{}", rng.u16() % 3),
        4 => format!("0{}", rng.u16()),
        5 => format!("{}x", rng.u16()),
        6 => format!(" {}", rng.u16()),
        _ => format!("{}", rng.u16()),
    }
}

/// a generator for `Entry::or_insert_with(|| g.next())`: counts its calls
struct CountGen {
    next: u32,
    calls: u32,
}
impl CountGen {
    fn gen(&mut self) -> u32 {
        self.calls += 1;
        let v = self.next;
        self.next += 7;
        v
    }
}

pub fn run(cx: &mut Cx) {
    // ============================================================================================ uring_ext.rs
    cx.want(&["shrinks", "same"]).check("uring_ext.rs::Vec::retain", |rng| {
        let mut v = rng.small_vec(24, 12);
        let pre = v.clone();
        let p = pred(rng);
        let mut seen = vec![];
        v.retain(|x| {
            seen.push(*x);
            p(x)
        });
        let exp = seq_filter_by(&pre, &|x: &u8| p(x));
        hit(if v.len() < pre.len() { "shrinks" } else { "same" });
        ensure!(v == exp && v.len() <= pre.len(), "retain: {pre:?} -> {v:?}, seq_filter_by = {exp:?}");
        ensure!(seen == pre, "f is not called once per element front to back: {seen:?} on {pre:?}");
        Ok(())
    });
    cx.want(&["out", "last", "middle"]).check("uring_ext.rs::IndexMap::swap_remove_index", |rng| {
        let mut m = im::gen_map(rng);
        let pre = obs(&m)?;
        let i = pick_index(rng, &m);
        hit(if i >= pre.len() { "out" } else if i + 1 == pre.len() { "last" } else { "middle" });
        let r = m.swap_remove_index(i);
        let post = obs(&m)?;
        if i >= pre.len() {
            ensure!(r.is_none() && post == pre, "swap_remove_index({i}) out of range: {pre:?} -> {post:?}, r {r:?}");
        } else {
            let exp = swap_removed(&pre, i); // im_swap_removed_at
            ensure!(r == Some(pre[i]) && post == exp, "swap_remove_index({i}): {pre:?} -> {post:?} returned {r:?}, spec {exp:?}");
        }
        Ok(())
    });
    cx.want(&["out", "last", "middle"]).check("uring_ext.rs::IndexMap::shift_remove_index", |rng| {
        let mut m = im::gen_map(rng);
        let pre = obs(&m)?;
        let i = pick_index(rng, &m);
        hit(if i >= pre.len() { "out" } else if i + 1 == pre.len() { "last" } else { "middle" });
        let r = m.shift_remove_index(i);
        let post = obs(&m)?;
        if i >= pre.len() {
            ensure!(r.is_none() && post == pre, "shift_remove_index({i}) out of range: {pre:?} -> {post:?}, r {r:?}");
        } else {
            let exp = seq_remove(&pre, i);
            ensure!(r == Some(pre[i]) && post == exp, "shift_remove_index({i}): {pre:?} -> {post:?} returned {r:?}, spec {exp:?}");
        }
        Ok(())
    });
    cx.want(&["partitioned-begin", "partitioned-middle", "partitioned-end", "unpartitioned"]).check("uring_ext.rs::<[T]>::partition_point", |rng| {
        let mut s = rng.small_vec(20, 12);
        let p = pred(rng);
        if rng.chance(2, 3) {
            s.sort_by_key(|x| !p(x)); // stable: all true, then all false; unsorted inside a class
        }
        let partitioned = (0..s.len()).all(|j| !p(&s[j]) || (0..j).all(|i| p(&s[i]))); // seq_partitioned
        let r = s.partition_point(|x| p(x));
        ensure!(r <= s.len(), "partition_point = {r} > len {}", s.len());
        if partitioned {
            hit(if r == 0 { "partitioned-begin" } else if r == s.len() { "partitioned-end" } else { "partitioned-middle" });
            ensure!((0..r).all(|i| p(&s[i])) && (r..s.len()).all(|i| !p(&s[i])), "partition_point({s:?}) = {r}");
        } else {
            hit("unpartitioned");
        }
        Ok(())
    });
    // Vec::drain over the three range shapes that have bound axioms (Range, RangeTo, RangeFull)
    cx.want(&["range", "range-to", "range-full", "early-drop", "empty-range"]).check("uring_ext.rs::Vec::drain + axiom_range_{to_,full_,}bounds", |rng| {
        let mut v = rng.bytes(24);
        let pre = v.clone();
        let len = pre.len();
        let a = rng.range(0, len);
        let b = rng.range(a, len); // requires 0 <= lo <= hi <= len
        let early = rng.chance(1, 3);
        let take = if early { rng.range(0, b) } else { usize::MAX };
        if early {
            hit("early-drop");
        }
        let (lo, hi, got): (usize, usize, Vec<u8>) = match rng.below(3) {
            0 => {
                hit("range");
                (a, b, v.drain(a..b).take(take).collect())
            }
            1 => {
                hit("range-to");
                (0, b, v.drain(..b).take(take).collect())
            }
            _ => {
                hit("range-full");
                (0, len, v.drain(..).take(take).collect())
            }
        };
        if lo == hi {
            hit("empty-range");
        }
        let rem = pre[lo..hi].to_vec(); // d.remaining()
        let n = got.len();
        ensure!(n <= rem.len() && got[..] == rem[..n] && (early || n == rem.len()), "drain({lo}..{hi}) of {pre:?} yields {got:?}");
        let exp: Vec<u8> = [&pre[..lo], &pre[hi..]].concat();
        ensure!(v == exp, "drain({lo}..{hi}) of {pre:?} leaves {v:?}, spec {exp:?}");
        Ok(())
    });
    cx.check_n("uring_ext.rs::Vec::drain (requires is tight: a range beyond len, or start > end, panics)", 256, |rng| {
        let mut v = rng.bytes(12);
        let len = v.len();
        if rng.bool() {
            let hi = len + 1 + rng.below(4);
            ensure!(panics(|| { v.drain(..hi); }).is_some(), "drain(..{hi}) on len {len} does not panic");
        } else {
            let a = rng.range(1, len + 1);
            let b = rng.below(a);
            ensure!(panics(|| { v.drain(a..b); }).is_some(), "drain({a}..{b}) does not panic");
        }
        Ok(())
    });

    // ============================================================================================ udp_sock.rs
    cx.check("udp_sock.rs::<IpAddr as From<Ipv4Addr>>::from + axiom_ipaddr_into_refl", |rng| {
        let a = netaddr::gen4(rng);
        ensure!(IpAddr::from(a) == IpAddr::V4(a) && netaddr::abs(IpAddr::from(a)) == netaddr::abs(IpAddr::V4(a)), "IpAddr::from({a})");
        let into: IpAddr = a.into();
        ensure!(into == IpAddr::V4(a), "{a}.into()");
        let x = netaddr::gen(rng);
        let y: IpAddr = <IpAddr as Into<IpAddr>>::into(x);
        ensure!(y == x, "<IpAddr as Into<IpAddr>>::into({x}) = {y}");
        Ok(())
    });
    cx.want(&["ok", "err"]).check("udp_sock.rs::Mutex::try_lock (tokio::sync::Mutex)", |rng| {
        let v0 = rng.bytes(6);
        let m = tokio::sync::Mutex::new(v0.clone());
        let nv = rng.bytes(6);
        if rng.chance(1, 4) {
            // Err (another task holds the lock): nothing changes
            hit("err");
            let g = m.try_lock().map_err(|_| "first try_lock failed")?;
            ensure!(m.try_lock().is_err(), "second try_lock while the guard is alive is Ok");
            drop(g);
        } else {
            hit("ok");
            let mut g = m.try_lock().map_err(|_| "uncontended try_lock failed")?;
            ensure!(*g == v0, "the guard shows {:?}, the mutex holds {v0:?}", *g);
            *g = nv.clone();
            drop(g);
            ensure!(*m.try_lock().map_err(|_| "try_lock after release failed")? == nv, "the write through the guard is lost");
            return Ok(());
        }
        ensure!(m.into_inner() == v0, "a failed try_lock changed the value");
        Ok(())
    });
    cx.want(&["v4", "v6"]).check("udp_sock.rs::SocketAddr::{idiom_v4, idiom_v6}", |rng| {
        // stand for `match addr { SocketAddr::V4(a) => Some(..a..), _ => None }` on the flat (ip, port) model
        let ip = netaddr::gen(rng);
        let x = SocketAddr::new(ip, rng.u16());
        hit(if ip.is_ipv4() { "v4" } else { "v6" });
        let real_v4 = match x { SocketAddr::V4(a) => Some(SocketAddr::V4(a)), _ => None };
        let real_v6 = match x { SocketAddr::V6(a) => Some(SocketAddr::V6(a)), _ => None };
        let is_v4 = matches!(netaddr::abs(x.ip()), netaddr::MIp::V4(_)); // self.ip_ is V4
        ensure!(real_v4 == if is_v4 { Some(x) } else { None }, "idiom_v4 on {x}");
        ensure!(real_v6 == if !is_v4 { Some(x) } else { None }, "idiom_v6 on {x}");
        Ok(())
    });

    // ============================================================================================ ports_dns.rs
    cx.want(&["equal", "different"]).check("ports_dns.rs::axiom_string_ext (String == is content equality; so are Hash and IndexMap<String, _> keys)", |rng| {
        use std::hash::{BuildHasher, RandomState};
        let a = gen_name(rng);
        let b = if rng.bool() { recopy(&a) } else { gen_name(rng) };
        let same = a.chars().collect::<Vec<char>>() == b.chars().collect::<Vec<char>>(); // a@ == b@
        hit(if same { "equal" } else { "different" });
        ensure!((a == b) == same, "{a:?} == {b:?} is {}, contents equal: {same}", a == b);
        let h = RandomState::new();
        ensure!(!same || h.hash_one(&a) == h.hash_one(&b), "equal strings hash differently");
        let mut m: IndexMap<String, u32> = IndexMap::new();
        m.insert(a.clone(), 1);
        m.insert(b.clone(), 2);
        ensure!(m.len() == if same { 1 } else { 2 }, "IndexMap holds {} entries for keys {a:?}, {b:?}", m.len());
        Ok(())
    });
    cx.check("ports_dns.rs::{idiom_string_full_slice, idiom_str_to_string}", |rng| {
        let s = gen_name(rng);
        let full: &str = &s[..];
        ensure!(full.chars().eq(s.chars()) && full == s.as_str(), "(&s[..]) of {s:?}");
        let r: &str = &s;
        let rr: &&str = &r;
        let t: String = rr.to_string();
        ensure!(t.chars().eq(r.chars()), "(&&str).to_string() of {s:?} = {t:?}");
        Ok(())
    });
    // parse: the specs are uninterpreted; claimed is (1) str::parse::<F> IS F::from_str, (2) the result is a function of
    // the text's contents.  Display round trip is checked as well (not claimed by the stub; it pins which function it is).
    cx.want(&["ok", "err"]).check("ports_dns.rs::<IpAddr as FromStr>::from_str + str::parse::<IpAddr> (parse_ip_spec: function of the text)", |rng| {
        // parse_pre::<IpAddr>(s) holds for every text (axiom_parse_pre_ip): texts with a zone id are part of the domain
        let mut s = gen_addr_text(rng, false);
        if rng.chance(1, 6) {
            s = format!("{s}%{}", rng.below(4));
        }
        let r = s.parse::<IpAddr>();
        hit(if r.is_ok() { "ok" } else { "err" });
        ensure!(r == IpAddr::from_str(&s), "parse::<IpAddr>({s:?}) = {r:?}, from_str = {:?}", IpAddr::from_str(&s));
        ensure!(r == recopy(&s).parse::<IpAddr>() && r == s.parse::<IpAddr>(), "parse::<IpAddr>({s:?}) is not a function of the contents");
        let ip = netaddr::gen(rng);
        ensure!(ip.to_string().parse::<IpAddr>() == Ok(ip), "Display/parse round trip of {ip}");
        Ok(())
    });
    cx.want(&["ok", "err"]).check("ports_dns.rs::<SocketAddr as FromStr>::from_str + str::parse::<SocketAddr> (parse_sock_spec: function of the text)", |rng| {
        let s = gen_addr_text(rng, true);
        ensure!(!s.contains('%'), "generator: zone id in {s:?}"); // requires parse_pre::<SocketAddr>(s@) == sock_text_unscoped(s@)
        let r = s.parse::<SocketAddr>();
        hit(if r.is_ok() { "ok" } else { "err" });
        ensure!(r == SocketAddr::from_str(&s), "parse::<SocketAddr>({s:?}) = {r:?}, from_str = {:?}", SocketAddr::from_str(&s));
        ensure!(r == recopy(&s).parse::<SocketAddr>(), "parse::<SocketAddr>({s:?}) is not a function of the contents");
        if let Ok(a) = r {
            // the flat (ip, port) model must be able to represent what parse returns
            ensure!(a == SocketAddr::new(a.ip(), a.port()), "parse({s:?}) = {a:?} is not determined by (ip, port)");
        }
        let x = SocketAddr::new(netaddr::gen(rng), rng.u16());
        ensure!(x.to_string().parse::<SocketAddr>() == Ok(x), "Display/parse round trip of {x}");
        Ok(())
    });
    // net.rs models SocketAddr as the pair (ip_, port_) with structural equality.  std's SocketAddrV6 also carries flowinfo
    // and a scope (zone) id, and a text with a zone id parses to a value the model cannot tell from the unscoped one
    // (stubcheck round 3).  Corrected stub: `str::parse::<SocketAddr>` requires parse_pre::<SocketAddr>(s@) ==
    // sock_text_unscoped(s@) ("the text carries no IPv6 zone id `%...`"), from_str's clause holds under it.
    // Positive contract on unscoped texts: two Ok values are equal iff their (ip, port) are -- whatever the spelling.
    cx.want(&["same-spelling", "other-spelling", "different"]).check("ports_dns.rs::<SocketAddr as FromStr>::from_str (sock_text_unscoped: Ok values are (ip, port) pairs, eq_spec of net.rs)", |rng| {
        let ip = netaddr::gen(rng);
        let port = rng.u16();
        let spell = |rng: &mut Rng, ip: IpAddr, port: u16| match ip {
            IpAddr::V4(a) => format!("{a}:{port}"),
            IpAddr::V6(a) => match rng.below(3) {
                0 => format!("[{a}]:{port}"),
                1 => format!("[{}]:{port}", a.segments().map(|x| format!("{x:x}")).join(":")), // uncompressed
                _ => format!("[{}]:{port}", a.segments().map(|x| format!("{x:04X}")).join(":")), // padded, upper case
            },
        };
        let sa = spell(rng, ip, port);
        let sb = match rng.below(3) {
            0 => sa.clone(),
            1 => spell(rng, ip, port),
            _ => {
                let (ip2, p2) = (netaddr::gen(rng), if rng.bool() { port } else { rng.u16() });
                spell(rng, ip2, p2)
            }
        };
        ensure!(!sa.contains('%') && !sb.contains('%'), "generator: zone id in {sa:?} / {sb:?}"); // sock_text_unscoped
        let (a, b): (SocketAddr, SocketAddr) = match (sa.parse(), sb.parse()) {
            (Ok(a), Ok(b)) => (a, b),
            (ra, rb) => return Err(format!("generator: {sa:?} / {sb:?} parse to {ra:?} / {rb:?}")),
        };
        let model_eq = a.ip() == b.ip() && a.port() == b.port(); // a.ip_ == b.ip_ && a.port_ == b.port_
        hit(if !model_eq { "different" } else if sa == sb { "same-spelling" } else { "other-spelling" });
        ensure!((a == b) == model_eq, "{sa:?} -> {a:?}, {sb:?} -> {b:?}: std == is {}, (ip, port) equal: {model_eq}", a == b);
        ensure!(a == SocketAddr::new(a.ip(), a.port()), "{sa:?} -> {a:?} is not the value SocketAddr::new(ip, port) builds");
        Ok(())
    });
    cx.check_n("ports_dns.rs::str::parse::<SocketAddr> (requires is needed: with a zone id std returns a value outside the (ip, port) model)", 256, |rng| {
        let ip6 = netaddr::gen6(rng);
        let (port, scope) = (rng.u16(), 1 + rng.u32() % 1000);
        let (sa, sb) = (format!("[{ip6}%{scope}]:{port}"), format!("[{ip6}]:{port}"));
        let (a, b): (SocketAddr, SocketAddr) = match (sa.parse(), sb.parse()) {
            (Ok(a), Ok(b)) => (a, b),
            (ra, rb) => return Err(format!("{sa:?} / {sb:?} parse to {ra:?} / {rb:?}: std no longer accepts numeric zone ids, the precondition could go")),
        };
        ensure!(a.ip() == b.ip() && a.port() == b.port() && a != b, "{sa:?} and {sb:?} now parse to equal values: the precondition could be dropped");
        Ok(())
    });
    // what axiom_parse_pre_ip assumes: no text with a zone id is accepted as an IpAddr / Ipv6Addr (so the model's IpAddr,
    // which has no zone either, loses nothing)
    cx.check("ports_dns.rs::axiom_parse_pre_ip (std's IpAddr / Ipv6Addr parsers reject zone ids)", |rng| {
        let ip6 = netaddr::gen6(rng);
        let zone = match rng.below(4) { 0 => "0".to_string(), 1 => format!("{}", rng.u32()), 2 => "eth0".to_string(), _ => String::new() };
        let texts = [format!("{ip6}%{zone}"), format!("[{ip6}%{zone}]"), format!("{}%{zone}", netaddr::gen4(rng))];
        for t in &texts {
            ensure!(t.parse::<IpAddr>().is_err() && t.parse::<Ipv6Addr>().is_err() && t.parse::<Ipv4Addr>().is_err(), "{t:?} is accepted as an IP address");
        }
        Ok(())
    });
    cx.want(&["ok", "err"]).check("ports_dns.rs::<u16 as FromStr>::from_str + str::parse::<u16> (parse_u16_spec: function of the text)", |rng| {
        let s = gen_u16_text(rng);
        let r = s.parse::<u16>();
        hit(if r.is_ok() { "ok" } else { "err" });
        ensure!(r == u16::from_str(&s), "parse::<u16>({s:?}) = {r:?}, from_str = {:?}", u16::from_str(&s));
        ensure!(r == recopy(&s).parse::<u16>(), "parse::<u16>({s:?}) is not a function of the contents");
        let n = rng.u16();
        ensure!(n.to_string().parse::<u16>() == Ok(n), "Display/parse round trip of {n}");
        Ok(())
    });
    cx.want(&["occupied", "vacant"]).check("ports_dns.rs::Entry::idiom_or_insert_with_gen", |rng| {
        // `map.entry(k).or_insert_with(|| g.gen())`
        let mut m = im::gen_map(rng);
        let pre = obs(&m)?;
        let k = pick_key(rng, &m);
        let mut g = CountGen { next: 100_000 + rng.u32() % 1000, calls: 0 };
        let g0 = g.next;
        let nv = rng.u32();
        let write = rng.bool();
        let e = m.entry(k);
        let occ = matches!(e, Entry::Occupied(_));
        hit(if occ { "occupied" } else { "vacant" });
        let fin_r;
        {
            let r = e.or_insert_with(|| g.gen());
            if occ {
                ensure!(g.calls == 0 && g.next == g0, "the generator ran for an occupied entry");
                ensure!(im_has(&pre, k) && *r == im_get(&pre, k), "occupied entry {k}: slot holds {r}");
            } else {
                ensure!(g.calls == 1 && g.next == g0 + 7, "the generator ran {} times for a vacant entry", g.calls);
                ensure!(*r == g0, "vacant entry {k}: slot holds {r}, the generator produced {g0}");
            }
            if write {
                *r = nv;
            }
            fin_r = *r;
        }
        let post = obs(&m)?;
        let exp = if occ { update(&pre, im_idx(&pre, k), (k, fin_r)) } else { push(&pre, (k, fin_r)) };
        ensure!(post == exp, "or_insert_with_gen({k}): {pre:?} -> {post:?}, spec {exp:?}");
        Ok(())
    });
    fn gen_name_map(rng: &mut Rng) -> IndexMap<String, u32> {
        let mut m = IndexMap::new();
        for _ in 0..rng.range(0, 10) {
            let k = gen_name(rng);
            if rng.chance(1, 5) {
                m.swap_remove(&k);
            } else {
                m.insert(k, rng.u32() % 1000);
            }
        }
        m
    }
    cx.want(&["present", "absent"]).check("ports_dns.rs::IndexMap<String, V>::idiom_get_str", |rng| {
        let m = gen_name_map(rng);
        let view: Vec<(Vec<char>, u32)> = m.iter().map(|(k, v)| (k.chars().collect(), *v)).collect();
        let k: String = if !m.is_empty() && rng.bool() { recopy(m.get_index(rng.below(m.len())).unwrap().0) } else { gen_name(rng) };
        let ks: &str = &k;
        let n: Vec<char> = ks.chars().collect();
        let exp = view.iter().find(|e| e.0 == n).map(|e| e.1); // name_has / name_idx
        hit(if exp.is_some() { "present" } else { "absent" });
        ensure!(m.get(ks).copied() == exp, "get({ks:?}) = {:?}, spec {exp:?}", m.get(ks));
        Ok(())
    });
    cx.check("ports_dns.rs::IndexMap::iter", |rng| {
        let m = im::gen_map(rng);
        let via_index: Vec<(K, V)> = (0..m.len()).map(|i| m.get_index(i).map(|(k, v)| (*k, *v)).unwrap()).collect();
        let got: Vec<(K, V)> = m.iter().map(|(k, v)| (*k, *v)).collect();
        ensure!(got == via_index, "iter() = {got:?}, positions = {via_index:?}");
        Ok(())
    });
    cx.want(&["some-first", "some-later", "none"]).check("ports_dns.rs::Iter::find", |rng| {
        let m = im::gen_map_with(rng, |r| r.u32() % 8);
        let s = obs(&m)?;
        let p = pred(rng);
        let pk = move |k: &K, v: &V| p(&k.wrapping_add(*v as u8));
        let mut asked: Vec<K> = vec![];
        let r = m.iter().find(|(k, v)| {
            asked.push(**k);
            pk(k, v)
        });
        match r {
            Some((k, v)) => {
                let i = s.iter().position(|e| e.0 == *k).ok_or("find returned a key that is not in the map")?;
                hit(if i == 0 { "some-first" } else { "some-later" });
                ensure!(s[i].1 == *v && pk(k, v), "find = ({k},{v}) but p is false there");
                ensure!((0..i).all(|j| !pk(&s[j].0, &s[j].1)), "find = entry {i} but p holds earlier in {s:?}");
                ensure!(asked == s[..=i].iter().map(|e| e.0).collect::<Vec<K>>(), "p was asked on {asked:?}, entries {s:?}");
            }
            None => {
                hit("none");
                ensure!(s.iter().all(|e| !pk(&e.0, &e.1)), "find = None but p holds somewhere in {s:?}");
            }
        }
        Ok(())
    });
    cx.check("ports_dns.rs::<SocketAddr as From<(IpAddr | Ipv4Addr | Ipv6Addr, u16)>>::from + SocketAddr::{V4, V6}", |rng| {
        let (a4, a6, ip, p) = (netaddr::gen4(rng), netaddr::gen6(rng), netaddr::gen(rng), rng.u16());
        let x = SocketAddr::from((ip, p));
        ensure!(x.ip() == ip && x.port() == p && x == SocketAddr::new(ip, p), "from(({ip},{p})) = {x}");
        let x: SocketAddr = (a4, p).into();
        ensure!(x.ip() == IpAddr::V4(a4) && x.port() == p && x == SocketAddr::new(IpAddr::V4(a4), p), "from(({a4},{p})) = {x}");
        let x: SocketAddr = (a6, p).into();
        ensure!(x.ip() == IpAddr::V6(a6) && x.port() == p && x == SocketAddr::new(IpAddr::V6(a6), p), "from(({a6},{p})) = {x}");
        // enum constructors over SocketAddrV4 { ip_, port_ } / SocketAddrV6 { ip_, port_ } (flowinfo / scope id 0)
        let x = SocketAddr::V4(SocketAddrV4::new(a4, p));
        ensure!(x.ip() == IpAddr::V4(a4) && x.port() == p && x == SocketAddr::new(IpAddr::V4(a4), p), "SocketAddr::V4(({a4},{p})) = {x}");
        // requires v6_plain(a): flowinfo == 0 && scope_id == 0
        let x = SocketAddr::V6(SocketAddrV6::new(a6, p, 0, 0));
        ensure!(x.ip() == IpAddr::V6(a6) && x.port() == p && x == SocketAddr::new(IpAddr::V6(a6), p), "SocketAddr::V6(({a6},{p})) = {x}");
        Ok(())
    });
    cx.check_n("ports_dns.rs::SocketAddr::V6 (requires v6_plain is needed: a flowinfo / scope id makes the value differ from the (ip, port) pair)", 256, |rng| {
        let (a6, p) = (netaddr::gen6(rng), rng.u16());
        let (flow, scope) = if rng.bool() { (1 + rng.u32() % 9, 0) } else { (0, 1 + rng.u32() % 9) };
        let x = SocketAddr::V6(SocketAddrV6::new(a6, p, flow, scope));
        ensure!(x.ip() == IpAddr::V6(a6) && x.port() == p && x != SocketAddr::new(IpAddr::V6(a6), p), "flowinfo {flow} / scope id {scope} no longer distinguishes {x:?}");
        Ok(())
    });
    cx.want(&["none", "one", "several", "multibyte"]).check("ports_dns.rs::idiom_rsplit_once_colon", |rng| {
        let n = rng.range(0, 8);
        let s: String = (0..n).map(|_| [':', ':', 'a', '1', '.', '[', ']', 'é', '日'][rng.below(9)]).collect();
        let cs: Vec<char> = s.chars().collect(); // s@
        let last = cs.iter().rposition(|c| *c == ':'); // last_colon(s@)
        hit(match cs.iter().filter(|c| **c == ':').count() { 0 => "none", 1 => "one", _ => "several" });
        if s.len() != cs.len() && last.is_some() {
            hit("multibyte");
        }
        match (s.rsplit_once(':'), last) {
            (None, None) => {}
            (Some((h, p)), Some(i)) => {
                let (hc, pc): (Vec<char>, Vec<char>) = (h.chars().collect(), p.chars().collect());
                ensure!(hc[..] == cs[..i] && pc[..] == cs[i + 1..], "{s:?}.rsplit_once(':') = ({h:?}, {p:?}), last colon at char {i}");
            }
            (r, l) => return Err(format!("{s:?}.rsplit_once(':') = {r:?}, last_colon = {l:?}")),
        }
        Ok(())
    });
    cx.want(&["holds", "fails"]).check_n("ports_dns.rs::idiom_panic_unless (assert!(c) returns only if c)", 256, |rng| {
        let c = rng.bool();
        hit(if c { "holds" } else { "fails" });
        let returned = panics(|| assert!(c, "the guard")).is_none();
        ensure!(returned == c, "assert!({c}) returned: {returned}");
        Ok(())
    });

    // ============================================================================================ hosttcp_task.rs
    cx.check("hosttcp_task.rs::<Error as From<ErrorKind>>::from", |rng| {
        let (_, k) = crate::misc::KINDS[rng.below(crate::misc::KINDS.len())];
        let e: std::io::Error = k.into();
        ensure!(e.kind() == k && e.raw_os_error().is_none(), "{k:?}.into(): kind {:?} os {:?}", e.kind(), e.raw_os_error());
        Ok(())
    });
    cx.want(&["same", "different"]).check("hosttcp_task.rs::Arc::ptr_eq + axiom_arc_same (same allocation ==> equal values)", |rng| {
        use std::sync::Arc;
        let a = Arc::new(rng.bytes(4));
        let b = match rng.below(3) { 0 => a.clone(), 1 => Arc::new((*a).clone()), _ => Arc::new(rng.bytes(4)) };
        let r = Arc::ptr_eq(&a, &b);
        hit(if r { "same" } else { "different" });
        ensure!(!r || *a == *b, "ptr_eq but the values differ");
        ensure!(Arc::ptr_eq(&a, &a) && r == Arc::ptr_eq(&b, &a) && r == Arc::ptr_eq(&a.clone(), &b), "ptr_eq is not a function of the two allocations");
        // unsized: Arc<str> (turmoil: node names)
        let s: Arc<str> = Arc::from(gen_name(rng));
        let t: Arc<str> = if rng.bool() { s.clone() } else { Arc::from(&*s) };
        ensure!(!Arc::ptr_eq(&s, &t) || *s == *t, "Arc<str>: ptr_eq but the values differ");
        Ok(())
    });

    // ============================================================================================ barriers_build.rs / barriers_wait.rs
    cx.want(&["is-t", "is-not-t"]).check("barriers_build.rs::{axiom_as_any_is, axiom_boxed_is} + barriers_wait.rs::<Box<dyn AnySend> as BoxAnyDowncast>::downcast", |rng| {
        use std::any::Any;
        let t = rng.u32();
        // a T erased is a T
        ensure!((&t as &dyn Any).is::<u32>() && (&t as &dyn Any).downcast_ref::<u32>() == Some(&t), "as_any(t) is not a T");
        // boxed_any(t) is a T and unboxes to t; box_is::<U>(b) is what `is::<U>()` answers
        let b: Box<dyn Any + Send> = if rng.bool() { Box::new(t) } else { Box::new(t as u64) };
        let is_t = b.is::<u32>();
        hit(if is_t { "is-t" } else { "is-not-t" });
        match b.downcast::<u32>() {
            Ok(x) => ensure!(is_t && *x == t, "downcast::<u32>() = Ok({x}) (is::<u32>() = {is_t}, boxed {t})"),
            Err(back) => {
                ensure!(!is_t, "downcast::<u32>() = Err on a boxed u32");
                ensure!(back.downcast::<u64>().ok().map(|x| *x) == Some(t as u64), "the Err side does not hand the box back");
            }
        }
        Ok(())
    });
    cx.want(&["t-true", "t-false", "not-t"]).check("barriers_build.rs::idiom_erase_condition", |rng| {
        use std::any::Any;
        // the expression the stub replaces, verbatim
        fn erase<T: 'static, F: Fn(&T) -> bool + 'static>(condition: F) -> Box<dyn Fn(&dyn Any) -> bool> {
            Box::new(move |t: &dyn Any| match t.downcast_ref::<T>() {
                Some(t) => condition(t),
                None => false,
            })
        }
        let m = rng.range(1, 4) as u32;
        let c = erase(move |x: &u32| *x % m == 0);
        let x = rng.u32() % 16;
        match rng.below(3) {
            0 => {
                let other = x as u64;
                hit("not-t");
                ensure!(!c(&other) && !c(&"text") && !c(&(x, x)), "the erased condition holds on a value that is not a T");
            }
            _ => {
                hit(if x % m == 0 { "t-true" } else { "t-false" });
                ensure!(c(&x) == (x % m == 0), "the erased condition on {x} = {}, the user's answer {}", c(&x), x % m == 0);
                ensure!(c(&x) == c(&x), "the erased condition is not a function of its argument");
            }
        }
        Ok(())
    });
    {
        let rt = tokio::runtime::Builder::new_current_thread().build().unwrap();
        let n_rt = cx.n.min(1500);
        // unbounded_channel: a fresh, empty, open channel; recv().await: FIFO from the read position, each message
        // once, None only when everything accepted has been handed out (closed and drained); logs only grow.
        cx.want(&["some", "none"]).check_n("barriers_build.rs::mpsc::unbounded_channel + barriers_wait.rs::idiom_recv_await", n_rt, |rng| {
            use tokio::sync::mpsc;
            let (tx, mut rx) = mpsc::unbounded_channel::<u32>();
            let (tx_other, mut rx_other) = mpsc::unbounded_channel::<u32>(); // mpsc_fresh: unrelated to every other channel
            ensure!(!tx.is_closed() && rx.is_empty() && matches!(rx.try_recv(), Err(mpsc::error::TryRecvError::Empty)), "a new channel is not (empty, open)");
            ensure!(!tx.same_channel(&tx_other), "two calls of unbounded_channel give the same channel");
            let mut txs = vec![tx];
            let (mut log, mut pos): (Vec<u32>, usize) = (vec![], 0);
            for step in 0..rng.range(1, 12) {
                // the world moves on: sends through any handle append to the log
                for _ in 0..rng.below(3) {
                    if !txs.is_empty() {
                        let v = step as u32 * 100 + rng.u32() % 100;
                        let i = rng.below(txs.len());
                        if txs[i].send(v).is_ok() {
                            log.push(v);
                        }
                    }
                }
                match rng.below(8) {
                    0 if !txs.is_empty() => {
                        let t = txs[0].clone();
                        txs.push(t);
                    }
                    1 => txs.clear(), // every sender dropped
                    _ => {}
                }
                // `rx.recv().await` returns at once iff a message is queued or every sender is gone
                if pos < log.len() || txs.is_empty() {
                    let r = rt.block_on(rx.recv());
                    match r {
                        Some(v) => {
                            hit("some");
                            ensure!(pos < log.len() && v == log[pos], "recv = Some({v}) at position {pos} of the log {log:?}");
                            pos += 1;
                        }
                        None => {
                            hit("none");
                            ensure!(pos >= log.len() && txs.is_empty(), "recv = None at position {pos} of the log {log:?} with {} sender(s)", txs.len());
                        }
                    }
                }
            }
            ensure!(matches!(rx_other.try_recv(), Err(mpsc::error::TryRecvError::Empty)), "messages leaked into another channel");
            drop(tx_other);
            Ok(())
        });
        // ---- barriers_await.rs: the suspension points
        cx.want(&["ok", "err"]).check_n("barriers_await.rs::oneshot::Receiver::await_model (Ok ==> sent, Err ==> sender dropped unsent)", n_rt, |rng| {
            use tokio::sync::oneshot;
            let (tx, rx) = oneshot::channel::<u32>();
            let v = rng.u32();
            let sent = rng.bool();
            if sent {
                tx.send(v).map_err(|_| "send failed with a live receiver")?;
            } else {
                drop(tx);
            }
            match rt.block_on(rx) {
                Ok(x) => ensure!({ hit("ok"); sent && x == v }, "rx.await = Ok({x}) (sent: {sent}, value {v})"),
                Err(_) => ensure!({ hit("err"); !sent }, "rx.await = Err although the value was sent"),
            }
            Ok(())
        });
        cx.want(&["completes", "pending"]).check_n("barriers_await.rs::UnboundedSender::closed + Closed::await_model (completes only once the receiver is gone)", n_rt, |rng| {
            use std::future::Future;
            use tokio::sync::mpsc;
            let (tx, mut rx) = mpsc::unbounded_channel::<u32>();
            let _ = tx.send(1);
            match rng.below(3) {
                0 => {
                    hit("pending");
                    let mut f = std::pin::pin!(tx.closed());
                    let mut cx2 = std::task::Context::from_waker(std::task::Waker::noop());
                    ensure!(f.as_mut().poll(&mut cx2).is_pending() && !tx.is_closed(), "closed() completes with a live receiver");
                }
                g => {
                    hit("completes");
                    if g == 1 { drop(rx) } else { rx.close() }
                    rt.block_on(tx.closed());
                    ensure!(tx.is_closed() && tx.send(2).is_err(), "closed().await returned but the channel still accepts messages");
                }
            }
            Ok(())
        });
    }

    // ============================================================================================ fsshim_std.rs / seedflow_std.rs / step_std.rs: std cells
    cx.check_in(&["fsshim_std.rs", "seedflow_std.rs"], "Mutex::new (std::sync::Mutex: val() / inner() is what it was built with)", |rng| {
        let v = rng.bytes(6);
        let m = std::sync::Mutex::new(v.clone());
        ensure!(*m.lock().map_err(|_| "poisoned")? == v, "lock() shows another value");
        ensure!(m.into_inner().map_err(|_| "poisoned")? == v, "into_inner differs");
        Ok(())
    });
    cx.check_n("step_std.rs::Mutex::lock (r is Ok; the guard is the mutex's)", 500, |rng| {
        let m = std::sync::Mutex::new(rng.u32());
        let v = *m.lock().map_err(|_| "first lock failed")?;
        *m.lock().map_err(|_| "second lock failed")? = v ^ 1;
        ensure!(*m.lock().map_err(|_| "third lock failed")? == v ^ 1, "the guard does not guard this mutex");
        Ok(())
    });
    cx.check("step_std.rs::RefCell::{new, borrow_mut, borrow}", |rng| {
        let (v, nv) = (rng.u32(), rng.u32());
        let c = std::cell::RefCell::new(v);
        ensure!(*c.borrow() == v, "borrow after new");
        {
            let mut r = c.borrow_mut();
            ensure!(*r == v, "borrow_mut shows {}", *r);
            *r = nv;
        }
        ensure!(*c.borrow() == nv, "write through borrow_mut lost");
        Ok(())
    });
    cx.check_n("fsshim_std.rs::SeekFrom (variants and payload types of std::io::SeekFrom) + is_mult", 500, |rng| {
        use std::io::SeekFrom;
        let (a, b, c): (u64, i64, i64) = (rng.u64(), rng.u64() as i64, rng.u64() as i64);
        for s in [SeekFrom::Start(a), SeekFrom::End(b), SeekFrom::Current(c)] {
            let ok = match s { SeekFrom::Start(x) => x == a, SeekFrom::End(x) => x == b, SeekFrom::Current(x) => x == c };
            ensure!(ok, "SeekFrom payload");
        }
        let (x, m) = (rng.u64() % 64, rng.u64() % 6);
        let is_mult = if m == 0 { x == 0 } else { x % m == 0 };
        ensure!(x.is_multiple_of(m) == is_mult, "{x}.is_multiple_of({m})");
        Ok(())
    });
    cx.check_in(&["seedflow_std.rs"], "RangeInclusive::start + <RangeInclusive as Clone>::clone", |rng| {
        let a = rng.u16() % 100;
        let b = a + rng.u16() % 5;
        let r = a..=b;
        ensure!(*r.start() == a, "({a}..={b}).start() = {}", r.start());
        let mut it = a..=b;
        for _ in 0..rng.below(7) {
            it.next();
        }
        let c = it.clone();
        ensure!(c == it && c.clone().count() == it.clone().count(), "clone of {it:?} is {c:?}");
        Ok(())
    });
    cx.want(&["ok", "err"]).check("seedflow_std.rs::SystemTime::duration_since + UNIX_EPOCH (not_before / since: functions of the two times)", |rng| {
        use std::time::{Duration, SystemTime, UNIX_EPOCH};
        let mk = |ns: u64| UNIX_EPOCH + Duration::from_nanos(ns);
        let (a, b) = (rng.u64() >> rng.below(40), rng.u64() >> rng.below(40));
        let b = if rng.chance(1, 4) { a } else { b };
        let (x, y) = (mk(a), mk(b));
        let r = x.duration_since(y);
        hit(if r.is_ok() { "ok" } else { "err" });
        // same two values, built again => same answer
        let r2 = mk(a).duration_since(mk(b));
        ensure!(r.is_ok() == r2.is_ok() && r.as_ref().ok() == r2.as_ref().ok(), "duration_since is not a function of the two times");
        // natural reading (not claimed by the stub): Ok iff self >= earlier, and then earlier + d == self
        ensure!(r.is_ok() == (x >= y), "({a}ns).duration_since({b}ns) = {r:?}");
        if let Ok(d) = r {
            ensure!(y + d == x && d == Duration::from_nanos(a - b), "since = {d:?}");
        }
        ensure!(x.duration_since(UNIX_EPOCH).ok() == Some(Duration::from_nanos(a)) && SystemTime::UNIX_EPOCH == UNIX_EPOCH, "UNIX_EPOCH");
        Ok(())
    });

    // ============================================================================================ step_std.rs idioms
    cx.want(&["both", "all-true", "all-false"]).check("step_std.rs::IndexMap::idiom_iter_mut_partition", |rng| {
        // `map.iter_mut().partition(f)`
        let mut m = im::gen_map_with(rng, |r| r.u32() % 8);
        let pre = obs(&m)?;
        let p = pred(rng);
        let f = move |k: &K, v: &V| p(&k.wrapping_add(*v as u8));
        let flags: Vec<bool> = pre.iter().map(|e| f(&e.0, &e.1)).collect(); // idiom_part_flags
        let mut asked: Vec<K> = vec![];
        let mut written: Vec<(K, V)> = pre.clone(); // idiom_part_final
        {
            let (t, fl): (Vec<(&K, &mut V)>, Vec<(&K, &mut V)>) = m.iter_mut().partition(|(k, v)| {
                asked.push(**k);
                f(k, v)
            });
            hit(match (t.is_empty(), fl.is_empty()) { (false, false) => "both", (false, true) => "all-true", (true, false) => "all-false", _ => "empty" });
            ensure!(asked == pre.iter().map(|e| e.0).collect::<Vec<K>>(), "f is not called once per entry in insertion order: {asked:?}");
            for (want, part) in [(true, t), (false, fl)] {
                let ix: Vec<usize> = (0..pre.len()).filter(|i| flags[*i] == want).collect(); // part_ix
                ensure!(part.len() == ix.len(), "the {want} part has {} entries, spec {}", part.len(), ix.len());
                for (j, (k, v)) in part.into_iter().enumerate() {
                    // mutrefs_of: reference j of the part is entry ix[j] ...
                    ensure!(*k == pre[ix[j]].0 && *v == pre[ix[j]].1, "entry {j} of the {want} part is ({k},{v}), spec {:?}", pre[ix[j]]);
                    // ... and what is written through it lands in that entry
                    if rng.bool() {
                        *v = 1000 + rng.u32() % 1000;
                    }
                    written[ix[j]].1 = *v;
                }
            }
        }
        let post = obs(&m)?;
        ensure!(post.len() == pre.len() && post == written, "after the references expired: {post:?}, spec {written:?}");
        Ok(())
    });
    cx.check("step_std.rs::idiom_shuffle (Vec<T>::shuffle(&mut Box<dyn RngCore>))", |rng| {
        use rand::seq::SliceRandom;
        // distinct tags make the permutation observable: post[i] == pre[perm[i]] with perm a bijection
        let n = rng.range(0, 20);
        let pre: Vec<(u8, usize)> = (0..n).map(|i| (rng.u8() % 4, i)).collect();
        let mut v = pre.clone();
        let mut g: Box<dyn RngCore> = Box::new(rand::rngs::SmallRng::seed_from_u64(rng.u64()));
        v.shuffle(&mut g);
        ensure!(v.len() == pre.len(), "shuffle changed the length");
        let perm: Vec<usize> = v.iter().map(|e| e.1).collect();
        let mut seen = vec![false; n];
        for (i, k) in perm.iter().enumerate() {
            ensure!(*k < n && !seen[*k] && v[i] == pre[*k], "not a permutation: {pre:?} -> {v:?}");
            seen[*k] = true;
        }
        ensure!(seqs::same_multiset(&pre, &v), "multisets differ");
        Ok(())
    });

    // ============================================================================================ seedflow_rand.rs
    // RandGen = SmallRng (directly and behind Box<dyn RngCore>).  One "draw" per contract function; `ops` replays a draw
    // sequence on any generator so that "same state" can be produced twice independently.
    #[derive(Clone, Copy, Debug)]
    enum Op { U64, U32, RandU64, RandU32, RandBool, RandSeed, RandF64 }
    fn gen_ops(rng: &mut Rng) -> Vec<Op> {
        (0..rng.range(0, 12)).map(|_| [Op::U64, Op::U32, Op::RandU64, Op::RandU32, Op::RandBool, Op::RandSeed, Op::RandF64][rng.below(7)]).collect()
    }
    /// one draw, rendered as bits (draw_val) -- the generator is advanced (draw_adv)
    fn draw<G: RngCore + ?Sized>(g: &mut G, op: Op) -> Vec<u8> {
        match op {
            Op::U64 => g.next_u64().to_le_bytes().to_vec(),
            Op::U32 => g.next_u32().to_le_bytes().to_vec(),
            Op::RandU64 => g.random::<u64>().to_le_bytes().to_vec(),
            Op::RandU32 => g.random::<u32>().to_le_bytes().to_vec(),
            Op::RandBool => vec![g.random::<bool>() as u8],
            Op::RandSeed => g.random::<[u8; 32]>().to_vec(),
            Op::RandF64 => g.random::<f64>().to_bits().to_le_bytes().to_vec(),
        }
    }
    /// the state, observed through the future stream
    fn fingerprint<G: RngCore + ?Sized>(g: &mut G) -> Vec<u64> {
        (0..6).map(|_| g.next_u64()).collect()
    }
    use rand::rngs::SmallRng;
    cx.check("seedflow_rand.rs::RandGen::seed_from_u64 (state is a function of the seed)", |rng| {
        let seed = if rng.chance(1, 4) { rng.below(4) as u64 } else { rng.u64() };
        let ops = gen_ops(rng);
        let (mut a, mut b) = (SmallRng::seed_from_u64(seed), SmallRng::seed_from_u64(seed));
        for op in &ops {
            ensure!(draw(&mut a, *op) == draw(&mut b, *op), "two generators seeded with {seed} disagree on {op:?}");
        }
        ensure!(fingerprint(&mut a) == fingerprint(&mut b), "streams of two generators seeded with {seed} diverge after {ops:?}");
        Ok(())
    });
    cx.check_in(&["seedflow_rand.rs::RandGen", "step_std.rs::SmallRng"], "from_seed (state is a function of the 32 seed bytes)", |rng| {
        let mut seed = [0u8; 32];
        for b in seed.iter_mut() {
            *b = if rng.chance(1, 3) { 0 } else { rng.u8() };
        }
        let (mut a, mut b) = (SmallRng::from_seed(seed), SmallRng::from_seed(seed));
        let ops = gen_ops(rng);
        for op in &ops {
            ensure!(draw(&mut a, *op) == draw(&mut b, *op), "two generators built from the same seed bytes disagree on {op:?}");
        }
        ensure!(fingerprint(&mut a) == fingerprint(&mut b), "streams diverge");
        Ok(())
    });
    cx.check("seedflow_rand.rs::<RandGen as Clone>::clone (same state, hence the same future stream)", |rng| {
        let mut a = SmallRng::seed_from_u64(rng.u64());
        for op in gen_ops(rng) {
            draw(&mut a, op);
        }
        let mut b = a.clone();
        for op in gen_ops(rng) {
            ensure!(draw(&mut a, op) == draw(&mut b, op), "a clone disagrees with its original on {op:?}");
        }
        ensure!(fingerprint(&mut a) == fingerprint(&mut b), "a clone's stream diverges");
        Ok(())
    });
    // next_u64 / next_u32 / random::<T>: value and next state are functions of the state (draw_val::<T> / draw_adv::<T>);
    // next_u64 and random::<u64>() are specified by the SAME pair (T = u64), likewise next_u32 and random::<u32>().
    cx.want(&["direct", "boxed-dyn"]).check("seedflow_rand.rs::RandGen::{next_u64, next_u32} + <RandGen as Rng>::random (draw_val / draw_adv: functions of the state)", |rng| {
        let seed = rng.u64();
        let prefix = gen_ops(rng);
        let boxed = rng.bool();
        hit(if boxed { "boxed-dyn" } else { "direct" });
        // two generators brought to the same state independently
        let mk = || -> Box<dyn RngCore> {
            let mut g = SmallRng::seed_from_u64(seed);
            for op in &prefix {
                draw(&mut g, *op);
            }
            Box::new(g)
        };
        let (mut a, mut b) = (mk(), mk());
        let mut direct = SmallRng::seed_from_u64(seed);
        for op in &prefix {
            draw(&mut direct, *op);
        }
        for (x, y) in [(Op::U64, Op::RandU64), (Op::U32, Op::RandU32), (Op::RandBool, Op::RandBool), (Op::RandSeed, Op::RandSeed), (Op::RandF64, Op::RandF64)] {
            // same state, the two functions that share one (draw_val::<T>, draw_adv::<T>) pair
            let (va, vb) = (draw(&mut *a, x), draw(&mut *b, y));
            ensure!(va == vb, "from the same state {x:?} gives {va:?} but {y:?} gives {vb:?}");
            if !boxed {
                ensure!(draw(&mut direct, x) == va, "SmallRng behind Box<dyn RngCore> and SmallRng itself disagree on {x:?}");
            }
        }
        ensure!(fingerprint(&mut *a) == fingerprint(&mut *b), "the states differ after the same draws");
        Ok(())
    });

    // ============================================================================================ seedflow_tokio.rs
    // The builder stub is a record of options; `build()` repeats them in the Runtime's ghost attributes.  Executable
    // content: build() is Ok for every option combination, and the runtime BEHAVES according to the recorded options.
    cx.check_n("seedflow_tokio.rs::TokioBuilder::{new_current_thread, unhandled_panic, enable_io, enable_time, start_paused, build} (options take effect)", 48, |rng| {
        use tokio::runtime::{Builder, UnhandledPanic};
        let (io, time, paused, up) = (rng.bool(), rng.bool(), rng.bool(), rng.bool());
        let mut b = Builder::new_current_thread();
        // the order of the calls does not matter: each one touches its own option
        let mut calls = vec![0, 1, 2, 3];
        for i in (1..calls.len()).rev() {
            calls.swap(i, rng.below(i + 1));
        }
        for c in calls {
            match c {
                0 if io => { b.enable_io(); }
                1 if time => { b.enable_time(); }
                2 => { b.start_paused(paused); }
                3 if up => { b.unhandled_panic(UnhandledPanic::ShutdownRuntime); }
                _ => {}
            }
        }
        let rt = b.build().map_err(|e| format!("build() failed (io {io} time {time} paused {paused}): {e}"))?;
        let rt2 = b.build().map_err(|e| format!("second build() from the same builder failed: {e}"))?; // *final(self) == *old(self)
        drop(rt2);
        // rt_paused
        if time {
            let moved = rt.block_on(async {
                let t0 = tokio::time::Instant::now();
                std::thread::sleep(std::time::Duration::from_millis(2));
                tokio::time::Instant::now() != t0
            });
            ensure!(moved == !paused, "start_paused({paused}) but the runtime's clock moved: {moved}");
            if paused {
                // a paused clock auto-advances over a sleep instead of waiting for it
                let t = std::time::Instant::now();
                rt.block_on(async { tokio::time::sleep(std::time::Duration::from_secs(3600)).await });
                ensure!(t.elapsed() < std::time::Duration::from_secs(5), "a paused runtime really slept");
            }
        } else {
            ensure!(panics(|| rt.block_on(async { tokio::time::sleep(std::time::Duration::from_millis(1)).await })).is_some(), "timers work without enable_time");
        }
        // rt_io
        let sock = panics(|| rt.block_on(async { tokio::net::UdpSocket::bind("127.0.0.1:0").await.map(|_| ()) }));
        match (io, sock) {
            (true, Some(msg)) => return Err(format!("enable_io() but binding a socket panics: {msg}")),
            (false, None) => return Err("binding a socket works without enable_io()".into()),
            _ => {}
        }
        Ok(())
    });
    cx.check_n("seedflow_tokio.rs::RngSeed::from_bytes + TokioBuilder::rng_seed (the runtime's rng is a function of the LAST seed given)", 48, |rng| {
        use tokio::runtime::{Builder, RngSeed};
        // what the seed governs: the branch order of an unbiased select!
        fn choices(rt: &tokio::runtime::Runtime) -> Vec<u8> {
            rt.block_on(async {
                let mut out = vec![];
                for _ in 0..96 {
                    let c = tokio::select! {
                        _ = std::future::ready(()) => 0u8,
                        _ = std::future::ready(()) => 1u8,
                        _ = std::future::ready(()) => 2u8,
                    };
                    out.push(c);
                }
                out
            })
        }
        let a = rng.bytes(32);
        let b = loop {
            let b = rng.bytes(32);
            if b != a {
                break b;
            }
        };
        let rt_a1 = Builder::new_current_thread().rng_seed(RngSeed::from_bytes(&a)).build().map_err(|e| e.to_string())?;
        let rt_a2 = Builder::new_current_thread().rng_seed(RngSeed::from_bytes(&recopy_bytes(&a))).build().map_err(|e| e.to_string())?;
        let rt_ab = Builder::new_current_thread().rng_seed(RngSeed::from_bytes(&a)).rng_seed(RngSeed::from_bytes(&b)).build().map_err(|e| e.to_string())?;
        let rt_b = Builder::new_current_thread().rng_seed(RngSeed::from_bytes(&b)).build().map_err(|e| e.to_string())?;
        let (ca1, ca2, cab, cb) = (choices(&rt_a1), choices(&rt_a2), choices(&rt_ab), choices(&rt_b));
        ensure!(ca1 == ca2, "two runtimes with the same seed bytes make different select! choices");
        ensure!(cab == cb, "rng_seed(a).rng_seed(b) does not behave like rng_seed(b): the last seed does not win");
        ensure!(ca1.iter().any(|c| *c != ca1[0]), "select! is not randomised at all: the check observes nothing");
        Ok(())
    });

    // ============================================================================================ barriers_uuid.rs
    cx.want(&["equal", "different"]).check("barriers_uuid.rs::Uuid (== is equality of the 128-bit value; Copy / Clone keep it)", |rng| {
        use uuid::Uuid;
        let a = rng.u128();
        let b = match rng.below(3) { 0 => a, 1 => a ^ (1 << rng.below(128)), _ => rng.u128() };
        let (x, y) = (Uuid::from_u128(a), Uuid::from_u128(b));
        hit(if a == b { "equal" } else { "different" });
        ensure!((x == y) == (a == b), "{x} == {y} is {}", x == y);
        let z = x; // Copy
        #[allow(clippy::clone_on_copy)]
        let w = x.clone();
        ensure!(z == x && w == x, "a copy is not equal to its original");
        Ok(())
    });
    cx.check_n("barriers_uuid.rs::Uuid::new_v4 (assumption (b): the tokens of one run do not collide; 2000 draws)", 1, |_| {
        use uuid::Uuid;
        let mut all: Vec<Uuid> = (0..2000).map(|_| Uuid::new_v4()).collect();
        ensure!(all.iter().all(|u| u.get_version_num() == 4), "not a version-4 uuid");
        all.sort();
        ensure!(all.windows(2).all(|w| w[0] != w[1]), "two of 2000 v4 uuids collide");
        Ok(())
    });

    // ============================================================================================ small additions to earlier files
    cx.want(&["present", "absent"]).check("nettable_ext.rs::IndexMap::idiom_get_copied", |rng| {
        // `if let Some(&v) = map.get(k)`
        let m = im::gen_map(rng);
        let s = obs(&m)?;
        let k = pick_key(rng, &m);
        hit(if im_has(&s, k) { "present" } else { "absent" });
        let r = if let Some(&v) = m.get(&k) { Some(v) } else { None };
        let exp = if im_has(&s, k) { Some(im_get(&s, k)) } else { None };
        ensure!(r == exp && m.get(&k).copied() == exp, "get({k}) on {s:?} = {r:?}, spec {exp:?}");
        Ok(())
    });
    cx.check("nettable_std.rs::idiom_array2 (`for x in [a, b]`)", |rng| {
        let (a, b) = (rng.bytes(3), rng.bytes(3));
        let mut got = vec![];
        for x in [a.clone(), b.clone()] {
            got.push(x);
        }
        ensure!(got == vec![a, b], "for x in [a, b] yields {got:?}");
        Ok(())
    });
    cx.want(&["empty", "nonempty"]).check("nettable_std.rs::VecDeque::is_empty", |rng| {
        let d = if rng.chance(1, 3) { VecDeque::new() } else { seqs::gen_deque(rng, 50) };
        hit(if seqs::view(&d).is_empty() { "empty" } else { "nonempty" });
        ensure!(d.is_empty() == (seqs::view(&d).len() == 0), "is_empty");
        Ok(())
    });
    cx.check("netclose_idiom.rs::<VecDeque as IdiomCopiedVec>::idiom_copied_vec", |rng| {
        let d = seqs::gen_deque(rng, 50);
        let pre = seqs::view(&d);
        let r = d.iter().copied().collect::<Vec<u8>>();
        ensure!(r == pre && seqs::view(&d) == pre, "iter().copied().collect() = {r:?} on {pre:?}");
        Ok(())
    });
    cx.want(&["ok", "err"]).check("nettcp_try.rs::<Poll<Result<T, F>> as FromResidual<Result<Infallible, E>>>::from_residual + <T as From<T>>::from", |rng| {
        #[derive(Debug, PartialEq, Clone)]
        struct Wide(u64, &'static str);
        impl From<u8> for Wide {
            fn from(e: u8) -> Wide {
                Wide(e as u64 + 1000, "converted")
            }
        }
        // `?` on a Result inside a fn returning Poll<Result<T, F>>
        fn conv(x: Result<u32, u8>) -> Poll<Result<u32, Wide>> {
            let v = x?;
            Poll::Ready(Ok(v + 1))
        }
        fn same(x: Result<u32, Wide>) -> Poll<Result<u32, Wide>> {
            let v = x?;
            Poll::Ready(Ok(v + 1))
        }
        let (t, e) = (rng.u32() % 1000, rng.u8());
        if rng.bool() {
            hit("err");
            ensure!(conv(Err(e)) == Poll::Ready(Err(Wide::from(e))), "Err({e})? = {:?}", conv(Err(e)));
            let w = Wide(e as u64, "as is");
            ensure!(same(Err(w.clone())) == Poll::Ready(Err(w.clone())), "Err(w)? with F == E changed the error");
            ensure!(<Wide as From<Wide>>::from(w.clone()) == w, "From<T> for T is not the identity");
        } else {
            hit("ok");
            ensure!(conv(Ok(t)) == Poll::Ready(Ok(t + 1)), "Ok({t})? did not continue");
        }
        Ok(())
    });
    cx.want(&["some-first", "some-later", "none"]).check("nettcp_try.rs::<Vec as IdiomVecCopiedFind>::idiom_copied_find", |rng| {
        let v = rng.small_vec(16, 12);
        let p = pred(rng);
        let mut asked = vec![];
        let r = v.iter().copied().find(|x| {
            asked.push(*x);
            p(x)
        });
        match r {
            Some(x) => {
                let i = v.iter().position(|y| p(y)).ok_or("find = Some but p holds nowhere")?;
                hit(if i == 0 { "some-first" } else { "some-later" });
                ensure!(x == v[i] && p(&x) && asked == v[..=i].to_vec(), "find = Some({x}), first match at {i} in {v:?}, asked {asked:?}");
            }
            None => ensure!({ hit("none"); v.iter().all(|y| !p(y)) }, "find = None but p holds in {v:?}"),
        }
        Ok(())
    });
}

fn recopy_bytes(b: &[u8]) -> Vec<u8> {
    let mut v = Vec::with_capacity(b.len() + 9);
    v.extend(b.iter().copied());
    v
}

#[allow(dead_code)]
fn _type_shapes(_: Ipv4Addr, _: Ipv6Addr, _: R) {}
