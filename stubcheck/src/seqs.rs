//! std VecDeque / Vec / slice / iterator-idiom stubs: prelude/vecdeque.rs, barriers_std.rs (Vec::retain),
//! fs_vec.rs, rules_vec.rs, rules_idiom.rs, uring_std.rs.
use crate::im::seq_filter_by;
use crate::{ensure, hit, Cx, Rng, R};
use rand::seq::SliceRandom;
use rand::SeedableRng;
use std::cmp::Ordering;
use std::collections::VecDeque;

/// a deque whose ring buffer is often wrapped around (push_front / pop_front mixed in)
pub(crate) fn gen_deque(rng: &mut Rng, modulo: u8) -> VecDeque<u8> {
    let mut d = VecDeque::with_capacity(rng.range(0, 8));
    for _ in 0..rng.range(0, 30) {
        match rng.below(8) {
            0 => {
                d.pop_front();
            }
            1 => {
                d.pop_back();
            }
            2 | 3 => d.push_front(rng.u8() % modulo),
            _ => d.push_back(rng.u8() % modulo),
        }
    }
    d
}
pub(crate) fn view(d: &VecDeque<u8>) -> Vec<u8> {
    (0..d.len()).map(|i| d[i]).collect()
}
fn pred(rng: &mut Rng) -> impl Fn(&u8) -> bool + Copy {
    let m = rng.range(1, 5) as u8;
    let r = rng.u8() % m;
    let neg = rng.chance(1, 4);
    move |k: &u8| (*k % m == r) != neg
}
fn sorted<T: Ord + Clone>(v: &[T]) -> Vec<T> {
    let mut s = v.to_vec();
    s.sort();
    s
}
/// `a@.to_multiset() == b@.to_multiset()`
pub(crate) fn same_multiset<T: Ord + Clone>(a: &[T], b: &[T]) -> bool {
    sorted(a) == sorted(b)
}
/// a type whose Clone is observable: the clone is one generation older
#[derive(Debug, PartialEq, Eq)]
struct Gen(u8, u8);
impl Clone for Gen {
    fn clone(&self) -> Gen {
        Gen(self.0, self.1 + 1)
    }
}
impl Gen {
    fn clone_exact(&self) -> Gen {
        Gen(self.0, self.1)
    }
}
/// position_post / idiom_iter_position for a pure predicate
fn position_post(vals: &[u8], p: impl Fn(&u8) -> bool, r: Option<usize>) -> R {
    match r {
        Some(i) => {
            hit(if i == 0 { "some-first" } else { "some-later" });
            ensure!(i < vals.len() && p(&vals[i]), "position = Some({i}) but p is false there (or out of range) in {vals:?}");
            ensure!((0..i).all(|j| !p(&vals[j])), "position = Some({i}) but p holds earlier in {vals:?}");
        }
        None => ensure!({ hit("none"); vals.iter().all(|x| !p(x)) }, "position = None but p holds somewhere in {vals:?}"),
    }
    Ok(())
}

pub fn run(cx: &mut Cx) {
    // ------------------------------------------------------------------ vecdeque.rs
    cx.check("vecdeque.rs::VecDeque::retain", |rng| {
        let mut d = gen_deque(rng, 12);
        let pre = view(&d);
        let p = pred(rng);
        d.retain(|x| p(x));
        let exp = seq_filter_by(&pre, &|x: &u8| p(x));
        ensure!(view(&d) == exp, "retain: {pre:?} -> {:?}, seq_filter_by = {exp:?}", view(&d));
        Ok(())
    });
    cx.check_in(&["barriers_std.rs", "nettable_std.rs"], "Vec::retain", |rng| {
        let mut v = rng.small_vec(24, 12);
        let pre = v.clone();
        let p = pred(rng);
        v.retain(|x| p(x));
        let exp = seq_filter_by(&pre, &|x: &u8| p(x));
        ensure!(v == exp, "retain: {pre:?} -> {v:?}, vec_filter_by = {exp:?}");
        Ok(())
    });
    cx.want(&["contiguous", "wrapped"]).check("vecdeque.rs::VecDeque::make_contiguous", |rng| {
        let mut d = gen_deque(rng, 50);
        let pre = view(&d);
        hit(if d.as_slices().1.is_empty() { "contiguous" } else { "wrapped" });
        let fin_r: Vec<u8>;
        {
            let r = d.make_contiguous();
            ensure!(r.to_vec() == pre, "make_contiguous slice {r:?} != deque {pre:?}");
            // write through the slice (turmoil sorts it)
            for _ in 0..rng.range(0, 4) {
                if !r.is_empty() {
                    let i = rng.below(r.len());
                    if rng.bool() {
                        r[i] = rng.u8();
                    } else {
                        let j = rng.below(r.len());
                        r.swap(i, j);
                    }
                }
            }
            fin_r = r.to_vec();
        }
        ensure!(view(&d) == fin_r, "deque after the borrow {:?} != final slice {fin_r:?}", view(&d));
        Ok(())
    });
    // sorts: permutation only (that is all the stub claims)
    cx.check("vecdeque.rs::<[T]>::sort_unstable_by_key", |rng| {
        let mut v: Vec<(u8, u8)> = (0..rng.range(0, 30)).map(|_| (rng.u8() % 6, rng.u8())).collect();
        let pre = v.clone();
        v.sort_unstable_by_key(|e| e.0);
        ensure!(same_multiset(&pre, &v), "not a permutation: {pre:?} -> {v:?}");
        Ok(())
    });
    cx.check("vecdeque.rs::<[T]>::sort_by_key", |rng| {
        let mut v: Vec<(u8, u8)> = (0..rng.range(0, 30)).map(|_| (rng.u8() % 6, rng.u8())).collect();
        let pre = v.clone();
        v.sort_by_key(|e| e.0);
        ensure!(same_multiset(&pre, &v), "not a permutation: {pre:?} -> {v:?}");
        Ok(())
    });
    cx.check("vecdeque.rs::<[T]>::sort_by", |rng| {
        let mut v: Vec<(u8, u8)> = (0..rng.range(0, 30)).map(|_| (rng.u8() % 6, rng.u8())).collect();
        let pre = v.clone();
        if rng.bool() {
            v.sort_by(|a, b| a.0.cmp(&b.0).then(b.1.cmp(&a.1)));
        } else {
            v.sort_by(|a, b| b.0.cmp(&a.0));
        }
        ensure!(same_multiset(&pre, &v), "not a permutation: {pre:?} -> {v:?}");
        Ok(())
    });
    cx.check("vecdeque.rs::<[T]>::sort_unstable_by", |rng| {
        let mut v: Vec<(u8, u8)> = (0..rng.range(0, 30)).map(|_| (rng.u8() % 6, rng.u8())).collect();
        let pre = v.clone();
        v.sort_unstable_by(|a, b| a.0.cmp(&b.0));
        ensure!(same_multiset(&pre, &v), "not a permutation: {pre:?} -> {v:?}");
        Ok(())
    });
    // R11 idioms.  idiom_drain_all stands for `.drain(..).collect::<Vec<T>>()` (top.rs) and for
    // `for x in v.drain(..)` (Scheduler::tick): both shapes are exercised.
    cx.check("vecdeque.rs::<VecDeque as IdiomDrainAll>::idiom_drain_all", |rng| {
        let mut d = gen_deque(rng, 50);
        let pre = view(&d);
        let r: Vec<u8> = if rng.bool() {
            d.drain(..).collect::<Vec<u8>>()
        } else {
            let mut o = vec![];
            for x in d.drain(..) {
                o.push(x);
            }
            o
        };
        ensure!(r == pre && d.is_empty(), "drain(..): {pre:?} -> yielded {r:?}, left {:?}", view(&d));
        Ok(())
    });
    cx.check("vecdeque.rs::<Vec as IdiomDrainAll>::idiom_drain_all", |rng| {
        let mut v = rng.bytes(24);
        let pre = v.clone();
        let r: Vec<u8> = if rng.bool() {
            v.drain(..).collect::<Vec<u8>>()
        } else {
            let mut o = vec![];
            for x in v.drain(..) {
                o.push(x);
            }
            o
        };
        ensure!(r == pre && v.is_empty(), "drain(..): {pre:?} -> yielded {r:?}, left {v:?}");
        Ok(())
    });

    // ------------------------------------------------------------------ fs_vec.rs
    cx.check("fs_vec.rs::<Vec as IndexMut<Range<usize>>>::index_mut + axiom_vec_imut_range", |rng| {
        let mut v = rng.bytes(24);
        let pre = v.clone();
        let a = rng.range(0, pre.len());
        let b = rng.range(a, pre.len()); // a <= b <= len
        let newc: Vec<u8> = (a..b).map(|_| rng.u8()).collect();
        let fin_b: Vec<u8>;
        {
            let w = &mut v[a..b];
            ensure!(w.to_vec() == pre[a..b].to_vec(), "window {w:?} != pre[{a}..{b}] of {pre:?}");
            match rng.below(3) {
                0 => w.copy_from_slice(&newc),
                1 => w.fill(0xee),
                _ => {}
            }
            fin_b = w.to_vec();
        }
        ensure!(fin_b.len() == b - a, "window length changed");
        let exp: Vec<u8> = [&pre[..a], &fin_b[..], &pre[b..]].concat();
        ensure!(v == exp, "v[{a}..{b}] written: {pre:?} -> {v:?}, spec {exp:?}");
        Ok(())
    });
    // fs_vec.rs (corrected; was `final(s)@[i] == v` for every T: Clone) and uring_std.rs: `cloned(v, final(s)@[i])`, i.e. each element is
    // T::clone's result on v or v itself (std clones v into all slots but the last and moves v into the last).
    // Both are exercised with u8 (clone == identity) and with a type whose Clone is NOT the identity.
    cx.want(&["identity-clone", "other-clone"]).check("fs_vec.rs::<[T]>::fill", |rng| {
        if rng.bool() {
            hit("identity-clone");
            let mut v = rng.bytes(24);
            let n = v.len();
            let x = rng.u8();
            v.fill(x);
            ensure!(v.len() == n && v.iter().all(|y| *y == x), "fill({x}) -> {v:?}");
        } else {
            hit("other-clone");
            let mut v: Vec<Gen> = (0..rng.range(0, 6)).map(|_| Gen(rng.u8(), 0)).collect();
            let n = v.len();
            let x = Gen(rng.u8(), rng.u8() % 4);
            v.fill(x.clone_exact());
            // corrected stub (same clause as uring_std.rs): vstd::pervasive::cloned(v, e) for every element
            ensure!(v.len() == n && v.iter().all(|e| *e == x.clone() || *e == x), "fill({x:?}) -> {v:?}");
        }
        Ok(())
    });
    cx.want(&["identity-clone", "other-clone"]).check("uring_std.rs::<[T]>::fill", |rng| {
        if rng.bool() {
            hit("identity-clone");
            let mut v = rng.bytes(24);
            let n = v.len();
            let x = rng.u8();
            v.fill(x);
            ensure!(v.len() == n && v.iter().all(|y| *y == x), "fill({x}) -> {v:?}");
        } else {
            hit("other-clone");
            let mut v: Vec<Gen> = (0..rng.range(0, 6)).map(|_| Gen(rng.u8(), 0)).collect();
            let n = v.len();
            let x = Gen(rng.u8(), rng.u8() % 4);
            v.fill(x.clone_exact());
            // vstd::pervasive::cloned(v, e): call_ensures(T::clone, (&v,), e) || v == e
            ensure!(v.len() == n && v.iter().all(|e| *e == x.clone() || *e == x), "fill({x:?}) -> {v:?}");
        }
        Ok(())
    });

    // ------------------------------------------------------------------ fs_idioms.rs
    cx.want(&["both", "left-only", "right-only"]).check("fs_idioms.rs::<Vec as IdiomDrainPartition>::idiom_drain_partition", |rng| {
        let mut v = rng.small_vec(20, 12);
        let pre = v.clone();
        let p = pred(rng);
        let (a, b): (Vec<u8>, Vec<u8>) = v.drain(..).partition::<Vec<u8>, _>(|x| p(x));
        hit(match (a.is_empty(), b.is_empty()) { (false, false) => "both", (false, true) => "left-only", (true, false) => "right-only", _ => "none" });
        let (ea, eb) = (seq_filter_by(&pre, &|x: &u8| p(x)), seq_filter_by(&pre, &|x: &u8| !p(x)));
        ensure!(v.is_empty(), "drain(..).partition left {v:?}");
        ensure!(a == ea && b == eb, "partition of {pre:?} = ({a:?}, {b:?}), spec ({ea:?}, {eb:?})");
        Ok(())
    });
    cx.want(&["some", "none"]).check("fs_idioms.rs::<Vec as IdiomFindMap>::idiom_find_map", |rng| {
        let v = rng.small_vec(16, 12);
        let p = pred(rng);
        let f = move |x: &u8| if p(x) { Some(*x as u32 + 100) } else { None };
        let r = v.iter().find_map(|x| f(x));
        match r {
            Some(_) => ensure!({ hit("some"); v.iter().any(|x| f(x) == r) }, "find_map = {r:?} but no element of {v:?} maps to it"),
            None => ensure!({ hit("none"); v.iter().all(|x| f(x).is_none()) }, "find_map = None but f is Some somewhere in {v:?}"),
        }
        Ok(())
    });
    cx.check("fs_idioms.rs::<[T]>::to_vec", |rng| {
        let s: Vec<Gen> = (0..rng.range(0, 12)).map(|_| Gen(rng.u8(), rng.u8() % 4)).collect();
        let v = s[..].to_vec();
        // call_ensures(T::clone, (&s[i],), v[i]) for a Clone that is not the identity
        ensure!(v.len() == s.len() && (0..s.len()).all(|i| v[i] == s[i].clone()), "to_vec of {s:?} = {v:?}");
        Ok(())
    });

    // ------------------------------------------------------------------ rules_vec.rs
    cx.want(&["ok", "err-begin", "err-middle", "err-end", "unsorted-class"]).check("rules_vec.rs::<[T]>::binary_search_by", |rng| {
        // a slice partitioned w.r.t. c (Less* Equal* Greater*), not necessarily sorted inside a class
        let (lo, hi) = {
            let a = rng.u8() % 24;
            let b = rng.u8() % 24;
            (a.min(b), if rng.bool() { a.min(b) } else { a.max(b) })
        };
        let c = move |x: &u8| if *x < lo { Ordering::Less } else if *x > hi { Ordering::Greater } else { Ordering::Equal };
        let mut s: Vec<u8> = rng.small_vec(20, 24);
        s.sort_by_key(|x| match c(x) { Ordering::Less => 0, Ordering::Equal => 1, Ordering::Greater => 2 });
        if rng.bool() {
            s.sort(); // fully sorted variant (the common use)
        }
        let rank = |o: Ordering| match o { Ordering::Less => 0, Ordering::Equal => 1, Ordering::Greater => 2 };
        ensure!((0..s.len()).all(|a| (a + 1..s.len()).all(|b| rank(c(&s[a])) <= rank(c(&s[b])))), "generator: not partitioned");
        if s.windows(2).any(|w| w[0] > w[1]) {
            hit("unsorted-class");
        }
        match s.binary_search_by(|x| c(x)) {
            Ok(i) => ensure!({ hit("ok"); i < s.len() && c(&s[i]) == Ordering::Equal }, "Ok({i}) on {s:?} [{lo},{hi}]"),
            Err(i) => {
                hit(if i == 0 { "err-begin" } else if i == s.len() { "err-end" } else { "err-middle" });
                ensure!(i <= s.len(), "Err({i}) beyond len");
                ensure!((0..i).all(|j| c(&s[j]) == Ordering::Less), "Err({i}): not all Less before, {s:?} [{lo},{hi}]");
                ensure!((i..s.len()).all(|j| c(&s[j]) == Ordering::Greater), "Err({i}): not all Greater after, {s:?} [{lo},{hi}]");
            }
        }
        Ok(())
    });
    cx.check("rules_vec.rs::Result::unwrap_or_else", |rng| {
        let (t, e) = (rng.u32(), rng.u32());
        let r: Result<u32, u32> = if rng.bool() { Ok(t) } else { Err(e) };
        let x = r.unwrap_or_else(|e| e ^ 0xffff);
        match r {
            Ok(t) => ensure!(x == t, "Ok({t}).unwrap_or_else = {x}"),
            Err(e) => ensure!(x == e ^ 0xffff, "Err({e}).unwrap_or_else = {x}"),
        }
        Ok(())
    });

    // ------------------------------------------------------------------ rules_idiom.rs
    cx.want(&["some-first", "some-later", "none"]).check("rules_idiom.rs::<Vec as IdiomVecRules>::idiom_iter_position", |rng| {
        let v = rng.small_vec(20, 12);
        let p = pred(rng);
        position_post(&v, p, v.iter().position(|x| p(x)))
    });
    cx.check("rules_idiom.rs::<Vec as IdiomVecRules>::idiom_drain_to", |rng| {
        let mut v = rng.bytes(24);
        let pre = v.clone();
        let n = rng.range(0, pre.len()); // requires n <= len
        let r: Vec<u8> = v.drain(..n).collect();
        ensure!(r == pre[..n].to_vec() && v == pre[n..].to_vec(), "drain(..{n}): {pre:?} -> {r:?} / {v:?}");
        Ok(())
    });
    cx.check("rules_idiom.rs::core::mem::take", |rng| {
        let mut v = rng.bytes(8);
        let pre = v.clone();
        let r = std::mem::take(&mut v);
        ensure!(r == pre, "take returned {r:?}, old value {pre:?}");
        Ok(())
    });

    // ------------------------------------------------------------------ uring_std.rs
    cx.want(&["some-first", "some-later", "none"]).check("uring_std.rs::<slice::Iter as Iterator>::position", |rng| {
        let v = rng.small_vec(20, 12);
        let p = pred(rng);
        let mut it = v.iter();
        let skip = if rng.bool() { 0 } else { rng.range(0, v.len()) };
        for _ in 0..skip {
            it.next();
        }
        // vals = the iterator's remaining items
        let r = it.position(|x| p(x));
        position_post(&v[skip..], p, r)
    });
    cx.want(&["some-first", "some-later", "none"]).check("uring_std.rs::<vec_deque::Iter as VecDequeIterPosition>::position", |rng| {
        let d = gen_deque(rng, 12);
        let p = pred(rng);
        let r = d.iter().position(|x| p(x));
        position_post(&view(&d), p, r)
    });
    cx.check("uring_std.rs::<Filter<I, P> as Iterator>::count", |rng| {
        let d = gen_deque(rng, 12);
        let p = pred(rng);
        // keep[j] = the closure's answer on element j, recorded as it is called
        let mut keep: Vec<(u8, bool)> = vec![];
        let r = d
            .iter()
            .filter(|x| {
                let b = p(x);
                keep.push((**x, b));
                b
            })
            .count();
        let vals = view(&d);
        ensure!(keep.len() == vals.len() && (0..vals.len()).all(|j| keep[j].0 == vals[j]), "predicate calls {keep:?} on {vals:?}");
        ensure!(r == keep.iter().filter(|k| k.1).count(), "count = {r}, count_true(keep) differs");
        Ok(())
    });
    cx.check("uring_std.rs::axiom_vec_into_iter_seq + <VecDeque as Extend>::extend", |rng| {
        let mut d = gen_deque(rng, 50);
        let pre = view(&d);
        let add = rng.bytes(12);
        d.extend(add.clone());
        let exp: Vec<u8> = [&pre[..], &add[..]].concat();
        ensure!(view(&d) == exp, "extend: {pre:?} + {add:?} -> {:?}", view(&d));
        Ok(())
    });
    // drain(..) (RangeFull only: axiom_range_full): yields everything front to back; the deque ends up empty also
    // when the iterator is dropped early or leaked
    cx.want(&["all", "early-drop", "forget"]).check("uring_std.rs::VecDeque::drain(..) + axiom_range_full", |rng| {
        let mut d = gen_deque(rng, 50);
        let pre = view(&d);
        match rng.below(3) {
            0 => {
                hit("all");
                let mut it = d.drain(..);
                let mut got = vec![];
                while let Some(x) = it.next() {
                    got.push(x);
                }
                ensure!(it.next().is_none(), "drain yields again after None");
                drop(it);
                ensure!(got == pre, "drain(..) yields {got:?}, deque was {pre:?}");
            }
            1 => {
                hit("early-drop");
                let k = rng.range(0, pre.len());
                let got: Vec<u8> = d.drain(..).take(k).collect();
                ensure!(got == pre[..k].to_vec(), "first {k} of drain(..) = {got:?}, deque was {pre:?}");
            }
            _ => {
                hit("forget");
                std::mem::forget(d.drain(..));
            }
        }
        ensure!(d.is_empty(), "deque after drain(..): {:?}", view(&d));
        Ok(())
    });
    cx.check("uring_std.rs::raw_buf / raw_buf_mut + axiom_raw_mem_len (slice::from_raw_parts over live memory)", |rng| {
        let mut mem = rng.bytes(32);
        let len = rng.range(0, mem.len());
        let copy = mem.clone();
        let r: &[u8] = unsafe { std::slice::from_raw_parts(mem.as_ptr(), len) };
        ensure!(r.len() == len && r == &copy[..len], "from_raw_parts(ptr, {len})");
        let w: &mut [u8] = unsafe { std::slice::from_raw_parts_mut(mem.as_mut_ptr(), len) };
        ensure!(w.len() == len && w == &copy[..len], "from_raw_parts_mut(ptr, {len})");
        w.fill(0xaa);
        ensure!(mem[..len].iter().all(|b| *b == 0xaa) && mem[len..] == copy[len..], "write through from_raw_parts_mut");
        Ok(())
    });
    cx.check("uring_std.rs::<Vec as SliceRandom>::shuffle", |rng| {
        let mut v = rng.small_vec(24, 10);
        let pre = v.clone();
        let mut r = rand::rngs::SmallRng::seed_from_u64(rng.u64());
        v.shuffle(&mut r);
        ensure!(same_multiset(&pre, &v), "shuffle is not a permutation: {pre:?} -> {v:?}");
        Ok(())
    });
}
