//! stubcheck: differential test of the REAL libraries (indexmap, bytes, tokio, rand, std) against the
//! trusted contract stubs of ../specs/prelude/*.rs.
//!
//! For every executable stub contract one checker runs the real operation on randomly generated
//! states and evaluates the stub's `ensures` clause, translated by hand into Rust over a simple
//! executable model of the stub's spec view (Seq -> Vec, Set -> BTreeSet, Map -> BTreeMap, nat -> u128).
//! A panic of the real library inside the stub's `requires` domain is a mismatch too.
//!
//! Output: one line per contract  `STUB <file>::<item> cases=<n> ok|MISMATCH <detail>`
//! and a final                     `RESULT-JSON: {"contracts": n, "cases": m, "mismatches": [...]}`.
//! Exit status 0 iff there is no mismatch.
//!
//! Environment: VERIF_SEED (u64, default 0), VERIF_CASES (cases per contract, default 4000).

use std::cell::RefCell;
use std::collections::BTreeSet;
use std::panic::{catch_unwind, AssertUnwindSafe};

thread_local! { static HITS: RefCell<BTreeSet<&'static str>> = RefCell::new(BTreeSet::new()); }
/// Branch-coverage marker: a checker calls `hit("label")` when a case lands in that branch of the contract;
/// `cx.want(&[labels])` before a check makes "some label never hit" a failure of the check (vacuity guard).
pub fn hit(label: &'static str) {
    HITS.with(|h| {
        h.borrow_mut().insert(label);
    })
}

mod chan;
mod im;
mod pins;
mod round3;
mod round4;
mod round5;
mod misc;
mod netaddr;
mod seqs;
mod timebytes;

/// splitmix64 seeded per contract: a contract's cases do not depend on which other contracts run.
pub struct Rng(u64);
impl Rng {
    pub fn new(seed: u64, name: &str) -> Rng {
        let mut h: u64 = 0xcbf29ce484222325;
        for b in name.bytes() {
            h ^= b as u64;
            h = h.wrapping_mul(0x100000001b3);
        }
        let mut r = Rng(seed.wrapping_mul(0x9E3779B97F4A7C15) ^ h);
        r.u64();
        r
    }
    pub fn u64(&mut self) -> u64 {
        self.0 = self.0.wrapping_add(0x9E3779B97F4A7C15);
        let mut z = self.0;
        z = (z ^ (z >> 30)).wrapping_mul(0xBF58476D1CE4E5B9);
        z = (z ^ (z >> 27)).wrapping_mul(0x94D049BB133111EB);
        z ^ (z >> 31)
    }
    pub fn u128(&mut self) -> u128 {
        ((self.u64() as u128) << 64) | self.u64() as u128
    }
    pub fn u32(&mut self) -> u32 {
        (self.u64() >> 32) as u32
    }
    pub fn u16(&mut self) -> u16 {
        (self.u64() >> 48) as u16
    }
    pub fn u8(&mut self) -> u8 {
        (self.u64() >> 56) as u8
    }
    /// uniform in 0..n (n > 0)
    pub fn below(&mut self, n: usize) -> usize {
        (self.u64() % n as u64) as usize
    }
    /// uniform in lo..=hi
    pub fn range(&mut self, lo: usize, hi: usize) -> usize {
        lo + self.below(hi - lo + 1)
    }
    pub fn bool(&mut self) -> bool {
        self.u64() & 1 == 1
    }
    /// true with probability num/den
    pub fn chance(&mut self, num: usize, den: usize) -> bool {
        self.below(den) < num
    }
    pub fn bytes(&mut self, max_len: usize) -> Vec<u8> {
        let n = self.range(0, max_len);
        (0..n).map(|_| self.u8()).collect()
    }
    /// short vector of small values (many duplicates)
    pub fn small_vec(&mut self, max_len: usize, modulo: u8) -> Vec<u8> {
        let n = self.range(0, max_len);
        (0..n).map(|_| self.u8() % modulo).collect()
    }
}

pub type R = Result<(), String>;

/// Self-test of the checker: `VERIF_STUBCHECK_MUTATE=<name>` plants one deliberate error in the executable
/// MODEL (not in the library); the run must then report MISMATCH and exit 1.  Names: swap_remove, upsert,
/// retain, ip_key, loopback, fifo, min_tie, sat_sub, split_to.
pub fn mutant(name: &str) -> bool {
    thread_local! { static M: String = std::env::var("VERIF_STUBCHECK_MUTATE").unwrap_or_default(); }
    M.with(|m| m == name)
}

#[macro_export]
macro_rules! ensure {
    ($c:expr, $($arg:tt)*) => { if !($c) { return Err(format!($($arg)*)); } };
}

pub struct Cx {
    pub seed: u64,
    pub n: usize,
    contracts: usize,
    cases: u64,
    mismatches: Vec<(String, String)>,
    /// contracts listed in the file named by VERIF_STUBCHECK_KNOWN: still checked and printed, reported under
    /// "known" in the JSON, and not counted for the exit status
    known: Vec<String>,
    known_hit: Vec<(String, String)>,
    want: Vec<&'static str>,
}

impl Cx {
    /// Branches of the contract that the next check must exercise at least once.
    pub fn want(&mut self, labels: &[&'static str]) -> &mut Cx {
        self.want = labels.to_vec();
        self
    }
    /// Runs `n` cases of one contract.
    pub fn check_n<F: FnMut(&mut Rng) -> R>(&mut self, name: &str, n: usize, mut f: F) {
        let mut rng = Rng::new(self.seed, name);
        HITS.with(|h| h.borrow_mut().clear());
        let want = std::mem::take(&mut self.want);
        let mut first: Option<String> = None;
        let mut bad = 0usize;
        for case in 0..n {
            let r = catch_unwind(AssertUnwindSafe(|| f(&mut rng)));
            let e = match r {
                Ok(Ok(())) => continue,
                Ok(Err(e)) => e,
                Err(p) => {
                    let msg = p
                        .downcast_ref::<String>()
                        .cloned()
                        .or_else(|| p.downcast_ref::<&str>().map(|s| s.to_string()))
                        .unwrap_or_else(|| "<non-string panic>".into());
                    format!("real library panicked inside the stub's precondition: {msg}")
                }
            };
            bad += 1;
            if first.is_none() {
                first = Some(format!("case #{case}: {e}"));
            }
        }
        self.contracts += 1;
        self.cases += n as u64;
        let missing: Vec<&str> = HITS.with(|h| want.iter().filter(|l| !h.borrow().contains(*l)).copied().collect());
        if first.is_none() && !missing.is_empty() {
            bad = n;
            first = Some(format!("vacuous check: the generator never reached branch(es) {missing:?} of the contract"));
        }
        match first {
            None => println!("STUB {name} cases={n} ok"),
            Some(d) => {
                let d = format!("{d} ({bad}/{n} cases fail)");
                if self.known.iter().any(|k| k == name) {
                    println!("STUB {name} cases={n} MISMATCH [known] {d}");
                    self.known_hit.push((name.to_string(), d));
                } else {
                    println!("STUB {name} cases={n} MISMATCH {d}");
                    self.mismatches.push((name.to_string(), d));
                }
            }
        }
    }
    pub fn check<F: FnMut(&mut Rng) -> R>(&mut self, name: &str, f: F) {
        let n = self.n;
        self.check_n(name, n, f)
    }
    /// Source pin.  The checks are hand translations of the stub text; a precondition that is weakened in the
    /// stub (e.g. a dropped `requires`) is invisible to a dynamic test that only draws inputs from the domain
    /// it was written for.  A pin states which clause the translation relies on; it fails when the stub file
    /// no longer contains it (whitespace-insensitive), i.e. when the stub changed and the check must be re-read.
    pub fn pin(&mut self, file: &str, item: &str, clause: &str) {
        let name = format!("{file}::{item} (source pin)");
        let squeeze = |t: &str| t.chars().filter(|c| !c.is_whitespace()).collect::<String>();
        let path = prelude_dir().join(file);
        let verdict = match std::fs::read_to_string(&path) {
            Err(e) => Some(format!("cannot read {}: {e} (set VERIF_PRELUDE_DIR)", path.display())),
            Ok(text) if squeeze(&text).contains(&squeeze(clause)) => None,
            Ok(_) => Some(format!("the stub no longer contains `{clause}`: the contract changed, re-read the stub, update the check and this pin")),
        };
        self.contracts += 1;
        self.cases += 1;
        match verdict {
            None => println!("STUB {name} cases=1 ok"),
            Some(d) => {
                if self.known.iter().any(|k| *k == name) {
                    println!("STUB {name} cases=1 MISMATCH [known] {d}");
                    self.known_hit.push((name, d));
                } else {
                    println!("STUB {name} cases=1 MISMATCH {d}");
                    self.mismatches.push((name, d));
                }
            }
        }
    }
    /// The same contract text appears in several stub files: one line per file.
    pub fn check_in<F: FnMut(&mut Rng) -> R>(&mut self, files: &[&str], item: &str, mut f: F) {
        let want = std::mem::take(&mut self.want);
        for file in files {
            self.want = want.clone();
            self.check(&format!("{file}::{item}"), &mut f);
        }
    }
}

/// Some(panic message) if f panics
pub fn panics<T>(f: impl FnOnce() -> T) -> Option<String> {
    match catch_unwind(AssertUnwindSafe(f)) {
        Ok(_) => None,
        Err(p) => Some(
            p.downcast_ref::<String>()
                .cloned()
                .or_else(|| p.downcast_ref::<&str>().map(|s| s.to_string()))
                .unwrap_or_else(|| "<non-string panic>".into()),
        ),
    }
}

/// ../specs/prelude relative to the crate (VERIF_PRELUDE_DIR overrides)
fn prelude_dir() -> std::path::PathBuf {
    if let Ok(d) = std::env::var("VERIF_PRELUDE_DIR") {
        return d.into();
    }
    let base = std::env::var("CARGO_MANIFEST_DIR").unwrap_or_else(|_| env!("CARGO_MANIFEST_DIR").to_string());
    std::path::Path::new(&base).join("..").join("specs").join("prelude")
}

fn json_str(s: &str) -> String {
    let mut o = String::from("\"");
    for c in s.chars() {
        match c {
            '"' => o.push_str("\\\""),
            '\\' => o.push_str("\\\\"),
            '\n' => o.push_str("\\n"),
            c if (c as u32) < 0x20 => o.push_str(&format!("\\u{:04x}", c as u32)),
            c => o.push(c),
        }
    }
    o.push('"');
    o
}

fn main() {
    let seed = std::env::var("VERIF_SEED").ok().and_then(|s| s.trim().parse::<u64>().ok()).unwrap_or(0);
    let n = std::env::var("VERIF_CASES").ok().and_then(|s| s.trim().parse::<usize>().ok()).unwrap_or(4000);
    // expected panics (channel(0), ...) and panics turned into mismatches must not spam stderr
    std::panic::set_hook(Box::new(|_| {}));
    let t0 = std::time::Instant::now();
    let known: Vec<String> = std::env::var("VERIF_STUBCHECK_KNOWN")
        .ok()
        .and_then(|f| std::fs::read_to_string(f).ok())
        .map(|t| t.lines().map(|l| l.trim().to_string()).filter(|l| !l.is_empty() && !l.starts_with('#')).collect())
        .unwrap_or_default();
    let mut cx = Cx { seed, n, contracts: 0, cases: 0, mismatches: vec![], known, known_hit: vec![], want: vec![] };
    println!("stubcheck: seed={seed} cases-per-contract={n}");
    if let Ok(m) = std::env::var("VERIF_STUBCHECK_MUTATE") {
        println!("stubcheck: SELF-TEST, model mutation `{m}` planted: mismatches are expected");
    }
    im::run(&mut cx);
    seqs::run(&mut cx);
    netaddr::run(&mut cx);
    timebytes::run(&mut cx);
    chan::run(&mut cx);
    misc::run(&mut cx);
    round3::run(&mut cx);
    round4::run(&mut cx);
    round5::run(&mut cx);
    pins::run(&mut cx);
    let js = |v: &Vec<(String, String)>| -> String {
        v.iter().map(|(n, d)| format!("{{\"contract\": {}, \"detail\": {}}}", json_str(n), json_str(d))).collect::<Vec<_>>().join(", ")
    };
    println!("stubcheck: elapsed {:.2} s", t0.elapsed().as_secs_f64());
    println!(
        "RESULT-JSON: {{\"contracts\": {}, \"cases\": {}, \"seed\": {}, \"mismatches\": [{}], \"known\": [{}]}}",
        cx.contracts,
        cx.cases,
        seed,
        js(&cx.mismatches),
        js(&cx.known_hit)
    );
    std::process::exit(if cx.mismatches.is_empty() { 0 } else { 1 });
}
