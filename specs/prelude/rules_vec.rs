// std slice / Vec / Result extras used by unit `rules` (ASSUMED contracts on std).
pub open spec fn ord_rank(o: Ordering) -> int { match o { Ordering::Less => 0, Ordering::Equal => 1, Ordering::Greater => 2 } }
// the slice is "sorted with respect to the comparator": Less* Equal* Greater*
pub open spec fn bs_partitioned<T>(s: Seq<T>, c: spec_fn(T) -> Ordering) -> bool {
    forall|a: int, b: int| 0 <= a < b < s.len() ==> ord_rank(c(#[trigger] s[a])) <= ord_rank(c(#[trigger] s[b]))
}
// <[T]>::binary_search_by: std promises a meaningful result only for a slice sorted w.r.t. the comparator
// ("unspecified and meaningless" otherwise), so nothing is promised otherwise.  For every spec function c
// that the closure's contract pins down: Ok(i) points at an Equal element; Err(i) is the insertion point
// (everything before is Less, everything from i on is Greater).
pub assume_specification<'a, T, F: FnMut(&'a T) -> Ordering> [<[T]>::binary_search_by] (s: &'a [T], f: F) -> (r: core::result::Result<usize, usize>)
    requires forall|x: &T| #[trigger] f.requires((x,)),
    ensures
        forall|c: spec_fn(T) -> Ordering| #![trigger bs_partitioned(s@, c)]
            (forall|x: T, o: Ordering| #[trigger] f.ensures((&x,), o) ==> o == c(x)) && bs_partitioned(s@, c)
            ==> match r {
                Ok(i) => i < s@.len() && c(s@[i as int]) == Ordering::Equal,
                Err(i) => i <= s@.len()
                    && (forall|j: int| 0 <= j < i ==> c(#[trigger] s@[j]) == Ordering::Less)
                    && (forall|j: int| i <= j < s@.len() ==> c(#[trigger] s@[j]) == Ordering::Greater),
            };

// Result::unwrap_or_else: Ok(t) => t, Err(e) => f(e)
pub assume_specification<T, E, F: FnOnce(E) -> T> [core::result::Result::<T, E>::unwrap_or_else] (r: core::result::Result<T, E>, f: F) -> (x: T)
    requires r is Err ==> f.requires((r->Err_0,)),
    ensures match r { Ok(t) => x == t, Err(e) => f.ensures((e,), x) };
