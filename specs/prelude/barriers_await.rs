// Model of the suspension points of crates/turmoil/src/barriers.rs (rewrite R24: `EXPR.await` => `EXPR.await_model(fx)`).
// Every item is an ASSUMED contract.
//
// A suspended task resumes later: in between, other tasks run and change the world.  `world_evolves(a, b)` is all that
// is known about that change: channel logs only grow at the end, the closed/allocated/fired/dropped sets only grow.
pub open spec fn world_evolves(a: World, b: World) -> bool {
    &&& forall|c: int| #![trigger b.log_of(c)] a.log_of(c).is_prefix_of(b.log_of(c))
    &&& a.mpsc_log@.dom().subset_of(b.mpsc_log@.dom())
    &&& a.mpsc_closed@.subset_of(b.mpsc_closed@)
    &&& a.os_alloc@.subset_of(b.os_alloc@)
    &&& a.os_fired@.subset_of(b.os_fired@)
    &&& a.os_rx_dropped@.subset_of(b.os_rx_dropped@)
}
// The sender of oneshot channel k is dropped without having sent (drops are not events of the model, so this is a
// timeless fact about the execution; it is only ever learned from a failed receive).
pub uninterp spec fn os_abandoned(k: int) -> bool;

pub struct RecvError;
impl<T> oneshot::Receiver<T> {
    // `rx.await`: resumes only after the value was sent (Ok) or the sender was dropped unsent (Err)
    #[verifier::external_body]
    pub fn await_model(self, fx: &mut World) -> (r: core::result::Result<T, RecvError>)
        ensures
            world_evolves(*old(fx), *final(fx)),
            r is Ok ==> final(fx).os_fired@.contains(self.id@),
            r is Err ==> os_abandoned(self.id@),
    { unimplemented!() }
}

// `UnboundedSender::closed()`: a future that completes once the receiver is dropped/closed
pub struct Closed { pub chan: Ghost<int> }
impl<T> UnboundedSender<T> {
    #[verifier::external_body]
    pub fn closed(&self) -> (r: Closed) ensures r.chan == self.chan { unimplemented!() }
}
impl Closed {
    #[verifier::external_body]
    pub fn await_model(self, fx: &mut World)
        ensures
            world_evolves(*old(fx), *final(fx)),
            final(fx).mpsc_closed@.contains(self.chan@),
    { unimplemented!() }
}

// `tokio::select!` over two futures: resumes when one of them completes and runs that branch (the other future is
// dropped).  Which one is unconstrained.  The effect state is the first macro argument (R13 on macro invocations).
#[verifier::external_body]
pub fn select_pick() -> bool { unimplemented!() }
pub mod tokio {
    // (the generator's automatic `_ = e;` => `let _ = e;` rewrite also hits the branch heads: `let` is accepted and ignored)
    macro_rules! select_model {
        ($fx:ident; biased; let $p1:pat = $f1:expr => $b1:block let $p2:pat = $f2:expr => $b2:block) => {
            if $crate::pre::select_pick() { let $p1 = ($f1).await_model($fx); $b1 } else { let $p2 = ($f2).await_model($fx); $b2 }
        };
        ($fx:ident; biased; $p1:pat = $f1:expr => $b1:block $p2:pat = $f2:expr => $b2:block) => {
            if $crate::pre::select_pick() { let $p1 = ($f1).await_model($fx); $b1 } else { let $p2 = ($f2).await_model($fx); $b2 }
        };
        ($fx:ident; let $p1:pat = $f1:expr => $b1:block let $p2:pat = $f2:expr => $b2:block) => {
            if $crate::pre::select_pick() { let $p1 = ($f1).await_model($fx); $b1 } else { let $p2 = ($f2).await_model($fx); $b2 }
        };
        ($fx:ident; $p1:pat = $f1:expr => $b1:block $p2:pat = $f2:expr => $b2:block) => {
            if $crate::pre::select_pick() { let $p1 = ($f1).await_model($fx); $b1 } else { let $p2 = ($f2).await_model($fx); $b2 }
        };
    }
    pub(crate) use select_model as select;
}
