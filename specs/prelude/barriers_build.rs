// Pieces needed to bring Barrier::build / Barrier::new / BarrierRepo::new / Barrier::wait under contract.
// Every item is an ASSUMED contract.
pub use core::ops::Deref;

// ---- type identity of erased trigger values ----
// `any_is::<T>(x)`: the erased value x is a T (what `<dyn Any>::is::<T>()` answers).
pub uninterp spec fn any_is<T: 'static>(x: &dyn Any) -> bool;
pub uninterp spec fn box_is<T: 'static>(b: Box<dyn AnySend>) -> bool;
pub uninterp spec fn unboxed<T: 'static>(b: Box<dyn AnySend>) -> T;
// a T erased is a T; boxing and unboxing a T gives the value back
pub broadcast axiom fn axiom_as_any_is<T: 'static>(t: &T) ensures any_is::<T>(#[trigger] as_any(t));
pub broadcast axiom fn axiom_boxed_is<T: 'static + Send>(t: T) ensures box_is::<T>(#[trigger] boxed_any(t)), unboxed::<T>(boxed_any(t)) == t;
// @broadcast axiom_as_any_is, axiom_boxed_is

// ---- the type-erasing wrapper Barrier::build puts around the user's condition ----
//     Box::new(move |t: &dyn Any| match t.downcast_ref::<T>() { Some(t) => condition(t), None => false })
// Verus has neither `dyn Fn` nor `downcast_ref`; the expression is replaced (R11) by this stub.  ASSUMED: the wrapper
// answers false on every value that is not a T and the user's answer on a T; the user's closure is callable on every T
// (precondition) and is a function of its argument (cond_wf of the result).
#[verifier::external_body]
pub fn idiom_erase_condition<T: 'static, F: Fn(&T) -> bool + 'static>(condition: F) -> (c: Box<Condition>)
    requires
        forall|t: &T| #[trigger] condition.requires((t,)),
    ensures
        cond_wf(c),
        forall|x: &dyn Any| #[trigger] cond_holds(*c, x) ==> any_is::<T>(x),
        forall|t: &T| (#[trigger] cond_holds(*c, as_any(t)) ==> condition.ensures((t,), true))
            && (!cond_holds(*c, as_any(t)) ==> condition.ensures((t,), false)),
{ unimplemented!() }

// ---- tokio::sync::mpsc::unbounded_channel ----
impl World {
    pub open spec fn mpsc_fresh(self, c: int) -> bool { !self.mpsc_log@.dom().contains(c) && !self.mpsc_closed@.contains(c) }
    // a new, empty, open channel c; nothing else changes
    pub open spec fn after_mpsc_channel(self, c: int) -> World {
        World { mpsc_log: Ghost(self.mpsc_log@.insert(c, Seq::empty())), ..self }
    }
}
// The receiving half with its read position (`@rename UnboundedReceiver => UnboundedReceiverC` in the unit; the receiver
// stub of barriers_tokio.rs has no cursor).  pos = number of messages of the channel's log already handed out.
pub struct UnboundedReceiverC<T> { pub chan: Ghost<int>, pub pos: Ghost<nat>, pub _p: core::marker::PhantomData<T> }
pub mod mpsc {
    use vstd::prelude::*;
    use super::*;
    // both halves name the same channel, which has never been used before
    #[verifier::external_body]
    pub fn unbounded_channel<T>(fx: &mut World) -> (r: (UnboundedSender<T>, UnboundedReceiverC<T>))
        ensures
            r.0.chan == r.1.chan,
            r.1.pos@ == 0,
            old(fx).mpsc_fresh(r.0.chan@),
            *final(fx) == old(fx).after_mpsc_channel(r.0.chan@),
    { unimplemented!() }
}
