// std::collections::VecDeque: vstd supplies len/index/push_back/pop_front/remove/clear;
// the rest are ASSUMED contracts.
pub open spec fn seq_filter_by<T>(s: Seq<T>, keep: spec_fn(T) -> bool) -> Seq<T> decreases s.len() {
    if s.len() == 0 { Seq::empty() } else {
        let p = seq_filter_by(s.drop_last(), keep);
        if keep(s.last()) { p.push(s.last()) } else { p }
    }
}

// retain(f): keeps exactly the elements on which f returns true, in order.  The closure must be
// a function of the element (its spliced `ensures` fixes the result), which Verus checks.
pub assume_specification<T, A: core::alloc::Allocator, F: FnMut(&T) -> bool> [VecDeque::<T, A>::retain] (v: &mut VecDeque<T, A>, f: F)
    requires
        forall|x: &T| #[trigger] f.requires((x,)),
    ensures
        // for every predicate p that the closure's contract pins down, the result is the p-filter
        forall|p: spec_fn(T) -> bool| #![trigger seq_filter_by(old(v)@, p)]
            (forall|x: T| (f.ensures((&x,), true) ==> p(x)) && (f.ensures((&x,), false) ==> !p(x)))
            ==> final(v)@ == seq_filter_by(old(v)@, p);

pub proof fn lemma_filter_all<T>(s: Seq<T>, keep: spec_fn(T) -> bool)
    requires forall|i: int| 0 <= i < s.len() ==> keep(#[trigger] s[i])
    ensures seq_filter_by(s, keep) == s
    decreases s.len()
{
    if s.len() > 0 {
        lemma_filter_all(s.drop_last(), keep);
        assert(s.drop_last().push(s.last()) =~= s);
    }
}
pub proof fn lemma_filter_ext<T>(s: Seq<T>, p: spec_fn(T) -> bool, q: spec_fn(T) -> bool)
    requires forall|i: int| 0 <= i < s.len() ==> p(#[trigger] s[i]) == q(s[i])
    ensures seq_filter_by(s, p) == seq_filter_by(s, q)
    decreases s.len()
{
    if s.len() > 0 { lemma_filter_ext(s.drop_last(), p, q); }
}
// every element of a filter result is an element of the source that satisfies the predicate, order kept
pub proof fn lemma_filter_sub<T>(s: Seq<T>, keep: spec_fn(T) -> bool)
    ensures
        seq_filter_by(s, keep).len() <= s.len(),
        forall|i: int| 0 <= i < seq_filter_by(s, keep).len() ==> keep(#[trigger] seq_filter_by(s, keep)[i]) && s.contains(seq_filter_by(s, keep)[i]),
    decreases s.len()
{
    if s.len() > 0 {
        lemma_filter_sub(s.drop_last(), keep);
        let f = seq_filter_by(s, keep);
        assert forall|i: int| 0 <= i < f.len() implies keep(#[trigger] f[i]) && s.contains(f[i]) by {
            let p = seq_filter_by(s.drop_last(), keep);
            if i < p.len() {
                assert(f[i] == p[i]);
                let j = choose|j: int| 0 <= j < s.drop_last().len() && s.drop_last()[j] == p[i];
                assert(s[j] == p[i]);
            } else {
                assert(f[i] == s.last());
                assert(s[s.len() - 1] == s.last());
            }
        }
    }
}

// make_contiguous: the same elements as one mutable slice (prophecy-style: the deque ends up as the slice ends up)
pub assume_specification<T, A: core::alloc::Allocator> [VecDeque::<T, A>::make_contiguous] (v: &mut VecDeque<T, A>) -> (r: &mut [T])
    ensures r@ == old(v)@, final(v)@ == final(r)@;

// slice sorts: the result is a permutation of the input.  (Sortedness / stability are not stated: no
// extracted function depends on them; a caller that needs more will fail, not pass.)
pub assume_specification<T, K: Ord, F: FnMut(&T) -> K> [<[T]>::sort_unstable_by_key] (s: &mut [T], f: F)
    ensures final(s)@.to_multiset() == old(s)@.to_multiset();
pub assume_specification<T, K: Ord, F: FnMut(&T) -> K> [<[T]>::sort_by_key] (s: &mut [T], f: F)
    ensures final(s)@.to_multiset() == old(s)@.to_multiset();
pub assume_specification<T, F: FnMut(&T, &T) -> Ordering> [<[T]>::sort_by] (s: &mut [T], f: F)
    ensures final(s)@.to_multiset() == old(s)@.to_multiset();
pub assume_specification<T, F: FnMut(&T, &T) -> Ordering> [<[T]>::sort_unstable_by] (s: &mut [T], f: F)
    ensures final(s)@.to_multiset() == old(s)@.to_multiset();

// VecDeque::swap_remove_back / swap_remove_front (std): the element at `index` is removed and replaced by the last / first element;
// out of range: None and nothing changes.  Order of the remaining elements is NOT preserved (that is what a caller relying on FIFO
// order must fail on).
pub assume_specification<T, A: core::alloc::Allocator> [VecDeque::<T, A>::swap_remove_back] (v: &mut VecDeque<T, A>, index: usize) -> (r: Option<T>)
    ensures
        index < old(v)@.len() ==> r == Some(old(v)@[index as int])
            && final(v)@ == old(v)@.update(index as int, old(v)@.last()).drop_last(),
        index >= old(v)@.len() ==> r is None && final(v)@ == old(v)@;
pub assume_specification<T, A: core::alloc::Allocator> [VecDeque::<T, A>::swap_remove_front] (v: &mut VecDeque<T, A>, index: usize) -> (r: Option<T>)
    ensures
        index < old(v)@.len() ==> r == Some(old(v)@[index as int])
            && final(v)@ == old(v)@.update(index as int, old(v)@.first()).drop_first(),
        index >= old(v)@.len() ==> r is None && final(v)@ == old(v)@;

// R11 idiom stubs (ASSUMED contracts on std iterator idioms Verus cannot ingest)
pub trait IdiomDrainAll<T> {
    spec fn idiom_view(&self) -> Seq<T>;
    // `self.drain(..).collect::<Vec<T>>()`: all elements, in order; the collection is left empty
    fn idiom_drain_all(&mut self) -> (r: Vec<T>)
        ensures r@ == old(self).idiom_view(), final(self).idiom_view() == Seq::<T>::empty();
}
impl<T> IdiomDrainAll<T> for VecDeque<T> {
    open spec fn idiom_view(&self) -> Seq<T> { self@ }
    #[verifier::external_body]
    fn idiom_drain_all(&mut self) -> (r: Vec<T>) { unimplemented!() }
}
impl<T> IdiomDrainAll<T> for Vec<T> {
    open spec fn idiom_view(&self) -> Seq<T> { self@ }
    #[verifier::external_body]
    fn idiom_drain_all(&mut self) -> (r: Vec<T>) { unimplemented!() }
}
