// std::collections::VecDeque: vstd supplies len/index/push_back/pop_front/remove/clear;
// the rest are ASSUMED contracts.
pub open spec fn seq_filter_by<T>(s: Seq<T>, keep: spec_fn(T) -> bool) -> Seq<T> decreases s.len() {
    if s.len() == 0 { Seq::empty() } else {
        let p = seq_filter_by(s.drop_last(), keep);
        if keep(s.last()) { p.push(s.last()) } else { p }
    }
}

// retain(f): keeps exactly the elements on which f returns true, in order.  The closure must be
// a function of the element (its spliced `ensures` fixes the result), which Verus checks.
pub assume_specification<T, A: core::alloc::Allocator, F: FnMut(&T) -> bool> [VecDeque::<T, A>::retain] (v: &mut VecDeque<T, A>, f: F)
    requires
        forall|x: &T| #[trigger] f.requires((x,)),
    ensures
        // for every predicate p that the closure's contract pins down, the result is the p-filter
        forall|p: spec_fn(T) -> bool| #![trigger seq_filter_by(old(v)@, p)]
            (forall|x: T| (f.ensures((&x,), true) ==> p(x)) && (f.ensures((&x,), false) ==> !p(x)))
            ==> final(v)@ == seq_filter_by(old(v)@, p);
