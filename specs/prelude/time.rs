// std::time::Duration / tokio::time::Instant as mathematical naturals (nanoseconds).
// ASSUMPTION (machine arithmetic treated as mathematical): the overflow panics of
// Duration::add / Instant::add beyond 2^64 s are not modelled.  Duration::sub keeps its
// real precondition (panics if rhs > self).
#[derive(Clone, Copy)]
pub struct Duration { pub ns: Ghost<nat> }
#[derive(Clone, Copy)]
pub struct Instant { pub ns: Ghost<nat> }
impl core::fmt::Debug for Duration { #[verifier::external_body] fn fmt(&self, f: &mut core::fmt::Formatter<'_>) -> core::fmt::Result { unimplemented!() } }
impl core::fmt::Debug for Instant { #[verifier::external_body] fn fmt(&self, f: &mut core::fmt::Formatter<'_>) -> core::fmt::Result { unimplemented!() } }

impl PartialEq for Duration { #[verifier::external_body] fn eq(&self, o: &Duration) -> bool { unimplemented!() } }
impl Eq for Duration {}
impl PartialOrd for Duration { #[verifier::external_body] fn partial_cmp(&self, o: &Duration) -> Option<Ordering> { unimplemented!() } }
impl Ord for Duration { #[verifier::external_body] fn cmp(&self, o: &Duration) -> Ordering { unimplemented!() } }
impl PartialEq for Instant { #[verifier::external_body] fn eq(&self, o: &Instant) -> bool { unimplemented!() } }
impl Eq for Instant {}
impl PartialOrd for Instant { #[verifier::external_body] fn partial_cmp(&self, o: &Instant) -> Option<Ordering> { unimplemented!() } }
impl Ord for Instant { #[verifier::external_body] fn cmp(&self, o: &Instant) -> Ordering { unimplemented!() } }

pub open spec fn nat_cmp(a: nat, b: nat) -> Option<Ordering> {
    if a < b { Some(Ordering::Less) } else if a > b { Some(Ordering::Greater) } else { Some(Ordering::Equal) }
}
impl PartialEqSpecImpl for Duration {
    open spec fn obeys_eq_spec() -> bool { true }
    open spec fn eq_spec(&self, other: &Duration) -> bool { self.ns@ == other.ns@ }
}
impl PartialOrdSpecImpl for Duration {
    open spec fn obeys_partial_cmp_spec() -> bool { true }
    open spec fn partial_cmp_spec(&self, other: &Duration) -> Option<Ordering> { nat_cmp(self.ns@, other.ns@) }
}
impl PartialEqSpecImpl for Instant {
    open spec fn obeys_eq_spec() -> bool { true }
    open spec fn eq_spec(&self, other: &Instant) -> bool { self.ns@ == other.ns@ }
}
impl PartialOrdSpecImpl for Instant {
    open spec fn obeys_partial_cmp_spec() -> bool { true }
    open spec fn partial_cmp_spec(&self, other: &Instant) -> Option<Ordering> { nat_cmp(self.ns@, other.ns@) }
}

impl AddSpecImpl<Duration> for Duration {
    open spec fn obeys_add_spec() -> bool { true }
    open spec fn add_req(self, rhs: Duration) -> bool { true }
    open spec fn add_spec(self, rhs: Duration) -> Duration { Duration { ns: Ghost(self.ns@ + rhs.ns@) } }
}
impl core::ops::Add for Duration { type Output = Duration;
    #[verifier::external_body] fn add(self, rhs: Duration) -> Duration { unimplemented!() } }
impl SubSpecImpl<Duration> for Duration {
    open spec fn obeys_sub_spec() -> bool { true }
    open spec fn sub_req(self, rhs: Duration) -> bool { self.ns@ >= rhs.ns@ }
    open spec fn sub_spec(self, rhs: Duration) -> Duration { Duration { ns: Ghost((self.ns@ - rhs.ns@) as nat) } }
}
impl core::ops::Sub for Duration { type Output = Duration;
    #[verifier::external_body] fn sub(self, rhs: Duration) -> Duration { unimplemented!() } }
impl AddSpecImpl<Duration> for Instant {
    open spec fn obeys_add_spec() -> bool { true }
    open spec fn add_req(self, rhs: Duration) -> bool { true }
    open spec fn add_spec(self, rhs: Duration) -> Instant { Instant { ns: Ghost(self.ns@ + rhs.ns@) } }
}
impl core::ops::Add<Duration> for Instant { type Output = Instant;
    #[verifier::external_body] fn add(self, rhs: Duration) -> Instant { unimplemented!() } }
impl SubSpecImpl<Instant> for Instant {
    open spec fn obeys_sub_spec() -> bool { true }
    // tokio's Instant - Instant saturates to zero
    open spec fn sub_req(self, rhs: Instant) -> bool { true }
    open spec fn sub_spec(self, rhs: Instant) -> Duration {
        Duration { ns: Ghost(if self.ns@ >= rhs.ns@ { (self.ns@ - rhs.ns@) as nat } else { 0 }) } }
}
impl core::ops::Sub<Instant> for Instant { type Output = Duration;
    #[verifier::external_body] fn sub(self, rhs: Instant) -> Duration { unimplemented!() } }
impl core::ops::AddAssign<Duration> for Duration {
    #[verifier::external_body] fn add_assign(&mut self, rhs: Duration)
        ensures final(self).ns@ == old(self).ns@ + rhs.ns@
    { unimplemented!() } }

impl Duration {
    pub exec const ZERO: Duration ensures Self::ZERO.ns@ == 0 { Duration { ns: Ghost(0) } }
    #[verifier::external_body]
    pub fn from_millis(ms: u64) -> (d: Duration) ensures d.ns@ == ms as nat * 1_000_000 { unimplemented!() }
    #[verifier::external_body]
    pub fn from_secs(s: u64) -> (d: Duration) ensures d.ns@ == s as nat * 1_000_000_000 { unimplemented!() }
    #[verifier::external_body]
    pub fn from_nanos(n: u64) -> (d: Duration) ensures d.ns@ == n as nat { unimplemented!() }
    #[verifier::external_body]
    pub fn as_millis(&self) -> (m: u128) ensures m as nat == self.ns@ / 1_000_000 { unimplemented!() }
    #[verifier::external_body]
    pub fn as_nanos(&self) -> (m: u128) ensures m as nat == self.ns@ { unimplemented!() }
    #[verifier::external_body]
    pub fn is_zero(&self) -> (b: bool) ensures b == (self.ns@ == 0) { unimplemented!() }
    #[verifier::external_body]
    pub fn saturating_sub(self, rhs: Duration) -> (d: Duration)
        ensures d.ns@ == (if self.ns@ >= rhs.ns@ { (self.ns@ - rhs.ns@) as nat } else { 0 })
    { unimplemented!() }
}
impl Instant {
    // tokio::time::Instant::now(): the paused virtual clock of the current runtime.  It is a
    // simulation-controlled clock, not an ambient source.
    pub uninterp spec fn tokio_now() -> nat;
    #[verifier::external_body]
    pub fn now() -> (i: Instant) ensures i.ns@ == Instant::tokio_now() { unimplemented!() }
    #[verifier::external_body]
    pub fn elapsed(&self) -> (d: Duration)
        ensures d.ns@ == (if Instant::tokio_now() >= self.ns@ { (Instant::tokio_now() - self.ns@) as nat } else { 0 })
    { unimplemented!() }
}
