// std names used by unit `rules` (R4: `use` lines are not extracted)
pub use core::marker::PhantomData;
// std::mem::forget: takes ownership, runs no destructor, returns nothing.
pub assume_specification<T> [core::mem::forget::<T>] (t: T);
