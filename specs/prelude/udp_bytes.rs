// bytes::Bytes as an immutable byte string (view Seq<u8>).  ASSUMED contracts on the `bytes` crate.
#[verifier::external_body]
pub struct Bytes { _p: core::marker::PhantomData<u8> }
impl View for Bytes {
    type V = Seq<u8>;
    uninterp spec fn view(&self) -> Seq<u8>;
}
impl Bytes {
    #[verifier::external_body]
    pub fn copy_from_slice(data: &[u8]) -> (b: Bytes) ensures b@ == data@ { unimplemented!() }
    #[verifier::external_body]
    pub fn len(&self) -> (n: usize) ensures n == self@.len() { unimplemented!() }
    #[verifier::external_body]
    pub fn is_empty(&self) -> (b: bool) ensures b == (self@.len() == 0) { unimplemented!() }
}
impl Clone for Bytes {
    #[verifier::external_body]
    fn clone(&self) -> (r: Bytes) ensures r@ == self@ { unimplemented!() }
}
// Bytes: Deref<Target = [u8]> (slicing `&b[..n]` goes through the slice)
impl core::ops::Deref for Bytes {
    type Target = [u8];
    #[verifier::external_body]
    fn deref(&self) -> (r: &[u8]) ensures r@ == self@ { unimplemented!() }
}
