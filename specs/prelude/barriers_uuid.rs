// uuid::Uuid: an opaque 128-bit token compared by value.  ASSUMED contract.
//
// Version-4 UUIDs are drawn from the operating system's entropy source (getrandom), not from the simulation's seeded
// rng.  Creating such a token does not by itself make an execution irreproducible: two runs that differ only in the
// token values are equal up to a renaming of tokens as long as (a) the value is never OBSERVED other than through `==`
// between tokens of the same run and (b) no two tokens of a run collide (probability 2^-122 per pair: assumed, listed).
// The stub therefore gives `new_v4` no precondition and instead puts the C01 obligation on every operation that would
// let the value leak into observable behaviour (ordering, hashing, printing, conversion): each of them requires
// `ambient_nondeterminism_allowed()`, which nothing establishes.  The representation is private to this module, so
// extracted code cannot reach it any other way; an operation not listed here does not type-check (=> UNDECIDED).
#[derive(Clone, Copy, PartialEq, Eq)]
pub struct Uuid { bits: u128 }
impl PartialEqSpecImpl for Uuid {
    open spec fn obeys_eq_spec() -> bool { true }
    open spec fn eq_spec(&self, other: &Uuid) -> bool { *self == *other }
}
impl Uuid {
    #[verifier::external_body]
    pub fn new_v4() -> (r: Uuid)
    { unimplemented!() }

    // ---- observers: every one of them leaks the ambient value ----
    #[verifier::external_body]
    pub fn as_u128(&self) -> (r: u128)
        requires
            [nd.uuid_v4.as_u128] ambient_nondeterminism_allowed(),
    { unimplemented!() }
    #[verifier::external_body]
    pub fn as_bytes(&self) -> (r: &[u8; 16])
        requires
            [nd.uuid_v4.as_bytes] ambient_nondeterminism_allowed(),
    { unimplemented!() }
    #[verifier::external_body]
    pub fn to_string(&self) -> (r: String)
        requires
            [nd.uuid_v4.to_string] ambient_nondeterminism_allowed(),
    { unimplemented!() }
    #[verifier::external_body]
    pub fn cmp(&self, other: &Uuid) -> (r: core::cmp::Ordering)
        requires
            [nd.uuid_v4.cmp] ambient_nondeterminism_allowed(),
    { unimplemented!() }
    #[verifier::external_body]
    pub fn partial_cmp(&self, other: &Uuid) -> (r: Option<core::cmp::Ordering>)
        requires
            [nd.uuid_v4.partial_cmp] ambient_nondeterminism_allowed(),
    { unimplemented!() }
}
