// uuid::Uuid: a 128-bit value compared by value.  ASSUMED contract.
#[derive(Clone, Copy, PartialEq, Eq)]
pub struct Uuid { pub bits: u128 }
impl PartialEqSpecImpl for Uuid {
    open spec fn obeys_eq_spec() -> bool { true }
    open spec fn eq_spec(&self, other: &Uuid) -> bool { *self == *other }
}
impl Uuid {
    // Version-4 UUIDs are drawn from the operating system's entropy source (getrandom), not from
    // the simulation's seeded rng: an ambient source of nondeterminism.
    #[verifier::external_body]
    pub fn new_v4() -> (r: Uuid)
        requires
            [nd.uuid_v4] ambient_nondeterminism_allowed(),
    { unimplemented!() }
}
