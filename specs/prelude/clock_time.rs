// Extension of prelude/time.rs for units clock and run.
// `Duration += Duration`: vstd's AddAssign trait spec needs the *SpecImpl; same assumption as
// time.rs (mathematical naturals, overflow panic beyond u64 seconds not modelled).
impl AddAssignSpecImpl<Duration> for Duration {
    open spec fn obeys_add_assign_spec() -> bool { true }
    open spec fn add_assign_req(&self, rhs: Duration) -> bool { true }
    open spec fn add_assign_spec(&self, rhs: Duration) -> &Duration { &Duration { ns: Ghost(self.ns@ + rhs.ns@) } }
}

// std::option::Option::replace (not covered by vstd): stores the value, returns the old one.
pub assume_specification<T> [std::option::Option::<T>::replace] (o: &mut std::option::Option<T>, v: T) -> (r: std::option::Option<T>)
    ensures *final(o) == Some(v), r == *old(o);
