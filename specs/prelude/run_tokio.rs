// tokio / turmoil-result stubs for unit `run`.  Every item is an ASSUMED contract on tokio (T2 in DESIGN.md).
// Nothing here is verified; keep it minimal.

// turmoil::Result<T = ()> = std::result::Result<T, Box<dyn std::error::Error>>.  The boxed error is opaque.
#[verifier::external_body]
pub struct BoxError { _p: () }
pub type TResult<T = ()> = core::result::Result<T, BoxError>;

// tokio::runtime::Runtime / tokio::task::LocalSet: abstract values.
#[verifier::external_body]
pub struct Runtime { _p: () }
#[verifier::external_body]
pub struct LocalSet { _p: () }
#[verifier::external_body]
pub struct SmallRng { _p: () }
impl Clone for SmallRng { #[verifier::external_body] fn clone(&self) -> SmallRng { unimplemented!() } }

// tokio::task::JoinError: only is_cancelled() is modelled.
#[verifier::external_body]
pub struct JoinError { _p: () }
impl JoinError {
    pub uninterp spec fn cancelled(&self) -> bool;
    #[verifier::external_body]
    pub fn is_cancelled(&self) -> (b: bool) ensures b == self.cancelled() { unimplemented!() }
}
// `?` converts a JoinError into the boxed error (std: impl<E: Error> From<E> for Box<dyn Error>).  The
// converted payload is left unspecified (vstd's spec of `?` does not expose the converted value anyway).
impl From<JoinError> for BoxError {
    #[verifier::external_body]
    fn from(e: JoinError) -> (r: BoxError) { unimplemented!() }
}

// tokio::task::JoinHandle<T> with ghost state:
//   finished() : the task has completed (or was aborted) -- the value JoinHandle::is_finished reads
//   outcome()  : what awaiting the handle yields (Ok(task output) | Err(JoinError: cancelled or panic))
#[verifier::external_body]
#[verifier::accept_recursive_types(T)]
pub struct JoinHandle<T> { _p: core::marker::PhantomData<T> }
impl<T> JoinHandle<T> {
    pub uninterp spec fn finished(&self) -> bool;
    pub uninterp spec fn outcome(&self) -> core::result::Result<T, JoinError>;
    #[verifier::external_body]
    pub fn is_finished(&self) -> (b: bool) ensures b == self.finished() { unimplemented!() }
}
impl Runtime {
    // Runtime::block_on specialised to awaiting a JoinHandle (the only use in the extracted text).
    // Precondition = protocol assumption: the handle's task lives on the LocalSet, which block_on(h)
    // does not drive, so awaiting an unfinished handle would never return.
    #[verifier::external_body]
    pub fn block_on<T>(&self, h: JoinHandle<T>) -> (r: core::result::Result<T, JoinError>)
        requires h.finished(),
        ensures r == h.outcome(),
    { unimplemented!() }
}
pub use std::mem;
// std::mem::replace / std::mem::drop (not covered by vstd)
pub assume_specification<T> [std::mem::replace] (dest: &mut T, src: T) -> (r: T)
    ensures *final(dest) == src, r == *old(dest);
pub assume_specification<T> [std::mem::drop] (_0: T);
