// R11 idiom stubs for turmoil-fs (ASSUMED contracts on std iterator idioms Verus cannot ingest).
pub trait IdiomDrainPartition<T> {
    spec fn idiom_pview(&self) -> Seq<T>;
    // `self.drain(..).partition::<Vec<T>, _>(f)`: (elements with f true, elements with f false), both in the original
    // order; the vector is left empty.  The closure must be a function of the element (its spliced `ensures`).
    fn idiom_drain_partition<F: FnMut(&T) -> bool>(&mut self, f: F) -> (r: (Vec<T>, Vec<T>))
        requires forall|x: &T| #[trigger] f.requires((x,)),
        ensures
            final(self).idiom_pview() == Seq::<T>::empty(),
            forall|p: spec_fn(T) -> bool, q: spec_fn(T) -> bool| #![trigger seq_filter_by(old(self).idiom_pview(), p), seq_filter_by(old(self).idiom_pview(), q)]
                (forall|x: T| (f.ensures((&x,), true) ==> p(x) && !q(x)) && (f.ensures((&x,), false) ==> !p(x) && q(x)))
                ==> r.0@ == seq_filter_by(old(self).idiom_pview(), p) && r.1@ == seq_filter_by(old(self).idiom_pview(), q);
}
impl<T> IdiomDrainPartition<T> for Vec<T> {
    open spec fn idiom_pview(&self) -> Seq<T> { self@ }
    #[verifier::external_body]
    fn idiom_drain_partition<F: FnMut(&T) -> bool>(&mut self, f: F) -> (r: (Vec<T>, Vec<T>)) { unimplemented!() }
}
pub trait IdiomFindMap<T> {
    spec fn idiom_fview(&self) -> Seq<T>;
    // `self.iter().find_map(f)`: f's result on the first element where it is Some, else None
    fn idiom_find_map<B, F: FnMut(&T) -> Option<B>>(&self, f: F) -> (r: Option<B>)
        requires forall|x: &T| #[trigger] f.requires((x,)),
        ensures
            r is Some ==> exists|i: int| 0 <= i < self.idiom_fview().len() && f.ensures((&#[trigger] self.idiom_fview()[i],), r),
            r is None ==> forall|i: int| 0 <= i < self.idiom_fview().len() ==> f.ensures((&#[trigger] self.idiom_fview()[i],), None::<B>);
}
impl<T> IdiomFindMap<T> for Vec<T> {
    open spec fn idiom_fview(&self) -> Seq<T> { self@ }
    #[verifier::external_body]
    fn idiom_find_map<B, F: FnMut(&T) -> Option<B>>(&self, f: F) -> (r: Option<B>) { unimplemented!() }
}

// <[T]>::to_vec: a fresh Vec whose elements are clones of the slice's elements, in order
pub assume_specification<T: Clone> [<[T]>::to_vec] (s: &[T]) -> (v: Vec<T>)
    ensures v@.len() == s@.len(), forall|i: int| 0 <= i < s@.len() ==> call_ensures(T::clone, (&#[trigger] s@[i],), v@[i]);
