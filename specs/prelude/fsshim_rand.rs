// rand stubs for unit fsshim (FsContext::random_* extracted verbatim).  Every item is an ASSUMED contract.
// `Fs::rng` is `Box<dyn RngCore>` (prelude/core.rs trait).  rand::Rng's extension methods used on it:
pub trait RngBoxedExt {
    // rand::Rng::random_range over a half-open usize range: panics on an empty range; the value lies inside
    fn random_range(&mut self, range: core::ops::Range<usize>) -> (r: usize)
        requires range.start < range.end,
        ensures range.start <= r < range.end;
    // rand::Rng::random::<T>(): one draw; the value is unconstrained
    fn random<T>(&mut self) -> T;
}
impl RngBoxedExt for Box<dyn RngCore> {
    #[verifier::external_body]
    fn random_range(&mut self, range: core::ops::Range<usize>) -> (r: usize) { unimplemented!() }
    #[verifier::external_body]
    fn random<T>(&mut self) -> T { unimplemented!() }
}
// AMBIENT source (same stub as prelude/seedflow_rand.rs): rand::random::<T>() draws from the thread rng, which is seeded from
// OS entropy -- not a function of the simulation seed.  Nothing establishes the precondition (property C01).
pub mod rand {
    use super::*;
    #[verifier::external_body]
    pub fn random<T>() -> (r: T)
        requires
            [nd.thread_rng.random] ambient_nondeterminism_allowed(),
    { unimplemented!() }
}
pub use core::ops::Range;
