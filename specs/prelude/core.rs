// Core of the trusted prelude: ambient-nondeterminism predicate, io::Error, rng traits.
pub use vstd::std_specs::cmp::*;
pub use vstd::std_specs::ops::*;
pub use core::cmp::Ordering;

// No function establishes this predicate.  Every API that reads an ambient source of
// nondeterminism (std hash iteration order, wall clock, OS entropy) requires it, so a
// contracted function that calls one fails that precondition (property C01).
pub uninterp spec fn ambient_nondeterminism_allowed() -> bool;

pub assume_specification<T: Ord> [std::cmp::min] (a: T, b: T) -> (r: T)
    ensures
        T::obeys_partial_cmp_spec() ==> (
        (a.partial_cmp_spec(&b) == Some(Ordering::Greater) ==> r == b) &&
        (a.partial_cmp_spec(&b) != Some(Ordering::Greater) ==> r == a));

pub assume_specification<T: Ord> [std::cmp::max] (a: T, b: T) -> (r: T)
    ensures
        T::obeys_partial_cmp_spec() ==> (
        (a.partial_cmp_spec(&b) == Some(Ordering::Greater) ==> r == a) &&
        (a.partial_cmp_spec(&b) != Some(Ordering::Greater) ==> r == b));

// ---- std::io::{Error, ErrorKind, Result} ----
#[derive(Clone, Copy, PartialEq, Eq, Debug)]
pub enum ErrorKind {
    NotFound, PermissionDenied, ConnectionRefused, ConnectionReset, ConnectionAborted,
    NotConnected, AddrInUse, AddrNotAvailable, BrokenPipe, AlreadyExists, WouldBlock,
    InvalidInput, InvalidData, TimedOut, WriteZero, Interrupted, Unsupported,
    UnexpectedEof, OutOfMemory, Other, NotADirectory, IsADirectory, DirectoryNotEmpty,
    HostUnreachable, NetworkUnreachable, InvalidFilename, StorageFull,
}
impl PartialEqSpecImpl for ErrorKind {
    open spec fn obeys_eq_spec() -> bool { true }
    open spec fn eq_spec(&self, other: &ErrorKind) -> bool { *self == *other }
}

// Messages are opaque; only the kind is modelled.
pub struct Error { pub kind_: ErrorKind, pub os_: Option<i32> }
pub type Result<T> = core::result::Result<T, Error>;
pub struct ErrMsg;
impl Error {
    #[verifier::external_body]
    pub fn new<M>(kind: ErrorKind, msg: M) -> (e: Error)
        ensures e.kind_ == kind, e.os_.is_none()
    { unimplemented!() }
    #[verifier::external_body]
    pub fn from(kind: ErrorKind) -> (e: Error)
        ensures e.kind_ == kind, e.os_.is_none()
    { unimplemented!() }
    #[verifier::external_body]
    pub fn other<M>(msg: M) -> (e: Error)
        ensures e.kind_ == ErrorKind::Other, e.os_.is_none()
    { unimplemented!() }
    pub fn kind(&self) -> (k: ErrorKind) ensures k == self.kind_ { self.kind_ }
    #[verifier::external_body]
    pub fn from_raw_os_error(code: i32) -> (e: Error)
        ensures e.os_ == Some(code)
    { unimplemented!() }
    pub fn raw_os_error(&self) -> (c: Option<i32>) ensures c == self.os_ { self.os_ }
}

// ---- rand ----
// Results are unconstrained: every contract must hold for every outcome of the generator.
pub uninterp spec fn f64_is_probability(p: f64) -> bool;
pub trait RngCore {
    fn next_u64(&mut self) -> u64;
    fn next_u32(&mut self) -> u32;
    // rand::Rng::random_bool (extension trait on RngCore): panics unless 0.0 <= p <= 1.0 (found missing by stubcheck).
    // Verus has no spec for f64 comparison, so the range is the uninterpreted predicate f64_is_probability.
    fn random_bool(&mut self, p: f64) -> bool
        requires f64_is_probability(p);
    // rand::Rng::random_range over usize ranges (half-open)
    fn random_range_usize(&mut self, lo: usize, hi: usize) -> (r: usize)
        requires lo < hi
        ensures lo <= r < hi;
}

// rand_distr::Exp<f64>: sample is >= 0 and not NaN; its value is otherwise unconstrained.
#[verifier::external_body]
#[verifier::reject_recursive_types(F)]
pub struct Exp<F> { _p: core::marker::PhantomData<F> }
impl<F> Clone for Exp<F> { #[verifier::external_body] fn clone(&self) -> Exp<F> { unimplemented!() } }
impl Exp<f64> {
    // No claim about the sample: rand_distr 0.5.1 accepts lambda == -0.0 (IEEE: -0.0 >= 0.0) and then every sample is -inf
    // (stubcheck found the former `ensures f64_nonneg(r)` wrong for that value).  Link::delay's bounds hold for ANY f64
    // through the saturating `as` cast and `min`, so nothing needs a postcondition here.
    #[verifier::external_body]
    pub fn sample(&self, rng: &mut dyn RngCore) -> (r: f64)
    { unimplemented!() }
}

// IEEE float arithmetic never panics in Rust; vstd leaves the operator preconditions abstract.
pub broadcast axiom fn axiom_f64_mul_total(a: f64, b: f64) ensures #[trigger] a.mul_req(b);
pub broadcast axiom fn axiom_f64_add_total(a: f64, b: f64) ensures #[trigger] a.add_req(b);
pub broadcast axiom fn axiom_f64_sub_total(a: f64, b: f64) ensures #[trigger] a.sub_req(b);
pub broadcast axiom fn axiom_f64_div_total(a: f64, b: f64) ensures #[trigger] a.div_req(b);
// @broadcast axiom_f64_mul_total, axiom_f64_add_total, axiom_f64_sub_total, axiom_f64_div_total

// Option::get_or_insert_with: if None, store f(); return a reference to the contained value
pub assume_specification<T, F: FnOnce() -> T> [Option::<T>::get_or_insert_with] (o: &mut Option<T>, f: F) -> (r: &mut T)
    requires old(o).is_none() ==> f.requires(()),
    ensures
        old(o).is_some() ==> *r == old(o).unwrap(),
        old(o).is_none() ==> f.ensures((), *r),
        *final(o) == Some(*final(r));


// Ordering::then: lexicographic chaining
pub assume_specification [Ordering::then] (a: Ordering, b: Ordering) -> (r: Ordering)
    ensures r == (if a == Ordering::Equal { b } else { a });
pub assume_specification [Ordering::reverse] (a: Ordering) -> (r: Ordering)
    ensures r == (match a { Ordering::Less => Ordering::Greater, Ordering::Greater => Ordering::Less, Ordering::Equal => Ordering::Equal });
