// rand / ambient-source stubs for unit `seedflow` (property C01, seed plumbing).  Every item is an ASSUMED contract.
//
// MODEL.  Every pseudo-random generator the extracted code handles (rand::rngs::SmallRng, the trait objects
// `dyn rand::RngCore` behind `World::rng` / `Fs::rng`, rand's thread rng) is ONE abstract type `RandGen` (rewrite R21 erases
// `dyn RngCore` to it, R7 renames `SmallRng` to it).  A generator carries a ghost state `st()`.  What a draw returns and
// how it advances the state are uninterpreted FUNCTIONS of that state (draw_val / draw_adv): same state => same draw.
// Seeding is an uninterpreted function of the seed only.  Nothing is said about the values themselves.
//   Why one type: Verus 0.2026.09.13 rejects `&mut T -> &mut dyn Trait` unsizing, and the contracts below speak about the
//   ghost state only, so which algorithm sits behind a trait object is not observable in them.
// The AMBIENT constructors (thread rng, OS entropy) and the wall clocks require `ambient_nondeterminism_allowed()`
// (prelude/core.rs), which nothing establishes: a contracted function that calls one fails `C01.nd.<unit>.<fn>`.

#[verifier::external_body]
pub struct RngState { _p: () }
pub uninterp spec fn seeded_u64(seed: u64) -> RngState;          // SeedableRng::seed_from_u64
pub uninterp spec fn seeded_bytes(seed: [u8; 32]) -> RngState;   // SeedableRng::from_seed (SmallRng::Seed = [u8; 32])
pub uninterp spec fn draw_val<T>(s: RngState) -> T;              // value of one draw of type T from state s
pub uninterp spec fn draw_adv<T>(s: RngState) -> RngState;       // state after that draw

#[verifier::external_body]
pub struct RandGen { _p: () }
impl RandGen {
    pub uninterp spec fn st(&self) -> RngState;
}
// derive(Clone) on rt::Config clones the generator: same state, hence the same future stream
impl Clone for RandGen {
    #[verifier::external_body]
    fn clone(&self) -> (r: RandGen) ensures r.st() == self.st() { unimplemented!() }
}

// rand::SeedableRng: marker only (`use rand::SeedableRng;` inside Fs::new must resolve); the constructors are inherent below
pub trait SeedableRng {}
impl SeedableRng for RandGen {}

impl RandGen {
    #[verifier::external_body]
    pub fn seed_from_u64(seed: u64) -> (r: RandGen)
        ensures r.st() == seeded_u64(seed)
    { unimplemented!() }
    #[verifier::external_body]
    pub fn from_seed(seed: [u8; 32]) -> (r: RandGen)
        ensures r.st() == seeded_bytes(seed)
    { unimplemented!() }
    // SeedableRng::from_os_rng (rand 0.9) / from_entropy (rand 0.8): seeded from the operating system's entropy source
    #[verifier::external_body]
    pub fn from_os_rng() -> (r: RandGen)
        requires
            [nd.os_rng] ambient_nondeterminism_allowed(),
    { unimplemented!() }
    #[verifier::external_body]
    pub fn from_entropy() -> (r: RandGen)
        requires
            [nd.from_entropy] ambient_nondeterminism_allowed(),
    { unimplemented!() }
    // RngCore::next_u64 / next_u32
    #[verifier::external_body]
    pub fn next_u64(&mut self) -> (r: u64)
        ensures r == draw_val::<u64>(old(self).st()), final(self).st() == draw_adv::<u64>(old(self).st())
    { unimplemented!() }
    #[verifier::external_body]
    pub fn next_u32(&mut self) -> (r: u32)
        ensures r == draw_val::<u32>(old(self).st()), final(self).st() == draw_adv::<u32>(old(self).st())
    { unimplemented!() }
}

// rand::Rng (extension trait of RngCore): `rng.random()` and the path form `rand::Rng::random(rng)`
pub trait Rng {
    spec fn gen_st(&self) -> RngState;
    fn random<T>(&mut self) -> (r: T)
        ensures r == draw_val::<T>(old(self).gen_st()), final(self).gen_st() == draw_adv::<T>(old(self).gen_st());
}
impl Rng for RandGen {
    open spec fn gen_st(&self) -> RngState { self.st() }
    #[verifier::external_body]
    fn random<T>(&mut self) -> (r: T) { unimplemented!() }
}

// "the generator this expression denotes", for an owned generator and for a `&mut` to one (used in proof text that must
// type-check whether a local is a generator or a reference to one)
pub trait GenRef { spec fn gen_val(&self) -> RandGen; }
impl GenRef for RandGen { open spec fn gen_val(&self) -> RandGen { *self } }
impl<'a> GenRef for &'a mut RandGen { open spec fn gen_val(&self) -> RandGen { **self } }

pub mod rand {
    pub use super::Rng;
    pub use super::SeedableRng;
    use super::*;
    // rand::rng() (0.9) / rand::thread_rng() (0.8): the thread-local generator, seeded from OS entropy
    #[verifier::external_body]
    pub fn rng() -> (r: RandGen)
        requires
            [nd.thread_rng] ambient_nondeterminism_allowed(),
    { unimplemented!() }
    #[verifier::external_body]
    pub fn thread_rng() -> (r: RandGen)
        requires
            [nd.thread_rng.v08] ambient_nondeterminism_allowed(),
    { unimplemented!() }
    // rand::random::<T>(): one draw from the thread rng
    #[verifier::external_body]
    pub fn random<T>() -> (r: T)
        requires
            [nd.thread_rng.random] ambient_nondeterminism_allowed(),
    { unimplemented!() }
}

// ---- wall clocks --------------------------------------------------------------------------------------------
// std::time::SystemTime::now (the struct is in clock_world.rs)
impl SystemTime {
    #[verifier::external_body]
    pub fn now() -> (t: SystemTime)
        requires
            [nd.system_time] ambient_nondeterminism_allowed(),
    { unimplemented!() }
}
// std::time::Instant::now (NOT tokio::time::Instant, whose paused clock is prelude/time.rs `Instant`): a sidecar
// that extracts code using it declares `@rename std::time::Instant => StdInstant`
#[verifier::external_body]
pub struct StdInstant { _p: () }
impl StdInstant {
    #[verifier::external_body]
    pub fn now() -> (t: StdInstant)
        requires
            [nd.std_instant] ambient_nondeterminism_allowed(),
    { unimplemented!() }
}
