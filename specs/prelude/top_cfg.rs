// rand_distr::Exp::new (unit `top`, Topology::set_message_latency_curve).  ASSUMED contract on rand_distr 0.5:
//   pub fn new(lambda: F) -> Result<Exp<F>, Error> { if !(lambda >= 0) { return Err(LambdaTooSmall) } Ok(Exp { lambda_inverse: 1 / lambda }) }
// Verus has no spec for f64 comparison, so the accepted range (lambda >= 0.0, not NaN) is the uninterpreted predicate
// f64_exp_lambda_ok; the distribution built from lambda is identified by its parameter (exp_lambda).
pub uninterp spec fn f64_exp_lambda_ok(lambda: f64) -> bool;
pub uninterp spec fn exp_lambda(e: Exp<f64>) -> f64;
#[derive(Debug)]
pub struct ExpError;
impl Exp<f64> {
    #[verifier::external_body]
    pub fn new(lambda: f64) -> (r: core::result::Result<Exp<f64>, ExpError>)
        ensures
            f64_exp_lambda_ok(lambda) ==> r is Ok && exp_lambda(r->Ok_0) == lambda,
            !f64_exp_lambda_ok(lambda) ==> r is Err,
    { unimplemented!() }
}
