// std Vec / slice operations vstd does not specify (ASSUMED contracts on std).
// `v[a..b]` as a place of type `&mut [T]` (IndexMut<Range<usize>> for Vec): the borrowed window is the
// sub-range, and whatever is written through it lands back in the same window.  Verus does not let a trait
// method implementation add a `requires`; the bounds check of the real index_mut (panic if a > b or
// b > len) therefore shows up indirectly: nothing is known about the window unless a <= b <= len, so the
// length precondition of copy_from_slice / fill on the window cannot be met otherwise.
pub uninterp spec fn vec_imut<T, I, O: ?Sized>(pre: Seq<T>, idx: I, out_pre: &O, out_post: &O, post: Seq<T>) -> bool;
pub assume_specification<T, I: core::slice::SliceIndex<[T]>, A: core::alloc::Allocator> [<Vec<T, A> as core::ops::IndexMut<I>>::index_mut] (v: &mut Vec<T, A>, index: I) -> (output: &mut <Vec<T, A> as core::ops::Index<I>>::Output)
    ensures vec_imut(old(v)@, index, &*output, &*final(output), final(v)@);
pub broadcast axiom fn axiom_vec_imut_range<T>(pre: Seq<T>, r: core::ops::Range<usize>, a: &[T], b: &[T], post: Seq<T>)
    requires r.start <= r.end <= pre.len(),
    ensures #[trigger] vec_imut(pre, r, a, b, post) ==> a@ == pre.subrange(r.start as int, r.end as int) && b@.len() == a@.len()
        && post == pre.subrange(0, r.start as int) + b@ + pre.subrange(r.end as int, pre.len() as int);

// <[T]>::fill(v): every element becomes a *clone* of v (stubcheck: `== v` was too strong for non-trivial Clone impls);
// for u8 the vstd axiom `cloned::<u8>(a, b) ==> a == b` gives equality back
pub assume_specification<T: Clone> [<[T]>::fill] (s: &mut [T], v: T)
    ensures final(s)@.len() == old(s)@.len(), forall|i: int| 0 <= i < old(s)@.len() ==> vstd::pervasive::cloned::<T>(v, #[trigger] final(s)@[i]);
// @broadcast axiom_vec_imut_range
