// Mutable iterators handed out by `Sim::links` (unit `top`): std::collections::vec_deque::IterMut and
// indexmap::map::IterMut.  Every item is an ASSUMED contract on the dependency.
//
// Model.  An `IterMut` is the exclusive borrow of the elements it has not yielded yet.  The stub is a struct with
// one field `rest: &'a mut [..]` = exactly those elements, in iteration order.  Verus' own treatment of `&mut`
// fields then supplies the rest:
//   * `rest@`            the current values of the elements not yet yielded,
//   * `final(rest)@`     their values when the borrow ends (prophecy),
//   * dropping the iterator (or a struct holding it) resolves `final(rest)@ == rest@`: elements never yielded are
//     never changed.
// `next` peels the first element off: it yields the exclusive reference to it and keeps the tail, so the final value
// of what the iterator borrowed before the call is  [final value of the yielded reference] ++ [final value of the tail]
// (std's `split_first_mut`).  Keys of a map are yielded as shared references: their final value is their old value.
// The real types have no such field; extracted code never names it (it would not compile against std / indexmap).

pub struct DequeIterMut<'a, T> { pub rest: &'a mut [T] }

impl<'a, T> DequeIterMut<'a, T> {
    // <vec_deque::IterMut<'a, T> as Iterator>::next
    #[verifier::external_body]
    pub fn next(&mut self) -> (r: Option<&'a mut T>)
        ensures
            match r {
                Some(x) => old(self).rest@.len() > 0 && *x == old(self).rest@[0]
                    && final(self).rest@ == old(self).rest@.skip(1)
                    && final(old(self).rest)@ == seq![*final(x)] + final(final(self).rest)@,
                None => old(self).rest@.len() == 0 && final(self).rest@.len() == 0
                    && final(old(self).rest)@ == final(final(self).rest)@,
            }
    { unimplemented!() }
}

// `DEQUE.iter_mut()` (R11 idiom: VecDeque is the real std type, whose `iter_mut` returns the real IterMut that Verus
// cannot ingest; the call is redirected to this stub): front-to-back over all elements; the deque ends up as the
// borrowed elements end up (same length, same order).
pub trait IdiomDequeIterMut<T> {
    fn idiom_iter_mut(&mut self) -> (it: DequeIterMut<'_, T>);
}
impl<T> IdiomDequeIterMut<T> for VecDeque<T> {
    #[verifier::external_body]
    fn idiom_iter_mut(&mut self) -> (it: DequeIterMut<'_, T>)
        ensures it.rest@ == old(self)@, final(self)@ == final(it.rest)@
    { unimplemented!() }
}

pub struct MapIterMut<'a, K, V> { pub rest: &'a mut [(K, V)] }

impl<'a, K, V> MapIterMut<'a, K, V> {
    // <indexmap::map::IterMut<'a, K, V> as Iterator>::next: entries in insertion order; key shared, value exclusive
    #[verifier::external_body]
    pub fn next(&mut self) -> (r: Option<(&'a K, &'a mut V)>)
        ensures
            match r {
                Some(x) => old(self).rest@.len() > 0 && *x.0 == old(self).rest@[0].0 && *x.1 == old(self).rest@[0].1
                    && final(self).rest@ == old(self).rest@.skip(1)
                    && final(old(self).rest)@ == seq![(old(self).rest@[0].0, *final(x.1))] + final(final(self).rest)@,
                None => old(self).rest@.len() == 0 && final(self).rest@.len() == 0
                    && final(old(self).rest)@ == final(final(self).rest)@,
            }
    { unimplemented!() }
}

impl<K, V> IndexMap<K, V> {
    // IndexMap::iter_mut: all entries in insertion order; the map ends up as the borrowed entries end up
    #[verifier::external_body]
    pub fn iter_mut(&mut self) -> (it: MapIterMut<'_, K, V>)
        ensures it.rest@ == old(self)@, final(self)@ == final(it.rest)@
    { unimplemented!() }
}
