// Library stubs for unit `uring` (crate turmoil-io-uring).  Every item is an ASSUMED contract.
pub use std::sync::Arc;
pub use vstd::std_specs::iter::{IteratorSpec, filter_iter, filter_fun};

// std::os::fd::RawFd comes from prelude/fs_path.rs

// tokio::sync::Notify: waking waiters has no effect on simulation state (the woken tasks run later,
// under their own contracts).
pub struct Notify { pub _p: () }
impl Notify {
    #[verifier::external_body]
    pub fn new() -> Notify { unimplemented!() }
    #[verifier::external_body]
    pub fn notify_waiters(&self) { unimplemented!() }
}

// ---- counting -------------------------------------------------------------------------------
pub open spec fn count_by<T>(s: Seq<T>, p: spec_fn(T) -> bool) -> nat decreases s.len() {
    if s.len() == 0 { 0 } else { count_by(s.drop_last(), p) + if p(s.last()) { 1nat } else { 0nat } }
}
pub open spec fn count_true(s: Seq<bool>) -> nat decreases s.len() {
    if s.len() == 0 { 0 } else { count_true(s.drop_last()) + if s.last() { 1nat } else { 0nat } }
}
// for every `keep` that agrees pointwise with predicate p on vals: count_true(keep) == count_by(vals, p)
pub proof fn lemma_count_true_by<T>(keep: Seq<bool>, vals: Seq<T>, p: spec_fn(T) -> bool)
    requires keep.len() == vals.len(), forall|j: int| 0 <= j < keep.len() ==> keep[j] == p(vals[j]),
    ensures count_true(keep) == count_by(vals, p),
    decreases keep.len(),
{
    if keep.len() > 0 { lemma_count_true_by(keep.drop_last(), vals.drop_last(), p); }
}
pub proof fn lemma_count_true_by_all<T>(vals: Seq<T>, p: spec_fn(T) -> bool)
    ensures forall|keep: Seq<bool>| #![trigger count_true(keep)]
        (keep.len() == vals.len() && (forall|j: int| 0 <= j < keep.len() ==> keep[j] == p(vals[j])))
        ==> count_true(keep) == count_by(vals, p),
{
    assert forall|keep: Seq<bool>| #![trigger count_true(keep)]
        (keep.len() == vals.len() && (forall|j: int| 0 <= j < keep.len() ==> keep[j] == p(vals[j])))
        implies count_true(keep) == count_by(vals, p) by { lemma_count_true_by(keep, vals, p); }
}

// ---- iterator consumers that vstd does not specify ----------------------------------------------
// (vstd gives `iter()`/`filter()` and the prophetic `remaining()` sequence of an iterator.)

// The iterator a call chain builds (`v.iter().position(..)`) is a temporary the caller cannot name, so
// the contracts below are stated for every value sequence `vals` that matches the iterator's remaining
// items; the caller marks the sequence it means with `assert(seq_mark(v@))` (trigger only, always true).
pub open spec fn seq_mark<T>(s: Seq<T>) -> bool { true }
pub open spec fn rem_matches<T>(rem: Seq<&T>, vals: Seq<T>) -> bool {
    rem.len() == vals.len() && forall|k: int| 0 <= k < rem.len() ==> *(#[trigger] rem[k]) == vals[k]
}
// position(p): index of the first element on which p returns true; p returned false on every element
// before it; None: p returned false on all elements.
pub open spec fn position_post<'a, T: 'a, P: FnMut(&'a T) -> bool>(vals: Seq<T>, p: P, r: Option<usize>) -> bool {
    match r {
        Some(i) => i < vals.len() && p.ensures((&vals[i as int],), true)
            && forall|j: int| #![trigger vals[j]] 0 <= j < i ==> p.ensures((&vals[j],), false),
        None => forall|j: int| #![trigger vals[j]] 0 <= j < vals.len() ==> p.ensures((&vals[j],), false),
    }
}
pub assume_specification<'a, T, P: FnMut(&'a T) -> bool> [<core::slice::Iter<'a, T> as Iterator>::position] (it: &mut core::slice::Iter<'a, T>, p: P) -> (r: Option<usize>)
    where core::slice::Iter<'a, T>: Sized
    requires forall|x: &T| #[trigger] p.requires((x,)),
    ensures
        forall|vals: Seq<T>| #![trigger seq_mark(vals)] rem_matches((*old(it)).remaining(), vals) ==> position_post(vals, p, r);

// vec_deque::Iter does not override Iterator::position, and Verus cannot attach a specification to a
// provided trait method.  `deque.iter().position(p)` on the temporary iterator resolves to this by-value
// method (by-value receivers are probed before `&mut self` ones); same contract as above.
pub trait VecDequeIterPosition<'a, T: 'a>: Iterator<Item = &'a T> + Sized {
    fn position<P: FnMut(&'a T) -> bool>(self, p: P) -> (r: Option<usize>)
        requires forall|x: &T| #[trigger] p.requires((x,)),
        ensures
            forall|vals: Seq<T>| #![trigger seq_mark(vals)] rem_matches(self.remaining(), vals) ==> position_post(vals, p, r);
}
impl<'a, T> VecDequeIterPosition<'a, T> for std::collections::vec_deque::Iter<'a, T> {
    #[verifier::external_body]
    fn position<P: FnMut(&'a T) -> bool>(self, p: P) -> (r: Option<usize>) { let mut s = self; Iterator::position(&mut s, p) }
}

// <Filter<I, P> as Iterator>::count(): the predicate is evaluated once per element of the underlying
// iterator (keep[j] is its result on element j); the count is the number of `true`s.
pub assume_specification<I: Iterator, P: FnMut(&I::Item) -> bool> [<core::iter::Filter<I, P> as Iterator>::count] (it: core::iter::Filter<I, P>) -> (r: usize)
    requires forall|x: &I::Item| #[trigger] filter_fun(it).requires((x,)),
    ensures
        exists|keep: Seq<bool>| #![trigger count_true(keep)] keep.len() == filter_iter(it).remaining().len()
            && (forall|j: int| #![trigger keep[j]] 0 <= j < keep.len() ==> filter_fun(it).ensures((&filter_iter(it).remaining()[j],), keep[j]))
            && r == count_true(keep);

// ---- Extend ---------------------------------------------------------------------------------
// the items an IntoIterator yields, in order
pub uninterp spec fn into_iter_seq<I: IntoIterator>(i: I) -> Seq<I::Item>;
// Vec<T>::into_iter yields the elements front to back
pub broadcast axiom fn axiom_vec_into_iter_seq<T>(v: Vec<T>)
    ensures #[trigger] into_iter_seq::<Vec<T>>(v) == v@;
// VecDeque::extend appends the yielded items at the back, in order
pub assume_specification<T, A: core::alloc::Allocator, I: IntoIterator<Item = T>> [<VecDeque<T, A> as Extend<T>>::extend] (v: &mut VecDeque<T, A>, iter: I)
    ensures final(v)@ == old(v)@ + into_iter_seq::<I>(iter);
// @broadcast axiom_vec_into_iter_seq

// ---- rand::seq::SliceRandom::shuffle -----------------------------------------------------------
// The result is a permutation of the input (same multiset); which one is unconstrained.
pub trait SliceRandom {
    type Elem;
    spec fn sr_view(&self) -> Seq<Self::Elem>;
    fn shuffle(&mut self, rng: &mut dyn RngCore)
        ensures final(self).sr_view().to_multiset() == old(self).sr_view().to_multiset();
}
impl<T> SliceRandom for Vec<T> {
    type Elem = T;
    open spec fn sr_view(&self) -> Seq<T> { self@ }
    #[verifier::external_body]
    fn shuffle(&mut self, rng: &mut dyn RngCore) { unimplemented!() }
}

pub proof fn lemma_count_by_bound<T>(s: Seq<T>, p: spec_fn(T) -> bool)
    ensures count_by(s, p) <= s.len(),
    decreases s.len(),
{
    if s.len() > 0 { lemma_count_by_bound(s.drop_last(), p); }
}
pub proof fn lemma_count_by_all<T>(s: Seq<T>, p: spec_fn(T) -> bool)
    ensures (forall|j: int| 0 <= j < s.len() ==> p(#[trigger] s[j])) ==> count_by(s, p) == s.len(),
    decreases s.len(),
{
    if s.len() > 0 { lemma_count_by_all(s.drop_last(), p); }
}

// ---- raw caller buffers (io_uring SQE pointers) -------------------------------------------------
// ASSUMPTION (T4): the unsafe `std::slice::from_raw_parts(ptr, len)` is read as "the len bytes of the caller's
// buffer at completion time", an uninterpreted function of (ptr, len).  Validity / aliasing of the pointer is the
// caller's obligation (same as the real io_uring contract) and is not checked.
pub uninterp spec fn raw_mem(ptr: *const u8, len: nat) -> Seq<u8>;
pub broadcast axiom fn axiom_raw_mem_len(ptr: *const u8, len: nat) ensures (#[trigger] raw_mem(ptr, len)).len() == len;
// @broadcast axiom_raw_mem_len
#[verifier::external_body]
pub fn raw_buf<'a>(ptr: *const u8, len: usize) -> (r: &'a [u8])
    ensures r@ == raw_mem(ptr, len as nat)
{ unimplemented!() }
// the mutable twin: starts as the caller's bytes; what the function leaves in it is the caller's buffer afterwards
#[verifier::external_body]
pub fn raw_buf_mut<'a>(ptr: *mut u8, len: usize) -> (r: &'a mut [u8])
    ensures r@ == raw_mem(ptr as *const u8, len as nat)
{ unimplemented!() }

// <[T]>::fill(v): every element becomes a clone of v
pub assume_specification<T: Clone> [<[T]>::fill] (s: &mut [T], v: T)
    ensures final(s)@.len() == old(s)@.len(), forall|i: int| 0 <= i < final(s)@.len() ==> vstd::pervasive::cloned::<T>(v, #[trigger] final(s)@[i]);

// ---- VecDeque::drain(..) ----------------------------------------------------------------------
#[verifier::external_type_specification]
#[verifier::external_body]
#[verifier::reject_recursive_types(T)]
#[verifier::reject_recursive_types(A)]
pub struct ExVecDequeDrain<'a, T: 'a, A: core::alloc::Allocator>(std::collections::vec_deque::Drain<'a, T, A>);
// only the full range `..` is specified
pub uninterp spec fn is_full_range<R>(r: R) -> bool;
pub broadcast axiom fn axiom_range_full() ensures #[trigger] is_full_range::<core::ops::RangeFull>(..);
// @broadcast axiom_range_full
// drain(..): yields all elements front to back and leaves the deque empty (also when the iterator is
// dropped early: the rest is dropped with it).  `collect()` on it is vstd's own specification.
pub assume_specification<'a, T, A: core::alloc::Allocator, R: core::ops::RangeBounds<usize>> [VecDeque::<T, A>::drain] (v: &'a mut VecDeque<T, A>, range: R) -> (d: std::collections::vec_deque::Drain<'a, T, A>)
    requires is_full_range(range),
    ensures d.remaining() == old(v)@, final(v)@ == Seq::<T>::empty(), d.obeys_prophetic_iter_laws();
