// Model of `poll_fn(f).await` for rewrite R29 (see vp/gen.py apply_pollfn_await): the task context handed to the last poll and
// the "still Pending" exit.  `await_pending_forever` is real code (it never returns); `await_cx` is an ASSUMED stub: some
// context of the awaiting task (its waker id is not constrained).
#[verifier::external_body]
pub fn await_cx() -> (c: Context<'static>) { unimplemented!() }
#[verifier::exec_allows_no_decreases_clause]
pub fn await_pending_forever() -> ! { loop {} }
