// indexmap::IndexMap::iter() + Iterator::any on it (unit `run`).  ASSUMED contract on the dependency:
// iter() yields the entries in insertion order; any(f) returns true iff f returned true on some entry
// (call-result style over the closure's own contract, see design-probes/verus_probe_stub_iterator_chain.rs).
#[verifier::external_body]
#[verifier::reject_recursive_types(K)]
#[verifier::accept_recursive_types(V)]
pub struct Iter<'a, K, V> { _p: core::marker::PhantomData<&'a (K, V)> }
impl<K, V> IndexMap<K, V> {
    #[verifier::external_body]
    pub fn iter(&self) -> (it: Iter<'_, K, V>)
        ensures it@ == self@
    { unimplemented!() }
}
impl<'a, K, V> Iter<'a, K, V> {
    pub uninterp spec fn view(&self) -> Seq<(K, V)>;

    #[verifier::external_body]
    pub fn any<F: FnMut((&'a K, &'a V)) -> bool>(&mut self, f: F) -> (r: bool)
        requires forall|e: (&'a K, &'a V)| #[trigger] f.requires((e,)),
        ensures
            r ==> exists|i: int| 0 <= i < old(self)@.len() && #[trigger] f.ensures(((&old(self)@[i].0, &old(self)@[i].1),), true),
            !r ==> forall|i: int| #![trigger old(self)@[i]] 0 <= i < old(self)@.len() ==> f.ensures(((&old(self)@[i].0, &old(self)@[i].1),), false),
    { unimplemented!() }
}
