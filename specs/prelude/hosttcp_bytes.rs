// bytes::Bytes as an immutable, cheaply clonable byte sequence (view Seq<u8>), and the part of
// bytes::Buf that turmoil::net::tcp uses.  Every item is an ASSUMED contract on the dependency.
#[verifier::external_body]
pub struct Bytes { _p: () }
impl View for Bytes { type V = Seq<u8>; uninterp spec fn view(&self) -> Seq<u8>; }
impl Clone for Bytes {
    #[verifier::external_body]
    fn clone(&self) -> (r: Bytes) ensures r@ == self@ { unimplemented!() }
}
impl Bytes {
    #[verifier::external_body]
    pub fn new() -> (b: Bytes) ensures b@ == Seq::<u8>::empty() { unimplemented!() }
    #[verifier::external_body]
    pub fn copy_from_slice(data: &[u8]) -> (b: Bytes) ensures b@ == data@ { unimplemented!() }
    #[verifier::external_body]
    pub fn len(&self) -> (n: usize) ensures n == self@.len() { unimplemented!() }
    #[verifier::external_body]
    pub fn is_empty(&self) -> (b: bool) ensures b == (self@.len() == 0) { unimplemented!() }
    // Buf::advance: panics if cnt > remaining
    #[verifier::external_body]
    pub fn advance(&mut self, cnt: usize)
        requires cnt <= old(self)@.len()
        ensures final(self)@ == old(self)@.skip(cnt as int)
    { unimplemented!() }
    // Bytes::split_to: panics if at > len
    #[verifier::external_body]
    pub fn split_to(&mut self, at: usize) -> (r: Bytes)
        requires at <= old(self)@.len()
        ensures r@ == old(self)@.take(at as int), final(self)@ == old(self)@.skip(at as int)
    { unimplemented!() }
    // Bytes::slice(lo..hi): panics unless lo <= hi <= len
    #[verifier::external_body]
    pub fn slice(&self, range: core::ops::Range<usize>) -> (r: Bytes)
        requires range.start <= range.end <= self@.len()
        ensures r@ == self@.subrange(range.start as int, range.end as int)
    { unimplemented!() }
}
// `&bytes[..n]` (Deref<Target=[u8]> + slice indexing): panics if n > len
impl vstd::std_specs::core::IndexSpecImpl<core::ops::RangeTo<usize>> for Bytes {
    open spec fn index_req(&self, index: &core::ops::RangeTo<usize>) -> bool { index.end <= self@.len() }
}
impl core::ops::Index<core::ops::RangeTo<usize>> for Bytes {
    type Output = [u8];
    #[verifier::external_body]
    fn index(&self, r: core::ops::RangeTo<usize>) -> (o: &[u8])
        ensures o@ == self@.take(r.end as int)
    { unimplemented!() }
}
// bytes::Buf for &[u8]: only `remaining`
pub trait Buf {
    spec fn spec_remaining(&self) -> nat;
    fn remaining(&self) -> (n: usize) ensures n == self.spec_remaining();
}
impl Buf for &[u8] {
    open spec fn spec_remaining(&self) -> nat { self@.len() }
    fn remaining(&self) -> (n: usize) { self.len() }
}
