// tokio runtime-builder stubs for unit `seedflow` (rt.rs `init`).  Every item is an ASSUMED contract on tokio (T2).
// The builder is a record of the options set so far; `build()` yields a Runtime (abstract, prelude/run_tokio.rs) whose
// ghost attributes repeat those options.  `rt_seed()` is the seed of the runtime's internal rng (unbiased select!
// branch choice, scheduler tie-breaks): Some(s) iff `Builder::rng_seed(s)` was called; None means tokio draws one from
// OS entropy itself.

pub struct RngSeed { pub bytes: Seq<u8> }
impl RngSeed {
    // tokio::runtime::RngSeed::from_bytes(&[u8])
    #[verifier::external_body]
    pub fn from_bytes(b: &[u8]) -> (r: RngSeed)
        ensures r.bytes == b@
    { unimplemented!() }
}
pub enum UnhandledPanic { Ignore, ShutdownRuntime }

pub struct TokioBuilder {
    pub io: Ghost<bool>,
    pub time: Ghost<bool>,
    pub paused: Ghost<bool>,
    pub seed: Ghost<Option<RngSeed>>,
    // Builder::unhandled_panic (tokio_unstable): what the runtime does when a spawned task panics.  tokio's default is Ignore (the
    // panic is caught and only surfaces through the task's JoinHandle); ShutdownRuntime makes the runtime shut down and the
    // panic surface from block_on -- what turmoil relies on for "a panic in host software fails the simulation" (C11)
    pub panic: Ghost<UnhandledPanic>,
}
impl TokioBuilder {
    #[verifier::external_body]
    pub fn new_current_thread() -> (b: TokioBuilder)
        ensures !b.io@, !b.time@, !b.paused@, b.seed@ is None, b.panic@ is Ignore
    { unimplemented!() }
    // the LAST policy given wins
    #[verifier::external_body]
    pub fn unhandled_panic(&mut self, behavior: UnhandledPanic) -> (r: &mut TokioBuilder)
        ensures r.panic@ == behavior, r.io == old(self).io, r.time == old(self).time, r.paused == old(self).paused, r.seed == old(self).seed,
            *final(self) == *final(r)
    { unimplemented!() }
    #[verifier::external_body]
    pub fn enable_io(&mut self) -> (r: &mut TokioBuilder)
        ensures r.io@, r.time == old(self).time, r.paused == old(self).paused, r.seed == old(self).seed, r.panic == old(self).panic, *final(self) == *final(r)
    { unimplemented!() }
    #[verifier::external_body]
    pub fn enable_time(&mut self) -> (r: &mut TokioBuilder)
        ensures r.time@, r.io == old(self).io, r.paused == old(self).paused, r.seed == old(self).seed, r.panic == old(self).panic, *final(self) == *final(r)
    { unimplemented!() }
    #[verifier::external_body]
    pub fn start_paused(&mut self, start_paused: bool) -> (r: &mut TokioBuilder)
        ensures r.paused@ == start_paused, r.io == old(self).io, r.time == old(self).time, r.seed == old(self).seed, r.panic == old(self).panic, *final(self) == *final(r)
    { unimplemented!() }
    // Builder::rng_seed (tokio_unstable): the LAST seed given wins
    #[verifier::external_body]
    pub fn rng_seed(&mut self, seed: RngSeed) -> (r: &mut TokioBuilder)
        ensures r.seed@ == Some(seed), r.io == old(self).io, r.time == old(self).time, r.paused == old(self).paused, r.panic == old(self).panic, *final(self) == *final(r)
    { unimplemented!() }
    // Builder::build: a current-thread runtime cannot fail to build with these options (no worker threads, no OS
    // resources when io is off; with io on, epoll creation failing is an OS-resource condition, not modelled)
    #[verifier::external_body]
    pub fn build(&mut self) -> (r: Result<Runtime>)
        ensures r is Ok, r->Ok_0.rt_seed() == old(self).seed@, r->Ok_0.rt_io() == old(self).io@,
            r->Ok_0.rt_paused() == old(self).paused@, r->Ok_0.rt_panic_policy() == old(self).panic@, *final(self) == *old(self)
    { unimplemented!() }
}
impl Runtime {
    pub uninterp spec fn rt_seed(&self) -> Option<RngSeed>;
    pub uninterp spec fn rt_io(&self) -> bool;
    pub uninterp spec fn rt_paused(&self) -> bool;
    pub uninterp spec fn rt_panic_policy(&self) -> UnhandledPanic;     // the unhandled-panic policy the runtime was built with
}
impl core::fmt::Debug for Error { #[verifier::external_body] fn fmt(&self, f: &mut core::fmt::Formatter<'_>) -> core::fmt::Result { unimplemented!() } }

impl LocalSet {
    // the unhandled-panic policy of the LocalSet (tokio_unstable `LocalSet::unhandled_panic`): what happens when a task spawned
    // with spawn_local panics.  A new LocalSet has tokio's default, Ignore; the last policy set wins.
    pub uninterp spec fn local_panic_policy(&self) -> UnhandledPanic;
    #[verifier::external_body]
    pub fn new() -> (l: LocalSet) ensures l.local_panic_policy() is Ignore { unimplemented!() }
    #[verifier::external_body]
    pub fn unhandled_panic(&mut self, behavior: UnhandledPanic) -> (r: &mut LocalSet)
        ensures r.local_panic_policy() == behavior, *final(self) == *final(r)
    { unimplemented!() }
}

// std::future::Future (bound of the software type parameters of Rt::client / Rt::host, Sim::client / Sim::host) is
// re-exported by prelude/step_std.rs

pub mod tokio {
    pub mod task {
        use super::super::*;
        // tokio::task::spawn_local: queues the future on the current LocalSet; nothing runs before the next tick
        #[verifier::external_body]
        pub fn spawn_local<F: Future>(f: F) -> (h: JoinHandle<F::Output>) { unimplemented!() }
    }
    pub mod runtime {
        pub use super::super::TokioBuilder as Builder;
        pub use super::super::RngSeed;
        pub use super::super::UnhandledPanic;
        pub use super::super::Runtime;
    }
}
