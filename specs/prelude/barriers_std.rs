// std pieces used by crates/turmoil/src/barriers.rs.  Every item is an ASSUMED contract.
// @feature fn_traits

pub use core::marker::PhantomData;

// ---- std::any::Any ----
// Only used as the erased type of trigger values.  `dyn Any + Send` is not accepted by Verus
// ("dyn with more than one trait"): the boxed payload of a Waker is `Box<dyn AnySend>`.
pub trait Any: 'static {}
impl<T: 'static> Any for T {}
pub trait AnySend: 'static {}
impl<T: 'static + Send> AnySend for T {}
// the unsizing coercions the code performs implicitly, named so that contracts can mention them
pub open spec fn as_any<T: 'static>(t: &T) -> &dyn Any { t }
pub open spec fn boxed_any<T: 'static + Send>(t: T) -> Box<dyn AnySend> { Box::new(t) }

// ---- barrier conditions: `Box<dyn Fn(&dyn Any) -> bool>` ----
// Verus has no `dyn Fn`.  `Condition` is an opaque callable; what a call returns is the
// uninterpreted predicate `cond_holds(c, x)`.
// ASSUMPTION (cond_wf): a condition is callable on every value, and is a function of that value
// (same trigger value => same answer, no side effect on the registry or on any channel).
#[verifier::external_body]
pub struct Condition { _p: () }
#[verifier::external]
impl<'a> FnOnce<(&'a dyn Any,)> for Condition { type Output = bool; extern "rust-call" fn call_once(self, a: (&'a dyn Any,)) -> bool { unimplemented!() } }
#[verifier::external]
impl<'a> FnMut<(&'a dyn Any,)> for Condition { extern "rust-call" fn call_mut(&mut self, a: (&'a dyn Any,)) -> bool { unimplemented!() } }
#[verifier::external]
impl<'a> Fn<(&'a dyn Any,)> for Condition { extern "rust-call" fn call(&self, a: (&'a dyn Any,)) -> bool { unimplemented!() } }
pub uninterp spec fn cond_holds(c: Condition, x: &dyn Any) -> bool;
pub open spec fn cond_wf(c: Box<Condition>) -> bool {
    &&& forall|x: &dyn Any| #![trigger call_requires(c, (x,))] call_requires(c, (x,))
    &&& forall|x: &dyn Any, r: bool| #![trigger call_ensures(c, (x,), r)] call_ensures(c, (x,), r) ==> r == cond_holds(*c, x)
}

// ---- std::cell::RefCell ----
// Modelled as an owned value with statically exclusive access: `borrow_mut` needs `&mut self`
// (rewrite R10b turns the `&self` receivers of the owning type into `&mut self`).  The guards
// Ref/RefMut are replaced by plain references.  NOT MODELLED: the dynamic borrow flag, i.e. the
// BorrowError/BorrowMutError panics of a re-entrant access while a guard is alive.
pub struct RefCell<T> { pub v: T }
impl<T> RefCell<T> {
    pub fn new(v: T) -> (r: RefCell<T>) ensures r.v == v { RefCell { v } }
    pub fn borrow(&self) -> (r: &T) ensures *r == self.v { &self.v }
    pub fn borrow_mut(&mut self) -> (r: &mut T)
        ensures *r == old(self).v, final(self).v == *final(r)
    { &mut self.v }
}

// ---- Vec::retain ---- (same contract as prelude/vecdeque.rs gives VecDeque::retain)
pub open spec fn vec_filter_by<T>(s: Seq<T>, keep: spec_fn(T) -> bool) -> Seq<T> decreases s.len() {
    if s.len() == 0 { Seq::empty() } else {
        let p = vec_filter_by(s.drop_last(), keep);
        if keep(s.last()) { p.push(s.last()) } else { p }
    }
}
pub assume_specification<T, A: core::alloc::Allocator, F: FnMut(&T) -> bool> [Vec::<T, A>::retain] (v: &mut Vec<T, A>, f: F)
    requires
        forall|x: &T| #[trigger] f.requires((x,)),
    ensures
        forall|p: spec_fn(T) -> bool| #![trigger vec_filter_by(old(v)@, p)]
            (forall|x: T| (f.ensures((&x,), true) ==> p(x)) && (f.ensures((&x,), false) ==> !p(x)))
            ==> final(v)@ == vec_filter_by(old(v)@, p);
