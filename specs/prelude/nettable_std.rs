// std items used by turmoil-net's socket table that vstd does not specify.  ASSUMED contracts.
use std::ops::RangeInclusive;

// RangeInclusive<Idx>: `start()`/`end()` return the bounds the range was built with.
pub uninterp spec fn ri_start<Idx>(r: &RangeInclusive<Idx>) -> Idx;
pub uninterp spec fn ri_end<Idx>(r: &RangeInclusive<Idx>) -> Idx;
pub assume_specification<Idx> [RangeInclusive::<Idx>::end] (r: &RangeInclusive<Idx>) -> (o: &Idx)
    ensures *o == ri_end(r);
pub assume_specification<Idx> [RangeInclusive::<Idx>::start] (r: &RangeInclusive<Idx>) -> (o: &Idx)
    ensures *o == ri_start(r);

// Option::or_else(f): self if Some, else the result of calling f once.
pub assume_specification<T, F: FnOnce() -> Option<T>> [Option::<T>::or_else] (o: Option<T>, f: F) -> (r: Option<T>)
    requires o.is_none() ==> f.requires(()),
    ensures o.is_some() ==> r == o, o.is_none() ==> f.ensures((), r);

// Option<&T>::copied
pub assume_specification<'a, T: Copy> [Option::<&'a T>::copied] (o: Option<&'a T>) -> (r: Option<T>)
    ensures r == (match o { Some(x) => Some(*x), None => None::<T> });

// Vec::retain(f): keeps exactly the elements on which f returns true, in order (same shape as the
// VecDeque::retain contract in vecdeque.rs).
pub assume_specification<T, A: core::alloc::Allocator, F: FnMut(&T) -> bool> [Vec::<T, A>::retain] (v: &mut Vec<T, A>, f: F)
    requires
        forall|x: &T| #[trigger] f.requires((x,)),
    ensures
        forall|p: spec_fn(T) -> bool| #![trigger seq_filter_by(old(v)@, p)]
            (forall|x: T| (f.ensures((&x,), true) ==> p(x)) && (f.ensures((&x,), false) ==> !p(x)))
            ==> final(v)@ == seq_filter_by(old(v)@, p);

// <[T]>::contains(x): some element equals x (for types whose `==` is spec equality)
pub assume_specification<T: PartialEq> [<[T]>::contains] (s: &[T], x: &T) -> (r: bool)
    ensures T::obeys_eq_spec() ==> r == s@.contains(*x);

// R11 idiom stub: `for x in [a, b]` (array by value; core::array::IntoIter has no vstd spec) yields a, then b.
#[verifier::external_body]
pub fn idiom_array2<T>(a: T, b: T) -> (r: Vec<T>) ensures r@ == seq![a, b] { unimplemented!() }

pub assume_specification<T, A: core::alloc::Allocator> [VecDeque::<T, A>::is_empty] (v: &VecDeque<T, A>) -> (r: bool)
    ensures r == (v@.len() == 0);
