// Library stubs for Fs::calculate_latency and PageCache::{access, insert} (unit fs).  Every item is an ASSUMED contract.
// f64 values are not modelled; the two facts used are named predicates.
// `x <= 1.0` (false for NaN)
pub uninterp spec fn f64_le_one(x: f64) -> bool;
// f64::min(a, b): IEEE minNum -- never larger than a non-NaN operand; with b == 1.0 the result is <= 1.0 (NaN.min(1.0) == 1.0)
pub assume_specification [f64::min] (a: f64, b: f64) -> (r: f64)
    ensures b == 1.0f64 ==> f64_le_one(r);
impl Duration {
    // Duration::mul_f64(f): panics for a negative / non-finite product (NOT modelled: absence of that panic is not claimed);
    // when it returns, f >= 0, so with f <= 1.0 the result does not exceed self
    #[verifier::external_body]
    pub fn mul_f64(self, f: f64) -> (r: Duration)
        ensures f64_le_one(f) ==> r.ns@ <= self.ns@
    { unimplemented!() }
}
// indexmap::IndexSet::shift_remove_index(i): removes and returns the element at position i, the later ones move down one
// position (relative order kept); None and untouched when out of bounds
impl<T> IndexSet<T> {
    #[verifier::external_body]
    pub fn shift_remove_index(&mut self, i: usize) -> (r: Option<T>)
        ensures
            i >= old(self)@.len() ==> r is None && final(self)@ == old(self)@,
            i < old(self)@.len() ==> r == Some(old(self)@[i as int]) && final(self)@ == old(self)@.remove(i as int),
    { unimplemented!() }
}
// R11 idiom: `dist.sample(&mut self.rng)` with `rng: Box<dyn RngCore>` (rand: `impl RngCore for Box<R>`; Verus has no unsizing of
// `&mut Box<dyn Trait>`).  Same (empty) contract as prelude/core.rs Exp::<f64>::sample: the value is unconstrained, only the generator moves on.
impl Exp<f64> {
    #[verifier::external_body]
    pub fn idiom_sample_boxed(&self, rng: &mut Box<dyn RngCore>) -> (r: f64) { unimplemented!() }
}
