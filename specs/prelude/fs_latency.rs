// Library stubs for Fs::calculate_latency and PageCache::{access, insert} (unit fs).  Every item is an ASSUMED contract.
// f64 values are not modelled; the two facts used are named predicates.
// `x <= 1.0` (false for NaN)
pub uninterp spec fn f64_le_one(x: f64) -> bool;
// f64::min(a, b): IEEE minNum -- never larger than a non-NaN operand; with b == 1.0 the result is <= 1.0 (NaN.min(1.0) == 1.0)
pub assume_specification [f64::min] (a: f64, b: f64) -> (r: f64)
    ensures b == 1.0f64 ==> f64_le_one(r);
// `0.0 <= x && x.is_finite()`
pub uninterp spec fn f64_nonneg_finite(x: f64) -> bool;
impl Duration {
    // Duration::mul_f64(f) = from_secs_f64(f * self.as_secs_f64()).  It PANICS for a negative, NaN or overflowing product: the stub is
    // a guard (it returns only if f is non-negative and finite) -- the panic is a legal outcome (the simulation aborts), its absence is
    // NOT claimed.  When it returns with f <= 1.0 the result does not exceed self PROVIDED self < 2^52 ns (about 52 days): above that
    // an f64 no longer resolves nanoseconds and the product can round UP (stubcheck: Duration::new(10_000_000, 1).mul_f64(1.0) is
    // self + 1 ns; the earlier unconditional claim was refuted and is corrected here).
    #[verifier::external_body]
    pub fn mul_f64(self, f: f64) -> (r: Duration)
        ensures
            f64_nonneg_finite(f),
            f64_le_one(f) && self.ns@ < 0x10_0000_0000_0000 ==> r.ns@ <= self.ns@
    { unimplemented!() }
}
// indexmap::IndexSet::shift_remove_index(i): removes and returns the element at position i, the later ones move down one
// position (relative order kept); None and untouched when out of bounds
impl<T> IndexSet<T> {
    #[verifier::external_body]
    pub fn shift_remove_index(&mut self, i: usize) -> (r: Option<T>)
        ensures
            i >= old(self)@.len() ==> r is None && final(self)@ == old(self)@,
            i < old(self)@.len() ==> r == Some(old(self)@[i as int]) && final(self)@ == old(self)@.remove(i as int),
    { unimplemented!() }
}
// R11 idiom: `dist.sample(&mut self.rng)` with `rng: Box<dyn RngCore>` (rand: `impl RngCore for Box<R>`; Verus has no unsizing of
// `&mut Box<dyn Trait>`).  Same (empty) contract as prelude/core.rs Exp::<f64>::sample: the value is unconstrained, only the generator moves on.
impl Exp<f64> {
    #[verifier::external_body]
    pub fn idiom_sample_boxed(&self, rng: &mut Box<dyn RngCore>) -> (r: f64) { unimplemented!() }
}
