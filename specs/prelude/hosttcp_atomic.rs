// std::sync::{Arc, Mutex, atomic::AtomicUsize}, std::task::Waker.  ASSUMED contracts.
pub use std::sync::Arc;

// AtomicUsize as a sequential cell.  turmoil's simulation is single-threaded; every method is one
// linearisation point.  The stub takes `&mut self` where the real type takes `&self`, so that the
// value is visible to the verifier (generator rule R10 rewrites the receiver of the extracted
// FlowControl methods accordingly).  Memory orderings are ignored.
pub enum AtomicOrdering { Relaxed, Release, Acquire, AcqRel, SeqCst }
// `init` is ghost: the value the cell was created with.
pub struct AtomicUsize { pub v: usize, pub init: Ghost<usize> }
impl AtomicUsize {
    pub fn new(v: usize) -> (a: AtomicUsize) ensures a.v == v, a.init@ == v { AtomicUsize { v, init: Ghost(v) } }
    // std panics on load(Release) / load(AcqRel)
    pub fn load(&self, o: AtomicOrdering) -> (r: usize)
        requires !(o is Release) && !(o is AcqRel)
        ensures r == self.v
    { self.v }
    // wraps around on overflow, returns the previous value
    #[verifier::external_body]
    pub fn fetch_add(&mut self, d: usize, o: AtomicOrdering) -> (r: usize)
        ensures r == old(self).v, final(self).init == old(self).init, final(self).v == (if old(self).v + d <= usize::MAX { (old(self).v + d) as usize } else { (old(self).v + d - usize::MAX - 1) as usize })
    { unimplemented!() }
    // std panics if the failure ordering `fo` is Release or AcqRel (it is a load ordering)
    // f is applied to the current value; Some(n) stores n and yields Ok(previous), None stores nothing and yields Err(previous)
    #[verifier::external_body]
    pub fn fetch_update<F: FnMut(usize) -> Option<usize>>(&mut self, so: AtomicOrdering, fo: AtomicOrdering, f: F) -> (r: core::result::Result<usize, usize>)
        requires f.requires((old(self).v,)), !(fo is Release) && !(fo is AcqRel)
        ensures final(self).init == old(self).init, match r {
            Ok(p) => p == old(self).v && f.ensures((p,), Some(final(self).v)),
            Err(p) => p == old(self).v && f.ensures((p,), None::<usize>) && final(self).v == old(self).v,
        }
    { unimplemented!() }
}

#[verifier::external_body]
pub struct Waker { _p: () }
impl Waker {
    #[verifier::external_body]
    pub fn wake(self) { unimplemented!() }
}

// std::sync::Mutex holding the writer's waker.  Wake-ups carry no simulation state, so the content
// is not modelled.  ASSUMPTION: the lock is never poisoned (single-threaded simulation; a panic
// while the guard is held aborts the run).
#[verifier::external_body]
#[verifier::reject_recursive_types(T)]
pub struct Mutex<T> { _p: core::marker::PhantomData<T> }
#[verifier::external_body]
#[verifier::reject_recursive_types(T)]
pub struct MutexGuard<'a, T> { _p: core::marker::PhantomData<&'a mut T> }
#[derive(Debug)]
pub struct PoisonError;
impl<T> Mutex<T> {
    #[verifier::external_body]
    pub fn new(v: T) -> Mutex<T> { unimplemented!() }
    #[verifier::external_body]
    pub fn lock(&self) -> (r: core::result::Result<MutexGuard<'_, T>, PoisonError>)
        ensures r is Ok
    { unimplemented!() }
}
impl<'a, W> MutexGuard<'a, Option<W>> {
    // Option::take through DerefMut
    #[verifier::external_body]
    pub fn take(&mut self) -> Option<W> { unimplemented!() }
}
