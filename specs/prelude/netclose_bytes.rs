// bytes::{Bytes, BytesMut} as byte strings (view Seq<u8>).  ASSUMED contracts on the dependency;
// only the methods the close/reclaim path of turmoil-net calls.
#[verifier::external_body]
pub struct Bytes { _p: core::marker::PhantomData<u8> }
#[verifier::external_body]
pub struct BytesMut { _p: core::marker::PhantomData<u8> }
impl View for Bytes { type V = Seq<u8>; uninterp spec fn view(&self) -> Seq<u8>; }
impl View for BytesMut { type V = Seq<u8>; uninterp spec fn view(&self) -> Seq<u8>; }
impl Clone for Bytes { #[verifier::external_body] fn clone(&self) -> (r: Bytes) ensures r@ == self@ { unimplemented!() } }
impl PartialEq for Bytes { #[verifier::external_body] fn eq(&self, o: &Bytes) -> bool { unimplemented!() } }
impl Eq for Bytes {}
impl Bytes {
    #[verifier::external_body]
    pub fn new() -> (b: Bytes) ensures b@ == Seq::<u8>::empty() { unimplemented!() }
    #[verifier::external_body]
    pub fn len(&self) -> (n: usize) ensures n == self@.len() { unimplemented!() }
    #[verifier::external_body]
    pub fn is_empty(&self) -> (b: bool) ensures b == (self@.len() == 0) { unimplemented!() }
}
impl BytesMut {
    #[verifier::external_body]
    pub fn new() -> (b: BytesMut) ensures b@ == Seq::<u8>::empty() { unimplemented!() }
    #[verifier::external_body]
    pub fn len(&self) -> (n: usize) ensures n == self@.len() { unimplemented!() }
    #[verifier::external_body]
    pub fn is_empty(&self) -> (b: bool) ensures b == (self@.len() == 0) { unimplemented!() }
    #[verifier::external_body]
    pub fn clear(&mut self) ensures final(self)@ == Seq::<u8>::empty() { unimplemented!() }
}
