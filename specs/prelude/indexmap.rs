// indexmap::IndexMap / IndexSet as insertion-ordered association lists with unique keys.
// Every method is an ASSUMED contract on the dependency (checked differentially against the
// real crate by vp/stubcheck, thorough tier).  Key equality is spec equality of K.
pub open spec fn im_has<K, V>(s: Seq<(K, V)>, k: K) -> bool {
    exists|i: int| 0 <= i < s.len() && (#[trigger] s[i]).0 == k
}
pub open spec fn im_idx<K, V>(s: Seq<(K, V)>, k: K) -> int {
    choose|i: int| 0 <= i < s.len() && (#[trigger] s[i]).0 == k
}
pub open spec fn im_get<K, V>(s: Seq<(K, V)>, k: K) -> V { s[im_idx(s, k)].1 }
pub open spec fn im_unique<K, V>(s: Seq<(K, V)>) -> bool {
    forall|i: int, j: int| 0 <= i < j < s.len() ==> (#[trigger] s[i]).0 != (#[trigger] s[j]).0
}
// insert-or-overwrite keeping position (IndexMap::insert / entry().or_insert semantics)
pub open spec fn im_upsert<K, V>(s: Seq<(K, V)>, k: K, v: V) -> Seq<(K, V)> {
    if im_has(s, k) { s.update(im_idx(s, k), (k, v)) } else { s.push((k, v)) }
}
pub open spec fn im_keys<K, V>(s: Seq<(K, V)>) -> Seq<K> { Seq::new(s.len(), |i: int| s[i].0) }
pub open spec fn im_values<K, V>(s: Seq<(K, V)>) -> Seq<V> { Seq::new(s.len(), |i: int| s[i].1) }

pub proof fn lemma_im_idx<K, V>(s: Seq<(K, V)>, i: int)
    requires im_unique(s), 0 <= i < s.len()
    ensures im_has(s, s[i].0), im_idx(s, s[i].0) == i
{
    let j = im_idx(s, s[i].0);
    if j < i { assert(s[j].0 != s[i].0); } else if i < j { assert(s[i].0 != s[j].0); }
}

// upsert keeps uniqueness and acts as a pointwise update of the lookup function
pub proof fn lemma_im_upsert<K, V>(s: Seq<(K, V)>, k: K, v: V)
    requires im_unique(s)
    ensures
        im_unique(im_upsert(s, k, v)),
        im_has(im_upsert(s, k, v), k) && im_get(im_upsert(s, k, v), k) == v,
        forall|k2: K| k2 != k ==> (im_has(im_upsert(s, k, v), k2) == im_has(s, k2))
            && (im_has(s, k2) ==> im_get(im_upsert(s, k, v), k2) == im_get(s, k2)),
{
    let n = im_upsert(s, k, v);
    if im_has(s, k) {
        let i = im_idx(s, k);
        assert(n[i].0 == k);
        assert forall|a: int, b: int| 0 <= a < b < n.len() implies (#[trigger] n[a]).0 != (#[trigger] n[b]).0 by {
            assert(s[a].0 != s[b].0);
        }
        lemma_im_idx(n, i);
        assert forall|k2: K| k2 != k implies (im_has(n, k2) == im_has(s, k2))
            && (im_has(s, k2) ==> im_get(n, k2) == im_get(s, k2)) by {
            if im_has(s, k2) { let j = im_idx(s, k2); assert(n[j].0 == k2); lemma_im_idx(n, j); }
            if im_has(n, k2) { let j = im_idx(n, k2); assert(s[j].0 == k2); }
        }
    } else {
        let i = s.len() as int;
        assert(n[i].0 == k);
        assert forall|a: int, b: int| 0 <= a < b < n.len() implies (#[trigger] n[a]).0 != (#[trigger] n[b]).0 by {
            if b == i { assert(s[a].0 != k); } else { assert(s[a].0 != s[b].0); }
        }
        lemma_im_idx(n, i);
        assert forall|k2: K| k2 != k implies (im_has(n, k2) == im_has(s, k2))
            && (im_has(s, k2) ==> im_get(n, k2) == im_get(s, k2)) by {
            if im_has(s, k2) { let j = im_idx(s, k2); assert(n[j].0 == k2); lemma_im_idx(n, j); }
            if im_has(n, k2) { let j = im_idx(n, k2); assert(j != i); assert(s[j].0 == k2); }
        }
    }
}

// in-place update of the value stored under an existing key (what get_mut / entry do)
pub proof fn lemma_im_update_all<K, V>(s: Seq<(K, V)>, k: K)
    requires im_unique(s), im_has(s, k)
    ensures
        forall|v: V| #![trigger s.update(im_idx(s, k), (k, v))] ({
            let n = s.update(im_idx(s, k), (k, v));
            im_unique(n) && im_has(n, k) && im_get(n, k) == v && im_idx(n, k) == im_idx(s, k)
            && (forall|k2: K| k2 != k ==> (im_has(n, k2) == im_has(s, k2)) && (im_has(s, k2) ==> im_get(n, k2) == im_get(s, k2)))
        }),
{
    assert forall|v: V| #![trigger s.update(im_idx(s, k), (k, v))] ({
            let n = s.update(im_idx(s, k), (k, v));
            im_unique(n) && im_has(n, k) && im_get(n, k) == v && im_idx(n, k) == im_idx(s, k)
            && (forall|k2: K| k2 != k ==> (im_has(n, k2) == im_has(s, k2)) && (im_has(s, k2) ==> im_get(n, k2) == im_get(s, k2)))
        }) by {
        lemma_im_upsert(s, k, v);
        assert(im_upsert(s, k, v) == s.update(im_idx(s, k), (k, v)));
        let n = s.update(im_idx(s, k), (k, v));
        lemma_im_idx(n, im_idx(s, k));
    }
}

pub proof fn lemma_im_upsert_all<K, V>(s: Seq<(K, V)>, k: K)
    requires im_unique(s)
    ensures
        forall|v: V| #![trigger im_upsert(s, k, v)] im_unique(im_upsert(s, k, v))
            && im_has(im_upsert(s, k, v), k) && im_get(im_upsert(s, k, v), k) == v
            && (forall|k2: K| k2 != k ==> (im_has(im_upsert(s, k, v), k2) == im_has(s, k2))
                && (im_has(s, k2) ==> im_get(im_upsert(s, k, v), k2) == im_get(s, k2))),
{
    assert forall|v: V| #![trigger im_upsert(s, k, v)] im_unique(im_upsert(s, k, v))
            && im_has(im_upsert(s, k, v), k) && im_get(im_upsert(s, k, v), k) == v
            && (forall|k2: K| k2 != k ==> (im_has(im_upsert(s, k, v), k2) == im_has(s, k2))
                && (im_has(s, k2) ==> im_get(im_upsert(s, k, v), k2) == im_get(s, k2))) by {
        lemma_im_upsert(s, k, v);
    }
}

#[verifier::external_body]
#[verifier::reject_recursive_types(K)]
#[verifier::accept_recursive_types(V)]
pub struct IndexMap<K, V> { _p: core::marker::PhantomData<(K, V)> }

// prophecy-carrying entry handle: `fin` is the map as it will be when the entry is consumed
#[verifier::external_body]
#[verifier::reject_recursive_types(K)]
#[verifier::accept_recursive_types(V)]
pub struct Entry<'a, K, V> { _p: core::marker::PhantomData<&'a mut (K, V)> }
impl<'a, K, V> Entry<'a, K, V> {
    pub uninterp spec fn before(&self) -> Seq<(K, V)>;
    pub uninterp spec fn fin(&self) -> Seq<(K, V)>;
    pub uninterp spec fn key(&self) -> K;
}

impl<K, V> View for IndexMap<K, V> {
    type V = Seq<(K, V)>;
    uninterp spec fn view(&self) -> Seq<(K, V)>;
}

// type invariant of the real data structure
pub broadcast axiom fn axiom_indexmap_unique<K, V>(m: IndexMap<K, V>)
    ensures #[trigger] im_unique(m@);

impl<K, V> IndexMap<K, V> {
    pub open spec fn has(&self, k: K) -> bool { im_has(self@, k) }
    pub open spec fn val(&self, k: K) -> V { im_get(self@, k) }

    #[verifier::external_body]
    pub fn new() -> (m: IndexMap<K, V>) ensures m@ == Seq::<(K, V)>::empty() { unimplemented!() }

    #[verifier::external_body]
    pub fn len(&self) -> (n: usize) ensures n == self@.len() { unimplemented!() }

    #[verifier::external_body]
    pub fn is_empty(&self) -> (b: bool) ensures b == (self@.len() == 0) { unimplemented!() }

    #[verifier::external_body]
    pub fn contains_key(&self, k: &K) -> (b: bool) ensures b == im_has(self@, *k) { unimplemented!() }

    #[verifier::external_body]
    pub fn insert(&mut self, k: K, v: V) -> (r: Option<V>)
        ensures
            final(self)@ == im_upsert(old(self)@, k, v),
            r == (if im_has(old(self)@, k) { Some(im_get(old(self)@, k)) } else { None::<V> }),
    { unimplemented!() }

    #[verifier::external_body]
    pub fn get(&self, k: &K) -> (r: Option<&V>)
        ensures r == (if im_has(self@, *k) { Some(&im_get(self@, *k)) } else { None::<&V> }),
    { unimplemented!() }

    #[verifier::external_body]
    pub fn get_mut(&mut self, k: &K) -> (r: Option<&mut V>)
        ensures
            match r {
                Some(v) => im_has(old(self)@, *k) && *v == im_get(old(self)@, *k)
                    && final(self)@ == old(self)@.update(im_idx(old(self)@, *k), (*k, *final(v))),
                None => !im_has(old(self)@, *k) && final(self)@ == old(self)@,
            }
    { unimplemented!() }

    #[verifier::external_body]
    pub fn get_index(&self, i: usize) -> (r: Option<(&K, &V)>)
        ensures r == (if i < self@.len() { Some((&self@[i as int].0, &self@[i as int].1)) } else { None::<(&K, &V)> }),
    { unimplemented!() }

    // swap_remove: the last element moves into the hole
    #[verifier::external_body]
    pub fn swap_remove(&mut self, k: &K) -> (r: Option<V>)
        ensures
            !im_has(old(self)@, *k) ==> r.is_none() && final(self)@ == old(self)@,
            im_has(old(self)@, *k) ==> r == Some(im_get(old(self)@, *k)) && ({
                let i = im_idx(old(self)@, *k);
                let n = old(self)@.len();
                final(self)@ == (if i == n - 1 { old(self)@.drop_last() } else { old(self)@.update(i, old(self)@[n - 1]).drop_last() })
            }),
    { unimplemented!() }

    // shift_remove: order of the rest preserved
    #[verifier::external_body]
    pub fn shift_remove(&mut self, k: &K) -> (r: Option<V>)
        ensures
            !im_has(old(self)@, *k) ==> r.is_none() && final(self)@ == old(self)@,
            im_has(old(self)@, *k) ==> r == Some(im_get(old(self)@, *k))
                && final(self)@ == old(self)@.remove(im_idx(old(self)@, *k)),
    { unimplemented!() }

    #[verifier::external_body]
    pub fn entry(&mut self, k: K) -> (e: Entry<'_, K, V>)
        ensures e.before() == old(self)@, e.key() == k, final(self)@ == e.fin(),
    { unimplemented!() }
}

// Entry::or_insert(default): a reference to the existing value, or to `default` inserted at the end; prophecy-style like or_default
impl<'a, K, V> Entry<'a, K, V> {
    #[verifier::external_body]
    pub fn or_insert(self, default: V) -> (r: &'a mut V)
        ensures
            im_has(self.before(), self.key()) ==> *r == im_get(self.before(), self.key()),
            !im_has(self.before(), self.key()) ==> *r == default,
            self.fin() == im_upsert(self.before(), self.key(), *final(r)),
    { unimplemented!() }
}

impl<'a, K, T> Entry<'a, K, VecDeque<T>> {
    #[verifier::external_body]
    pub fn or_default(self) -> (r: &'a mut VecDeque<T>)
        ensures
            im_has(self.before(), self.key()) ==> *r == im_get(self.before(), self.key()),
            !im_has(self.before(), self.key()) ==> r@ == Seq::<T>::empty(),
            self.fin() == im_upsert(self.before(), self.key(), *final(r)),
    { unimplemented!() }
}
// @broadcast axiom_indexmap_unique

