// External crate / std types that turmoil-net's socket table stores or calls.  ASSUMED contracts,
// minimal: only what the `nettable` unit's extracted code touches.

// ---- bytes::Bytes / BytesMut: immutable / growable byte strings; only the content is modelled ----
#[verifier::external_body]
pub struct Bytes { _p: core::marker::PhantomData<u8> }
#[verifier::external_body]
pub struct BytesMut { _p: core::marker::PhantomData<u8> }
impl View for Bytes { type V = Seq<u8>; uninterp spec fn view(&self) -> Seq<u8>; }
impl View for BytesMut { type V = Seq<u8>; uninterp spec fn view(&self) -> Seq<u8>; }
// Bytes equality is content equality; as a model value a Bytes *is* its content.
pub broadcast axiom fn axiom_bytes_ext(a: Bytes, b: Bytes)
    ensures #[trigger] a@ == #[trigger] b@ ==> a == b;
impl Clone for Bytes {
    #[verifier::external_body]
    fn clone(&self) -> (r: Bytes) ensures r == *self { unimplemented!() }
}
impl PartialEq for Bytes {
    #[verifier::external_body]
    fn eq(&self, o: &Bytes) -> (r: bool) ensures r == (*self == *o) { unimplemented!() }
}
impl Eq for Bytes {}
impl PartialEqSpecImpl for Bytes {
    open spec fn obeys_eq_spec() -> bool { true }
    open spec fn eq_spec(&self, o: &Bytes) -> bool { *self == *o }
}
// things `Bytes::copy_from_slice` is called with (`&[u8]`, or `&Bytes` through deref coercion)
pub trait ByteSource { spec fn src_bytes(&self) -> Seq<u8>; }
impl ByteSource for Bytes { open spec fn src_bytes(&self) -> Seq<u8> { self@ } }
impl ByteSource for [u8] { open spec fn src_bytes(&self) -> Seq<u8> { self@ } }
impl Bytes {
    #[verifier::external_body]
    pub fn new() -> (r: Bytes) ensures r@ == Seq::<u8>::empty() { unimplemented!() }
    #[verifier::external_body]
    pub fn copy_from_slice<S: ByteSource + ?Sized>(data: &S) -> (r: Bytes) ensures r@ == data.src_bytes() { unimplemented!() }
    #[verifier::external_body]
    pub fn len(&self) -> (n: usize) ensures n == self@.len() { unimplemented!() }
}

// ---- std::task::Waker: opaque handle; waking has no effect on simulation state ----
#[verifier::external_body]
pub struct Waker { _p: core::marker::PhantomData<u8> }

// ---- std::path::PathBuf: opaque; equality is structural on the model value ----
#[verifier::external_body]
pub struct PathBuf { _p: core::marker::PhantomData<u8> }
impl Clone for PathBuf {
    #[verifier::external_body]
    fn clone(&self) -> (r: PathBuf) ensures r == *self { unimplemented!() }
}
impl PartialEq for PathBuf {
    #[verifier::external_body]
    fn eq(&self, o: &PathBuf) -> (r: bool) ensures r == (*self == *o) { unimplemented!() }
}
impl Eq for PathBuf {}
impl PartialEqSpecImpl for PathBuf {
    open spec fn obeys_eq_spec() -> bool { true }
    open spec fn eq_spec(&self, o: &PathBuf) -> bool { *self == *o }
}

// ---- more of indexmap::IndexMap ----
// retain(f): visits the entries in order, calls f(&k, &mut v) once per entry (f may mutate v) and keeps
// the entry, with the mutated value, iff f returned true.  Relational: `n` is a retain-image of `o` under any
// relation rel(key, value before, value after, kept) that over-approximates f's contract.
pub open spec fn im_retain_by<K, V>(o: Seq<(K, V)>, n: Seq<(K, V)>, rel: spec_fn(K, V, V, bool) -> bool) -> bool
    decreases o.len()
{
    if o.len() == 0 { n.len() == 0 } else {
        ((exists|v2: V| #[trigger] rel(o.last().0, o.last().1, v2, false)) && im_retain_by(o.drop_last(), n, rel))
        || (n.len() > 0 && n.last().0 == o.last().0 && rel(o.last().0, o.last().1, n.last().1, true)
            && im_retain_by(o.drop_last(), n.drop_last(), rel))
    }
}

#[verifier::external_body]
#[verifier::reject_recursive_types(K)]
#[verifier::accept_recursive_types(V)]
pub struct Keys<'a, K, V> { _p: core::marker::PhantomData<&'a (K, V)> }
impl<'a, K, V> View for Keys<'a, K, V> { type V = Seq<K>; uninterp spec fn view(&self) -> Seq<K>; }
impl<'a, K, V> Keys<'a, K, V> {
    // Iterator::any over the keys, in order (call-result style, cf. design-probes/verus_probe_stub_iterator_chain.rs)
    #[verifier::external_body]
    pub fn any<F: FnMut(&K) -> bool>(&mut self, f: F) -> (r: bool)
        requires forall|k: &K| #[trigger] f.requires((k,)),
        ensures
            r ==> exists|i: int| 0 <= i < old(self)@.len() && #[trigger] f.ensures((&old(self)@[i],), true),
            !r ==> forall|i: int| #![trigger old(self)@[i]] 0 <= i < old(self)@.len() ==> f.ensures((&old(self)@[i],), false),
    { unimplemented!() }
}

impl<K, V> IndexMap<K, V> {
    #[verifier::external_body]
    pub fn retain<F: FnMut(&K, &mut V) -> bool>(&mut self, f: F)
        requires forall|k: &K, v: &mut V| #[trigger] f.requires((k, v)),
        ensures
            forall|rel: spec_fn(K, V, V, bool) -> bool| #![trigger im_retain_by(old(self)@, final(self)@, rel)]
                (forall|k: K, v: &mut V, b: bool| #[trigger] f.ensures((&k, v), b) ==> rel(k, *v, *final(v), b))
                ==> im_retain_by(old(self)@, final(self)@, rel),
    { unimplemented!() }

    #[verifier::external_body]
    pub fn keys(&self) -> (r: Keys<'_, K, V>)
        ensures r@ == im_keys(self@)
    { unimplemented!() }
}

impl<'a, K, T> Entry<'a, K, Vec<T>> {
    // entry(k).or_default(): the existing value, or a fresh empty Vec inserted at the end
    #[verifier::external_body]
    pub fn or_default(self) -> (r: &'a mut Vec<T>)
        ensures
            im_has(self.before(), self.key()) ==> *r == im_get(self.before(), self.key()),
            !im_has(self.before(), self.key()) ==> r@ == Seq::<T>::empty(),
            self.fin() == im_upsert(self.before(), self.key(), *final(r)),
    { unimplemented!() }
}
// @broadcast axiom_bytes_ext

// `Result<_, io::Error>::expect` needs `Error: Debug` (formatting only; no contract)
#[verifier::external]
impl core::fmt::Debug for Error {
    fn fmt(&self, f: &mut core::fmt::Formatter<'_>) -> core::fmt::Result { Ok(()) }
}

// R11 idiom stub: `if let Some(&v) = map.get(k)` (ref pattern, not ingestible) == `if let Some(v) = map.get(k).copied()`
impl<K, V: Copy> IndexMap<K, V> {
    #[verifier::external_body]
    pub fn idiom_get_copied(&self, k: &K) -> (r: Option<V>)
        ensures r == (if im_has(self@, *k) { Some(im_get(self@, *k)) } else { None::<V> }),
    { unimplemented!() }
}
