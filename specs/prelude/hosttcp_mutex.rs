// std::sync::MutexGuard: Deref / DerefMut to the protected value (`*guard = v`).  ASSUMED; the protected value (the
// writer's waker) carries no simulation state and is not modelled.
impl<'a, T> core::ops::Deref for MutexGuard<'a, T> {
    type Target = T;
    #[verifier::external_body]
    fn deref(&self) -> &T { unimplemented!() }
}
impl<'a, T> core::ops::DerefMut for MutexGuard<'a, T> {
    #[verifier::external_body]
    fn deref_mut(&mut self) -> &mut T { unimplemented!() }
}
