// More of indexmap::IndexMap for unit `uring` (ASSUMED contracts; the base stub is prelude/indexmap.rs).
// IndexMap iteration order is insertion order (deterministic): no ambient nondeterminism involved.
#[verifier::external_body]
#[verifier::reject_recursive_types(V)]
pub struct Values<'a, V> { _p: core::marker::PhantomData<&'a V> }
pub uninterp spec fn values_seq<'a, V>(v: Values<'a, V>) -> Seq<&'a V>;
impl<'a, V> Iterator for Values<'a, V> {
    type Item = &'a V;
    #[verifier::external_body]
    fn next(&mut self) -> Option<&'a V> { unimplemented!() }
}
impl<'a, V> vstd::std_specs::iter::IteratorSpecImpl for Values<'a, V> {
    open spec fn obeys_prophetic_iter_laws(&self) -> bool { true }
    open spec fn remaining(&self) -> Seq<&'a V> { values_seq(*self) }
    open spec fn will_return_none(&self) -> bool { true }
    open spec fn decrease(&self) -> Option<nat> { Some(values_seq(*self).len()) }
    open spec fn peek(&self, i: int) -> Option<&'a V> { if 0 <= i < values_seq(*self).len() { Some(values_seq(*self)[i]) } else { None } }
}
impl<K, V> IndexMap<K, V> {
    // values(): the values in insertion order
    #[verifier::external_body]
    pub fn values(&self) -> (r: Values<'_, V>)
        ensures
            values_seq(r).len() == self@.len(),
            forall|i: int| 0 <= i < self@.len() ==> *(#[trigger] values_seq(r)[i]) == self@[i].1,
    { unimplemented!() }

    #[verifier::external_body]
    pub fn clear(&mut self)
        ensures final(self)@ == Seq::<(K, V)>::empty(),
    { unimplemented!() }
}
