// `v.iter().copied().find(f)` on a Vec of Copy elements, predicate-parametric form (R11 idiom stub, ASSUMED): for every
// predicate p that the closure's contract pins down, the result is the first element satisfying p (None if there is none).
// Same shape as VecDeque::retain in vecdeque.rs; stronger to use than the index form in nettcp_try.rs because no hint is
// needed after the call.
pub open spec fn seq_find_first<T>(s: Seq<T>, p: spec_fn(T) -> bool) -> Option<T> decreases s.len() {
    if s.len() == 0 { None } else if p(s[0]) { Some(s[0]) } else { seq_find_first(s.skip(1), p) }
}
pub trait IdiomVecFindP<T: Copy> {
    spec fn idiom_fp_seq(&self) -> Seq<T>;
    fn idiom_copied_find_p<F: FnMut(&T) -> bool>(&self, f: F) -> (r: Option<T>)
        requires forall|x: &T| #[trigger] f.requires((x,)),
        ensures forall|p: spec_fn(T) -> bool| #![trigger seq_find_first(self.idiom_fp_seq(), p)]
            (forall|x: T| (#[trigger] f.ensures((&x,), true) ==> p(x)) && (#[trigger] f.ensures((&x,), false) ==> !p(x)))
            ==> r == seq_find_first(self.idiom_fp_seq(), p);
}
impl<T: Copy> IdiomVecFindP<T> for Vec<T> {
    open spec fn idiom_fp_seq(&self) -> Seq<T> { self@ }
    #[verifier::external_body]
    fn idiom_copied_find_p<F: FnMut(&T) -> bool>(&self, f: F) -> (r: Option<T>) { unimplemented!() }
}
