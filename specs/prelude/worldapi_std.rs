// Library stubs for unit `worldapi` (control-API plumbing).  Every item is an ASSUMED contract.

// ---- rand_distr::Exp::<f64>::new -------------------------------------------------------------------------------
// Exp::new(lambda) is Err(Error::LambdaTooSmall) unless lambda >= 0 (NaN included in the Err case); the accepted
// parameter is stored.  Verus has no f64 comparison spec: the accepted range is the uninterpreted `exp_lambda_ok`.
pub uninterp spec fn exp_lambda_ok(lambda: f64) -> bool;
pub struct ExpError {}
impl core::fmt::Debug for ExpError { #[verifier::external_body] fn fmt(&self, f: &mut core::fmt::Formatter<'_>) -> core::fmt::Result { unimplemented!() } }
impl Exp<f64> {
    pub uninterp spec fn lambda(&self) -> f64;
    #[verifier::external_body]
    pub fn new(lambda: f64) -> (r: core::result::Result<Exp<f64>, ExpError>)
        ensures r is Ok <==> exp_lambda_ok(lambda), r is Ok ==> r->Ok_0.lambda() == lambda,
    { unimplemented!() }
}

// ---- `"text"?` / `"text".into()` into turmoil::Result's error type ------------------------------------------------
// std: `impl From<&str> for Box<dyn Error>`; the payload (message text) is not modelled.
impl<'a> From<&'a str> for BoxError {
    #[verifier::external_body]
    fn from(e: &'a str) -> (r: BoxError) { unimplemented!() }
}

// ---- std::time::SystemTime::duration_since / UNIX_EPOCH (same contract as prelude/seedflow_std.rs) -------------------
pub struct SystemTimeError {}
impl core::fmt::Debug for SystemTimeError { #[verifier::external_body] fn fmt(&self, f: &mut core::fmt::Formatter<'_>) -> core::fmt::Result { unimplemented!() } }
pub uninterp spec fn unix_epoch() -> SystemTime;
#[verifier::external_body]
pub exec const UNIX_EPOCH: SystemTime ensures UNIX_EPOCH == unix_epoch() { SystemTime { _p: () } }
impl SystemTime {
    pub uninterp spec fn not_before(&self, earlier: SystemTime) -> bool;
    pub uninterp spec fn since(&self, earlier: SystemTime) -> Duration;
    #[verifier::external_body]
    pub fn duration_since(&self, earlier: SystemTime) -> (r: core::result::Result<Duration, SystemTimeError>)
        ensures r is Ok <==> self.not_before(earlier), r is Ok ==> r->Ok_0 == self.since(earlier)
    { unimplemented!() }
}

// ---- rand::rngs::SmallRng as the world generator (the struct is in run_tokio.rs) ---------------------------------------
// The generator's stream is not modelled in this unit (unit seedflow does that); only where a generator may come from.
impl RngCore for SmallRng {
    #[verifier::external_body] fn next_u64(&mut self) -> u64 { unimplemented!() }
    #[verifier::external_body] fn next_u32(&mut self) -> u32 { unimplemented!() }
    #[verifier::external_body] fn random_bool(&mut self, p: f64) -> bool { unimplemented!() }
    #[verifier::external_body] fn random_range_usize(&mut self, lo: usize, hi: usize) -> (r: usize) { unimplemented!() }
}
impl SmallRng {
    #[verifier::external_body]
    pub fn seed_from_u64(seed: u64) -> (r: SmallRng) { unimplemented!() }
    // SeedableRng::from_os_rng: seeded from the operating system's entropy source (ambient)
    #[verifier::external_body]
    pub fn from_os_rng() -> (r: SmallRng)
        requires
            [nd.os_rng.smallrng] ambient_nondeterminism_allowed(),
    { unimplemented!() }
}

// ---- RangeInclusive::clone (World::register clones Config::ephemeral_ports; same contract as prelude/seedflow_std.rs) ----
pub assume_specification<Idx: Clone> [<RangeInclusive<Idx> as Clone>::clone] (r: &RangeInclusive<Idx>) -> (c: RangeInclusive<Idx>)
    ensures c@ == r@;

// ---- IndexMap::keys (same contract as prelude/fs_indexset.rs, which cannot be combined with indexset.rs) -----------------
pub use vstd::std_specs::iter::IteratorSpec;
pub open spec fn seq_refs<'a, T>(s: Seq<T>) -> Seq<&'a T> { Seq::new(s.len(), |i: int| &s[i]) }
impl<K, V> IndexMap<K, V> {
    // keys(): the keys in insertion order.  MODELLED as a slice iterator over the key sequence (the real
    // `indexmap::map::Keys` walks the entries Vec in order), so that Verus' `for` support applies.
    #[verifier::external_body]
    pub fn keys(&self) -> (r: core::slice::Iter<'_, K>)
        ensures r.remaining() == seq_refs(im_keys(self@)), r.obeys_prophetic_iter_laws(), r.decrease() is Some, r.will_return_none(),
    { unimplemented!() }
}
