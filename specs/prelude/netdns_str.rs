// String-slice facts for unit netdns (turmoil-net dns.rs).  Load after ports_dns.rs.
// ASSUMED: a str value is determined by its contents (same assumption as axiom_string_ext for String).  Verus encodes a
// string-literal match arm (`match name { "localhost" => .. }`) as spec equality with the literal; this axiom links that
// to equality of the texts.
pub axiom fn axiom_str_ext(a: &str, b: &str)
    requires a@ == b@
    ensures a == b;

// Option<&T>::copied (std docs): maps the reference to a copy of the value
pub assume_specification<'a, T: Copy> [Option::<&'a T>::copied] (o: Option<&'a T>) -> (r: Option<T>)
    ensures r == (match o { Some(v) => Some(*v), None => None::<T> });
