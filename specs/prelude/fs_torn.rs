// Pieces for Fs::apply_torn_writes (ASSUMED contracts).
// u64::div_ceil (std): ceiling division, panics on a zero divisor
pub open spec fn ceil_div(a: int, b: int) -> int { (a + b - 1) / b }
pub assume_specification [u64::div_ceil] (a: u64, b: u64) -> (r: u64)
    requires b > 0
    ensures r as int == ceil_div(a as int, b as int);
// `rng.random_range(lo..=hi)` on usize (rand::Rng, R11 idiom): some value of the closed range; which one is unconstrained
#[verifier::external_body]
pub fn idiom_random_range_incl(rng: &mut dyn RngCore, lo: usize, hi: usize) -> (r: usize)
    requires lo <= hi
    ensures lo <= r <= hi
{ unimplemented!() }
// `SLICE_ITER.filter_map(f).collect::<Vec<B>>()` with a STATEFUL closure (it draws from a generator): the result is, in
// order, what the closure produced for the elements on which it returned Some.  The closure itself is verified as a lifted
// fn (R5) against the relation `rel`; this stub (R11/R16) only contributes the iteration order of filter_map + collect.
pub open spec fn fm_ok<T, B>(s: Seq<T>, r: Seq<B>, rel: spec_fn(T, B) -> bool) -> bool decreases s.len() {
    if s.len() == 0 { r.len() == 0 } else {
        fm_ok(s.drop_last(), r, rel) || (r.len() > 0 && fm_ok(s.drop_last(), r.drop_last(), rel) && rel(s.last(), r.last()))
    }
}
#[verifier::external_body]
#[verifier::reject_recursive_types(B)]
pub struct FmOut<B> { _p: core::marker::PhantomData<B> }
impl<B> View for FmOut<B> { type V = Seq<B>; uninterp spec fn view(&self) -> Seq<B>; }
impl<B> FmOut<B> {
    #[verifier::external_body]
    pub fn collect(self) -> (v: Vec<B>) ensures v@ == self@ { unimplemented!() }
}
#[verifier::external_body]
pub fn idiom_filter_map_rel<T, B>(v: &Vec<T>, rel: Ghost<spec_fn(T, B) -> bool>) -> (o: FmOut<B>)
    ensures fm_ok(v@, o@, rel@)
{ unimplemented!() }
