// std::task::{Waker, Context, Poll} and std::path::PathBuf.
// Poll is the real core enum (transparent).  Waker/Context are opaque: the verified code only
// stores, clones and wakes them; which task a waker wakes is the uninterpreted `id()`.
#[verifier::external_type_specification]
pub struct ExPoll<T>(core::task::Poll<T>);
pub use core::task::Poll;

#[verifier::external_body]
pub struct Waker { _p: core::marker::PhantomData<u8> }
impl Waker {
    pub uninterp spec fn id(&self) -> int;
    // will_wake: true only if both wake the same task (may be false for equal tasks in real std;
    // modelled as exact, which only affects dedup of the waker lists)
    #[verifier::external_body]
    pub fn will_wake(&self, other: &Waker) -> (b: bool) ensures b == (self.id() == other.id()) { unimplemented!() }
    #[verifier::external_body]
    pub fn wake(self) { unimplemented!() }
}
impl Clone for Waker {
    #[verifier::external_body]
    fn clone(&self) -> (r: Waker) ensures r.id() == self.id() { unimplemented!() }
}
#[verifier::external_body]
pub struct Context<'a> { _p: core::marker::PhantomData<&'a u8> }
impl<'a> Context<'a> {
    pub uninterp spec fn waker_id(&self) -> int;
    #[verifier::external_body]
    pub fn waker(&self) -> (w: &Waker) ensures w.id() == self.waker_id() { unimplemented!() }
}

// std::path::PathBuf: opaque (only stored inside Addr::Unix, never inspected by the TCP/UDP code)
#[verifier::external_body]
pub struct PathBuf { _p: core::marker::PhantomData<u8> }
impl Clone for PathBuf { #[verifier::external_body] fn clone(&self) -> (r: PathBuf) ensures r == *self { unimplemented!() } }
impl PartialEq for PathBuf { #[verifier::external_body] fn eq(&self, o: &PathBuf) -> bool { unimplemented!() } }
impl Eq for PathBuf {}
impl PartialEqSpecImpl for PathBuf {
    open spec fn obeys_eq_spec() -> bool { true }
    open spec fn eq_spec(&self, other: &PathBuf) -> bool { *self == *other }
}

// std::ops::RangeInclusive: the real type (only stored in PortAllocator; not inspected here)
pub use core::ops::RangeInclusive;


// io::Error: Debug (needed by Result::<_, Error>::unwrap's trait bound; formatting is never verified)
impl core::fmt::Debug for Error { #[verifier::external_body] fn fmt(&self, f: &mut core::fmt::Formatter<'_>) -> core::fmt::Result { unimplemented!() } }

// vstd's iterator model (remaining()/decrease()/obeys_prophetic_iter_laws()) for R12 loop invariants
pub use vstd::std_specs::iter::IteratorSpec;
