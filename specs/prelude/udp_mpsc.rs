// tokio::sync::mpsc bounded channel as a bounded FIFO.  ASSUMED contracts on tokio.
//
// Model: both handles expose the state of the one channel they belong to (`chan` is its ghost identity):
// queued messages oldest first, capacity, and whether the peer handle is alive.  tokio's `Sender::try_send`
// takes `&self` (interior mutability); the stub takes `&mut self` so that the state change is visible to
// the verifier.  The view of a handle is only meaningful for per-call contracts during which the peer
// handle is not used (turmoil: the Sender lives in the host's UDP table, the Receiver in the UdpSocket;
// no contracted function touches both ends of one channel after creating them).
pub mod mpsc {
    use vstd::prelude::*;
    pub ghost struct Chan<T> {
        pub chan: int,          // identity of the channel
        pub queue: Seq<T>,      // buffered messages, oldest first
        pub cap: nat,           // bound given to `channel`
        pub peer_alive: bool,   // Sender: receiver neither dropped nor closed.  Receiver: some sender alive
    }
    #[verifier::external_body]
    #[verifier::reject_recursive_types(T)]
    pub struct Sender<T> { _p: core::marker::PhantomData<T> }
    #[verifier::external_body]
    #[verifier::reject_recursive_types(T)]
    pub struct Receiver<T> { _p: core::marker::PhantomData<T> }
    impl<T> View for Sender<T> { type V = Chan<T>; uninterp spec fn view(&self) -> Chan<T>; }
    impl<T> View for Receiver<T> { type V = Chan<T>; uninterp spec fn view(&self) -> Chan<T>; }

    // tokio panics for buffer == 0 and for buffer > Semaphore::MAX_PERMITS (usize::MAX >> 3)
    #[verifier::external_body]
    pub fn channel<T>(buffer: usize) -> (r: (Sender<T>, Receiver<T>))
        requires 0 < buffer <= (usize::MAX >> 3),
        ensures
            r.0@ == (Chan::<T> { chan: r.0@.chan, queue: Seq::<T>::empty(), cap: buffer as nat, peer_alive: true }),
            r.1@ == r.0@,
    { unimplemented!() }

    impl<T> Sender<T> {
        // Ok iff the receiver is alive and fewer than `cap` messages are buffered; the message is appended
        // at the back.  Otherwise the message is handed back and the channel is unchanged.
        #[verifier::external_body]
        pub fn try_send(&mut self, message: T) -> (r: Result<(), error::TrySendError<T>>)
            ensures
                old(self)@.peer_alive && old(self)@.queue.len() < old(self)@.cap ==>
                    r is Ok && final(self)@ == (Chan::<T> { queue: old(self)@.queue.push(message), ..old(self)@ }),
                !old(self)@.peer_alive ==>
                    r == Err::<(), error::TrySendError<T>>(error::TrySendError::Closed(message)) && final(self)@ == old(self)@,
                old(self)@.peer_alive && old(self)@.queue.len() >= old(self)@.cap ==>
                    r == Err::<(), error::TrySendError<T>>(error::TrySendError::Full(message)) && final(self)@ == old(self)@,
        { unimplemented!() }
    }
    impl<T> Receiver<T> {
        // FIFO: the oldest buffered message, if any.
        #[verifier::external_body]
        pub fn try_recv(&mut self) -> (r: Result<T, error::TryRecvError>)
            ensures
                old(self)@.queue.len() > 0 ==>
                    r == Ok::<T, error::TryRecvError>(old(self)@.queue[0])
                    && final(self)@ == (Chan::<T> { queue: old(self)@.queue.skip(1), ..old(self)@ }),
                old(self)@.queue.len() == 0 ==> final(self)@ == old(self)@
                    && r == Err::<T, error::TryRecvError>(if old(self)@.peer_alive { error::TryRecvError::Empty } else { error::TryRecvError::Disconnected }),
        { unimplemented!() }
    }
    pub mod error {
        pub enum TrySendError<T> { Full(T), Closed(T) }
        pub enum TryRecvError { Empty, Disconnected }
    }
}

// tokio::sync::Mutex: only construction is modelled (locking is async glue, not under contract)
#[verifier::external_body]
#[verifier::reject_recursive_types(T)]
pub struct Mutex<T> { _p: core::marker::PhantomData<T> }
impl<T> View for Mutex<T> { type V = T; uninterp spec fn view(&self) -> T; }
impl<T> Mutex<T> {
    #[verifier::external_body]
    pub fn new(t: T) -> (m: Mutex<T>) ensures m@ == t { unimplemented!() }
}
