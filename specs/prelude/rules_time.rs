// std::time::Duration extras used by unit `rules` (ASSUMED contracts).
// Ord::cmp on Duration is the numeric order of the nanosecond count (time.rs only gives partial_cmp a spec).
impl OrdSpecImpl for Duration {
    open spec fn obeys_cmp_spec() -> bool { true }
    open spec fn cmp_spec(&self, other: &Duration) -> Ordering {
        if self.ns@ < other.ns@ { Ordering::Less } else if self.ns@ > other.ns@ { Ordering::Greater } else { Ordering::Equal }
    }
}
// Duration::default() is the zero duration.
impl Default for Duration {
    #[verifier::external_body]
    fn default() -> (d: Duration) ensures d.ns@ == 0 { unimplemented!() }
}
