// std::path::{Path, PathBuf} as ONE opaque value type (ASSUMED model): a path is an abstract value
// `id`; exec equality (std compares normalised component sequences) is spec equality of that value,
// and it is the key equality of IndexMap/IndexSet/HashSet.  `PathBuf` is the owned twin of the
// unsized `Path`; they are identified here (alias) because every turmoil-fs use only clones, compares,
// takes `parent()` or uses them as keys.  `parent()` and `starts_with` are uninterpreted.
pub struct Path { pub id: Ghost<int> }
pub type PathBuf = Path;
pub type RawFd = i32;

impl Clone for Path {
    #[verifier::external_body]
    fn clone(&self) -> (r: Path) ensures r == *self { unimplemented!() }
}
impl core::fmt::Debug for Path { #[verifier::external_body] fn fmt(&self, f: &mut core::fmt::Formatter<'_>) -> core::fmt::Result { unimplemented!() } }
impl PartialEq for Path { #[verifier::external_body] fn eq(&self, o: &Path) -> bool { unimplemented!() } }
impl Eq for Path {}
impl PartialEqSpecImpl for Path {
    open spec fn obeys_eq_spec() -> bool { true }
    open spec fn eq_spec(&self, other: &Path) -> bool { *self == *other }
}
// PathBuf == &Path   (std: impl PartialEq<&Path> for PathBuf)
impl<'a> PartialEq<&'a Path> for Path { #[verifier::external_body] fn eq(&self, o: &&'a Path) -> bool { unimplemented!() } }
impl<'a> PartialEqSpecImpl<&'a Path> for Path {
    open spec fn obeys_eq_spec() -> bool { true }
    open spec fn eq_spec(&self, other: &&'a Path) -> bool { *self == **other }
}

impl Path {
    pub uninterp spec fn has_parent(&self) -> bool;
    pub uninterp spec fn parent_of(&self) -> Path;
    pub uninterp spec fn spec_starts_with(&self, base: Path) -> bool;
    pub uninterp spec fn spec_os_empty(&self) -> bool;

    #[verifier::external_body]
    pub fn parent(&self) -> (r: Option<&Path>)
        ensures r == (if self.has_parent() { Some(&self.parent_of()) } else { None::<&Path> })
    { unimplemented!() }

    #[verifier::external_body]
    pub fn to_path_buf(&self) -> (r: PathBuf) ensures r == *self { unimplemented!() }

    #[verifier::external_body]
    pub fn starts_with(&self, base: &Path) -> (r: bool) ensures r == self.spec_starts_with(*base) { unimplemented!() }

    // `p.as_os_str().is_empty()`
    pub fn as_os_str(&self) -> (r: &Path) ensures *r == *self { self }
    #[verifier::external_body]
    pub fn is_empty(&self) -> (r: bool) ensures r == self.spec_os_empty() { unimplemented!() }
}
