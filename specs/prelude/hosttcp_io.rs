// tokio::io::ReadBuf: a fixed-capacity buffer with a filled prefix.  ASSUMED contract.
// `initialized` is not modelled (turmoil never reads it).
pub ghost struct ReadBufState { pub filled: Seq<u8>, pub cap: nat }
#[verifier::external_body]
pub struct ReadBuf { _p: () }
impl View for ReadBuf { type V = ReadBufState; uninterp spec fn view(&self) -> ReadBufState; }
// type invariant of the real structure
pub broadcast axiom fn axiom_readbuf_bounded(b: ReadBuf)
    ensures (#[trigger] b@).filled.len() <= b@.cap, b@.cap <= usize::MAX;
impl ReadBuf {
    #[verifier::external_body]
    pub fn capacity(&self) -> (n: usize) ensures n == self@.cap { unimplemented!() }
    #[verifier::external_body]
    pub fn remaining(&self) -> (n: usize) ensures n == self@.cap - self@.filled.len() { unimplemented!() }
    // panics if buf.len() > remaining
    #[verifier::external_body]
    pub fn put_slice(&mut self, buf: &[u8])
        requires buf@.len() <= old(self)@.cap - old(self)@.filled.len()
        ensures final(self)@ == (ReadBufState { filled: old(self)@.filled + buf@, cap: old(self)@.cap })
    { unimplemented!() }
}
// @broadcast axiom_readbuf_bounded
