// indexmap::IndexMap: `map[&k]` / `map[&k].f = ..` (Index / IndexMut by key reference); both panic if the
// key is absent.  ASSUMED contracts, same model as prelude/indexmap.rs.
impl<K, V> vstd::std_specs::core::IndexSpecImpl<&K> for IndexMap<K, V> {
    open spec fn index_req(&self, index: &&K) -> bool { im_has(self@, **index) }
}
impl<K, V> core::ops::Index<&K> for IndexMap<K, V> {
    type Output = V;
    #[verifier::external_body]
    fn index(&self, k: &K) -> (o: &V)
        ensures *o == im_get(self@, *k)
    { unimplemented!() }
}
impl<K, V> core::ops::IndexMut<&K> for IndexMap<K, V> {
    #[verifier::external_body]
    fn index_mut(&mut self, k: &K) -> (o: &mut V)
        ensures *o == im_get(old(self)@, *k), final(self)@ == old(self)@.update(im_idx(old(self)@, *k), (*k, *final(o)))
    { unimplemented!() }
}

// IndexMap::values().any(f): iteration in insertion order (deterministic).  Call-result style contract.
#[verifier::external_body]
#[verifier::reject_recursive_types(K)]
#[verifier::accept_recursive_types(V)]
pub struct Values<'a, K, V> { _p: core::marker::PhantomData<&'a (K, V)> }
impl<'a, K, V> Values<'a, K, V> {
    pub uninterp spec fn seq(&self) -> Seq<V>;
    #[verifier::external_body]
    pub fn any<F: FnMut(&V) -> bool>(&mut self, f: F) -> (r: bool)
        requires forall|v: &V| #[trigger] f.requires((v,)),
        ensures
            r ==> exists|i: int| 0 <= i < old(self).seq().len() && #[trigger] f.ensures((&old(self).seq()[i],), true),
            !r ==> forall|i: int| #![trigger old(self).seq()[i]] 0 <= i < old(self).seq().len() ==> f.ensures((&old(self).seq()[i],), false),
    { unimplemented!() }
}
impl<K, V> IndexMap<K, V> {
    #[verifier::external_body]
    pub fn values(&self) -> (r: Values<'_, K, V>)
        ensures r.seq() == im_values(self@)
    { unimplemented!() }
}
