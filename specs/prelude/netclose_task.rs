// std::task::{Waker, Context, Poll} and std::path::PathBuf.  ASSUMED contracts.
// Waking a task has no effect on kernel state; which task a waker belongs to is not modelled
// (`will_wake` is an unconstrained function of the two wakers).
#[verifier::external_body]
pub struct Waker { _p: core::marker::PhantomData<u8> }
pub uninterp spec fn waker_same(a: Waker, b: Waker) -> bool;
impl Waker {
    #[verifier::external_body]
    pub fn wake(self) { unimplemented!() }
    #[verifier::external_body]
    pub fn will_wake(&self, o: &Waker) -> (b: bool) ensures b == waker_same(*self, *o) { unimplemented!() }
}
impl Clone for Waker { #[verifier::external_body] fn clone(&self) -> (r: Waker) ensures r == *self { unimplemented!() } }

#[verifier::external_body]
pub struct Context<'a> { _p: core::marker::PhantomData<&'a u8> }
impl<'a> Context<'a> {
    pub uninterp spec fn spec_waker(&self) -> Waker;
    #[verifier::external_body]
    pub fn waker(&self) -> (w: &Waker) ensures *w == self.spec_waker() { unimplemented!() }
}
pub enum Poll<T> { Ready(T), Pending }

#[verifier::external_body]
pub struct PathBuf { _p: core::marker::PhantomData<u8> }
impl Clone for PathBuf { #[verifier::external_body] fn clone(&self) -> (r: PathBuf) ensures r == *self { unimplemented!() } }
impl PartialEq for PathBuf { #[verifier::external_body] fn eq(&self, o: &PathBuf) -> bool { unimplemented!() } }
impl Eq for PathBuf {}

// io::Error: Debug (needed by Result::unwrap / expect on io::Result)
impl core::fmt::Debug for Error { #[verifier::external_body] fn fmt(&self, f: &mut core::fmt::Formatter<'_>) -> core::fmt::Result { unimplemented!() } }
