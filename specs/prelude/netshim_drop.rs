// std::mem::forget (explicit leak): takes ownership, runs no destructor and no drop glue, returns nothing.  Same assumed specification as in rules_std.rs.
pub assume_specification<T> [core::mem::forget::<T>] (t: T);
