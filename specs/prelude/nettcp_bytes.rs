// bytes::{Bytes, BytesMut} as byte sequences (view: Seq<u8>).  Every method is an ASSUMED contract
// on the `bytes` crate; only the operations turmoil-net's TCP/UDP code uses are offered.
// Capacity/allocation is not modelled (BytesMut grows on demand; allocation failure aborts).
#[verifier::external_body]
pub struct Bytes { _p: core::marker::PhantomData<u8> }
#[verifier::external_body]
pub struct BytesMut { _p: core::marker::PhantomData<u8> }
impl View for Bytes { type V = Seq<u8>; uninterp spec fn view(&self) -> Seq<u8>; }
impl View for BytesMut { type V = Seq<u8>; uninterp spec fn view(&self) -> Seq<u8>; }

// Deref<Target=[u8]>: `&b[..n]`, `&b[a..b]`, `&b` as `&[u8]` all go through the slice view.
impl core::ops::Deref for Bytes {
    type Target = [u8];
    #[verifier::external_body]
    fn deref(&self) -> (r: &[u8]) ensures r@ == self@ { unimplemented!() }
}
impl core::ops::Deref for BytesMut {
    type Target = [u8];
    #[verifier::external_body]
    fn deref(&self) -> (r: &[u8]) ensures r@ == self@ { unimplemented!() }
}
impl Clone for Bytes {
    #[verifier::external_body]
    fn clone(&self) -> (r: Bytes) ensures r@ == self@ { unimplemented!() }
}
// Bytes equality is equality of contents.
impl PartialEq for Bytes { #[verifier::external_body] fn eq(&self, o: &Bytes) -> bool { unimplemented!() } }
impl Eq for Bytes {}
impl PartialEqSpecImpl for Bytes {
    open spec fn obeys_eq_spec() -> bool { true }
    open spec fn eq_spec(&self, other: &Bytes) -> bool { self@ == other@ }
}

impl Bytes {
    #[verifier::external_body]
    pub fn new() -> (b: Bytes) ensures b@ == Seq::<u8>::empty() { unimplemented!() }
    #[verifier::external_body]
    pub fn copy_from_slice(data: &[u8]) -> (b: Bytes) ensures b@ == data@ { unimplemented!() }
    #[verifier::external_body]
    pub fn len(&self) -> (n: usize) ensures n == self@.len() { unimplemented!() }
    #[verifier::external_body]
    pub fn is_empty(&self) -> (b: bool) ensures b == (self@.len() == 0) { unimplemented!() }
}

impl BytesMut {
    #[verifier::external_body]
    pub fn new() -> (b: BytesMut) ensures b@ == Seq::<u8>::empty() { unimplemented!() }
    #[verifier::external_body]
    pub fn len(&self) -> (n: usize) ensures n == self@.len() { unimplemented!() }
    #[verifier::external_body]
    pub fn is_empty(&self) -> (b: bool) ensures b == (self@.len() == 0) { unimplemented!() }
    // appends; the buffer grows as needed
    #[verifier::external_body]
    pub fn extend_from_slice(&mut self, extend: &[u8])
        ensures final(self)@ == old(self)@ + extend@
    { unimplemented!() }
    // splits at `at`: returns [0, at), self keeps [at, len).  Panics if at > len.
    #[verifier::external_body]
    pub fn split_to(&mut self, at: usize) -> (r: BytesMut)
        requires at <= old(self)@.len()
        ensures r@ == old(self)@.take(at as int), final(self)@ == old(self)@.skip(at as int)
    { unimplemented!() }
    // bytes::Buf::advance: drops the first cnt bytes.  Panics if cnt > remaining.
    #[verifier::external_body]
    pub fn advance(&mut self, cnt: usize)
        requires cnt <= old(self)@.len()
        ensures final(self)@ == old(self)@.skip(cnt as int)
    { unimplemented!() }
    #[verifier::external_body]
    pub fn clear(&mut self) ensures final(self)@ == Seq::<u8>::empty() { unimplemented!() }
    #[verifier::external_body]
    pub fn freeze(self) -> (b: Bytes) ensures b@ == self@ { unimplemented!() }
}
