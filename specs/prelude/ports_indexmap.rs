// indexmap::IndexMap -- REPLACEMENT for prelude/indexmap.rs (do not load both).  Identical helper
// specs/lemmas and method contracts; the difference is `Entry`: here it is the real crate's *enum*
// `indexmap::map::Entry::{Occupied, Vacant}` (turmoil matches on it in Udp::bind / Tcp::bind), modelled
// with a genuine `&'a mut IndexMap` field so that dropping an unused entry leaves the map unchanged
// (Verus resolves the borrow), plus the `keys()` stub iterator with a closure-parametric `any`.
// Every method is an ASSUMED contract on the dependency (to be checked differentially against the real crate
// by vp/stubcheck, like indexmap.rs).  Key equality is spec equality of K.
pub open spec fn im_has<K, V>(s: Seq<(K, V)>, k: K) -> bool {
    exists|i: int| 0 <= i < s.len() && (#[trigger] s[i]).0 == k
}
pub open spec fn im_idx<K, V>(s: Seq<(K, V)>, k: K) -> int {
    choose|i: int| 0 <= i < s.len() && (#[trigger] s[i]).0 == k
}
pub open spec fn im_get<K, V>(s: Seq<(K, V)>, k: K) -> V { s[im_idx(s, k)].1 }
pub open spec fn im_unique<K, V>(s: Seq<(K, V)>) -> bool {
    forall|i: int, j: int| 0 <= i < j < s.len() ==> (#[trigger] s[i]).0 != (#[trigger] s[j]).0
}
// insert-or-overwrite keeping position (IndexMap::insert / entry().or_insert semantics)
pub open spec fn im_upsert<K, V>(s: Seq<(K, V)>, k: K, v: V) -> Seq<(K, V)> {
    if im_has(s, k) { s.update(im_idx(s, k), (k, v)) } else { s.push((k, v)) }
}
pub open spec fn im_keys<K, V>(s: Seq<(K, V)>) -> Seq<K> { Seq::new(s.len(), |i: int| s[i].0) }
pub open spec fn im_values<K, V>(s: Seq<(K, V)>) -> Seq<V> { Seq::new(s.len(), |i: int| s[i].1) }

pub proof fn lemma_im_idx<K, V>(s: Seq<(K, V)>, i: int)
    requires im_unique(s), 0 <= i < s.len()
    ensures im_has(s, s[i].0), im_idx(s, s[i].0) == i
{
    let j = im_idx(s, s[i].0);
    if j < i { assert(s[j].0 != s[i].0); } else if i < j { assert(s[i].0 != s[j].0); }
}

// upsert keeps uniqueness and acts as a pointwise update of the lookup function
pub proof fn lemma_im_upsert<K, V>(s: Seq<(K, V)>, k: K, v: V)
    requires im_unique(s)
    ensures
        im_unique(im_upsert(s, k, v)),
        im_has(im_upsert(s, k, v), k) && im_get(im_upsert(s, k, v), k) == v,
        forall|k2: K| k2 != k ==> (im_has(im_upsert(s, k, v), k2) == im_has(s, k2))
            && (im_has(s, k2) ==> im_get(im_upsert(s, k, v), k2) == im_get(s, k2)),
{
    let n = im_upsert(s, k, v);
    if im_has(s, k) {
        let i = im_idx(s, k);
        assert(n[i].0 == k);
        assert forall|a: int, b: int| 0 <= a < b < n.len() implies (#[trigger] n[a]).0 != (#[trigger] n[b]).0 by {
            assert(s[a].0 != s[b].0);
        }
        lemma_im_idx(n, i);
        assert forall|k2: K| k2 != k implies (im_has(n, k2) == im_has(s, k2))
            && (im_has(s, k2) ==> im_get(n, k2) == im_get(s, k2)) by {
            if im_has(s, k2) { let j = im_idx(s, k2); assert(n[j].0 == k2); lemma_im_idx(n, j); }
            if im_has(n, k2) { let j = im_idx(n, k2); assert(s[j].0 == k2); }
        }
    } else {
        let i = s.len() as int;
        assert(n[i].0 == k);
        assert forall|a: int, b: int| 0 <= a < b < n.len() implies (#[trigger] n[a]).0 != (#[trigger] n[b]).0 by {
            if b == i { assert(s[a].0 != k); } else { assert(s[a].0 != s[b].0); }
        }
        lemma_im_idx(n, i);
        assert forall|k2: K| k2 != k implies (im_has(n, k2) == im_has(s, k2))
            && (im_has(s, k2) ==> im_get(n, k2) == im_get(s, k2)) by {
            if im_has(s, k2) { let j = im_idx(s, k2); assert(n[j].0 == k2); lemma_im_idx(n, j); }
            if im_has(n, k2) { let j = im_idx(n, k2); assert(j != i); assert(s[j].0 == k2); }
        }
    }
}

pub proof fn lemma_im_upsert_all<K, V>(s: Seq<(K, V)>, k: K)
    requires im_unique(s)
    ensures
        forall|v: V| #![trigger im_upsert(s, k, v)] im_unique(im_upsert(s, k, v))
            && im_has(im_upsert(s, k, v), k) && im_get(im_upsert(s, k, v), k) == v
            && (forall|k2: K| k2 != k ==> (im_has(im_upsert(s, k, v), k2) == im_has(s, k2))
                && (im_has(s, k2) ==> im_get(im_upsert(s, k, v), k2) == im_get(s, k2))),
{
    assert forall|v: V| #![trigger im_upsert(s, k, v)] im_unique(im_upsert(s, k, v))
            && im_has(im_upsert(s, k, v), k) && im_get(im_upsert(s, k, v), k) == v
            && (forall|k2: K| k2 != k ==> (im_has(im_upsert(s, k, v), k2) == im_has(s, k2))
                && (im_has(s, k2) ==> im_get(im_upsert(s, k, v), k2) == im_get(s, k2))) by {
        lemma_im_upsert(s, k, v);
    }
}

// ---- proved helper lemmas (not assumptions) ----
// the result of swap_remove(k) as a function of the old view (same expression as in the contract below)
pub open spec fn im_swap_removed<K, V>(s: Seq<(K, V)>, k: K) -> Seq<(K, V)> {
    let i = im_idx(s, k);
    let n = s.len();
    if i == n - 1 { s.drop_last() } else { s.update(i, s[n - 1]).drop_last() }
}
// `post` agrees with `pre` on every key other than k (presence and value)
pub open spec fn im_same_except<K, V>(pre: Seq<(K, V)>, post: Seq<(K, V)>, k: K) -> bool {
    forall|k2: K| k2 != k ==> (#[trigger] im_has(post, k2) == im_has(pre, k2)) && (im_has(pre, k2) ==> im_get(post, k2) == im_get(pre, k2))
}
pub proof fn lemma_im_swap_remove<K, V>(s: Seq<(K, V)>, k: K)
    requires im_unique(s), im_has(s, k)
    ensures
        im_unique(im_swap_removed(s, k)),
        !im_has(im_swap_removed(s, k), k),
        im_same_except(s, im_swap_removed(s, k), k),
        im_swap_removed(s, k).len() == s.len() - 1,
{
    let r = im_swap_removed(s, k);
    let i = im_idx(s, k);
    let n = s.len() as int;
    assert forall|a: int, b: int| 0 <= a < b < r.len() implies (#[trigger] r[a]).0 != (#[trigger] r[b]).0 by {
        let a2 = if a == i { n - 1 } else { a };
        let b2 = if b == i { n - 1 } else { b };
        assert(r[a] == s[a2] && r[b] == s[b2]);
        if a2 < b2 { assert(s[a2].0 != s[b2].0); } else { assert(s[b2].0 != s[a2].0); }
    }
    if im_has(r, k) {
        let j = im_idx(r, k);
        let j2 = if j == i { n - 1 } else { j };
        assert(r[j] == s[j2]);
        if j2 < i { assert(s[j2].0 != s[i].0); } else { assert(s[i].0 != s[j2].0); }
    }
    assert forall|k2: K| k2 != k implies (#[trigger] im_has(r, k2) == im_has(s, k2)) && (im_has(s, k2) ==> im_get(r, k2) == im_get(s, k2)) by {
        if im_has(s, k2) {
            let j = im_idx(s, k2);
            let j1 = if j == n - 1 { i } else { j };
            assert(r[j1] == s[j]);
            assert(r[j1].0 == k2);
            lemma_im_idx(r, j1);
        }
        if im_has(r, k2) {
            let j = im_idx(r, k2);
            let j2 = if j == i { n - 1 } else { j };
            assert(r[j] == s[j2]);
            assert(s[j2].0 == k2);
        }
    }
    assert(im_same_except(s, r, k));
}
pub proof fn lemma_im_push<K, V>(s: Seq<(K, V)>, k: K, v: V)
    requires im_unique(s), !im_has(s, k)
    ensures
        im_unique(s.push((k, v))),
        im_has(s.push((k, v)), k) && im_get(s.push((k, v)), k) == v,
        im_same_except(s, s.push((k, v)), k),
{
    lemma_im_upsert(s, k, v);
    assert(im_upsert(s, k, v) == s.push((k, v)));
    assert(im_same_except(s, s.push((k, v)), k));
}
// membership through the key sequence
pub proof fn lemma_im_keys_has<K, V>(s: Seq<(K, V)>, k: K)
    ensures
        im_keys(s).len() == s.len(),
        im_has(s, k) <==> exists|i: int| 0 <= i < im_keys(s).len() && #[trigger] im_keys(s)[i] == k,
{
    if im_has(s, k) { let i = im_idx(s, k); assert(im_keys(s)[i] == k); }
    if exists|i: int| 0 <= i < im_keys(s).len() && #[trigger] im_keys(s)[i] == k {
        let i = choose|i: int| 0 <= i < im_keys(s).len() && #[trigger] im_keys(s)[i] == k;
        assert(s[i].0 == k);
    }
}

#[verifier::external_body]
#[verifier::reject_recursive_types(K)]
#[verifier::accept_recursive_types(V)]
pub struct IndexMap<K, V> { _p: core::marker::PhantomData<(K, V)> }


// ---- indexmap::map::Entry (enum, as in the real crate) ----
// The handles carry the exclusive borrow of the map; `entry()` fixes which variant is returned.
#[verifier::reject_recursive_types(K)]
#[verifier::accept_recursive_types(V)]
pub struct OccupiedEntry<'a, K, V> { pub map: &'a mut IndexMap<K, V>, pub key: K }
#[verifier::reject_recursive_types(K)]
#[verifier::accept_recursive_types(V)]
pub struct VacantEntry<'a, K, V> { pub map: &'a mut IndexMap<K, V>, pub key: K }
#[verifier::reject_recursive_types(K)]
#[verifier::accept_recursive_types(V)]
pub enum Entry<'a, K, V> { Occupied(OccupiedEntry<'a, K, V>), Vacant(VacantEntry<'a, K, V>) }
pub mod indexmap { pub mod map { pub use super::super::{Entry, OccupiedEntry, VacantEntry}; } }
impl<K, V> View for IndexMap<K, V> {
    type V = Seq<(K, V)>;
    uninterp spec fn view(&self) -> Seq<(K, V)>;
}

// type invariant of the real data structure
pub broadcast axiom fn axiom_indexmap_unique<K, V>(m: IndexMap<K, V>)
    ensures #[trigger] im_unique(m@);

impl<K, V> IndexMap<K, V> {
    pub open spec fn has(&self, k: K) -> bool { im_has(self@, k) }
    pub open spec fn val(&self, k: K) -> V { im_get(self@, k) }

    #[verifier::external_body]
    pub fn new() -> (m: IndexMap<K, V>) ensures m@ == Seq::<(K, V)>::empty() { unimplemented!() }

    #[verifier::external_body]
    pub fn len(&self) -> (n: usize) ensures n == self@.len() { unimplemented!() }

    #[verifier::external_body]
    pub fn is_empty(&self) -> (b: bool) ensures b == (self@.len() == 0) { unimplemented!() }

    #[verifier::external_body]
    pub fn contains_key(&self, k: &K) -> (b: bool) ensures b == im_has(self@, *k) { unimplemented!() }

    #[verifier::external_body]
    pub fn insert(&mut self, k: K, v: V) -> (r: Option<V>)
        ensures
            final(self)@ == im_upsert(old(self)@, k, v),
            r == (if im_has(old(self)@, k) { Some(im_get(old(self)@, k)) } else { None::<V> }),
    { unimplemented!() }

    #[verifier::external_body]
    pub fn get(&self, k: &K) -> (r: Option<&V>)
        ensures r == (if im_has(self@, *k) { Some(&im_get(self@, *k)) } else { None::<&V> }),
    { unimplemented!() }

    #[verifier::external_body]
    pub fn get_mut(&mut self, k: &K) -> (r: Option<&mut V>)
        ensures
            match r {
                Some(v) => im_has(old(self)@, *k) && *v == im_get(old(self)@, *k)
                    && final(self)@ == old(self)@.update(im_idx(old(self)@, *k), (*k, *final(v))),
                None => !im_has(old(self)@, *k) && final(self)@ == old(self)@,
            }
    { unimplemented!() }

    #[verifier::external_body]
    pub fn get_index(&self, i: usize) -> (r: Option<(&K, &V)>)
        ensures r == (if i < self@.len() { Some((&self@[i as int].0, &self@[i as int].1)) } else { None::<(&K, &V)> }),
    { unimplemented!() }

    // swap_remove: the last element moves into the hole
    #[verifier::external_body]
    pub fn swap_remove(&mut self, k: &K) -> (r: Option<V>)
        ensures
            !im_has(old(self)@, *k) ==> r.is_none() && final(self)@ == old(self)@,
            im_has(old(self)@, *k) ==> r == Some(im_get(old(self)@, *k)) && ({
                let i = im_idx(old(self)@, *k);
                let n = old(self)@.len();
                final(self)@ == (if i == n - 1 { old(self)@.drop_last() } else { old(self)@.update(i, old(self)@[n - 1]).drop_last() })
            }),
    { unimplemented!() }

    // shift_remove: order of the rest preserved
    #[verifier::external_body]
    pub fn shift_remove(&mut self, k: &K) -> (r: Option<V>)
        ensures
            !im_has(old(self)@, *k) ==> r.is_none() && final(self)@ == old(self)@,
            im_has(old(self)@, *k) ==> r == Some(im_get(old(self)@, *k))
                && final(self)@ == old(self)@.remove(im_idx(old(self)@, *k)),
    { unimplemented!() }

    #[verifier::external_body]
    pub fn entry(&mut self, k: K) -> (e: Entry<'_, K, V>)
        ensures
            match e {
                Entry::Occupied(o) => im_has(old(self)@, k) && o.key == k && *o.map == *old(self) && *final(o.map) == *final(self),
                Entry::Vacant(v) => !im_has(old(self)@, k) && v.key == k && *v.map == *old(self) && *final(v.map) == *final(self),
            }
    { unimplemented!() }

    // keys(): insertion order (deterministic, unlike std HashMap)
    #[verifier::external_body]
    pub fn keys(&self) -> (r: Keys<'_, K, V>) ensures r@ == im_keys(self@) { unimplemented!() }
}

impl<'a, K, V> VacantEntry<'a, K, V> {
    // VacantEntry::insert appends (key, value) at the end
    #[verifier::external_body]
    pub fn insert(self, value: V) -> (r: &'a mut V)
        ensures *r == value, !im_has(old(self.map)@, self.key) ==> final(self.map)@ == old(self.map)@.push((self.key, *final(r)))
    { unimplemented!() }
}

impl<'a, K, T> Entry<'a, K, VecDeque<T>> {
    #[verifier::external_body]
    pub fn or_default(self) -> (r: &'a mut VecDeque<T>)
        ensures
            match self {
                Entry::Occupied(o) => im_has(o.map@, o.key) ==> *r == im_get(o.map@, o.key)
                    && final(o.map)@ == im_upsert(o.map@, o.key, *final(r)),
                Entry::Vacant(v) => r@ == Seq::<T>::empty() && (!im_has(v.map@, v.key) ==> final(v.map)@ == im_upsert(v.map@, v.key, *final(r))),
            }
    { unimplemented!() }
}

// ---- stub iterators (insertion order) with closure-parametric adapters ----
#[verifier::external_body]
#[verifier::reject_recursive_types(K)]
#[verifier::accept_recursive_types(V)]
pub struct Keys<'a, K, V> { _p: core::marker::PhantomData<&'a (K, V)> }
impl<'a, K, V> View for Keys<'a, K, V> { type V = Seq<K>; uninterp spec fn view(&self) -> Seq<K>; }
impl<'a, K, V> Keys<'a, K, V> {
    // Iterator::any over the keys: call-result style contract (the closure's own ensures decides)
    #[verifier::external_body]
    pub fn any<F: FnMut(&K) -> bool>(&mut self, f: F) -> (r: bool)
        requires forall|k: &K| #[trigger] f.requires((k,)),
        ensures
            r ==> exists|i: int| 0 <= i < old(self)@.len() && #[trigger] f.ensures((&old(self)@[i],), true),
            !r ==> forall|i: int| #![trigger old(self)@[i]] 0 <= i < old(self)@.len() ==> f.ensures((&old(self)@[i],), false),
    { unimplemented!() }
}

// @broadcast axiom_indexmap_unique
