// indexmap::IndexSet as an insertion-ordered sequence without duplicates, plus the IndexMap methods
// turmoil-fs uses beyond prelude/indexmap.rs.  Iteration order of both is insertion order (a function
// of the explicit state), so iteration carries NO ambient-nondeterminism precondition.
// Every method is an ASSUMED contract on the dependency.
pub open spec fn is_has<T>(s: Seq<T>, k: T) -> bool { s.contains(k) }
pub open spec fn is_unique<T>(s: Seq<T>) -> bool {
    forall|i: int, j: int| 0 <= i < j < s.len() ==> s[i] != s[j]
}
pub open spec fn is_idx<T>(s: Seq<T>, k: T) -> int { choose|i: int| 0 <= i < s.len() && s[i] == k }
pub open spec fn is_insert<T>(s: Seq<T>, k: T) -> Seq<T> { if s.contains(k) { s } else { s.push(k) } }
// swap_remove: the last element moves into the hole
pub open spec fn is_swap_remove<T>(s: Seq<T>, k: T) -> Seq<T> {
    if !s.contains(k) { s } else {
        let i = is_idx(s, k);
        if i == s.len() - 1 { s.drop_last() } else { s.update(i, s.last()).drop_last() }
    }
}

#[verifier::external_body]
#[verifier::reject_recursive_types(T)]
pub struct IndexSet<T> { _p: core::marker::PhantomData<T> }

impl<T> View for IndexSet<T> {
    type V = Seq<T>;
    uninterp spec fn view(&self) -> Seq<T>;
}
pub broadcast axiom fn axiom_indexset_unique<T>(m: IndexSet<T>)
    ensures #[trigger] is_unique(m@);

// membership after insert / swap_remove (derived facts, proved from the definitions)
pub proof fn lemma_is_insert<T>(s: Seq<T>, k: T)
    requires is_unique(s)
    ensures is_unique(is_insert(s, k)), forall|x: T| is_insert(s, k).contains(x) == (s.contains(x) || x == k),
{
    let n = is_insert(s, k);
    if !s.contains(k) {
        assert(n[s.len() as int] == k);
        assert forall|x: T| n.contains(x) == (s.contains(x) || x == k) by {
            if s.contains(x) { let i = choose|i: int| 0 <= i < s.len() && s[i] == x; assert(n[i] == x); }
            if n.contains(x) { let i = choose|i: int| 0 <= i < n.len() && n[i] == x; if i < s.len() { assert(s[i] == x); } }
        }
    }
}
pub proof fn lemma_is_swap_remove<T>(s: Seq<T>, k: T)
    requires is_unique(s)
    ensures is_unique(is_swap_remove(s, k)), forall|x: T| is_swap_remove(s, k).contains(x) == (s.contains(x) && x != k),
{
    let n = is_swap_remove(s, k);
    if s.contains(k) {
        let i = is_idx(s, k);
        let l = s.len() - 1;
        assert forall|x: T| n.contains(x) == (s.contains(x) && x != k) by {
            if s.contains(x) && x != k {
                let j = choose|j: int| 0 <= j < s.len() && s[j] == x;
                if j == l { assert(i != l); assert(n[i] == x); } else { assert(n[j] == x); }
            }
            if n.contains(x) {
                let j = choose|j: int| 0 <= j < n.len() && n[j] == x;
                if j == i && i != l { assert(s[l] == x); assert(s[i] != s[l]); } else { assert(s[j] == x); if x == k { if j < i { assert(s[j] != s[i]); } else if i < j { assert(s[i] != s[j]); } } }
            }
        }
        assert forall|a: int, b: int| 0 <= a < b < n.len() implies n[a] != n[b] by {
            if i != l {
                if a == i { assert(s[b] != s[l]); } else if b == i { assert(s[a] != s[l]); } else { assert(s[a] != s[b]); }
            } else { assert(s[a] != s[b]); }
        }
    }
}

// owning iterator of an IndexSet: yields the elements in insertion order
#[verifier::external_body]
#[verifier::reject_recursive_types(T)]
pub struct IndexSetIntoIter<T> { _p: core::marker::PhantomData<T> }
impl<T> View for IndexSetIntoIter<T> { type V = Seq<T>; uninterp spec fn view(&self) -> Seq<T>; }
impl<T> IndexSetIntoIter<T> {
    // `.collect()` into the Vec the caller's signature asks for
    #[verifier::external_body]
    pub fn collect(self) -> (v: Vec<T>) ensures v@ == self@ { unimplemented!() }
}

impl<T> IndexSet<T> {
    #[verifier::external_body]
    pub fn new() -> (m: IndexSet<T>) ensures m@ == Seq::<T>::empty() { unimplemented!() }
    #[verifier::external_body]
    pub fn len(&self) -> (n: usize) ensures n == self@.len() { unimplemented!() }
    #[verifier::external_body]
    pub fn contains(&self, k: &T) -> (b: bool) ensures b == self@.contains(*k) { unimplemented!() }
    #[verifier::external_body]
    pub fn insert(&mut self, k: T) -> (b: bool)
        ensures final(self)@ == is_insert(old(self)@, k), b == !old(self)@.contains(k)
    { unimplemented!() }
    #[verifier::external_body]
    pub fn swap_remove(&mut self, k: &T) -> (b: bool)
        ensures final(self)@ == is_swap_remove(old(self)@, *k), b == old(self)@.contains(*k)
    { unimplemented!() }
    #[verifier::external_body]
    pub fn into_iter(self) -> (it: IndexSetIntoIter<T>) ensures it@ == self@ { unimplemented!() }
}

// ---- more IndexMap methods (same type as prelude/indexmap.rs) ----
pub open spec fn im_filter_keys<K, V>(s: Seq<(K, V)>, keep: spec_fn(K) -> bool) -> Seq<(K, V)> {
    seq_filter_by(s, |kv: (K, V)| keep(kv.0))
}

pub open spec fn seq_refs<'a, T>(s: Seq<T>) -> Seq<&'a T> { Seq::new(s.len(), |i: int| &s[i]) }

impl<K, V> IndexMap<K, V> {
    // keys(): the keys in insertion order.  MODELLED as a slice iterator over the key sequence (the real
    // `indexmap::map::Keys` walks the entries Vec in order), so that Verus' `for` support applies.
    #[verifier::external_body]
    pub fn keys(&self) -> (r: core::slice::Iter<'_, K>)
        ensures r.remaining() == seq_refs(im_keys(self@)), r.obeys_prophetic_iter_laws(), r.decrease() is Some, r.will_return_none(),
    { unimplemented!() }

    // retain(f): keeps exactly the entries on which f returns true, in order.  ASSUMED in addition:
    // the closure leaves the values it is shown untouched (turmoil-fs only passes `|path, _| ...`).
    #[verifier::external_body]
    pub fn retain<F: FnMut(&K, &mut V) -> bool>(&mut self, f: F)
        requires forall|k: &K, v: &mut V| #[trigger] f.requires((k, v)),
        ensures
            forall|p: spec_fn(K) -> bool| #![trigger im_filter_keys(old(self)@, p)]
                (forall|k: K, v: &mut V| (#[trigger] f.ensures((&k, v), true) ==> p(k)) && (#[trigger] f.ensures((&k, v), false) ==> !p(k)))
                ==> final(self)@ == im_filter_keys(old(self)@, p),
    { unimplemented!() }
}
impl<'a, K, V> Entry<'a, K, V> {
    // entry(k).or_insert_with(f): existing value kept, else f() inserted at the end
    #[verifier::external_body]
    pub fn or_insert_with<F: FnOnce() -> V>(self, f: F) -> (r: &'a mut V)
        requires f.requires(()),
        ensures
            im_has(self.before(), self.key()) ==> *r == im_get(self.before(), self.key()),
            !im_has(self.before(), self.key()) ==> f.ensures((), *r),
            self.fin() == im_upsert(self.before(), self.key(), *final(r)),
    { unimplemented!() }
}
// @broadcast axiom_indexset_unique
