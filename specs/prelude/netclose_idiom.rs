// R11 idiom stubs for unit `netclose` (ASSUMED contracts on std iterator idioms Verus cannot ingest).
pub use vstd::std_specs::iter::IteratorSpec;   // remaining()/decrease() of vstd's iterator model, for loop invariants
pub trait IdiomCopiedVec<T> {
    spec fn idiom_cview(&self) -> Seq<T>;
    // `self.iter().copied().collect::<Vec<T>>()`: the elements, front to back; the collection is not changed
    fn idiom_copied_vec(&self) -> (r: Vec<T>)
        ensures r@ == self.idiom_cview();
}
impl<T: Copy> IdiomCopiedVec<T> for VecDeque<T> {
    open spec fn idiom_cview(&self) -> Seq<T> { self@ }
    #[verifier::external_body]
    fn idiom_copied_vec(&self) -> (r: Vec<T>) { unimplemented!() }
}
