// std::net address types.  IpAddr keeps its real shape (enum of V4/V6) because turmoil
// matches on it.  Ordering is std's: every V4 sorts before every V6, then numerically.
#[derive(Clone, Copy, PartialEq, Eq, PartialOrd, Ord, Debug, Hash)]
pub struct Ipv4Addr { pub bits: u32 }
#[derive(Clone, Copy, PartialEq, Eq, PartialOrd, Ord, Debug, Hash)]
pub struct Ipv6Addr { pub bits: u128 }
#[derive(Clone, Copy, PartialEq, Eq, PartialOrd, Ord, Debug, Hash)]
pub enum IpAddr { V4(Ipv4Addr), V6(Ipv6Addr) }

pub open spec fn ip_key(a: IpAddr) -> int {
    match a { IpAddr::V4(x) => x.bits as int, IpAddr::V6(x) => 0x1_0000_0000 + x.bits as int }
}
pub proof fn lemma_ip_key_inj(a: IpAddr, b: IpAddr)
    ensures ip_key(a) == ip_key(b) <==> a == b
{}
pub open spec fn int_cmp(a: int, b: int) -> Option<Ordering> {
    if a < b { Some(Ordering::Less) } else if a > b { Some(Ordering::Greater) } else { Some(Ordering::Equal) }
}
impl PartialEqSpecImpl for Ipv4Addr {
    open spec fn obeys_eq_spec() -> bool { true }
    open spec fn eq_spec(&self, other: &Ipv4Addr) -> bool { *self == *other }
}
impl PartialEqSpecImpl for Ipv6Addr {
    open spec fn obeys_eq_spec() -> bool { true }
    open spec fn eq_spec(&self, other: &Ipv6Addr) -> bool { *self == *other }
}
impl PartialEqSpecImpl for IpAddr {
    open spec fn obeys_eq_spec() -> bool { true }
    open spec fn eq_spec(&self, other: &IpAddr) -> bool { *self == *other }
}
impl PartialOrdSpecImpl for IpAddr {
    open spec fn obeys_partial_cmp_spec() -> bool { true }
    open spec fn partial_cmp_spec(&self, other: &IpAddr) -> Option<Ordering> { int_cmp(ip_key(*self), ip_key(*other)) }
}

impl Ipv4Addr {
    pub const UNSPECIFIED: Ipv4Addr = Ipv4Addr { bits: 0 };
    pub const LOCALHOST: Ipv4Addr = Ipv4Addr { bits: 0x7f00_0001 };
    pub const BROADCAST: Ipv4Addr = Ipv4Addr { bits: 0xffff_ffff };
    pub open spec fn spec_is_loopback(&self) -> bool { (self.bits >> 24) == 127 }
    pub open spec fn spec_is_unspecified(&self) -> bool { self.bits == 0 }
    pub open spec fn spec_is_broadcast(&self) -> bool { self.bits == 0xffff_ffff }
    pub open spec fn spec_is_multicast(&self) -> bool { (self.bits >> 28) == 0xe }
    #[verifier::external_body]
    pub fn is_loopback(&self) -> (b: bool) ensures b == self.spec_is_loopback() { unimplemented!() }
    pub fn is_unspecified(&self) -> (b: bool) ensures b == self.spec_is_unspecified() { self.bits == 0 }
    pub fn is_broadcast(&self) -> (b: bool) ensures b == self.spec_is_broadcast() { self.bits == 0xffff_ffff }
    #[verifier::external_body]
    pub fn is_multicast(&self) -> (b: bool) ensures b == self.spec_is_multicast() { unimplemented!() }
    #[verifier::external_body]
    pub fn new(a: u8, b: u8, c: u8, d: u8) -> (r: Ipv4Addr)
        ensures r.bits == ((a as u32) << 24) | ((b as u32) << 16) | ((c as u32) << 8) | (d as u32)
    { unimplemented!() }
}
impl Ipv6Addr {
    pub const UNSPECIFIED: Ipv6Addr = Ipv6Addr { bits: 0 };
    pub const LOCALHOST: Ipv6Addr = Ipv6Addr { bits: 1 };
    pub open spec fn spec_is_loopback(&self) -> bool { self.bits == 1 }
    pub open spec fn spec_is_unspecified(&self) -> bool { self.bits == 0 }
    pub open spec fn spec_is_multicast(&self) -> bool { (self.bits >> 120) == 0xff }
    pub fn is_loopback(&self) -> (b: bool) ensures b == self.spec_is_loopback() { self.bits == 1 }
    pub fn is_unspecified(&self) -> (b: bool) ensures b == self.spec_is_unspecified() { self.bits == 0 }
    #[verifier::external_body]
    pub fn is_multicast(&self) -> (b: bool) ensures b == self.spec_is_multicast() { unimplemented!() }
    #[verifier::external_body]
    pub fn new(a: u16, b: u16, c: u16, d: u16, e: u16, f: u16, g: u16, h: u16) -> (r: Ipv6Addr)
        ensures r.bits == ((a as u128) << 112) | ((b as u128) << 96) | ((c as u128) << 80) | ((d as u128) << 64)
            | ((e as u128) << 48) | ((f as u128) << 32) | ((g as u128) << 16) | (h as u128)
    { unimplemented!() }
}
impl IpAddr {
    pub open spec fn spec_is_loopback(&self) -> bool {
        match *self { IpAddr::V4(a) => a.spec_is_loopback(), IpAddr::V6(a) => a.spec_is_loopback() } }
    pub open spec fn spec_is_unspecified(&self) -> bool {
        match *self { IpAddr::V4(a) => a.spec_is_unspecified(), IpAddr::V6(a) => a.spec_is_unspecified() } }
    pub open spec fn spec_is_multicast(&self) -> bool {
        match *self { IpAddr::V4(a) => a.spec_is_multicast(), IpAddr::V6(a) => a.spec_is_multicast() } }
    pub open spec fn spec_is_ipv4(&self) -> bool { self is V4 }
    pub fn is_loopback(&self) -> (b: bool) ensures b == self.spec_is_loopback() {
        match self { IpAddr::V4(a) => a.is_loopback(), IpAddr::V6(a) => a.is_loopback() } }
    pub fn is_unspecified(&self) -> (b: bool) ensures b == self.spec_is_unspecified() {
        match self { IpAddr::V4(a) => a.is_unspecified(), IpAddr::V6(a) => a.is_unspecified() } }
    pub fn is_multicast(&self) -> (b: bool) ensures b == self.spec_is_multicast() {
        match self { IpAddr::V4(a) => a.is_multicast(), IpAddr::V6(a) => a.is_multicast() } }
    pub fn is_ipv4(&self) -> (b: bool) ensures b == (self is V4) { match self { IpAddr::V4(_) => true, _ => false } }
    pub fn is_ipv6(&self) -> (b: bool) ensures b == (self is V6) { match self { IpAddr::V6(_) => true, _ => false } }
}

// SocketAddr is modelled as (ip, port); flowinfo / scope id of V6 are not used by turmoil.
#[derive(Clone, Copy, PartialEq, Eq, Debug, Hash)]
pub struct SocketAddr { pub ip_: IpAddr, pub port_: u16 }
impl PartialEqSpecImpl for SocketAddr {
    open spec fn obeys_eq_spec() -> bool { true }
    open spec fn eq_spec(&self, other: &SocketAddr) -> bool { *self == *other }
}
impl SocketAddr {
    pub fn new(ip: IpAddr, port: u16) -> (r: SocketAddr) ensures r.ip_ == ip, r.port_ == port { SocketAddr { ip_: ip, port_: port } }
    pub fn ip(&self) -> (r: IpAddr) ensures r == self.ip_ { self.ip_ }
    pub fn port(&self) -> (r: u16) ensures r == self.port_ { self.port_ }
    pub fn set_ip(&mut self, ip: IpAddr) ensures final(self).ip_ == ip, final(self).port_ == old(self).port_ { self.ip_ = ip; }
    pub fn set_port(&mut self, port: u16) ensures final(self).port_ == port, final(self).ip_ == old(self).ip_ { self.port_ = port; }
    pub fn is_ipv4(&self) -> (b: bool) ensures b == (self.ip_ is V4) { self.ip_.is_ipv4() }
    pub fn is_ipv6(&self) -> (b: bool) ensures b == (self.ip_ is V6) { self.ip_.is_ipv6() }
}
