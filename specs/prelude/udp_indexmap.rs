// More of indexmap::IndexMap (same model as indexmap.rs: insertion-ordered association list, unique keys)
// plus indexmap::IndexSet.  ASSUMED contracts on the `indexmap` crate.

// ---- keys().any(..) ----
#[verifier::external_body]
#[verifier::reject_recursive_types(K)]
#[verifier::accept_recursive_types(V)]
pub struct Keys<'a, K, V> { _p: core::marker::PhantomData<&'a (K, V)> }
impl<'a, K, V> View for Keys<'a, K, V> { type V = Seq<K>; uninterp spec fn view(&self) -> Seq<K>; }
impl<'a, K, V> Keys<'a, K, V> {
    // Iterator::any: result is the disjunction of the closure over the remaining keys
    #[verifier::external_body]
    pub fn any<F: FnMut(&K) -> bool>(&mut self, f: F) -> (r: bool)
        requires forall|k: &K| #[trigger] f.requires((k,)),
        ensures
            r ==> exists|i: int| 0 <= i < old(self)@.len() && #[trigger] f.ensures((&old(self)@[i],), true),
            !r ==> forall|i: int| #![trigger old(self)@[i]] 0 <= i < old(self)@.len() ==> f.ensures((&old(self)@[i],), false),
    { unimplemented!() }
}

// ---- entry API in its real shape: enum of Occupied / Vacant handles that borrow the map ----
// The handles are transparent structs around the `&mut IndexMap`; Verus' own reference resolution then gives
// "an entry dropped without use leaves the map unchanged".
#[verifier::reject_recursive_types(K)]
#[verifier::accept_recursive_types(V)]
pub struct OccupiedEntry<'a, K, V> { pub map: &'a mut IndexMap<K, V>, pub key: K }
#[verifier::reject_recursive_types(K)]
#[verifier::accept_recursive_types(V)]
pub struct VacantEntry<'a, K, V> { pub map: &'a mut IndexMap<K, V>, pub key: K }
#[verifier::reject_recursive_types(K)]
#[verifier::accept_recursive_types(V)]
pub enum MapEntry<'a, K, V> { Occupied(OccupiedEntry<'a, K, V>), Vacant(VacantEntry<'a, K, V>) }

impl<K, V> IndexMap<K, V> {
    #[verifier::external_body]
    pub fn keys(&self) -> (r: Keys<'_, K, V>) ensures r@ == im_keys(self@) { unimplemented!() }

    // IndexMap::entry (enum form; the unit renames `.entry(` to `.entry_e(`)
    #[verifier::external_body]
    pub fn entry_e(&mut self, k: K) -> (e: MapEntry<'_, K, V>)
        ensures
            match e {
                MapEntry::Occupied(o) => im_has(old(self)@, k) && *o.map == *old(self) && o.key == k && *final(o.map) == *final(self),
                MapEntry::Vacant(v) => !im_has(old(self)@, k) && *v.map == *old(self) && v.key == k && *final(v.map) == *final(self),
            }
    { unimplemented!() }

    #[verifier::external_body]
    pub fn get_index_mut(&mut self, i: usize) -> (r: Option<(&K, &mut V)>)
        ensures
            match r {
                Some(kv) => i < old(self)@.len() && *kv.0 == old(self)@[i as int].0 && *kv.1 == old(self)@[i as int].1
                    && final(self)@ == old(self)@.update(i as int, (old(self)@[i as int].0, *final(kv.1))),
                None => i >= old(self)@.len() && final(self)@ == old(self)@,
            }
    { unimplemented!() }

    // swap_remove_index: the last element moves into the hole
    #[verifier::external_body]
    pub fn swap_remove_index(&mut self, i: usize) -> (r: Option<(K, V)>)
        ensures
            i >= old(self)@.len() ==> r.is_none() && final(self)@ == old(self)@,
            i < old(self)@.len() ==> r == Some(old(self)@[i as int]) && ({
                let n = old(self)@.len();
                final(self)@ == (if i == n - 1 { old(self)@.drop_last() } else { old(self)@.update(i as int, old(self)@[n - 1]).drop_last() })
            }),
    { unimplemented!() }
}

impl<'a, K, V> VacantEntry<'a, K, V> {
    // appends (key, value); returns the slot
    #[verifier::external_body]
    pub fn insert(self, value: V) -> (r: &'a mut V)
        ensures *r == value, final(self.map)@ == old(self.map)@.push((self.key, *final(r))),
    { unimplemented!() }
}

impl<'a, K, V> MapEntry<'a, K, V> {
    pub open spec fn key(self) -> K { match self { MapEntry::Occupied(o) => o.key, MapEntry::Vacant(v) => v.key } }
    // the map as borrowed by the entry now / as it will be when the borrow ends
    pub open spec fn cur(self) -> Seq<(K, V)> { match self { MapEntry::Occupied(o) => o.map@, MapEntry::Vacant(v) => v.map@ } }
    #[verifier::prophetic]
    pub open spec fn fut(self) -> IndexMap<K, V> { match self { MapEntry::Occupied(o) => *final(o.map), MapEntry::Vacant(v) => *final(v.map) } }

    // and_modify: runs f on the value of an occupied entry, no-op on a vacant one; returns the entry
    #[verifier::external_body]
    pub fn and_modify<F: FnOnce(&mut V)>(self, f: F) -> (r: MapEntry<'a, K, V>)
        requires self is Occupied ==> forall|v: &mut V| #[trigger] f.requires((v,)),
        ensures
            r.key() == self.key(), r.fut() == self.fut(), (r is Occupied) == (self is Occupied),
            self is Vacant ==> r.cur() == self.cur(),
            self is Occupied ==> (exists|v: &mut V| *v == im_get(self.cur(), self.key()) && #[trigger] f.ensures((v,), ())
                            && r.cur() == self.cur().update(im_idx(self.cur(), self.key()), (self.key(), *final(v)))),
    { unimplemented!() }

    // index of the entry: position of the key if occupied, else the position it would be inserted at (= len)
    #[verifier::external_body]
    pub fn index(&self) -> (i: usize)
        ensures i == (if *self is Occupied { im_idx(self.cur(), self.key()) } else { self.cur().len() as int }),
    { unimplemented!() }

    #[verifier::external_body]
    pub fn or_insert_with<F: FnOnce() -> V>(self, f: F) -> (r: &'a mut V)
        requires self is Vacant ==> f.requires(()),
        ensures
            self is Occupied ==> *r == im_get(self.cur(), self.key())
                    && self.fut()@ == self.cur().update(im_idx(self.cur(), self.key()), (self.key(), *final(r))),
            self is Vacant ==> f.ensures((), *r) && self.fut()@ == self.cur().push((self.key(), *final(r))),
    { unimplemented!() }
}

// Display of a socket address (text not modelled)
impl SocketAddr {
    #[verifier::external_body]
    pub fn to_string(&self) -> (s: String) { unimplemented!() }
}

impl<K, V> Default for IndexMap<K, V> {
    #[verifier::external_body]
    fn default() -> (m: IndexMap<K, V>) ensures m@ == Seq::<(K, V)>::empty() { unimplemented!() }
}

// ---- indexmap::IndexSet: insertion-ordered sequence without duplicates ----
#[verifier::external_body]
#[verifier::reject_recursive_types(T)]
pub struct IndexSet<T> { _p: core::marker::PhantomData<T> }
impl<T> View for IndexSet<T> { type V = Seq<T>; uninterp spec fn view(&self) -> Seq<T>; }
// type invariant of the real data structure
pub broadcast axiom fn axiom_indexset_unique<T>(s: IndexSet<T>)
    ensures #[trigger] s@.no_duplicates();
pub open spec fn is_swap_removed<T>(s: Seq<T>, i: int) -> Seq<T> {
    if i == s.len() - 1 { s.drop_last() } else { s.update(i, s[s.len() - 1]).drop_last() }
}
impl<T> IndexSet<T> {
    #[verifier::external_body]
    pub fn new() -> (s: IndexSet<T>) ensures s@ == Seq::<T>::empty() { unimplemented!() }
    // From<[T; N]>: elements in order, later duplicates skipped (only the one-element case is pinned exactly)
    #[verifier::external_body]
    pub fn from<const N: usize>(a: [T; N]) -> (s: IndexSet<T>)
        ensures
            forall|x: T| s@.contains(x) <==> a@.contains(x),
            N == 1 ==> s@ == seq![a@[0]],
    { unimplemented!() }
    #[verifier::external_body]
    pub fn len(&self) -> (n: usize) ensures n == self@.len() { unimplemented!() }
    #[verifier::external_body]
    pub fn is_empty(&self) -> (b: bool) ensures b == (self@.len() == 0) { unimplemented!() }
    #[verifier::external_body]
    pub fn contains(&self, x: &T) -> (b: bool) ensures b == self@.contains(*x) { unimplemented!() }
    #[verifier::external_body]
    pub fn get(&self, x: &T) -> (r: Option<&T>)
        ensures r == (if self@.contains(*x) { Some(x) } else { None::<&T> }),
    { unimplemented!() }
    // appends if absent; returns whether it was inserted
    #[verifier::external_body]
    pub fn insert(&mut self, x: T) -> (b: bool)
        ensures
            b == !old(self)@.contains(x),
            final(self)@ == (if old(self)@.contains(x) { old(self)@ } else { old(self)@.push(x) }),
    { unimplemented!() }
    // removes by swapping the last element into the hole; returns whether it was present
    #[verifier::external_body]
    pub fn swap_remove(&mut self, x: &T) -> (b: bool)
        ensures
            b == old(self)@.contains(*x),
            final(self)@ == (if old(self)@.contains(*x) { is_swap_removed(old(self)@, old(self)@.index_of(*x)) } else { old(self)@ }),
    { unimplemented!() }
}
impl<T> Clone for IndexSet<T> {
    #[verifier::external_body]
    fn clone(&self) -> (r: IndexSet<T>) ensures r@ == self@ { unimplemented!() }
}
impl<T> Default for IndexSet<T> {
    #[verifier::external_body]
    fn default() -> (r: IndexSet<T>) ensures r@ == Seq::<T>::empty() { unimplemented!() }
}
// @broadcast axiom_indexset_unique

// ---- iterator chains over IndexMap::iter() (closure-parametric ASSUMED contracts on std iterator adaptors) ----
// `m.iter()`: the entries in insertion order (view: the entries by value)
#[verifier::external_body]
#[verifier::reject_recursive_types(K)]
#[verifier::reject_recursive_types(V)]
pub struct MapIter<'a, K, V> { _p: core::marker::PhantomData<&'a (K, V)> }
impl<'a, K, V> View for MapIter<'a, K, V> { type V = Seq<(K, V)>; uninterp spec fn view(&self) -> Seq<(K, V)>; }
// generic stub iterator (result of `.map(..)`): the remaining items in order
#[verifier::external_body]
#[verifier::reject_recursive_types(T)]
pub struct SIter<T> { _p: core::marker::PhantomData<T> }
impl<T> View for SIter<T> { type V = Seq<T>; uninterp spec fn view(&self) -> Seq<T>; }
// target of `.collect::<C>()`
pub trait SCollect<T>: Sized {
    spec fn sc_items(&self) -> Seq<T>;
}
impl<T> SCollect<T> for Vec<T> {
    open spec fn sc_items(&self) -> Seq<T> { self@ }
}

impl<K, V> IndexMap<K, V> {
    #[verifier::external_body]
    pub fn iter(&self) -> (r: MapIter<'_, K, V>) ensures r@ == self@ { unimplemented!() }

    // retain(f): keeps exactly the entries on which f returns true, in order.  Pinned only for closures whose
    // contract says they leave the value untouched and decide by a predicate on (key, value).
    #[verifier::external_body]
    pub fn retain<F: FnMut(&K, &mut V) -> bool>(&mut self, f: F)
        requires forall|k: &K, v: &mut V| #[trigger] f.requires((k, v)),
        ensures
            forall|p: spec_fn((K, V)) -> bool| #![trigger seq_filter_by(old(self)@, p)]
                (forall|k: K, v: &mut V, b: bool| #[trigger] f.ensures((&k, v), b) ==> b == p((k, *v)) && *final(v) == *v)
                ==> final(self)@ == seq_filter_by(old(self)@, p),
    { unimplemented!() }
}
impl<'a, K, V> MapIter<'a, K, V> {
    // Iterator::filter: the items on which the predicate holds, order kept
    #[verifier::external_body]
    pub fn filter<F: FnMut(&(&'a K, &'a V)) -> bool>(self, f: F) -> (r: MapIter<'a, K, V>)
        requires forall|x: &(&'a K, &'a V)| #[trigger] f.requires((x,)),
        ensures
            forall|p: spec_fn((K, V)) -> bool| #![trigger seq_filter_by(self@, p)]
                (forall|k: K, v: V, b: bool| #[trigger] f.ensures((&(&k, &v),), b) ==> b == p((k, v)))
                ==> r@ == seq_filter_by(self@, p),
    { unimplemented!() }
    // Iterator::map: one result per item, in order, each related to its item by the closure's contract
    #[verifier::external_body]
    pub fn map<U, G: FnMut((&'a K, &'a V)) -> U>(self, g: G) -> (r: SIter<U>)
        requires forall|x: (&'a K, &'a V)| #[trigger] g.requires((x,)),
        ensures
            r@.len() == self@.len(),
            forall|i: int| 0 <= i < self@.len() ==> g.ensures(((&self@[i].0, &self@[i].1),), #[trigger] r@[i]),
    { unimplemented!() }
}
impl<T> SIter<T> {
    // Iterator::collect into a Vec: all items, in order
    #[verifier::external_body]
    pub fn collect<C: SCollect<T>>(self) -> (r: C) ensures r.sc_items() == self@ { unimplemented!() }
}
impl<T> IndexSet<T> {
    // IntoIterator for IndexSet: yields the elements in insertion order.  MODELLED as the Vec of the elements
    // (only ever used in `for` position), so that Verus' `for` support applies.
    #[verifier::external_body]
    pub fn into_iter(self) -> (r: Vec<T>) ensures r@ == self@ { unimplemented!() }
}
// R11 idiom: the match arm `SocketAddr::V4(dst) if dst.ip().is_broadcast()` (this prelude models SocketAddr as
// (ip, port), not as the enum of SocketAddrV4/V6): the address is an IPv4 address and it is 255.255.255.255
impl SocketAddr {
    pub open spec fn spec_is_v4_broadcast(&self) -> bool {
        match self.ip_ { IpAddr::V4(a) => a.spec_is_broadcast(), IpAddr::V6(_) => false }
    }
    pub fn idiom_is_v4_broadcast(&self) -> (b: bool) ensures b == self.spec_is_v4_broadcast() {
        match self.ip_ { IpAddr::V4(a) => a.is_broadcast(), IpAddr::V6(_) => false }
    }
}
