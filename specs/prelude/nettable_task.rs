// std::task::{Poll, Context} and the Waker operations the kernel syscalls use (the opaque `Waker` type itself is in
// nettable_ext.rs).  Which task a waker wakes is the uninterpreted `id()`.  ASSUMED contracts.
#[verifier::external_type_specification]
pub struct ExPoll<T>(core::task::Poll<T>);
pub use core::task::Poll;

impl Waker {
    pub uninterp spec fn id(&self) -> int;
    // will_wake: modelled as exact ("same task"); real std may answer false for two wakers of one task, which only
    // affects dedup of the waker lists
    #[verifier::external_body]
    pub fn will_wake(&self, other: &Waker) -> (b: bool) ensures b == (self.id() == other.id()) { unimplemented!() }
    #[verifier::external_body]
    pub fn wake(self) { unimplemented!() }
}
impl Clone for Waker {
    #[verifier::external_body]
    fn clone(&self) -> (r: Waker) ensures r.id() == self.id() { unimplemented!() }
}
#[verifier::external_body]
pub struct Context<'a> { _p: core::marker::PhantomData<&'a u8> }
impl<'a> Context<'a> {
    pub uninterp spec fn waker_id(&self) -> int;
    #[verifier::external_body]
    pub fn waker(&self) -> (w: &Waker) ensures w.id() == self.waker_id() { unimplemented!() }
}

// tokio::io::ReadBuf: only the bytes written so far (`filled`) and the space left are modelled
#[verifier::external_body]
pub struct ReadBuf<'a> { _p: core::marker::PhantomData<&'a mut u8> }
impl<'a> ReadBuf<'a> {
    pub uninterp spec fn filled_view(&self) -> Seq<u8>;
    pub uninterp spec fn room(&self) -> nat;
    #[verifier::external_body]
    pub fn remaining(&self) -> (n: usize) ensures n == self.room() { unimplemented!() }
    // put_slice panics if the slice is longer than the remaining space
    #[verifier::external_body]
    pub fn put_slice(&mut self, data: &[u8])
        requires data@.len() <= old(self).room(),
        ensures final(self).filled_view() == old(self).filled_view() + data@, final(self).room() == old(self).room() - data@.len(),
    { unimplemented!() }
}
// `&payload[..n]` on a Bytes (Index<RangeTo<usize>>, panics if n > len): R11 idiom stub
impl Bytes {
    #[verifier::external_body]
    pub fn idiom_prefix(&self, n: usize) -> (r: &[u8])
        requires n <= self@.len(),
        ensures r@ == self@.take(n as int),
    { unimplemented!() }
}
// `v.iter().any(f)` on a Vec (R11 idiom stub, ASSUMED; call-result style like Keys::any in nettable_ext.rs)
pub trait IdiomVecIterAny<T> {
    spec fn idiom_any_seq(&self) -> Seq<T>;
    fn idiom_iter_any<F: FnMut(&T) -> bool>(&self, f: F) -> (r: bool)
        requires forall|x: &T| #[trigger] f.requires((x,)),
        ensures
            r ==> exists|i: int| 0 <= i < self.idiom_any_seq().len() && #[trigger] f.ensures((&self.idiom_any_seq()[i],), true),
            !r ==> forall|i: int| #![trigger self.idiom_any_seq()[i]] 0 <= i < self.idiom_any_seq().len() ==> f.ensures((&self.idiom_any_seq()[i],), false);
}
impl<T> IdiomVecIterAny<T> for Vec<T> {
    open spec fn idiom_any_seq(&self) -> Seq<T> { self@ }
    #[verifier::external_body]
    fn idiom_iter_any<F: FnMut(&T) -> bool>(&self, f: F) -> (r: bool) { unimplemented!() }
}
pub assume_specification<T, A: core::alloc::Allocator> [VecDeque::<T, A>::front] (v: &VecDeque<T, A>) -> (r: Option<&T>)
    ensures r == (if v@.len() > 0 { Some(&v@[0]) } else { None::<&T> });
impl<'a> ReadBuf<'a> {
    // ReadBuf::new(buf): nothing filled, the whole slice is room
    #[verifier::external_body]
    pub fn new(buf: &'a mut [u8]) -> (r: ReadBuf<'a>) ensures r.filled_view().len() == 0, r.room() == old(buf)@.len() { unimplemented!() }
    #[verifier::external_body]
    pub fn filled(&self) -> (r: &[u8]) ensures r@ == self.filled_view() { unimplemented!() }
}
// `opt.map(Vec::as_slice).unwrap_or_default()` on an Option<&Vec<T>> (R11 idiom stub): the vector as a slice, or the empty slice
pub trait IdiomSliceOrEmpty<'a, T> {
    spec fn idiom_soe_seq(&self) -> Seq<T>;
    fn idiom_slice_or_empty(self) -> (r: &'a [T]) ensures r@ == self.idiom_soe_seq();
}
impl<'a, T> IdiomSliceOrEmpty<'a, T> for Option<&'a Vec<T>> {
    open spec fn idiom_soe_seq(&self) -> Seq<T> { match *self { Some(v) => v@, None => Seq::empty() } }
    #[verifier::external_body]
    fn idiom_slice_or_empty(self) -> (r: &'a [T]) { unimplemented!() }
}
impl BytesMut {
    #[verifier::external_body]
    pub fn len(&self) -> (n: usize) ensures n == self@.len() { unimplemented!() }
}
// total payload bytes of a datagram queue
pub open spec fn queue_bytes<A>(q: Seq<(A, Bytes)>) -> nat decreases q.len() {
    if q.len() == 0 { 0 } else { queue_bytes(q.drop_last()) + q.last().1@.len() }
}
// `q.iter().map(|(_, b)| b.len()).sum()` (R11 idiom stub).  `Sum for usize` overflows (panics in debug builds) above usize::MAX.
pub trait IdiomSumLens<A> {
    spec fn idiom_sl_seq(&self) -> Seq<(A, Bytes)>;
    fn idiom_sum_lens(&self) -> (r: usize)
        requires queue_bytes(self.idiom_sl_seq()) <= usize::MAX,
        ensures r == queue_bytes(self.idiom_sl_seq());
}
impl<A> IdiomSumLens<A> for VecDeque<(A, Bytes)> {
    open spec fn idiom_sl_seq(&self) -> Seq<(A, Bytes)> { self@ }
    #[verifier::external_body]
    fn idiom_sum_lens(&self) -> (r: usize) { unimplemented!() }
}
