// Pieces used by the corruption-hook plumbing of crates/turmoil-fs/src/lib.rs (enter / FsEnterGuard / fire_corruption).
// Every item is an ASSUMED contract.
// @feature fn_traits

// ---- std::cell::Cell, as an explicit state ----
// The thread-local `CURRENT_CORRUPTION: Cell<CorruptionPtr>` is passed to the lifted closures as `&mut Cell<..>`
// (R5/R16): a Cell is then just a value with get/set/replace/take.
pub struct Cell<T> { pub v: T }
impl<T: Copy> Cell<T> {
    pub fn get(&self) -> (r: T) ensures r == self.v { self.v }
}
impl<T> Cell<T> {
    pub fn set(&mut self, v: T) ensures final(self).v == v { self.v = v; }
    #[verifier::external_body]
    pub fn replace(&mut self, v: T) -> (r: T) ensures r == old(self).v, final(self).v == v { unimplemented!() }
}
impl<T> Cell<Option<T>> {
    // Cell::take for the Default of Option (None)
    #[verifier::external_body]
    pub fn take(&mut self) -> (r: Option<T>) ensures r == old(self).v, final(self).v is None { unimplemented!() }
}

// ---- the hook: `dyn Fn(&FsCorruption)` erased to an opaque callable (R21) ----
// Calling a hook is the only thing that can be done with it; every call is recorded in an explicit call log
// (`calls: &mut HookCalls`, R13) as (identity of the hook, event value).
// ASSUMED (hook_wf): a hook can be called on every event and the call is recorded exactly once.
#[verifier::external_body]
pub struct HookFn { _p: () }
pub uninterp spec fn hook_id(f: HookFn) -> int;

// ---- other thread-locals of turmoil-fs touched by enter / the guard (not part of the hook plumbing) ----
#[verifier::external_body]
#[verifier::reject_recursive_types(T)]
pub struct Arc<T> { _p: core::marker::PhantomData<T> }
#[verifier::external_body]
#[verifier::reject_recursive_types(T)]
pub struct Mutex<T> { _p: core::marker::PhantomData<T> }
#[verifier::external_body]
pub struct Fs { _p: () }
