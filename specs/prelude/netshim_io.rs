// tokio::io::ReadBuf<'a> for the turmoil-net shim, over a fully initialised slice (what `ReadBuf::new(&mut [u8])` gives): the
// borrowed slice plus the length of its filled prefix.  View = filled prefix ++ rest (the unfilled capacity).  The struct is
// transparent so that Verus ties the caller's slice to the buffer's final content (the inner `&mut` resolves when the ReadBuf
// dies); the methods are ASSUMED contracts on tokio.  `same_slice`: an operation never re-points the buffer to another slice.
pub ghost struct RbState { pub filled: Seq<u8>, pub rest: Seq<u8> }
pub struct ReadBuf<'a> { pub buf: &'a mut [u8], pub nfilled: usize }
impl<'a> View for ReadBuf<'a> {
    type V = RbState;
    open spec fn view(&self) -> RbState { RbState { filled: self.buf@.take(self.nfilled as int), rest: self.buf@.skip(self.nfilled as int) } }
}
#[verifier::prophetic]
pub open spec fn rb_same_slice(pre: ReadBuf<'_>, post: ReadBuf<'_>) -> bool {
    final(post.buf)@ == final(pre.buf)@ && post.buf@.len() == pre.buf@.len() && post.nfilled <= post.buf@.len()
}
impl<'a> ReadBuf<'a> {
    pub open spec fn wf(&self) -> bool { self.nfilled <= self.buf@.len() }
    // wraps a fully initialised slice: nothing filled yet; whatever ends up in the buffer ends up in the caller's slice
    pub fn new(buf: &'a mut [u8]) -> (r: ReadBuf<'a>)
        ensures r@.filled.len() == 0, r@.rest == old(buf)@, r.nfilled == 0, r.buf@ == old(buf)@, final(r.buf)@ == final(buf)@,
    { ReadBuf { buf, nfilled: 0 } }
    // the whole unfilled capacity as a mutable slice; what the caller writes there is the new `rest`
    #[verifier::external_body]
    pub fn initialize_unfilled(&mut self) -> (r: &mut [u8])
        ensures r@ == old(self)@.rest, final(r)@.len() == r@.len(), r@.len() <= usize::MAX,   // (a slice's length fits usize)
            final(self)@ == (RbState { filled: old(self)@.filled, rest: final(r)@ }), rb_same_slice(*old(self), *final(self)),
    { unimplemented!() }
    // moves the first n bytes of the unfilled part into the filled part.  Panics if n exceeds the initialised part.
    #[verifier::external_body]
    pub fn advance(&mut self, n: usize)
        requires n <= old(self)@.rest.len(),
        ensures final(self)@ == (RbState { filled: old(self)@.filled + old(self)@.rest.take(n as int), rest: old(self)@.rest.skip(n as int) }),
            rb_same_slice(*old(self), *final(self)),
    { unimplemented!() }
    #[verifier::external_body]
    pub fn filled(&self) -> (r: &[u8]) ensures r@ == self@.filled { unimplemented!() }
    #[verifier::external_body]
    pub fn remaining(&self) -> (n: usize) ensures n == self@.rest.len() { unimplemented!() }
}

// sequence facts the ReadBuf bookkeeping needs, as broadcast lemmas so that the shim read paths carry NO text-anchored hints
// (a rewritten body is then verified as it stands instead of degrading to UNDECIDED)
pub broadcast proof fn lemma_rb_skip_all<T>(f: Seq<T>, s: Seq<T>)
    ensures #[trigger] (f.skip(f.len() as int) + s) == s
{ assert(f.skip(f.len() as int) + s =~= s); }
pub broadcast proof fn lemma_rb_add_skip<T>(a: Seq<T>, b: Seq<T>)
    ensures #[trigger] (a + b).skip(a.len() as int) == b
{ assert((a + b).skip(a.len() as int) =~= b); }
pub broadcast proof fn lemma_rb_take_skip<T>(s: Seq<T>, n: int)
    requires 0 <= n <= s.len()
    ensures #[trigger] (s.take(n) + s.skip(n)) == s
{ assert(s.take(n) + s.skip(n) =~= s); }
pub broadcast proof fn lemma_rb_add_take<T>(a: Seq<T>, b: Seq<T>, n: int)
    requires 0 <= n <= a.len()
    ensures #[trigger] (a.take(n) + b).take(n) == a.take(n)
{ assert((a.take(n) + b).take(n) =~= a.take(n)); }
// @broadcast lemma_rb_skip_all, lemma_rb_add_skip, lemma_rb_take_skip, lemma_rb_add_take

// std::task::Waker::noop / Context::from_waker (used by the try_* paths: a poll that must not park anybody)
impl Waker {
    pub uninterp spec fn noop_id() -> int;
    #[verifier::external_body]
    pub fn noop() -> (w: &'static Waker) ensures w.id() == Waker::noop_id() { unimplemented!() }
}
impl<'a> Context<'a> {
    #[verifier::external_body]
    pub fn from_waker(w: &'a Waker) -> (c: Context<'a>) ensures c.waker_id() == w.id() { unimplemented!() }
}

// `ErrorKind.into()` for io::Error (std: impl From<ErrorKind> for Error)
impl core::convert::From<ErrorKind> for Error {
    #[verifier::external_body]
    fn from(kind: ErrorKind) -> (e: Error) ensures e.kind_ == kind, e.os_.is_none() { unimplemented!() }
}

// std::sync::Arc: the real type (vstd models Arc<T> by its content; `clone` yields an equal Arc)
pub use std::sync::Arc;
