// std::task::{Context::waker, Waker: Clone}, From<ErrorKind> for io::Error, Arc::ptr_eq.  ASSUMED contracts.
impl<'a> Context<'a> {
    #[verifier::external_body]
    pub fn waker(&self) -> &Waker { unimplemented!() }
}
impl Clone for Waker {
    #[verifier::external_body]
    fn clone(&self) -> Waker { unimplemented!() }
}
// `kind.into()`: io::Error::from(ErrorKind) keeps the kind
impl From<ErrorKind> for Error {
    #[verifier::external_body]
    fn from(kind: ErrorKind) -> (e: Error) ensures e.kind_ == kind, e.os_.is_none() { unimplemented!() }
}
// Arc::ptr_eq: same allocation.  `arc_same` is uninterpreted; the only fact offered is that one allocation holds one value.
pub uninterp spec fn arc_same<T: ?Sized, A: core::alloc::Allocator>(a: Arc<T, A>, b: Arc<T, A>) -> bool;
pub broadcast axiom fn axiom_arc_same<T: ?Sized, A: core::alloc::Allocator>(a: Arc<T, A>, b: Arc<T, A>)
    ensures #[trigger] arc_same(a, b) ==> a == b;
pub assume_specification<T: ?Sized, A: core::alloc::Allocator> [Arc::<T, A>::ptr_eq] (a: &Arc<T, A>, b: &Arc<T, A>) -> (r: bool)
    ensures r == arc_same(*a, *b);
// @broadcast axiom_arc_same
// `format!(..)` used only as the text of an io::Error: the message carries no simulation state
#[verifier::external_body]
pub fn idiom_fmt_msg() -> (s: String) { unimplemented!() }
