// Display for the SocketAddr stub: only used inside panic / assert messages, which carry no state.
impl core::fmt::Display for SocketAddr {
    #[verifier::external_body]
    fn fmt(&self, f: &mut core::fmt::Formatter<'_>) -> core::fmt::Result { unimplemented!() }
}
