// tokio::sync pieces used by unit `ports`.  Channel contents are not modelled in this unit
// (message flow belongs to the tcp/udp units); only the documented panic of `channel(0)` is.
pub mod mpsc {
    use vstd::prelude::*;
    #[verifier::external_body]
    #[verifier::accept_recursive_types(T)]
    pub struct Sender<T> { _p: core::marker::PhantomData<T> }
    #[verifier::external_body]
    #[verifier::accept_recursive_types(T)]
    pub struct Receiver<T> { _p: core::marker::PhantomData<T> }
    // tokio::sync::mpsc::channel panics if the buffer capacity is 0 or above Semaphore::MAX_PERMITS (usize::MAX >> 3)
    // (the upper bound was missing; found by stubcheck)
    #[verifier::external_body]
    pub fn channel<T>(buffer: usize) -> (r: (Sender<T>, Receiver<T>))
        requires 0 < buffer <= (usize::MAX >> 3)
    { unimplemented!() }
}
#[verifier::external_body]
pub struct Notify { _p: () }
impl Notify {
    #[verifier::external_body]
    pub fn new() -> Notify { unimplemented!() }
}
