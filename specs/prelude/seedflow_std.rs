// std / indexmap pieces for unit `seedflow`.  Every item is an ASSUMED contract.

// ---- a keyed table seen through its ITERATION ORDER ------------------------------------------------------------
// World::hosts is an insertion-ordered IndexMap.  The contracts of World::new / World::register / Sim::client speak
// about the table through this trait, so that the unit still type-checks should the field become a std HashMap (whose
// iteration order is a per-process accident: the spec functions are then uninterpreted and `keys()` carries the
// ambient-nondeterminism precondition of prelude/fs_stdhash.rs).
pub trait KeyedTable<K, V> {
    spec fn has_key(&self, k: K) -> bool;
    spec fn entry_seq(&self) -> Seq<(K, V)>;     // entries in iteration order
    spec fn key_seq(&self) -> Seq<K>;            // keys in iteration order
}
impl<K, V> KeyedTable<K, V> for IndexMap<K, V> {
    open spec fn has_key(&self, k: K) -> bool { im_has(self@, k) }
    open spec fn entry_seq(&self) -> Seq<(K, V)> { self@ }
    open spec fn key_seq(&self) -> Seq<K> { im_keys(self@) }
}
impl<K, V> KeyedTable<K, V> for HashMap<K, V> {
    open spec fn has_key(&self, k: K) -> bool { self@.dom().contains(k) }
    uninterp spec fn entry_seq(&self) -> Seq<(K, V)>;
    uninterp spec fn key_seq(&self) -> Seq<K>;
}
// the iteration handle of a std hash collection (prelude/fs_stdhash.rs) as a Rust iterator, so that `for x in m.keys()`
// type-checks; what it yields is its (unspecified) enumeration `self@`
impl<T> Iterator for StdHashIter<T> {
    type Item = T;
    #[verifier::external_body]
    fn next(&mut self) -> Option<T> { unimplemented!() }
}
impl<T> vstd::std_specs::iter::IteratorSpecImpl for StdHashIter<T> {
    open spec fn obeys_prophetic_iter_laws(&self) -> bool { true }
    open spec fn remaining(&self) -> Seq<T> { self@ }
    open spec fn will_return_none(&self) -> bool { true }
    open spec fn decrease(&self) -> Option<nat> { Some(self@.len()) }
    open spec fn peek(&self, i: int) -> Option<T> { if 0 <= i < self@.len() { Some(self@[i]) } else { None } }
}

// ---- std::sync::Mutex::new (the struct is in clock_world.rs) ----------------------------------------------------------
impl<T> Mutex<T> {
    pub uninterp spec fn inner(&self) -> T;      // the protected value (single-threaded simulation: no concurrent writer)
    #[verifier::external_body]
    pub fn new(t: T) -> (m: Mutex<T>) ensures m.inner() == t { unimplemented!() }
}

// ---- RangeInclusive accessors (std docs: plain field read / field-wise clone) ----------------------------------------
pub assume_specification<Idx> [RangeInclusive::<Idx>::start] (r: &RangeInclusive<Idx>) -> (o: &Idx)
    ensures *o == r@.start;
pub assume_specification<Idx: Clone> [<RangeInclusive<Idx> as Clone>::clone] (r: &RangeInclusive<Idx>) -> (c: RangeInclusive<Idx>)
    ensures c@ == r@;

// ---- std::time::SystemTime::duration_since / UNIX_EPOCH ----------------------------------------------------------------
pub struct SystemTimeError {}
impl core::fmt::Debug for SystemTimeError { #[verifier::external_body] fn fmt(&self, f: &mut core::fmt::Formatter<'_>) -> core::fmt::Result { unimplemented!() } }
pub uninterp spec fn unix_epoch() -> SystemTime;
#[verifier::external_body]
pub exec const UNIX_EPOCH: SystemTime ensures UNIX_EPOCH == unix_epoch() { SystemTime { _p: () } }
impl SystemTime {
    pub uninterp spec fn not_before(&self, earlier: SystemTime) -> bool;
    pub uninterp spec fn since(&self, earlier: SystemTime) -> Duration;
    #[verifier::external_body]
    pub fn duration_since(&self, earlier: SystemTime) -> (r: core::result::Result<Duration, SystemTimeError>)
        ensures r is Ok <==> self.not_before(earlier), r is Ok ==> r->Ok_0 == self.since(earlier)
    { unimplemented!() }
}

// ---- PathBuf::from("/") (Path model: prelude/fs_path.rs) ------------------------------------------------------------------
impl From<&str> for Path {
    #[verifier::external_body]
    fn from(s: &str) -> (p: Path) { unimplemented!() }
}

// ---- MutexGuard (prelude/step_std.rs) dereferences to the protected value --------------------------------------------------
impl<'a, T> core::ops::Deref for MutexGuard<'a, T> {
    type Target = T;
    #[verifier::external_body]
    fn deref(&self) -> &T { unimplemented!() }
}
impl<'a, T> core::ops::DerefMut for MutexGuard<'a, T> {
    #[verifier::external_body]
    fn deref_mut(&mut self) -> &mut T { unimplemented!() }
}
