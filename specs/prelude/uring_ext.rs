// Dialect widening for unit `uring` (generic std / indexmap contracts; every item is an ASSUMED contract that
// stubcheck can test against the real crates).  Uses seq_filter_by from prelude/vecdeque.rs.

// ---- Vec::retain(f): keeps exactly the elements on which f returns true, in their original order; f is called once
// per element, front to back.  Closure-parametric like VecDeque::retain in prelude/vecdeque.rs: for every spec
// predicate p that the closure's contract pins down, the result is the p-filter of the old contents.
pub assume_specification<T, A: core::alloc::Allocator, F: FnMut(&T) -> bool> [Vec::<T, A>::retain] (v: &mut Vec<T, A>, f: F)
    requires
        forall|x: &T| #[trigger] f.requires((x,)),
    ensures
        forall|p: spec_fn(T) -> bool| #![trigger seq_filter_by(old(v)@, p)]
            (forall|x: T| (f.ensures((&x,), true) ==> p(x)) && (f.ensures((&x,), false) ==> !p(x)))
            ==> final(v)@ == seq_filter_by(old(v)@, p),
        final(v)@.len() <= old(v)@.len();

// ---- indexmap::IndexMap::{swap_remove_index, shift_remove_index} ---------------------------------------------------
pub open spec fn im_swap_removed_at<K, V>(s: Seq<(K, V)>, i: int) -> Seq<(K, V)> {
    if i == s.len() - 1 { s.drop_last() } else { s.update(i, s[s.len() - 1]).drop_last() }
}
impl<K, V> IndexMap<K, V> {
    // swap_remove_index(i): removes and returns the pair at position i; the LAST pair moves into position i, every other
    // pair keeps its position (so positions i and len-1 change meaning: a caller that walks indices upwards while
    // removing skips the moved pair).  Out of bounds: None, map untouched.
    #[verifier::external_body]
    pub fn swap_remove_index(&mut self, i: usize) -> (r: Option<(K, V)>)
        ensures
            i >= old(self)@.len() ==> r is None && final(self)@ == old(self)@,
            i < old(self)@.len() ==> r == Some(old(self)@[i as int]) && final(self)@ == im_swap_removed_at(old(self)@, i as int),
    { unimplemented!() }

    // shift_remove_index(i): removes and returns the pair at position i; every later pair moves one position down,
    // relative order of all remaining pairs kept.  Out of bounds: None, map untouched.
    #[verifier::external_body]
    pub fn shift_remove_index(&mut self, i: usize) -> (r: Option<(K, V)>)
        ensures
            i >= old(self)@.len() ==> r is None && final(self)@ == old(self)@,
            i < old(self)@.len() ==> r == Some(old(self)@[i as int]) && final(self)@ == old(self)@.remove(i as int),
    { unimplemented!() }
}

// ---- <[T]>::partition_point(pred): for a slice partitioned by pred (all true, then all false) the index of the first
// false; closure-parametric.  For an unpartitioned slice std only promises an index in 0..=len.
pub open spec fn seq_partitioned<T>(s: Seq<T>, p: spec_fn(T) -> bool) -> bool {
    forall|i: int, j: int| 0 <= i < j < s.len() && p(s[j]) ==> p(s[i])
}
pub assume_specification<T, P: FnMut(&T) -> bool> [<[T]>::partition_point] (s: &[T], pred: P) -> (r: usize)
    requires
        forall|x: &T| #[trigger] pred.requires((x,)),
    ensures
        r <= s@.len(),
        forall|p: spec_fn(T) -> bool| #![trigger seq_partitioned(s@, p)]
            (forall|x: T| (pred.ensures((&x,), true) ==> p(x)) && (pred.ensures((&x,), false) ==> !p(x))) && seq_partitioned(s@, p)
            ==> (forall|i: int| 0 <= i < r ==> p(#[trigger] s@[i])) && (forall|i: int| r <= i < s@.len() ==> !p(#[trigger] s@[i]));

// ---- Vec::drain(range): removes the range and yields it front to back (the removal also happens when the iterator is
// dropped early); panics if the range is out of bounds.  The bounds of the std range types used with it:
pub uninterp spec fn range_lo<R>(r: R) -> int;
pub uninterp spec fn range_hi<R>(r: R, len: int) -> int;
pub broadcast axiom fn axiom_range_to_bounds(n: usize, len: int)
    ensures #[trigger] range_hi::<core::ops::RangeTo<usize>>(..n, len) == n, range_lo::<core::ops::RangeTo<usize>>(..n) == 0;
pub broadcast axiom fn axiom_range_full_bounds(len: int)
    ensures #[trigger] range_hi::<core::ops::RangeFull>(.., len) == len, range_lo::<core::ops::RangeFull>(..) == 0;
pub broadcast axiom fn axiom_range_bounds(a: usize, b: usize, len: int)
    ensures #[trigger] range_hi::<core::ops::Range<usize>>(a..b, len) == b, range_lo::<core::ops::Range<usize>>(a..b) == a;
// @broadcast axiom_range_to_bounds, axiom_range_full_bounds, axiom_range_bounds
#[verifier::external_type_specification]
#[verifier::external_body]
#[verifier::reject_recursive_types(T)]
#[verifier::reject_recursive_types(A)]
pub struct ExVecDrain<'a, T: 'a, A: core::alloc::Allocator>(std::vec::Drain<'a, T, A>);
pub assume_specification<'a, T, A: core::alloc::Allocator, R: core::ops::RangeBounds<usize>> [Vec::<T, A>::drain] (v: &'a mut Vec<T, A>, range: R) -> (d: std::vec::Drain<'a, T, A>)
    requires
        0 <= range_lo(range) <= range_hi(range, old(v)@.len() as int) <= old(v)@.len(),
    ensures
        d.remaining() == old(v)@.subrange(range_lo(range), range_hi(range, old(v)@.len() as int)),
        final(v)@ == old(v)@.subrange(0, range_lo(range)) + old(v)@.subrange(range_hi(range, old(v)@.len() as int), old(v)@.len() as int),
        d.obeys_prophetic_iter_laws();

// ---- proved helper (not an assumption; same proof as prelude/ports_indexmap.rs, renamed so both files can coexist) ----
// the result of swap_remove(k) as a function of the old view (the expression in IndexMap::swap_remove's contract)
pub open spec fn im_key_swap_removed<K, V>(s: Seq<(K, V)>, k: K) -> Seq<(K, V)> {
    let i = im_idx(s, k);
    let n = s.len();
    if i == n - 1 { s.drop_last() } else { s.update(i, s[n - 1]).drop_last() }
}
// `post` agrees with `pre` on every key other than k (presence and value)
pub open spec fn im_agree_except<K, V>(pre: Seq<(K, V)>, post: Seq<(K, V)>, k: K) -> bool {
    forall|k2: K| k2 != k ==> (#[trigger] im_has(post, k2) == im_has(pre, k2)) && (im_has(pre, k2) ==> im_get(post, k2) == im_get(pre, k2))
}
pub proof fn lemma_im_key_swap_remove<K, V>(s: Seq<(K, V)>, k: K)
    requires im_unique(s), im_has(s, k)
    ensures
        im_unique(im_key_swap_removed(s, k)),
        !im_has(im_key_swap_removed(s, k), k),
        im_agree_except(s, im_key_swap_removed(s, k), k),
        im_key_swap_removed(s, k).len() == s.len() - 1,
{
    let r = im_key_swap_removed(s, k);
    let i = im_idx(s, k);
    let n = s.len() as int;
    assert forall|a: int, b: int| 0 <= a < b < r.len() implies (#[trigger] r[a]).0 != (#[trigger] r[b]).0 by {
        let a2 = if a == i { n - 1 } else { a };
        let b2 = if b == i { n - 1 } else { b };
        assert(r[a] == s[a2] && r[b] == s[b2]);
        if a2 < b2 { assert(s[a2].0 != s[b2].0); } else { assert(s[b2].0 != s[a2].0); }
    }
    if im_has(r, k) {
        let j = im_idx(r, k);
        let j2 = if j == i { n - 1 } else { j };
        assert(r[j] == s[j2]);
        if j2 < i { assert(s[j2].0 != s[i].0); } else { assert(s[i].0 != s[j2].0); }
    }
    assert forall|k2: K| k2 != k implies (#[trigger] im_has(r, k2) == im_has(s, k2)) && (im_has(s, k2) ==> im_get(r, k2) == im_get(s, k2)) by {
        if im_has(s, k2) {
            let j = im_idx(s, k2);
            let j1 = if j == n - 1 { i } else { j };
            assert(r[j1] == s[j]);
            assert(r[j1].0 == k2);
            lemma_im_idx(r, j1);
        }
        if im_has(r, k2) {
            let j = im_idx(r, k2);
            let j2 = if j == i { n - 1 } else { j };
            assert(r[j] == s[j2]);
            assert(s[j2].0 == k2);
        }
    }
    assert(im_agree_except(s, r, k));
}

// ---- u32::next_power_of_two: the smallest power of two >= self (1 for 0); overflows (debug panic) above 2^31.
pub uninterp spec fn spec_next_pow2(x: u32) -> u32;
pub open spec fn spec_is_pow2(p: int) -> bool { exists|k: nat| k < 32 && p == vstd::arithmetic::power2::pow2(k) as int }
pub broadcast axiom fn axiom_next_pow2(x: u32)
    requires x <= 0x8000_0000u32,
    ensures
        (#[trigger] spec_next_pow2(x)) >= x, spec_next_pow2(x) >= 1, spec_is_pow2(spec_next_pow2(x) as int),
        x >= 1 ==> spec_next_pow2(x) < 2 * x,
        x <= 0x4000_0000u32 ==> spec_next_pow2(x) <= 0x4000_0000u32;
// @broadcast axiom_next_pow2
pub assume_specification [u32::next_power_of_two] (x: u32) -> (r: u32)
    requires x <= 0x8000_0000u32,
    ensures r == spec_next_pow2(x);

// ---- R11 idiom: `v.iter().map(f).min()` over a Vec, for a key type with a total order ---------------------------
// None iff v is empty; otherwise the key of some element that is <= the key of every element (f is called once per
// element; std returns the first minimum, which matters only for keys that compare equal without being identical).
pub open spec fn key_le<K: PartialOrd>(a: K, b: K) -> bool {
    a.partial_cmp_spec(&b) == Some(Ordering::Less) || a.partial_cmp_spec(&b) == Some(Ordering::Equal)
}
pub trait IdiomIterMapMin<T> {
    spec fn imm_view(&self) -> Seq<T>;
    fn idiom_iter_map_min<K: Ord, F: Fn(&T) -> K>(&self, f: F) -> (r: Option<K>)
        requires
            forall|x: &T| #[trigger] f.requires((x,)),
        ensures
            self.imm_view().len() == 0 <==> r is None,
            r matches Some(k) ==> (exists|i: int| 0 <= i < self.imm_view().len() && f.ensures((&#[trigger] self.imm_view()[i],), k))
                && (K::obeys_partial_cmp_spec() ==> forall|i: int| #![trigger self.imm_view()[i]] 0 <= i < self.imm_view().len() ==> exists|ki: K| f.ensures((&self.imm_view()[i],), ki) && key_le(k, ki));
}
impl<T> IdiomIterMapMin<T> for Vec<T> {
    open spec fn imm_view(&self) -> Seq<T> { self@ }
    #[verifier::external_body]
    fn idiom_iter_map_min<K: Ord, F: Fn(&T) -> K>(&self, f: F) -> (r: Option<K>) { unimplemented!() }
}

// ---- VecDeque::is_empty ----
pub assume_specification<T, A: core::alloc::Allocator> [VecDeque::<T, A>::is_empty] (v: &VecDeque<T, A>) -> (b: bool)
    ensures b == (v@.len() == 0);
