// Ambient sources of randomness (C01): `rand::rng()` / `rand::thread_rng()` / `rand::random()` draw from a generator seeded by
// the operating system, not from the simulation's seeded generators.  Creating or using one requires
// `ambient_nondeterminism_allowed()`, which nothing establishes: a contracted function that reaches one fails its
// `C01.nd.<unit>.<fn>` obligation (instead of the unit ending UNDECIDED with "cannot find crate `rand`").
// Loaded by every unit that does not bring its own `rand` module (seedflow_rand.rs, fsshim_rand.rs).  ASSUMED: nothing.
pub struct ThreadRng { _p: () }
impl ThreadRng {
    // once the generator exists every draw is as ambient as its creation; the methods themselves claim nothing
    #[verifier::external_body]
    pub fn random_bool(&mut self, p: f64) -> (r: bool) { unimplemented!() }
    #[verifier::external_body]
    pub fn random<T>(&mut self) -> (r: T) { unimplemented!() }
    #[verifier::external_body]
    pub fn next_u64(&mut self) -> (r: u64) { unimplemented!() }
    #[verifier::external_body]
    pub fn next_u32(&mut self) -> (r: u32) { unimplemented!() }
}
pub mod rand {
    use super::*;
    #[verifier::external_body]
    pub fn rng() -> (r: ThreadRng)
        requires
            [nd.thread_rng] ambient_nondeterminism_allowed(),
    { unimplemented!() }
    #[verifier::external_body]
    pub fn thread_rng() -> (r: ThreadRng)
        requires
            [nd.thread_rng.v08] ambient_nondeterminism_allowed(),
    { unimplemented!() }
    #[verifier::external_body]
    pub fn random<T>() -> (r: T)
        requires
            [nd.thread_rng.random] ambient_nondeterminism_allowed(),
    { unimplemented!() }
}
