// std::collections::{HashSet, HashMap} (RandomState): keyed tables whose ITERATION ORDER depends on a
// per-process random hash seed.  Lookup / insert / remove / len are functions of the contents and are
// specified over a Set / Map view.  Every operation that exposes the iteration order (iter, into_iter,
// drain, keys, values, and therefore collect-from-iter) requires `ambient_nondeterminism_allowed()`
// (prelude/core.rs), which nothing establishes: a contracted function that performs one fails the
// labelled precondition, reported as obligation C01.nd.<unit>.<fn>.   ASSUMED contracts on std.
pub use vstd::std_specs::iter::IteratorSpec;

#[verifier::external_body]
#[verifier::reject_recursive_types(T)]
pub struct HashSet<T> { _p: core::marker::PhantomData<T> }
impl<T> View for HashSet<T> { type V = Set<T>; uninterp spec fn view(&self) -> Set<T>; }

// iteration handle of a std hash collection: some enumeration of the contents, order unspecified
#[verifier::external_body]
#[verifier::reject_recursive_types(T)]
pub struct StdHashIter<T> { _p: core::marker::PhantomData<T> }
impl<T> View for StdHashIter<T> { type V = Seq<T>; uninterp spec fn view(&self) -> Seq<T>; }
impl<T> StdHashIter<T> {
    // collect-from-iter keeps the (nondeterministic) order it is handed
    #[verifier::external_body]
    pub fn collect(self) -> (v: Vec<T>) ensures v@ == self@ { unimplemented!() }
    #[verifier::external_body]
    pub fn count(self) -> (n: usize) ensures n == self@.len() { unimplemented!() }
}

impl<T> HashSet<T> {
    #[verifier::external_body]
    pub fn new() -> (s: HashSet<T>) ensures s@ == Set::<T>::empty() { unimplemented!() }
    #[verifier::external_body]
    pub fn len(&self) -> (n: usize) ensures n == self@.len(), self@.finite() { unimplemented!() }
    #[verifier::external_body]
    pub fn is_empty(&self) -> (b: bool) ensures b == (self@ == Set::<T>::empty()) { unimplemented!() }
    #[verifier::external_body]
    pub fn contains(&self, k: &T) -> (b: bool) ensures b == self@.contains(*k) { unimplemented!() }
    #[verifier::external_body]
    pub fn insert(&mut self, k: T) -> (b: bool)
        ensures final(self)@ == old(self)@.insert(k), b == !old(self)@.contains(k)
    { unimplemented!() }
    #[verifier::external_body]
    pub fn remove(&mut self, k: &T) -> (b: bool)
        ensures final(self)@ == old(self)@.remove(*k), b == old(self)@.contains(*k)
    { unimplemented!() }

    #[verifier::external_body]
    pub fn into_iter(self) -> (it: StdHashIter<T>)
        requires
            [nd.std_hash_iter] ambient_nondeterminism_allowed(),
        ensures it@.no_duplicates(), it@.to_set() == self@,
    { unimplemented!() }
    #[verifier::external_body]
    pub fn iter(&self) -> (it: StdHashIter<&T>)
        requires
            [nd.std_hash_iter.set_iter] ambient_nondeterminism_allowed(),
        ensures it@.no_duplicates(), it@.len() == self@.len(), forall|x: &T| it@.contains(x) <==> self@.contains(*x),
    { unimplemented!() }
    #[verifier::external_body]
    pub fn drain(&mut self) -> (it: StdHashIter<T>)
        requires
            [nd.std_hash_iter.set_drain] ambient_nondeterminism_allowed(),
        ensures it@.no_duplicates(), it@.to_set() == old(self)@, final(self)@ == Set::<T>::empty(),
    { unimplemented!() }
}

#[verifier::external_body]
#[verifier::reject_recursive_types(K)]
#[verifier::accept_recursive_types(V)]
pub struct HashMap<K, V> { _p: core::marker::PhantomData<(K, V)> }
impl<K, V> View for HashMap<K, V> { type V = Map<K, V>; uninterp spec fn view(&self) -> Map<K, V>; }

impl<K, V> HashMap<K, V> {
    #[verifier::external_body]
    pub fn new() -> (m: HashMap<K, V>) ensures m@ == Map::<K, V>::empty() { unimplemented!() }
    #[verifier::external_body]
    pub fn len(&self) -> (n: usize) ensures n == self@.dom().len(), self@.dom().finite() { unimplemented!() }
    #[verifier::external_body]
    pub fn contains_key(&self, k: &K) -> (b: bool) ensures b == self@.dom().contains(*k) { unimplemented!() }
    #[verifier::external_body]
    pub fn get(&self, k: &K) -> (r: Option<&V>)
        ensures r == (if self@.dom().contains(*k) { Some(&self@[*k]) } else { None::<&V> })
    { unimplemented!() }
    #[verifier::external_body]
    pub fn insert(&mut self, k: K, v: V) -> (r: Option<V>)
        ensures final(self)@ == old(self)@.insert(k, v),
            r == (if old(self)@.dom().contains(k) { Some(old(self)@[k]) } else { None::<V> }),
    { unimplemented!() }
    #[verifier::external_body]
    pub fn remove(&mut self, k: &K) -> (r: Option<V>)
        ensures final(self)@ == old(self)@.remove(*k),
            r == (if old(self)@.dom().contains(*k) { Some(old(self)@[*k]) } else { None::<V> }),
    { unimplemented!() }

    #[verifier::external_body]
    pub fn into_iter(self) -> (it: StdHashIter<(K, V)>)
        requires
            [nd.std_hash_iter.map_into_iter] ambient_nondeterminism_allowed(),
        ensures it@.no_duplicates(), it@.len() == self@.dom().len(),
            forall|k: K, v: V| it@.contains((k, v)) <==> (self@.dom().contains(k) && self@[k] == v),
    { unimplemented!() }
    #[verifier::external_body]
    pub fn iter(&self) -> (it: StdHashIter<(&K, &V)>)
        requires
            [nd.std_hash_iter.map_iter] ambient_nondeterminism_allowed(),
        ensures it@.len() == self@.dom().len(),
    { unimplemented!() }
    #[verifier::external_body]
    pub fn keys(&self) -> (it: StdHashIter<&K>)
        requires
            [nd.std_hash_iter.map_keys] ambient_nondeterminism_allowed(),
        ensures it@.no_duplicates(), it@.len() == self@.dom().len(), forall|k: &K| it@.contains(k) <==> self@.dom().contains(*k),
    { unimplemented!() }
    #[verifier::external_body]
    pub fn values(&self) -> (it: StdHashIter<&V>)
        requires
            [nd.std_hash_iter.map_values] ambient_nondeterminism_allowed(),
        ensures it@.len() == self@.dom().len(),
    { unimplemented!() }
    #[verifier::external_body]
    pub fn drain(&mut self) -> (it: StdHashIter<(K, V)>)
        requires
            [nd.std_hash_iter.map_drain] ambient_nondeterminism_allowed(),
        ensures it@.len() == old(self)@.dom().len(), final(self)@ == Map::<K, V>::empty(),
    { unimplemented!() }
}
