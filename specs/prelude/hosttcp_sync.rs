// tokio::sync::{mpsc (bounded), oneshot, Notify} as seen from one simulation step.
// Every item is an ASSUMED contract on tokio.
//
// A bounded mpsc channel is a FIFO `queue` of at most `cap` values.  `hist` is ghost: every value
// ever handed to the channel through this sender, in order (it never shrinks; the receiver's pops
// only shorten `queue`).  `closed` = the receiver has been dropped or closed.
// The real Sender works through `&self` (interior mutability); the stub takes `&mut self` so that
// the state change is visible to the verifier.  Within one synchronous step nothing else touches
// the channel; between steps the receiver may pop, so callers must not assume `queue` persists.
pub ghost struct ChanState<T> { pub queue: Seq<T>, pub hist: Seq<T>, pub cap: nat, pub closed: bool }

pub enum TrySendError<T> { Full(T), Closed(T) }
pub enum TryRecvError { Empty, Disconnected }

#[verifier::external_body]
#[verifier::reject_recursive_types(T)]
pub struct MpscSender<T> { _p: core::marker::PhantomData<T> }
impl<T> View for MpscSender<T> { type V = ChanState<T>; uninterp spec fn view(&self) -> ChanState<T>; }

// A reserved slot.  Prophecy-carrying like indexmap's Entry: `fin` is the channel state once the
// permit is consumed by `send`.
#[verifier::external_body]
#[verifier::reject_recursive_types(T)]
pub struct Permit<'a, T> { _p: core::marker::PhantomData<&'a mut T> }
impl<'a, T> Permit<'a, T> {
    pub uninterp spec fn before(&self) -> ChanState<T>;
    pub uninterp spec fn fin(&self) -> ChanState<T>;
    // never fails, never blocks: the slot was reserved
    #[verifier::external_body]
    pub fn send(self, v: T)
        ensures self.fin() == (ChanState { queue: self.before().queue.push(v), hist: self.before().hist.push(v), ..self.before() })
    { unimplemented!() }
}
impl<T> MpscSender<T> {
    // Ok iff not closed and len < cap; Err(Closed) iff the receiver is gone; else Err(Full)
    #[verifier::external_body]
    pub fn try_reserve(&mut self) -> (r: core::result::Result<Permit<'_, T>, TrySendError<()>>)
        ensures match r {
            Ok(p) => !old(self)@.closed && old(self)@.queue.len() < old(self)@.cap && p.before() == old(self)@ && final(self)@ == p.fin(),
            Err(TrySendError::Full(_)) => !old(self)@.closed && old(self)@.queue.len() >= old(self)@.cap && final(self)@ == old(self)@,
            Err(TrySendError::Closed(_)) => old(self)@.closed && final(self)@ == old(self)@,
        }
    { unimplemented!() }
    #[verifier::external_body]
    pub fn try_send(&mut self, v: T) -> (r: core::result::Result<(), TrySendError<T>>)
        ensures match r {
            Ok(_) => !old(self)@.closed && old(self)@.queue.len() < old(self)@.cap
                && final(self)@ == (ChanState { queue: old(self)@.queue.push(v), hist: old(self)@.hist.push(v), ..old(self)@ }),
            Err(TrySendError::Full(x)) => x == v && !old(self)@.closed && old(self)@.queue.len() >= old(self)@.cap && final(self)@ == old(self)@,
            Err(TrySendError::Closed(x)) => x == v && old(self)@.closed && final(self)@ == old(self)@,
        }
    { unimplemented!() }
}

// Receiver: `queue` = values sent and not yet received; `disconnected` = every sender dropped.
pub ghost struct RecvState<T> { pub queue: Seq<T>, pub disconnected: bool }
#[verifier::external_body]
#[verifier::reject_recursive_types(T)]
pub struct MpscReceiver<T> { _p: core::marker::PhantomData<T> }
impl<T> View for MpscReceiver<T> { type V = RecvState<T>; uninterp spec fn view(&self) -> RecvState<T>; }
impl<T> MpscReceiver<T> {
    #[verifier::external_body]
    pub fn try_recv(&mut self) -> (r: core::result::Result<T, TryRecvError>)
        ensures match r {
            Ok(v) => old(self)@.queue.len() > 0 && v == old(self)@.queue[0]
                && final(self)@ == (RecvState { queue: old(self)@.queue.skip(1), ..old(self)@ }),
            Err(TryRecvError::Empty) => old(self)@.queue.len() == 0 && !old(self)@.disconnected && final(self)@ == old(self)@,
            Err(TryRecvError::Disconnected) => old(self)@.queue.len() == 0 && old(self)@.disconnected && final(self)@ == old(self)@,
        }
    { unimplemented!() }
    // Ready(Some(front)) only if non-empty; Ready(None) only if empty and disconnected.  Pending leaves the channel
    // untouched and is *possible in any state*: tokio's cooperative budget (128 operations per task poll) makes
    // poll_recv return Pending with messages still queued (found by stubcheck); an empty, connected channel
    // always gives Pending.
    #[verifier::external_body]
    pub fn poll_recv(&mut self, cx: &mut Context<'_>) -> (r: Poll<Option<T>>)
        ensures match r {
            Poll::Ready(Some(v)) => old(self)@.queue.len() > 0 && v == old(self)@.queue[0]
                && final(self)@ == (RecvState { queue: old(self)@.queue.skip(1), ..old(self)@ }),
            Poll::Ready(None) => old(self)@.queue.len() == 0 && old(self)@.disconnected && final(self)@ == old(self)@,
            Poll::Pending => final(self)@ == old(self)@,
        },
            (old(self)@.queue.len() == 0 && !old(self)@.disconnected) ==> r is Pending,
    { unimplemented!() }
}
// mpsc::channel(cap): panics if cap == 0 or cap > Semaphore::MAX_PERMITS (usize::MAX >> 3)
pub const MPSC_MAX_CAP: usize = usize::MAX >> 3;
#[verifier::external_body]
pub fn mpsc_channel<T>(cap: usize) -> (r: (MpscSender<T>, MpscReceiver<T>))
    requires 0 < cap <= MPSC_MAX_CAP
    ensures r.0@ == (ChanState { queue: Seq::<T>::empty(), hist: Seq::<T>::empty(), cap: cap as nat, closed: false }),
        r.1@ == (RecvState { queue: Seq::<T>::empty(), disconnected: false }),
{ unimplemented!() }

// oneshot::Sender: `send` consumes the sender; it fails (returning the value) iff the receiver was dropped.
#[verifier::external_body]
#[verifier::reject_recursive_types(T)]
pub struct OneshotSender<T> { _p: core::marker::PhantomData<T> }
impl<T> OneshotSender<T> {
    pub uninterp spec fn receiver_dropped(&self) -> bool;
    #[verifier::external_body]
    pub fn send(self, v: T) -> (r: core::result::Result<(), T>)
        ensures r is Err <==> self.receiver_dropped(), r is Err ==> r == Err::<(), T>(v)
    { unimplemented!() }
}

// Notify: wake-ups carry no simulation state
#[verifier::external_body]
pub struct Notify { _p: () }
impl Notify {
    #[verifier::external_body]
    pub fn new() -> Notify { unimplemented!() }
    #[verifier::external_body]
    pub fn notify_one(&self) { unimplemented!() }
}

// std::task
pub enum Poll<T> { Ready(T), Pending }
#[verifier::external_body]
pub struct Context<'a> { _p: core::marker::PhantomData<&'a ()> }

// tokio::runtime::Handle::try_current(): whether a runtime is entered is ambient; the result is unconstrained
// (contracts must hold for both outcomes).
// `runtime_entered()`: the calling code runs inside a tokio runtime (ambient, fixed during one synchronous step; unconstrained:
// contracts hold for both values unless they require it).
pub uninterp spec fn runtime_entered() -> bool;
pub struct Handle { pub _p: () }
#[derive(Debug)]
pub struct TryCurrentError { pub _p: () }
impl Handle {
    #[verifier::external_body]
    pub fn try_current() -> (r: core::result::Result<Handle, TryCurrentError>)
        ensures r is Ok <==> runtime_entered()
    { unimplemented!() }
}

// ---- widening: methods the extracted code does not use today, specified so that code that starts using them
// is decided instead of rejected as "unsupported" ----
impl<T> MpscReceiver<T> {
    #[verifier::external_body]
    pub fn is_empty(&self) -> (b: bool) ensures b == (self@.queue.len() == 0) { unimplemented!() }
    #[verifier::external_body]
    pub fn len(&self) -> (n: usize) ensures n == self@.queue.len() { unimplemented!() }
}
impl<T> OneshotSender<T> {
    // is_closed(): the receiver has been dropped (or closed)
    #[verifier::external_body]
    pub fn is_closed(&self) -> (b: bool) ensures b == self.receiver_dropped() { unimplemented!() }
}
