// indexmap::IndexMap extras used by unit `rules` (ASSUMED contracts on indexmap 2.x).
impl<K, V> IndexMap<K, V> {
    // get_index_mut(i): entry at position i (key shared, value exclusive).  The map after the borrow
    // ends differs from the map before only in the value at position i (keys and order are fixed).
    #[verifier::external_body]
    pub fn get_index_mut(&mut self, i: usize) -> (r: Option<(&K, &mut V)>)
        ensures
            match r {
                Some((k, v)) => i < old(self)@.len() && *k == old(self)@[i as int].0 && *v == old(self)@[i as int].1
                    && final(self)@ == old(self)@.update(i as int, (old(self)@[i as int].0, *final(v))),
                None => i >= old(self)@.len() && final(self)@ == old(self)@,
            }
    { unimplemented!() }
}
