// `?` on a Result inside a fn returning Poll<Result<T, F>> (std: impl FromResidual<Result<Infallible, E>> for
// Poll<Result<T, F>>): yields Poll::Ready(Err(F::from(e))).  ASSUMED contracts on std.
pub assume_specification<T, E, F: core::convert::From<E>> [<core::task::Poll<core::result::Result<T, F>> as core::ops::FromResidual<core::result::Result<core::convert::Infallible, E>>>::from_residual] (x: core::result::Result<core::convert::Infallible, E>) -> (r: core::task::Poll<core::result::Result<T, F>>)
    ensures match r { core::task::Poll::Ready(Err(f)) => x is Err && call_ensures(<F as core::convert::From<E>>::from, (x->Err_0,), f), _ => false };
// the blanket `impl<T> From<T> for T` is the identity
pub assume_specification<T> [<T as core::convert::From<T>>::from] (x: T) -> (r: T)
    ensures r == x;

// `v.iter().copied().find(f)` on a Vec of Copy elements (R11 idiom stub, ASSUMED): the first element on which f answers
// true (f answered false on all earlier ones); None if f answers false everywhere.
pub trait IdiomVecCopiedFind<T: Copy> {
    spec fn idiom_cf_seq(&self) -> Seq<T>;
    fn idiom_copied_find<F: FnMut(&T) -> bool>(&self, f: F) -> (r: Option<T>)
        requires forall|x: &T| #[trigger] f.requires((x,)),
        ensures
            match r {
                Some(v) => exists|i: int| 0 <= i < self.idiom_cf_seq().len() && #[trigger] self.idiom_cf_seq()[i] == v && f.ensures((&v,), true)
                    && (forall|j: int| #![trigger self.idiom_cf_seq()[j]] 0 <= j < i ==> f.ensures((&self.idiom_cf_seq()[j],), false)),
                None => forall|j: int| #![trigger self.idiom_cf_seq()[j]] 0 <= j < self.idiom_cf_seq().len() ==> f.ensures((&self.idiom_cf_seq()[j],), false),
            };
}
impl<T: Copy> IdiomVecCopiedFind<T> for Vec<T> {
    open spec fn idiom_cf_seq(&self) -> Seq<T> { self@ }
    #[verifier::external_body]
    fn idiom_copied_find<F: FnMut(&T) -> bool>(&self, f: F) -> (r: Option<T>) { unimplemented!() }
}
