// `io::Error` / `io::ErrorKind` / `io::Result` paths as written in turmoil (aliases of the core.rs stubs; no new assumption)
pub mod io {
    pub use super::Error;
    pub use super::ErrorKind;
    pub use super::Result;
}
// formatting of addresses in panic!/assert! messages (text not modelled)
#[verifier::external]
impl core::fmt::Display for SocketAddr {
    fn fmt(&self, f: &mut core::fmt::Formatter<'_>) -> core::fmt::Result { unimplemented!() }
}
// From<(IpAddr, u16)> for SocketAddr
impl SocketAddr {
    pub fn from(t: (IpAddr, u16)) -> (r: SocketAddr) ensures r.ip_ == t.0, r.port_ == t.1 { SocketAddr { ip_: t.0, port_: t.1 } }
}
// io::Error: Debug (needed by Result::expect; text not modelled)
#[verifier::external]
impl core::fmt::Debug for Error {
    fn fmt(&self, f: &mut core::fmt::Formatter<'_>) -> core::fmt::Result { unimplemented!() }
}
