// Library stubs for unit `step` (Sim::step / crash / bounce / client / host).  Every item is an ASSUMED contract.

// ---- std::cell::RefCell as an *owned* cell ------------------------------------------------------------------
// The simulation is single-threaded and the extracted code never holds two overlapping borrows of the world
// (a second `borrow_mut()` while one is live would panic at run time: "already borrowed").  The stub therefore
// takes `&mut self`: Rust's static borrow checker, run by Verus on the generated file, then proves the absence of
// overlapping borrows that the run-time flag would otherwise check.  `val()` (clock_world.rs) is the content.
impl<T> RefCell<T> {
    #[verifier::external_body]
    pub fn new(v: T) -> (c: RefCell<T>)
        ensures c.val() == v
    { unimplemented!() }
    #[verifier::external_body]
    pub fn borrow_mut(&mut self) -> (r: &mut T)
        ensures *r == old(self).val(), final(self).val() == *final(r)
    { unimplemented!() }
    #[verifier::external_body]
    pub fn borrow(&self) -> (r: &T)
        ensures *r == self.val()
    { unimplemented!() }
}

// ---- `MAP.iter_mut().partition(f)` over an IndexMap (R11 idiom) ---------------------------------------------
// Iterator::partition on indexmap's IterMut: f is called once per entry in insertion order; the entries on which
// it returned true go to the first Vec, the others to the second, order preserved in both.  Each `&mut V` handed
// out is the exclusive borrow of that entry's value: the map's final content at position i is (key i, final value
// of the reference handed out for i).
// Deviation (declared): the real closure receives `&(&K, &mut V)`; the stub's closure receives `(&K, &V)`.
//   idiom_part_flags(pre, r0)[i]  = what f returned on entry i
pub uninterp spec fn idiom_part_flags<K, V>(pre: Seq<(K, V)>, r0: Seq<(&K, &mut V)>) -> Seq<bool>;
//   idiom_part_final(pre, r0, r1) = the map's content once all handed-out references have expired (a name for `final(self)@`,
//   so that loop invariants can speak about it while the references are still live)
pub uninterp spec fn idiom_part_final<K, V>(pre: Seq<(K, V)>, r0: Seq<(&K, &mut V)>, r1: Seq<(&K, &mut V)>) -> Seq<(K, V)>;
// the indices i (ascending) with fl[i] == want
pub open spec fn part_ix(fl: Seq<bool>, want: bool) -> Seq<int> decreases fl.len() {
    if fl.len() == 0 { Seq::empty() } else {
        let p = part_ix(fl.drop_last(), want);
        if fl.last() == want { p.push(fl.len() - 1) } else { p }
    }
}
// position of index i inside part_ix(fl, fl[i])
pub open spec fn part_pos(fl: Seq<bool>, i: int) -> int { part_ix(fl.take(i), fl[i]).len() as int }
// (opaque: callers reason about it inside lemmas only, so that the quantifier stays out of the exec function's context)
#[verifier::opaque]
#[verifier::prophetic]
pub open spec fn mutrefs_of<K, V>(v: Seq<(&K, &mut V)>, pre: Seq<(K, V)>, post: Seq<(K, V)>, ix: Seq<int>) -> bool {
    v.len() == ix.len() && forall|j: int| 0 <= j < v.len() ==> 0 <= #[trigger] ix[j] < pre.len()
        && *v[j].0 == pre[ix[j]].0 && *v[j].1 == pre[ix[j]].1
        && post[ix[j]] == (pre[ix[j]].0, *final(v[j].1))
}
impl<K, V> IndexMap<K, V> {
    #[verifier::external_body]
    pub fn idiom_iter_mut_partition<'a, F: FnMut((&K, &V)) -> bool>(&'a mut self, f: F) -> (r: (Vec<(&'a K, &'a mut V)>, Vec<(&'a K, &'a mut V)>))
        requires forall|e: (&K, &V)| #[trigger] f.requires((e,)),
        ensures
            idiom_part_flags(old(self)@, r.0@).len() == old(self)@.len(),
            forall|i: int| 0 <= i < old(self)@.len() ==> f.ensures(((&old(self)@[i].0, &old(self)@[i].1),), #[trigger] idiom_part_flags(old(self)@, r.0@)[i]),
            mutrefs_of(r.0@, old(self)@, final(self)@, part_ix(idiom_part_flags(old(self)@, r.0@), true)),
            mutrefs_of(r.1@, old(self)@, final(self)@, part_ix(idiom_part_flags(old(self)@, r.0@), false)),
            final(self)@.len() == old(self)@.len(),
            final(self)@ == idiom_part_final(old(self)@, r.0@, r.1@),
    { unimplemented!() }
}
pub proof fn lemma_part_ix(fl: Seq<bool>, want: bool)
    ensures
        part_ix(fl, want).len() <= fl.len(),
        forall|j: int| 0 <= j < part_ix(fl, want).len() ==> 0 <= #[trigger] part_ix(fl, want)[j] < fl.len() && fl[part_ix(fl, want)[j]] == want
            && part_pos(fl, part_ix(fl, want)[j]) == j,
        forall|i: int| 0 <= i < fl.len() && fl[i] == want ==> 0 <= #[trigger] part_pos(fl, i) < part_ix(fl, want).len()
            && part_ix(fl, want)[part_pos(fl, i)] == i,
    decreases fl.len()
{
    if fl.len() > 0 {
        let t = fl.drop_last();
        lemma_part_ix(t, want);
        let n = fl.len() - 1;
        assert(fl.take(n) =~= t);
        assert forall|i: int| 0 <= i < fl.len() && fl[i] == want implies 0 <= #[trigger] part_pos(fl, i) < part_ix(fl, want).len()
            && part_ix(fl, want)[part_pos(fl, i)] == i by {
            if i < n {
                assert(fl.take(i) =~= t.take(i));
                assert(part_pos(fl, i) == part_pos(t, i));
            }
        }
        assert forall|j: int| 0 <= j < part_ix(fl, want).len() implies 0 <= #[trigger] part_ix(fl, want)[j] < fl.len() && fl[part_ix(fl, want)[j]] == want
            && part_pos(fl, part_ix(fl, want)[j]) == j by {
            if j < part_ix(t, want).len() {
                let i = part_ix(t, want)[j];
                assert(fl.take(i) =~= t.take(i));
                assert(part_pos(fl, i) == part_pos(t, i));
            }
        }
    }
}

// ---- rand::seq::SliceRandom::shuffle (R11 idiom: `v.shuffle(rng)` => `idiom_shuffle(&mut v, rng)`) ------------
// The result is a permutation of the input; which one is unconstrained (every contract must hold for all of them).
//   post[i] == pre[perm[i]],  pre[k] == post[inv[k]]
pub uninterp spec fn idiom_shuffle_perm<T>(pre: Seq<T>, post: Seq<T>) -> Seq<int>;
pub uninterp spec fn idiom_shuffle_inv<T>(pre: Seq<T>, post: Seq<T>) -> Seq<int>;
#[verifier::opaque]
pub open spec fn is_perm_pair(p: Seq<int>, q: Seq<int>, n: int) -> bool {
    p.len() == n && q.len() == n
    && (forall|i: int| 0 <= i < n ==> 0 <= #[trigger] p[i] < n && q[p[i]] == i)
    && (forall|k: int| 0 <= k < n ==> 0 <= #[trigger] q[k] < n && p[q[k]] == k)
}
#[verifier::opaque]
pub open spec fn idiom_shuffled<T>(pre: Seq<T>, post: Seq<T>, perm: Seq<int>) -> bool {
    post.len() == pre.len() && forall|i: int| 0 <= i < pre.len() ==> #[trigger] post[i] == pre[perm[i]]
}
#[verifier::external_body]
pub fn idiom_shuffle<T>(v: &mut Vec<T>, rng: &mut Box<dyn RngCore>)
    ensures
        final(v)@.len() == old(v)@.len(),
        is_perm_pair(idiom_shuffle_perm(old(v)@, final(v)@), idiom_shuffle_inv(old(v)@, final(v)@), old(v)@.len() as int),
        idiom_shuffled(old(v)@, final(v)@, idiom_shuffle_perm(old(v)@, final(v)@)),
{ unimplemented!() }

// ---- format!(..) (R11 idiom): message text is not modelled -----------------------------------------------------
#[verifier::external_body]
pub fn idiom_format_opaque() -> (s: String) { unimplemented!() }
// `Err(String)?` converts through std's `impl From<String> for Box<dyn Error>`; payload unspecified.
impl From<String> for BoxError {
    #[verifier::external_body]
    fn from(e: String) -> (r: BoxError) { unimplemented!() }
}

// ---- std::sync::Mutex::lock (the struct is in clock_world.rs) ---------------------------------------------------
// The simulation is single-threaded and a panic aborts the test: the lock is never contended or poisoned (ASSUMED).
// The guard remembers which mutex it locks (`of`), so that unit-local stubs of the protected type can log on which
// object they were invoked.
#[verifier::external_body]
#[verifier::accept_recursive_types(T)]
pub struct MutexGuard<'a, T> { _p: core::marker::PhantomData<&'a T> }
pub struct PoisonError {}
impl core::fmt::Debug for PoisonError { #[verifier::external_body] fn fmt(&self, f: &mut core::fmt::Formatter<'_>) -> core::fmt::Result { unimplemented!() } }
impl<'a, T> MutexGuard<'a, T> {
    pub uninterp spec fn of(&self) -> Mutex<T>;
}
impl<T> Mutex<T> {
    #[verifier::external_body]
    pub fn lock(&self) -> (r: core::result::Result<MutexGuard<'_, T>, PoisonError>)
        ensures r is Ok, r->Ok_0.of() == *self
    { unimplemented!() }
}

// ---- glue of Sim::client / Sim::host (R11 idioms; text / randomness not modelled) ----------------------------------
// `world.dns.reverse(addr).map(str::to_string).unwrap_or_else(|| addr.to_string()).into()`: the node's display name
#[verifier::external_body]
pub fn idiom_nodename_of<W>(world: &W, addr: IpAddr) -> (r: Arc<str>) { unimplemented!() }
// `rng.random()` for a 32-byte seed (rand::Rng::random::<[u8; 32]>): advances the generator, value unconstrained
#[verifier::external_body]
pub fn idiom_random_seed(rng: &mut Box<dyn RngCore>) -> (r: [u8; 32]) { unimplemented!() }
impl SmallRng {
    #[verifier::external_body]
    pub fn from_seed(seed: [u8; 32]) -> (r: SmallRng) { unimplemented!() }
}
pub use std::future::Future;
