// tokio::sync::{mpsc (unbounded), oneshot} as used by crates/turmoil/src/barriers.rs.
// Every item is an ASSUMED contract.
//
// A channel is shared state between its sender handles (clones) and its receiver, reached through
// `&self`.  Verus cannot express a state change behind `&self`, so the state of all channels lives in
// one explicit `World` value that rewrite R10 passes (`fx: &mut World`) to every channel operation.

pub type Waker = (Box<dyn AnySend>, Option<oneshot::Sender<()>>);

pub struct World {
    // mpsc: every message accepted by channel `c`, in send order (the order the receiver sees)
    pub mpsc_log: Ghost<Map<int, Seq<Waker>>>,
    // mpsc: channels whose receiver is dropped/closed
    pub mpsc_closed: Ghost<Set<int>>,
    // oneshot: ids handed out so far, ids whose value has been sent, ids whose receiver is gone
    pub os_alloc: Ghost<Set<int>>,
    pub os_fired: Ghost<Set<int>>,
    pub os_rx_dropped: Ghost<Set<int>>,
}
impl World {
    pub open spec fn log_of(self, c: int) -> Seq<Waker> {
        if self.mpsc_log@.dom().contains(c) { self.mpsc_log@[c] } else { Seq::empty() }
    }
    // the world after one `send(m)` on mpsc channel `c`: one element appended to that channel's log
    // and nothing else changed; no change at all if the receiver is gone
    pub open spec fn after_mpsc_send(self, c: int, m: Waker) -> World {
        if self.mpsc_closed@.contains(c) { self } else {
            World { mpsc_log: Ghost(self.mpsc_log@.insert(c, self.log_of(c).push(m))), ..self }
        }
    }
    pub open spec fn after_os_channel(self, k: int) -> World {
        World { os_alloc: Ghost(self.os_alloc@.insert(k)), ..self }
    }
    pub open spec fn after_os_send(self, k: int) -> World {
        if self.os_rx_dropped@.contains(k) { self } else { World { os_fired: Ghost(self.os_fired@.insert(k)), ..self } }
    }
    // an id that was never handed out has no history
    pub open spec fn os_fresh(self, k: int) -> bool {
        !self.os_alloc@.contains(k) && !self.os_fired@.contains(k) && !self.os_rx_dropped@.contains(k)
    }
}

pub struct SendError<T>(pub T);

pub struct UnboundedSender<T> { pub chan: Ghost<int>, pub _p: core::marker::PhantomData<T> }
pub struct UnboundedReceiver<T> { pub chan: Ghost<int>, pub _p: core::marker::PhantomData<T> }

impl<T> Clone for UnboundedSender<T> {
    // a clone is another handle to the same channel
    #[verifier::external_body]
    fn clone(&self) -> (r: UnboundedSender<T>) ensures r.chan == self.chan { unimplemented!() }
}
impl UnboundedSender<Waker> {
    // send appends exactly one element to this channel's log; Err (message handed back) iff the receiver is gone
    #[verifier::external_body]
    pub fn send(&self, m: Waker, fx: &mut World) -> (r: core::result::Result<(), SendError<Waker>>)
        ensures
            *final(fx) == old(fx).after_mpsc_send(self.chan@, m),
            r is Err <==> old(fx).mpsc_closed@.contains(self.chan@),
            r is Err ==> r->Err_0.0 == m,
    { unimplemented!() }
}

pub mod oneshot {
    use vstd::prelude::*;
    use super::*;
    pub struct Sender<T> { pub id: Ghost<int>, pub _p: core::marker::PhantomData<T> }
    pub struct Receiver<T> { pub id: Ghost<int>, pub _p: core::marker::PhantomData<T> }
    // a new channel: both halves carry the same, never used id
    #[verifier::external_body]
    pub fn channel<T>(fx: &mut World) -> (r: (Sender<T>, Receiver<T>))
        ensures
            r.0.id == r.1.id,
            old(fx).os_fresh(r.0.id@),
            *final(fx) == old(fx).after_os_channel(r.0.id@),
    { unimplemented!() }
    impl<T> Sender<T> {
        // consumes the sender: at most one value per channel by construction.  Err(v) iff the receiver is gone.
        #[verifier::external_body]
        pub fn send(self, v: T, fx: &mut World) -> (r: core::result::Result<(), T>)
            ensures
                *final(fx) == old(fx).after_os_send(self.id@),
                r is Err <==> old(fx).os_rx_dropped@.contains(self.id@),
                r is Err ==> r->Err_0 == v,
        { unimplemented!() }
    }
}
