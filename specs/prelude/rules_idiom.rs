// R11 idiom stubs for unit `rules` (ASSUMED contracts on std iterator idioms Verus cannot ingest) and mem::take.
pub trait IdiomVecRules<T> {
    spec fn idiom_seq(&self) -> Seq<T>;
    // `v.iter().position(f)`: index of the first element on which f answers true (f is called on the elements
    // before it, which all answer false); None if f answers false on every element.
    fn idiom_iter_position<F: FnMut(&T) -> bool>(&self, f: F) -> (r: Option<usize>)
        requires forall|x: &T| #[trigger] f.requires((x,)),
        ensures
            match r {
                Some(i) => i < self.idiom_seq().len() && f.ensures((&self.idiom_seq()[i as int],), true)
                    && (forall|j: int| #![trigger self.idiom_seq()[j]] 0 <= j < i ==> f.ensures((&self.idiom_seq()[j],), false)),
                None => forall|j: int| #![trigger self.idiom_seq()[j]] 0 <= j < self.idiom_seq().len() ==> f.ensures((&self.idiom_seq()[j],), false),
            };
    // `v.drain(..n).collect::<Vec<T>>()`: the first n elements, in order, are moved out; the rest stays, in order.
    // Vec::drain panics if n > len.
    fn idiom_drain_to(&mut self, n: usize) -> (r: Vec<T>)
        requires n <= old(self).idiom_seq().len(),
        ensures r@ == old(self).idiom_seq().take(n as int), final(self).idiom_seq() == old(self).idiom_seq().skip(n as int);
}
impl<T> IdiomVecRules<T> for Vec<T> {
    open spec fn idiom_seq(&self) -> Seq<T> { self@ }
    #[verifier::external_body]
    fn idiom_iter_position<F: FnMut(&T) -> bool>(&self, f: F) -> (r: Option<usize>) { unimplemented!() }
    #[verifier::external_body]
    fn idiom_drain_to(&mut self, n: usize) -> (r: Vec<T>) { unimplemented!() }
}
// std::mem::take: returns the old value.  (What is left behind is T::default(); nothing is promised about it here.)
pub assume_specification<T: Default> [core::mem::take::<T>] (x: &mut T) -> (r: T)
    ensures r == *old(x);
