// std pieces used by turmoil-fs' std shim (ASSUMED contracts).
// std::sync::Mutex around the cursor of a File: single-threaded simulation, never contended or poisoned.
// The protected value is ghost-visible as `val()`; `lock()` hands out exclusive access prophecy-style.
#[verifier::external_body]
#[verifier::accept_recursive_types(T)]
pub struct Mutex<T> { _p: core::marker::PhantomData<T> }
impl<T> core::fmt::Debug for Mutex<T> { #[verifier::external_body] fn fmt(&self, f: &mut core::fmt::Formatter<'_>) -> core::fmt::Result { unimplemented!() } }
impl<T> Mutex<T> {
    pub uninterp spec fn val(&self) -> T;
    #[verifier::external_body]
    pub fn new(v: T) -> (m: Mutex<T>) ensures m.val() == v { unimplemented!() }
}
// `format!(..)` (R11 idiom): message text is not modelled
#[verifier::external_body]
pub fn idiom_format_opaque() -> (s: String) { unimplemented!() }
// std::io::SeekFrom
pub enum SeekFrom { Start(u64), End(i64), Current(i64) }
// uN::is_multiple_of is specified by vstd; is_mult is the same formula for use in contracts
pub open spec fn is_mult(x: int, a: int) -> bool { if a == 0 { x == 0 } else { x % a == 0 } }
// address of a buffer (`buf.as_ptr() as usize`, R11 idiom): an allocation address, not simulation state; value unconstrained
#[verifier::external_body]
pub fn idiom_buf_addr(buf: &[u8]) -> (a: usize) { unimplemented!() }
// Mutex::lock with the interior mutability made explicit (R13): the protected value lives in an explicit cell parameter
// (`cur: &mut u64` for File::cursor) that the extracted methods receive as effect state; `lock` hands out exclusive access
// to that cell, prophecy-style.  Never contended or poisoned (single-threaded simulation; ASSUMED).  The first effect
// parameter (`st`, the Fs) is only passed because fxcalls `lock*` passes every effect parameter; it is untouched.
pub struct PoisonError {}
impl core::fmt::Debug for PoisonError { #[verifier::external_body] fn fmt(&self, f: &mut core::fmt::Formatter<'_>) -> core::fmt::Result { unimplemented!() } }
impl<T> Mutex<T> {
    #[verifier::external_body]
    pub fn lock<'a, S>(&self, st: &mut S, cell: &'a mut T) -> (r: core::result::Result<&'a mut T, PoisonError>)
        ensures
            *final(st) == *old(st),
            match r { Ok(v) => *v == *old(cell) && *final(cell) == *final(v), Err(_) => false },
    { unimplemented!() }
}
