// std pieces used by unit `ports`: the `io::` path, Arc, RangeInclusive<u16>, to_string.
pub mod io { pub use super::{Error, ErrorKind, Result}; }
pub use std::sync::Arc;
pub use std::ops::RangeInclusive;
pub use vstd::std_specs::iter::IteratorSpec;   // remaining()/decrease() of vstd's iterator model, for loop invariants

// RangeInclusive: vstd models the value as `r@ == RangeInclusiveView { start, end, exhausted }` and knows how to
// iterate it; the three accessors below are ASSUMED (std docs: plain field reads / field-wise clone).
pub assume_specification<Idx> [RangeInclusive::<Idx>::start] (r: &RangeInclusive<Idx>) -> (o: &Idx)
    ensures *o == r@.start;
pub assume_specification<Idx> [RangeInclusive::<Idx>::end] (r: &RangeInclusive<Idx>) -> (o: &Idx)
    ensures *o == r@.end;
pub assume_specification<Idx: Clone> [<RangeInclusive<Idx> as Clone>::clone] (r: &RangeInclusive<Idx>) -> (c: RangeInclusive<Idx>)
    ensures c@ == r@;

// Display of a SocketAddr: the text is not modelled (only used in error / panic messages).
impl SocketAddr {
    #[verifier::external_body]
    pub fn to_string(&self) -> (s: String) { unimplemented!() }
}
impl std::fmt::Display for SocketAddr {
    #[verifier::external_body]
    fn fmt(&self, f: &mut std::fmt::Formatter<'_>) -> std::fmt::Result { unimplemented!() }
}
