// Model of the suspension points of the UDP receive path (rewrite R24: `EXPR.await` => `EXPR.await_model(fx)`).
// Every item is an ASSUMED contract on tokio.
//
// Effect state of a suspension: `pinned` = channels whose (single) Sender is held by a table that outlives the await
// (turmoil: the host's UDP bind table; the entry is removed only by this socket's own Drop / a host crash, which drops the
// socket's task first).  tokio's `Receiver::recv` returns None only after every Sender is gone.
pub struct Sched { pub pinned: Ghost<Set<int>> }

// What may have happened to a value shared with other tasks while this task was suspended or waiting for the lock.
pub trait Concurrent: Sized {
    spec fn moved_on(&self, later: &Self) -> bool;
}

// `Mutex::lock()`: future resolving to the guard.  Modelled with `&mut self` (tokio: `&self`), the guard as `&mut T`.
#[verifier::reject_recursive_types(T)]
pub struct LockFut<'a, T> { pub m: &'a mut Mutex<T> }
impl<T> Mutex<T> {
    pub fn lock(&mut self) -> (r: LockFut<'_, T>) ensures *r.m == *old(self), *final(r.m) == *final(self) { LockFut { m: self } }
}
impl<'a, T: Concurrent> LockFut<'a, T> {
    // resumes holding the lock on that same value; meanwhile other tasks may have moved the shared parts on
    #[verifier::external_body]
    pub fn await_model(self, fx: &mut Sched) -> (g: &'a mut T)
        ensures old(self.m)@.moved_on(&*g), final(self.m)@ == *final(g), *final(fx) == *old(fx),
    { unimplemented!() }
}

pub mod mpsc_await {
    use vstd::prelude::*;
    use super::mpsc::*;
    use super::Sched;
    // `Receiver::recv()`: future of the next message
    #[verifier::reject_recursive_types(T)]
    pub struct RecvFut<'a, T> { pub rx: &'a mut Receiver<T> }
    impl<'a, T> RecvFut<'a, T> {
        // resumes when a message is available (FIFO head, handed out exactly once: it leaves the queue) or when every
        // sender is gone and the queue is empty.  While suspended, senders may have appended messages; nobody else removes any.
        #[verifier::external_body]
        pub fn await_model(self, fx: &mut Sched) -> (r: Option<T>)
            ensures
                *final(fx) == *old(fx),
                exists|arrived: Seq<T>| #![trigger old(self.rx)@.queue + arrived] ({
                    let q = old(self.rx)@.queue + arrived;
                    match r {
                        Some(m) => q.len() > 0 && m == q[0] && final(self.rx)@ == (Chan::<T> { queue: q.skip(1), ..final(self.rx)@ })
                            && final(self.rx)@.chan == old(self.rx)@.chan && final(self.rx)@.cap == old(self.rx)@.cap,
                        None => q.len() == 0 && !old(fx).pinned@.contains(old(self.rx)@.chan) && final(self.rx)@.queue.len() == 0,
                    }
                }),
        { unimplemented!() }
    }
}
impl<T> mpsc::Receiver<T> {
    pub fn recv(&mut self) -> (r: mpsc_await::RecvFut<'_, T>) ensures *r.rx == *old(self), *final(r.rx) == *final(self) { mpsc_await::RecvFut { rx: self } }
}

// Awaiting the future of an `async fn` of the unit itself: the extracted fn is a plain fn whose body has already run at the
// call `f(args, fx)`; the `.await` that directly follows is the identity.
pub trait AwaitDone: Sized {
    fn await_model(self, fx: &mut Sched) -> (r: Self) ensures r == self, *final(fx) == *old(fx);
}
impl<T, E> AwaitDone for core::result::Result<T, E> {
    fn await_model(self, fx: &mut Sched) -> (r: Self) { self }
}
