// Opaque std/library types that only occur as *field types* of the structs extracted by units
// clock and run (World, Host, Sim, Config).  No operation on them is specified: code that
// touches them is not under contract in these units.
pub use std::sync::Arc;
pub use std::ops::RangeInclusive;
#[verifier::external_body]
#[verifier::accept_recursive_types(T)]
pub struct Mutex<T> { _p: core::marker::PhantomData<T> }
#[verifier::external_body]
pub struct SystemTime { _p: () }
impl Clone for SystemTime { #[verifier::external_body] fn clone(&self) -> SystemTime { unimplemented!() } }
// std::cell::RefCell: only `RefCell::get_mut(&mut cell)` (statically checked exclusive access, no
// runtime borrow flag involved) is specified.
#[verifier::external_body]
#[verifier::accept_recursive_types(T)]
pub struct RefCell<T> { _p: core::marker::PhantomData<T> }
impl<T> RefCell<T> {
    pub uninterp spec fn val(&self) -> T;
    #[verifier::external_body]
    pub fn get_mut(&mut self) -> (r: &mut T)
        ensures *r == old(self).val(), final(self).val() == *final(r)
    { unimplemented!() }
}
