// std::net::SocketAddr in its real shape (enum of V4/V6), for code that matches on the variant
// (udp::max_payload, udp::send_to).  prelude/net.rs models SocketAddr as a flat {ip_, port_} struct,
// which cannot be matched; units needing the enum `@rename SocketAddr => SockAddr`.
// flowinfo / scope_id of V6 are not used by turmoil-net and not modelled.
#[derive(Clone, Copy, PartialEq, Eq, Debug, Hash)]
pub struct SocketAddrV4 { pub ip_: Ipv4Addr, pub port_: u16 }
#[derive(Clone, Copy, PartialEq, Eq, Debug, Hash)]
pub struct SocketAddrV6 { pub ip_: Ipv6Addr, pub port_: u16 }
#[derive(Clone, Copy, PartialEq, Eq, Debug, Hash)]
pub enum SockAddr { V4(SocketAddrV4), V6(SocketAddrV6) }
impl PartialEqSpecImpl for SockAddr {
    open spec fn obeys_eq_spec() -> bool { true }
    open spec fn eq_spec(&self, other: &SockAddr) -> bool { *self == *other }
}
impl SocketAddrV4 {
    pub fn ip(&self) -> (r: &Ipv4Addr) ensures *r == self.ip_ { &self.ip_ }
    pub fn port(&self) -> (r: u16) ensures r == self.port_ { self.port_ }
}
impl SocketAddrV6 {
    pub fn ip(&self) -> (r: &Ipv6Addr) ensures *r == self.ip_ { &self.ip_ }
    pub fn port(&self) -> (r: u16) ensures r == self.port_ { self.port_ }
}
impl SockAddr {
    pub open spec fn sip(&self) -> IpAddr {
        match *self { SockAddr::V4(a) => IpAddr::V4(a.ip_), SockAddr::V6(a) => IpAddr::V6(a.ip_) } }
    pub open spec fn sport(&self) -> u16 {
        match *self { SockAddr::V4(a) => a.port_, SockAddr::V6(a) => a.port_ } }
    pub fn new(ip: IpAddr, port: u16) -> (r: SockAddr) ensures r.sip() == ip, r.sport() == port {
        match ip {
            IpAddr::V4(a) => SockAddr::V4(SocketAddrV4 { ip_: a, port_: port }),
            IpAddr::V6(a) => SockAddr::V6(SocketAddrV6 { ip_: a, port_: port }),
        }
    }
    pub fn ip(&self) -> (r: IpAddr) ensures r == self.sip() {
        match self { SockAddr::V4(a) => IpAddr::V4(a.ip_), SockAddr::V6(a) => IpAddr::V6(a.ip_) } }
    pub fn port(&self) -> (r: u16) ensures r == self.sport() {
        match self { SockAddr::V4(a) => a.port_, SockAddr::V6(a) => a.port_ } }
    pub fn is_ipv4(&self) -> (b: bool) ensures b == (*self is V4) { match self { SockAddr::V4(_) => true, _ => false } }
    pub fn is_ipv6(&self) -> (b: bool) ensures b == (*self is V6) { match self { SockAddr::V6(_) => true, _ => false } }
}
pub proof fn lemma_sockaddr_ext(a: SockAddr, b: SockAddr)
    ensures (a.sip() == b.sip() && a.sport() == b.sport()) ==> a == b
{}
