// Barrier::wait: receiving from the barrier's channel and unpacking the payload.  Every item is an ASSUMED contract.

// Timeless rely: every message ever accepted by channel c carries a payload of type T.  (For a Barrier<T> this is what
// Barrier::build's type-erased condition plus trigger/trigger_noop give: only values on which the condition holds are sent,
// and it holds only on T values.)
pub uninterp spec fn chan_payload_is<T: 'static>(c: int) -> bool;

// `rx.recv().await` on an unbounded receiver (R11): suspends (the world moves on); resumes with the oldest message not
// yet handed out (FIFO, each message once), or with None when the channel is closed and drained.
#[verifier::external_body]
pub fn idiom_recv_await<T: 'static>(rx: &mut UnboundedReceiverC<Waker>, fx: &mut World) -> (r: Option<Waker>)
    ensures
        world_evolves(*old(fx), *final(fx)),
        final(rx).chan == old(rx).chan,
        r is Some ==> old(rx).pos@ < final(fx).log_of(old(rx).chan@).len()
            && r.unwrap() == final(fx).log_of(old(rx).chan@)[old(rx).pos@ as int]
            && final(rx).pos@ == old(rx).pos@ + 1
            && (chan_payload_is::<T>(old(rx).chan@) ==> box_is::<T>(r.unwrap().0)),
        r is None ==> final(rx).pos@ == old(rx).pos@ && old(rx).pos@ >= final(fx).log_of(old(rx).chan@).len(),
{ unimplemented!() }

// `Box<dyn Any + Send>::downcast::<T>()`.  The Err side hands the box back; it is only ever `unwrap`ped here, so the stub's
// error type is an opaque token (Result::unwrap needs E: Debug, which the stub trait object `dyn AnySend` does not offer).
#[derive(Debug)]
pub struct NotThisType;
pub trait BoxAnyDowncast: Sized {
    fn downcast<T: 'static>(self) -> core::result::Result<Box<T>, NotThisType>;
}
impl BoxAnyDowncast for Box<dyn AnySend> {
    #[verifier::external_body]
    fn downcast<T: 'static>(self) -> (r: core::result::Result<Box<T>, NotThisType>)
        ensures
            box_is::<T>(self) ==> r is Ok && *(r->Ok_0) == unboxed::<T>(self),
            !box_is::<T>(self) ==> r is Err,
    { unimplemented!() }
}
