// Round-3 additions for the public UdpSocket API (ASSUMED contracts on std / tokio).

// From<Ipv4Addr> for IpAddr (std): wraps the address
impl vstd::std_specs::convert::FromSpecImpl<Ipv4Addr> for IpAddr {
    open spec fn obeys_from_spec() -> bool { true }
    open spec fn from_spec(a: Ipv4Addr) -> IpAddr { IpAddr::V4(a) }
}
impl From<Ipv4Addr> for IpAddr {
    fn from(a: Ipv4Addr) -> (r: IpAddr) { IpAddr::V4(a) }
}
// std's reflexive `impl<T> From<T> for T` (hence Into<T> for T) is the identity
pub broadcast axiom fn axiom_ipaddr_into_refl(x: IpAddr, r: IpAddr)
    ensures #[trigger] call_ensures(<IpAddr as Into<IpAddr>>::into, (x,), r) ==> r == x;
// @broadcast axiom_ipaddr_into_refl

// format!(..) (R11 idiom): message text is not modelled
#[verifier::external_body]
pub fn idiom_udp_format() -> (s: String) { unimplemented!() }

// tokio::sync::Mutex::try_lock: the guard gives access to the protected value (prophecy-style: the mutex holds what the
// guard ends up holding); Err when another task holds the lock (always possible).  Modelled with `&mut self` (tokio: `&self`).
pub struct TryLockError { pub _p: () }
impl<T> Mutex<T> {
    #[verifier::external_body]
    pub fn try_lock(&mut self) -> (r: core::result::Result<&mut T, TryLockError>)
        ensures
            match r {
                Ok(g) => *g == old(self)@ && final(self)@ == *final(g),
                Err(_) => final(self)@ == old(self)@,
            }
    { unimplemented!() }
}

// R11 idioms for `match self.local_addr { SocketAddr::V4(addr) => addr.port(), _ => .. }` (this prelude models SocketAddr as
// (ip, port), not as the enum of SocketAddrV4/V6): the address itself if it is of that family
impl SocketAddr {
    pub fn idiom_v4(&self) -> (r: Option<SocketAddr>) ensures r == (if self.ip_ is V4 { Some(*self) } else { None::<SocketAddr> }) {
        match self.ip_ { IpAddr::V4(_) => Some(*self), IpAddr::V6(_) => None }
    }
    pub fn idiom_v6(&self) -> (r: Option<SocketAddr>) ensures r == (if self.ip_ is V6 { Some(*self) } else { None::<SocketAddr> }) {
        match self.ip_ { IpAddr::V6(_) => Some(*self), IpAddr::V4(_) => None }
    }
}
