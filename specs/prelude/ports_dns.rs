// Library stubs for the DNS half of unit `ports` (dns.rs).  Load after net.rs and ports_indexmap.rs.

// ---- String ----------------------------------------------------------------------------------------------------
// ASSUMED: a String value is determined by its contents.  The IndexMap stubs use spec equality of K as key equality,
// the real IndexMap<String, _> uses content equality (Hash + Eq of str); the two agree exactly under this axiom.
pub axiom fn axiom_string_ext(a: String, b: String)
    requires a@ == b@
    ensures a == b;

// R11 idioms on strings (ASSUMED, std docs): `(&s[..])` on a String is `s.as_str()`; `x.to_string()` on a `&&str`
// copies the text.
#[verifier::external_body]
pub fn idiom_string_full_slice(s: &String) -> (r: &str) ensures r@ == s@ { unimplemented!() }
#[verifier::external_body]
pub fn idiom_str_to_string(s: &&str) -> (r: String) ensures r@ == (**s)@ { unimplemented!() }

// ---- str::parse::<IpAddr>() ------------------------------------------------------------------------------------
// The textual syntax of addresses is not modelled: `parse_ip_spec` is the (deterministic) function std implements.
#[verifier::external_trait_specification]
pub trait ExFromStr: Sized {
    type ExternalTraitSpecificationFor: core::str::FromStr;
    type Err;
    fn from_str(s: &str) -> core::result::Result<Self, Self::Err>;
}
pub uninterp spec fn parse_ip_spec(s: Seq<char>) -> Option<IpAddr>;
pub struct AddrParseError { pub g: () }
impl core::str::FromStr for IpAddr {
    type Err = AddrParseError;
    #[verifier::external_body]
    fn from_str(s: &str) -> (r: core::result::Result<IpAddr, AddrParseError>)
        ensures match r { Ok(ip) => parse_ip_spec(s@) == Some(ip), Err(_) => parse_ip_spec(s@).is_none() }
    { unimplemented!() }
}
// str::parse::<F>() is F::from_str (std: `FromStr::from_str(self)`)
pub assume_specification<F: core::str::FromStr> [str::parse::<F>] (s: &str) -> (r: core::result::Result<F, F::Err>)
    requires parse_pre::<F>(s@),
    ensures call_ensures(F::from_str, (s,), r);
// Precondition of `s.parse::<F>()` in this model (Verus does not let an impl of the external trait FromStr declare a
// `requires`, so it sits on `str::parse`, the only way turmoil reaches from_str): per target type, fixed by the axioms
// below -- no condition for IpAddr (std's IpAddr / Ipv6Addr parsers reject zone ids) and u16, `sock_text_unscoped` for
// SocketAddr.
pub uninterp spec fn parse_pre<F>(s: Seq<char>) -> bool;
pub broadcast axiom fn axiom_parse_pre_ip(s: Seq<char>) ensures #[trigger] parse_pre::<IpAddr>(s);
pub broadcast axiom fn axiom_parse_pre_u16(s: Seq<char>) ensures #[trigger] parse_pre::<u16>(s);

// ---- Entry::or_insert_with(|| G.next()) (R11 idiom) -------------------------------------------------------------
// Verus rejects a closure that captures a `&mut` (here the address generator).  The idiom stub takes the generator
// explicitly.  ASSUMED (indexmap docs): `or_insert_with(f)` calls `f` exactly once iff the entry is vacant and appends
// (key, f()); an occupied entry is returned untouched and `f` is not called.  What one call of the generator does is
// NOT assumed: the unit implements `IdiomGen::idiom_gen` by calling the real, verified generator function.
pub trait IdiomGen<V>: Sized {
    spec fn gen_guard(&self) -> bool;   // what a call that RETURNS has checked about the generator (it panics otherwise)
    spec fn gen_val(&self) -> V;
    spec fn gen_next(&self) -> Self;
    fn idiom_gen(&mut self) -> (v: V)
        ensures old(self).gen_guard(), v == old(self).gen_val(), *final(self) == old(self).gen_next();
}
impl<'a, K, V> Entry<'a, K, V> {
    #[verifier::external_body]
    pub fn idiom_or_insert_with_gen<G: IdiomGen<V>>(self, g: &mut G) -> (r: &'a mut V)
        ensures
            match self {
                Entry::Occupied(o) => *final(g) == *old(g) && (im_has(o.map@, o.key) ==> *r == im_get(o.map@, o.key)
                    && final(o.map)@ == o.map@.update(im_idx(o.map@, o.key), (o.key, *final(r)))),
                Entry::Vacant(v) => old(g).gen_guard() && *r == old(g).gen_val() && *final(g) == old(g).gen_next()
                    && (!im_has(v.map@, v.key) ==> final(v.map)@ == v.map@.push((v.key, *final(r)))),
            }
    { unimplemented!() }
}

// ---- IndexMap<String, V>: lookup by &str (Borrow<str>), iter().find(), keys ------------------------------------
pub open spec fn name_has<V>(s: Seq<(String, V)>, n: Seq<char>) -> bool {
    exists|i: int| 0 <= i < s.len() && (#[trigger] s[i]).0@ == n
}
pub open spec fn name_idx<V>(s: Seq<(String, V)>, n: Seq<char>) -> int {
    choose|i: int| 0 <= i < s.len() && (#[trigger] s[i]).0@ == n
}
impl<V> IndexMap<String, V> {
    // R11 idiom for `map.get(k)` with `k: &str` (ASSUMED: get through Borrow<str> compares contents)
    #[verifier::external_body]
    pub fn idiom_get_str(&self, k: &str) -> (r: Option<&V>)
        ensures r == (if name_has(self@, k@) { Some(&self@[name_idx(self@, k@)].1) } else { None::<&V> }),
    { unimplemented!() }
}
#[verifier::external_body]
#[verifier::reject_recursive_types(K)]
#[verifier::accept_recursive_types(V)]
pub struct Iter<'a, K, V> { _p: core::marker::PhantomData<&'a (K, V)> }
impl<'a, K, V> View for Iter<'a, K, V> { type V = Seq<(K, V)>; uninterp spec fn view(&self) -> Seq<(K, V)>; }
impl<K, V> IndexMap<K, V> {
    // iter(): insertion order
    #[verifier::external_body]
    pub fn iter(&self) -> (r: Iter<'_, K, V>) ensures r@ == self@ { unimplemented!() }
}
impl<'a, K, V> Iter<'a, K, V> {
    // Iterator::find over (&K, &V) pairs: the first entry on which the predicate answers true (call-result style)
    #[verifier::external_body]
    pub fn find<P: FnMut(&(&'a K, &'a V)) -> bool>(&mut self, p: P) -> (r: Option<(&'a K, &'a V)>)
        requires forall|e: &(&K, &V)| #[trigger] p.requires((e,)),
        ensures
            match r {
                Some(kv) => exists|i: int| 0 <= i < old(self)@.len() && *kv.0 == (#[trigger] old(self)@[i]).0 && *kv.1 == old(self)@[i].1
                    && p.ensures((&(&old(self)@[i].0, &old(self)@[i].1),), true)
                    && (forall|j: int| #![trigger old(self)@[j]] 0 <= j < i ==> p.ensures((&(&old(self)@[j].0, &old(self)@[j].1),), false)),
                None => forall|j: int| #![trigger old(self)@[j]] 0 <= j < old(self)@.len() ==> p.ensures((&(&old(self)@[j].0, &old(self)@[j].1),), false),
            }
    { unimplemented!() }
}

// ---- SocketAddr conversions used by ToSocketAddrs -------------------------------------------------------------
// net.rs models SocketAddr as (ip, port); `(ip, port).into()` builds exactly that pair (std: From<(I, u16)> for SocketAddr).
pub use vstd::std_specs::convert::FromSpecImpl;
impl FromSpecImpl<(IpAddr, u16)> for SocketAddr {
    open spec fn obeys_from_spec() -> bool { true }
    open spec fn from_spec(p: (IpAddr, u16)) -> SocketAddr { SocketAddr { ip_: p.0, port_: p.1 } }
}
impl FromSpecImpl<(Ipv4Addr, u16)> for SocketAddr {
    open spec fn obeys_from_spec() -> bool { true }
    open spec fn from_spec(p: (Ipv4Addr, u16)) -> SocketAddr { SocketAddr { ip_: IpAddr::V4(p.0), port_: p.1 } }
}
impl FromSpecImpl<(Ipv6Addr, u16)> for SocketAddr {
    open spec fn obeys_from_spec() -> bool { true }
    open spec fn from_spec(p: (Ipv6Addr, u16)) -> SocketAddr { SocketAddr { ip_: IpAddr::V6(p.0), port_: p.1 } }
}
impl From<(IpAddr, u16)> for SocketAddr {
    fn from(p: (IpAddr, u16)) -> (r: SocketAddr) ensures r.ip_ == p.0, r.port_ == p.1 { SocketAddr { ip_: p.0, port_: p.1 } }
}
impl From<(Ipv4Addr, u16)> for SocketAddr {
    fn from(p: (Ipv4Addr, u16)) -> (r: SocketAddr) ensures r.ip_ == IpAddr::V4(p.0), r.port_ == p.1 { SocketAddr { ip_: IpAddr::V4(p.0), port_: p.1 } }
}
impl From<(Ipv6Addr, u16)> for SocketAddr {
    fn from(p: (Ipv6Addr, u16)) -> (r: SocketAddr) ensures r.ip_ == IpAddr::V6(p.0), r.port_ == p.1 { SocketAddr { ip_: IpAddr::V6(p.0), port_: p.1 } }
}
// In net.rs's flat (ip, port) model the enum constructors `SocketAddr::V4(a)` / `SocketAddr::V6(a)` are functions
// (SocketAddrV4/V6 come from nettcp_sockaddr.rs; flowinfo / scope id are not modelled: V6 requires them to be 0, `v6_plain`).
impl SocketAddr {
    pub fn V4(a: SocketAddrV4) -> (r: SocketAddr) ensures r.ip_ == IpAddr::V4(a.ip_), r.port_ == a.port_ { SocketAddr { ip_: IpAddr::V4(a.ip_), port_: a.port_ } }
    pub fn V6(a: SocketAddrV6) -> (r: SocketAddr) requires v6_plain(a), ensures r.ip_ == IpAddr::V6(a.ip_), r.port_ == a.port_ { SocketAddr { ip_: IpAddr::V6(a.ip_), port_: a.port_ } }
}
// `format!(..)` (R11 idiom): the text of an error message is not modelled
#[verifier::external_body]
pub fn idiom_format_msg() -> (s: String) { unimplemented!() }

// ---- pieces of `impl ToSocketAddrs for str` ("host:port" texts) ------------------------------------------------
pub uninterp spec fn parse_sock_spec(s: Seq<char>) -> Option<SocketAddr>;
// net.rs models SocketAddr as (ip, port) with structural `==`.  A real SocketAddr::V6 also carries flowinfo and a scope
// (zone) id, and `"[::ae%2]:10982".parse::<SocketAddr>()` is Ok, keeps scope id 2 and is != the parse of "[::ae]:10982"
// (found by stubcheck).  The model is exact only for texts without a zone id: stated as a precondition.
// sock_text_unscoped(s): the text carries no IPv6 zone id `%...`.
pub uninterp spec fn sock_text_unscoped(s: Seq<char>) -> bool;
// v6_plain(a): the real SocketAddrV6 behind `a` has flowinfo == 0 && scope_id == 0 (nettcp_sockaddr.rs's stub has no such
// fields, so this cannot be read off the model value).
pub uninterp spec fn v6_plain(a: SocketAddrV6) -> bool;
impl core::str::FromStr for SocketAddr {
    type Err = AddrParseError;
    #[verifier::external_body]
    fn from_str(s: &str) -> (r: core::result::Result<SocketAddr, AddrParseError>)
        ensures sock_text_unscoped(s@) ==> match r { Ok(a) => parse_sock_spec(s@) == Some(a), Err(_) => parse_sock_spec(s@).is_none() }
    { unimplemented!() }
}
pub broadcast axiom fn axiom_parse_pre_sock(s: Seq<char>) ensures #[trigger] parse_pre::<SocketAddr>(s) == sock_text_unscoped(s);
// @broadcast axiom_parse_pre_ip, axiom_parse_pre_u16, axiom_parse_pre_sock
// str::rsplit_once(':') : split at the LAST ':' (std docs); which index that is, is all that is modelled
pub open spec fn last_colon(s: Seq<char>) -> Option<int> {
    if exists|i: int| 0 <= i < s.len() && s[i] == ':' && (forall|j: int| i < j < s.len() ==> s[j] != ':') {
        Some(choose|i: int| 0 <= i < s.len() && s[i] == ':' && (forall|j: int| i < j < s.len() ==> s[j] != ':'))
    } else { None }
}
// R11 idiom for `s.rsplit_once(':')` (the Pattern trait is unstable and cannot be named in an assume_specification)
#[verifier::external_body]
pub fn idiom_rsplit_once_colon<'a>(s: &'a str) -> (r: Option<(&'a str, &'a str)>)
    ensures
        match r {
            Some((h, p)) => last_colon(s@) is Some && h@ == s@.take(last_colon(s@).unwrap()) && p@ == s@.skip(last_colon(s@).unwrap() + 1),
            None => last_colon(s@) is None,
        }
{ unimplemented!() }
// `port_str.parse::<u16>()`: the decimal syntax is not modelled (`parse_u16_spec` is the function std implements)
#[verifier::external_type_specification]
#[verifier::external_body]
pub struct ExParseIntError(core::num::ParseIntError);
pub uninterp spec fn parse_u16_spec(s: Seq<char>) -> Option<u16>;
pub assume_specification [<u16 as core::str::FromStr>::from_str] (s: &str) -> (r: core::result::Result<u16, core::num::ParseIntError>)
    ensures match r { Ok(v) => parse_u16_spec(s@) == Some(v), Err(_) => parse_u16_spec(s@).is_none() };

// ---- `assert!(c, "..")` as an intended guard (R11 idiom) --------------------------------------------------------
// turmoil's address generator PANICS when its subnet is used up (fix 478ecbe); that panic is the specified behaviour
// ("exhaustion fails rather than wrapping"), not a defect to be ruled out by a precondition.  The idiom stub states what
// `assert!` guarantees to the code after it: it returns only if the condition holds (std: panics otherwise).
#[verifier::external_body]
pub fn idiom_panic_unless(c: bool) ensures c { unimplemented!() }
