// ---- IndexSet: insertion-ordered set ----
#[verifier::external_body]
#[verifier::reject_recursive_types(T)]
pub struct IndexSet<T> { _p: core::marker::PhantomData<T> }
impl<T> View for IndexSet<T> {
    type V = Seq<T>;
    uninterp spec fn view(&self) -> Seq<T>;
}
pub broadcast axiom fn axiom_indexset_unique<T>(s: IndexSet<T>)
    ensures #[trigger] s@.no_duplicates();
impl<T> IndexSet<T> {
    #[verifier::external_body]
    pub fn new() -> (s: IndexSet<T>) ensures s@ == Seq::<T>::empty() { unimplemented!() }
    #[verifier::external_body]
    pub fn len(&self) -> (n: usize) ensures n == self@.len() { unimplemented!() }
    #[verifier::external_body]
    pub fn is_empty(&self) -> (b: bool) ensures b == (self@.len() == 0) { unimplemented!() }
    #[verifier::external_body]
    pub fn contains(&self, x: &T) -> (b: bool) ensures b == self@.contains(*x) { unimplemented!() }
    // insert: appended iff absent; returns whether it was newly inserted
    #[verifier::external_body]
    pub fn insert(&mut self, x: T) -> (b: bool)
        ensures b == !old(self)@.contains(x), final(self)@ == (if old(self)@.contains(x) { old(self)@ } else { old(self)@.push(x) }),
    { unimplemented!() }
    #[verifier::external_body]
    pub fn get_index(&self, i: usize) -> (r: Option<&T>)
        ensures r == (if i < self@.len() { Some(&self@[i as int]) } else { None::<&T> }),
    { unimplemented!() }
}
// `indexmap::IndexSet` / `indexmap::IndexMap` written with their crate path
pub mod indexmap {
    pub use super::IndexMap;
    pub use super::IndexSet;
}
// @broadcast axiom_indexset_unique
