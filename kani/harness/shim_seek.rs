// Kani twin of crates/turmoil-fs/src/shim/std/fs/mod.rs::<Seek for File>::seek (unit fsshim, property C10).
// The method is extracted verbatim (as an inherent method of the stand-in File).  std::io::{Error, ErrorKind, Result,
// SeekFrom} are the real std items; the cursor mutex, the thread-local Fs context and the Fs itself are stand-ins.
// Loop-free; the SeekFrom variant, its whole offset, the file length and the cursor are symbolic: complete proof.
#![allow(dead_code, unused)]
use std::io::{Error, ErrorKind, Result};
use std::os::fd::RawFd;

// ---------------------------------------------------------------- STUBS (trusted, hand-written)
// std::sync::Mutex<u64> guarding the cursor: single-threaded, never poisoned
struct Mutex<T>(std::cell::RefCell<T>);
impl<T> Mutex<T> { fn lock(&self) -> std::result::Result<std::cell::RefMut<'_, T>, ()> { Ok(self.0.borrow_mut()) } }
// shim::std::fs::File: the two fields seek touches
struct File { fd: RawFd, cursor: Mutex<u64> }
#[derive(Clone, PartialEq, Eq)]
struct PathBuf(u8);
struct Handles { fd: RawFd, path: PathBuf, present: bool }            // Fs.open_handles: IndexMap<RawFd, PathBuf> with at most one key
impl Handles { fn get(&self, fd: &RawFd) -> Option<&PathBuf> { if self.present && *fd == self.fd { Some(&self.path) } else { None } } }
// turmoil_fs::Fs: the handle table and `file_len` (answer = model input; fsshim.vspec: code_len of the handle's path)
struct Fs { open_handles: Handles, m_file_len: u64 }
impl Fs { fn file_len(&self, _p: &PathBuf) -> u64 { self.m_file_len } }
// FsContext::current: runs the closure on the one current Fs (a thread-local Arc<Mutex<Fs>> in the real crate)
static mut FS: Fs = Fs { open_handles: Handles { fd: 0, path: PathBuf(0), present: false }, m_file_len: 0 };
struct FsContext<'a> { fs: &'a mut Fs }
impl FsContext<'_> {
    fn current<R>(f: impl FnOnce(FsContext<'_>) -> R) -> R { f(FsContext { fs: unsafe { &mut *std::ptr::addr_of_mut!(FS) } }) }
}

// ---------------------------------------------------------------- EXTRACTED
impl File {
    //@@EXTRACT seek@@
}

#[cfg(kani)]
mod h {
    use super::*;
    use std::io::SeekFrom;

    // fsshim.vspec:
    //   // the new position, as std computes it (i64 arithmetic on the current position / the length); not representable or negative => InvalidInput
    //   spec fn seek_base(pos: SeekFrom, len: u64, cur: u64) -> int {
    //       match pos { SeekFrom::Start(o) => (o as i64) as int, SeekFrom::End(off) => (len as i64) as int + off, SeekFrom::Current(off) => (cur as i64) as int + off } }
    //   spec fn hlen(fs, fd) -> u64 { code_len(fs, handle_path(fs, fd)->0) as u64 }
    //   spec fn seek_ok(pos, len, cur) -> bool { 0 <= seek_base(pos, len, cur) <= i64::MAX }
    fn seek_base(which: u8, off: i64, len: u64, cur: u64) -> i128 {
        match which { 0 => ((off as u64) as i64) as i128, 1 => (len as i64) as i128 + off as i128, _ => (cur as i64) as i128 + off as i128 }
    }
    fn seek_ok(which: u8, off: i64, len: u64, cur: u64) -> bool { let b = seek_base(which, off, len, cur); 0 <= b && b <= i64::MAX as i128 }

    struct In { which: u8, off: i64, has_handle: bool, file_len: u64, cur: u64 }
    // Sub-domain the replay test can set up (a real file of that length): witness harnesses `_w` only, never a `pass`
    const REPLAYABLE_LEN: u64 = 65536;
    fn run(w: bool) -> (In, Result<u64>, u64, RawFd, RawFd) {
        // named inputs first, in the order of the twin spec (`which`: 0 = Start(off as u64), 1 = End(off), 2 = Current(off))
        let i = In { which: kani::any(), off: kani::any(), has_handle: kani::any(), file_len: kani::any(), cur: kani::any() };
        kani::assume(i.which < 3);
        if w { kani::assume(i.file_len <= REPLAYABLE_LEN); }
        let fd: RawFd = kani::any();
        unsafe { FS = Fs { open_handles: Handles { fd, path: PathBuf(kani::any()), present: i.has_handle }, m_file_len: i.file_len }; }
        let mut f = File { fd, cursor: Mutex(std::cell::RefCell::new(i.cur)) };
        let pos = match i.which { 0 => SeekFrom::Start(i.off as u64), 1 => SeekFrom::End(i.off), _ => SeekFrom::Current(i.off) };
        let res = f.seek(pos);
        let cur_after = *f.cursor.0.borrow();
        (i, res, cur_after, f.fd, fd)
    }
    fn err_kind(r: &Result<u64>) -> Option<ErrorKind> { match r { Err(e) => Some(e.kind()), Ok(_) => None } }

    // [C10.shim.cur.seek.badfd] (pos is End && handle_path(*old(fs), old(self).fd) is None) ==> res is Err && res->Err_0.kind_ == ErrorKind::NotFound && *final(cur) == *old(cur)
    fn seek_badfd_body(w: bool) {
        let (i, res, cur_after, _, _) = run(w);
        if i.which == 1 && !i.has_handle { assert!(err_kind(&res) == Some(ErrorKind::NotFound) && cur_after == i.cur, "C10.shim.cur.seek.badfd"); }
    }
    #[kani::proof] fn seek_badfd() { seek_badfd_body(false) }
    #[kani::proof] fn seek_badfd_w() { seek_badfd_body(true) }

    // [C10.shim.cur.seek] (handle_path(*old(fs), old(self).fd) is Some && seek_ok(pos, hlen(*old(fs), old(self).fd), *old(cur)))
    //     ==> res is Ok && res->Ok_0 as int == seek_base(pos, hlen(*old(fs), old(self).fd), *old(cur)) && *final(cur) == res->Ok_0
    fn seek_okay_body(w: bool) {
        let (i, res, cur_after, _, _) = run(w);
        if i.has_handle && seek_ok(i.which, i.off, i.file_len, i.cur) {
            let ok = match &res { Ok(v) => *v as i128 == seek_base(i.which, i.off, i.file_len, i.cur) && cur_after == *v, Err(_) => false };
            assert!(ok, "C10.shim.cur.seek");
        }
    }
    #[kani::proof] fn seek_okay() { seek_okay_body(false) }
    #[kani::proof] fn seek_okay_w() { seek_okay_body(true) }

    // [C10.shim.cur.seek.invalid] (handle_path(*old(fs), old(self).fd) is Some && !seek_ok(pos, hlen(*old(fs), old(self).fd), *old(cur)))
    //     ==> res is Err && res->Err_0.kind_ == ErrorKind::InvalidInput && *final(cur) == *old(cur)
    fn seek_invalid_body(w: bool) {
        let (i, res, cur_after, _, _) = run(w);
        if i.has_handle && !seek_ok(i.which, i.off, i.file_len, i.cur) {
            assert!(err_kind(&res) == Some(ErrorKind::InvalidInput) && cur_after == i.cur, "C10.shim.cur.seek.invalid");
        }
    }
    #[kani::proof] fn seek_invalid() { seek_invalid_body(false) }
    #[kani::proof] fn seek_invalid_w() { seek_invalid_body(true) }

    // [C10.shim.cur.seek.frame] *final(fs) == *old(fs) && *final(self) == *old(self)
    fn seek_frame_body(w: bool) {
        let (i, res, cur_after, fd_after, fd) = run(w);
        let fs = unsafe { &*std::ptr::addr_of!(FS) };
        assert!(fd_after == fd && fs.open_handles.present == i.has_handle && fs.open_handles.fd == fd && fs.m_file_len == i.file_len, "C10.shim.cur.seek.frame");
    }
    #[kani::proof] fn seek_frame() { seek_frame_body(false) }
    #[kani::proof] fn seek_frame_w() { seek_frame_body(true) }
}
