// Kani twin of crates/turmoil/src/ip.rs::IpVersionAddrIter::next (unit ports, property C15: simulated addresses).
// The enum and the method are extracted verbatim; no stand-in types (std::net is the real std).
// Loop-free; the variant and the whole counter (u32 / u128) are symbolic: complete proof.
// Since fix 478ecbe the method panics once the subnet is used up.  ports.vspec reads the two `assert!`s as guards
// (prelude idiom_panic_unless: the call returns only if the condition holds); the twin spec declares the same two panics as
// `guard_panics`: Kani reports them as failed checks, kanitwin reads them as "did not return" - never as a violation.
#![allow(dead_code, unused)]
use std::net::{IpAddr, Ipv4Addr, Ipv6Addr};

//@@EXTRACT IpVersionAddrIter@@

impl IpVersionAddrIter {
    //@@EXTRACT next@@
}

#[cfg(kani)]
mod h {
    use super::*;

    // ports.vspec ("bit patterns of the generated addresses, written exactly as the code computes them"):
    //   spec fn v4_bits(i: u32) -> u32 {
    //       ((192u8 as u32) << 24) | ((168u8 as u32) << 16) | ((((i >> 8) as u8) as u32) << 8) | (((i & 0xFF) as u8) as u32) }
    //   spec fn v6_bits(i: u128) -> u128 {
    //       ((0xfe80u16 as u128) << 112) | ((0u16 as u128) << 96) | ((0u16 as u128) << 80) | ((0u16 as u128) << 64)
    //       | (((((i >> 48) & 0xffff) as u16) as u128) << 48) | (((((i >> 32) & 0xffff) as u16) as u128) << 32)
    //       | (((((i >> 16) & 0xffff) as u16) as u128) << 16) | (((i & 0xffff) as u16) as u128) }
    //   spec fn iter_addr(it) -> IpAddr { match it { V4(i) => IpAddr::V4(Ipv4Addr { bits: v4_bits(i) }), V6(i) => IpAddr::V6(Ipv6Addr { bits: v6_bits(i) }) } }
    //   spec fn iter_succ(it) -> IpVersionAddrIter { match it { V4(i) => V4(if i == u32::MAX { 0 } else { (i + 1) as u32 }),
    //                                                           V6(i) => V6(if i == u128::MAX { 0 } else { (i + 1) as u128 }) } }
    // prelude/net.rs: `bits` of an address = its big-endian integer value (Ipv4Addr::new(a,b,c,d).bits = a<<24|b<<16|c<<8|d),
    // i.e. u32::from(Ipv4Addr) / u128::from(Ipv6Addr) in std.
    fn v4_bits(i: u32) -> u32 {
        ((192u8 as u32) << 24) | ((168u8 as u32) << 16) | ((((i >> 8) as u8) as u32) << 8) | (((i & 0xFF) as u8) as u32)
    }
    fn v6_bits(i: u128) -> u128 {
        ((0xfe80u16 as u128) << 112) | ((0u16 as u128) << 96) | ((0u16 as u128) << 80) | ((0u16 as u128) << 64)
            | (((((i >> 48) & 0xffff) as u16) as u128) << 48) | (((((i >> 32) & 0xffff) as u16) as u128) << 32)
            | (((((i >> 16) & 0xffff) as u16) as u128) << 16) | (((i & 0xffff) as u16) as u128)
    }
    fn mk(v6: bool, counter: u128) -> IpVersionAddrIter { if v6 { IpVersionAddrIter::V6(counter) } else { IpVersionAddrIter::V4(counter as u32) } }

    //   spec fn ctr_bound(it) -> int { match it { V4(_) => 0x1_0000, V6(_) => 0x1_0000_0000_0000_0000 } }
    //   spec fn iter_has_room(it) -> bool { ctr(it) < ctr_bound(it) }          // one more address inside the subnet
    fn iter_has_room(v6: bool, counter: u128) -> bool { if v6 { counter < 0x1_0000_0000_0000_0000 } else { ((counter as u32) as u128) < 0x1_0000 } }

    // [C15.ip.next.guard] iter_has_room(*old(self))            (an `ensures`: whenever the call RETURNS there was room)
    #[kani::proof]
    fn ip_next_guard() {
        let v6: bool = kani::any();
        let counter: u128 = kani::any();
        let mut it = mk(v6, counter);
        let _ = it.next();
        // reached only if next() returned
        assert!(iter_has_room(v6, counter), "C15.ip.next.guard");
    }

    // [C15.ip.next.addr] r == iter_addr(*old(self))
    #[kani::proof]
    fn ip_next_addr() {
        let v6: bool = kani::any();
        let counter: u128 = kani::any();
        let mut it = mk(v6, counter);
        let r = it.next();
        let ok = match r {
            IpAddr::V4(a) => !v6 && u32::from(a) == v4_bits(counter as u32),
            IpAddr::V6(a) => v6 && u128::from(a) == v6_bits(counter),
        };
        assert!(ok, "C15.ip.next.addr");
    }

    // [C15.ip.next.succ] *final(self) == iter_succ(*old(self))
    #[kani::proof]
    fn ip_next_succ() {
        let v6: bool = kani::any();
        let counter: u128 = kani::any();
        let mut it = mk(v6, counter);
        let _ = it.next();
        let ok = match it {
            IpVersionAddrIter::V4(n) => !v6 && n == (if counter as u32 == u32::MAX { 0 } else { counter as u32 + 1 }),
            IpVersionAddrIter::V6(n) => v6 && n == (if counter == u128::MAX { 0 } else { counter + 1 }),
        };
        assert!(ok, "C15.ip.next.succ");
    }
}
