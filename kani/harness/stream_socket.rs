// Kani twin of crates/turmoil/src/host.rs::StreamSocket::{new, assign_seq} and Tcp::assign_send_seq (unit hosttcp, property C02).
// struct StreamSocket, struct Tcp and the three methods are extracted verbatim; tokio's mpsc channel, the flow-control
// handle and IndexMap are the stand-ins below (capacity / one-entry models - the contents of the stream are not the subject
// of these clauses).  Loop-free; capacity, the stored sequence counter and the key comparison are symbolic: complete proofs.
#![allow(dead_code, unused)]

// ---------------------------------------------------------------- STUBS (trusted, hand-written)
#[derive(Clone, Copy, PartialEq, Eq)]
struct SocketPair(u8);                      // net/mod.rs::SocketPair: an opaque key
struct SequencedSegment;
struct ServerSocket;
mod mpsc {
    // tokio::sync::mpsc::channel(cap): a bounded channel with exactly `cap` slots (prelude hosttcp_sync.rs: sender@.cap)
    pub struct Sender<T> { pub cap: usize, pub _p: core::marker::PhantomData<T> }
    pub struct Receiver<T> { pub _p: core::marker::PhantomData<T> }
    pub fn channel<T>(cap: usize) -> (Sender<T>, Receiver<T>) {
        assert!(cap > 0, "mpsc bounded channel requires buffer > 0");       // tokio's own precondition
        (Sender { cap, _p: core::marker::PhantomData }, Receiver { _p: core::marker::PhantomData })
    }
}
// net/tcp/stream.rs::BidiFlowControl::new(capacity): `capacity` credits per direction ([C02.bidi.new]; fc_capacity(b) = initial credits)
#[derive(Clone, PartialEq, Eq)]
struct BidiFlowControl { capacity: usize }
impl BidiFlowControl { fn new(capacity: usize) -> Self { BidiFlowControl { capacity } } }
// indexmap::IndexMap with at most one entry (new / get_mut are the only calls)
struct IndexMap<K, V> { e: Option<(K, V)> }
impl<K: PartialEq, V> IndexMap<K, V> {
    fn new() -> Self { IndexMap { e: None } }
    fn get_mut(&mut self, k: &K) -> Option<&mut V> { match &mut self.e { Some((kk, v)) if *kk == *k => Some(v), _ => None } }
    fn is_empty(&self) -> bool { self.e.is_none() }
}

// ---------------------------------------------------------------- EXTRACTED
//@@EXTRACT StreamSocket@@
//@@EXTRACT Tcp@@
impl StreamSocket {
    //@@EXTRACT new@@
    //@@EXTRACT assign_seq@@
}
impl Tcp {
    //@@EXTRACT assign_send_seq@@
}

#[cfg(kani)]
mod h {
    use super::*;
    // hosttcp.vspec:  requires 1 <= capacity < MPSC_MAX_CAP   (tokio rejects capacities above Semaphore::MAX_PERMITS = usize::MAX >> 3)
    const MPSC_MAX_CAP: usize = usize::MAX >> 3;

    // [C02.new.state] r.0.next_send_seq == 1 && r.0.recv_seq == 0 && r.0.buf@ == Seq::<(u64, SequencedSegment)>::empty() && r.0.ref_ct == 2
    #[kani::proof]
    fn ss_new_state() {
        let capacity: usize = kani::any();
        kani::assume(1 <= capacity && capacity < MPSC_MAX_CAP);
        let r = StreamSocket::new(capacity);
        assert!(r.0.next_send_seq == 1 && r.0.recv_seq == 0 && r.0.buf.is_empty() && r.0.ref_ct == 2, "C02.new.state");
    }
    // [C02.new.finroom] r.0.sender@.cap > fc_capacity(r.0.flow_control)
    // (fc_capacity(r.0.flow_control) == capacity is [C02.new.fc]; the replay test compares with `capacity`, the credit
    // counter itself is private to net/tcp/stream.rs)
    #[kani::proof]
    fn ss_new_finroom() {
        let capacity: usize = kani::any();
        kani::assume(1 <= capacity && capacity < MPSC_MAX_CAP);
        let r = StreamSocket::new(capacity);
        assert!(r.0.sender.cap > r.0.flow_control.capacity, "C02.new.finroom");
    }

    // [C02.seq.assign] match r {
    //     None => !im_has(old(self).sockets@, pair) && final(self).sockets@ == old(self).sockets@,
    //     Some(q) => im_has(old(self).sockets@, pair) && q == im_get(old(self).sockets@, pair).next_send_seq && final(self).sockets@ ==
    //         old(self).sockets@.update(im_idx(..), (pair, StreamSocket { next_send_seq: (q + 1) as u64, ..im_get(old(self).sockets@, pair) })) }
    //   requires im_has(old(self).sockets@, pair) ==> im_get(old(self).sockets@, pair).next_send_seq < u64::MAX
    #[kani::proof]
    fn tcp_seq_assign() {
        let next_send_seq: u64 = kani::any();
        let recv_seq: u64 = kani::any();
        let present: bool = kani::any();
        let same_key: bool = kani::any();
        kani::assume(next_send_seq < u64::MAX);
        let (stored, asked) = (SocketPair(1), if same_key { SocketPair(1) } else { SocketPair(2) });
        let cap: usize = kani::any();
        let ref_ct: usize = kani::any();
        let sock = StreamSocket { buf: IndexMap::new(), next_send_seq, recv_seq, sender: mpsc::Sender { cap, _p: core::marker::PhantomData },
                                  flow_control: BidiFlowControl { capacity: cap }, ref_ct };
        let mut tcp = Tcp { binds: IndexMap::new(), server_socket_capacity: kani::any(), sockets: IndexMap { e: if present { Some((stored, sock)) } else { None } },
                            socket_capacity: kani::any() };
        let r = tcp.assign_send_seq(asked);
        let has = present && same_key;
        let ok = match r {
            None => !has && (match &tcp.sockets.e { None => !present, Some((k, s)) => present && *k == stored && s.next_send_seq == next_send_seq && s.recv_seq == recv_seq && s.ref_ct == ref_ct }),
            Some(q) => has && q == next_send_seq && (match &tcp.sockets.e {
                Some((k, s)) => *k == stored && s.next_send_seq == q + 1 && s.recv_seq == recv_seq && s.ref_ct == ref_ct && s.sender.cap == cap && s.flow_control.capacity == cap && s.buf.is_empty(),
                None => false }),
        };
        assert!(ok, "C02.seq.assign");
    }
}
