// Kani twin of crates/turmoil-net/src/kernel/udp.rs::max_payload (unit nettcp, property C16).
// Loop-free; both MTUs, the address family, every address bit and the port are symbolic: complete proof.
#![allow(dead_code, unused)]
use std::net::{IpAddr, Ipv4Addr, Ipv6Addr, SocketAddr};

// STUB (trusted, hand-written): the two fields of kernel::Kernel that max_payload reads.
struct Kernel { mtu: u32, loopback_mtu: u32 }

mod packet { pub(crate) use super::{IPV4_HEADER_SIZE, IPV6_HEADER_SIZE, UDP_HEADER_SIZE}; }
//@@EXTRACT IPV4_HEADER_SIZE@@
//@@EXTRACT IPV6_HEADER_SIZE@@
//@@EXTRACT UDP_HEADER_SIZE@@

//@@EXTRACT max_payload@@

#[cfg(kani)]
mod h {
    use super::*;

    // nettcp.vspec:
    //   spec fn sat_sub(a: int, b: int) -> int { if a >= b { a - b } else { 0 } }
    //   spec fn ip_hdr_of(ip: IpAddr) -> int { if ip is V4 { 20 } else { 40 } }
    //   spec fn mtu_of(k: Kernel, ip: IpAddr) -> int { if ip.spec_is_loopback() { k.loopback_mtu as int } else { k.mtu as int } }
    //   spec fn udp_max_spec(k: Kernel, ip: IpAddr) -> int { sat_sub(sat_sub(mtu_of(k, ip), ip_hdr_of(ip)), 8) }
    // prelude/net.rs: Ipv4Addr::spec_is_loopback = (bits >> 24) == 127;  Ipv6Addr::spec_is_loopback = bits == 1
    fn sat_sub(a: u64, b: u64) -> u64 { if a >= b { a - b } else { 0 } }
    fn ip_hdr_of(v6: bool) -> u64 { if !v6 { 20 } else { 40 } }
    fn spec_is_loopback(v6: bool, bits: u128) -> bool { if !v6 { ((bits as u32) >> 24) == 127 } else { bits == 1 } }
    fn mtu_of(k: &Kernel, v6: bool, bits: u128) -> u64 { if spec_is_loopback(v6, bits) { k.loopback_mtu as u64 } else { k.mtu as u64 } }
    fn udp_max_spec(k: &Kernel, v6: bool, bits: u128) -> u64 { sat_sub(sat_sub(mtu_of(k, v6, bits), ip_hdr_of(v6)), 8) }
    fn sa(v6: bool, bits: u128, port: u16) -> SocketAddr {
        SocketAddr::new(if v6 { IpAddr::V6(Ipv6Addr::from(bits)) } else { IpAddr::V4(Ipv4Addr::from(bits as u32)) }, port)
    }

    // [C16.udp.max.exact] r == udp_max_spec(*k, dst.sip())
    #[kani::proof]
    fn udp_max_exact() {
        let mtu: u32 = kani::any();
        let loopback_mtu: u32 = kani::any();
        let v6: bool = kani::any();
        let bits: u128 = kani::any();
        let port: u16 = kani::any();
        let k = Kernel { mtu, loopback_mtu };
        let r = max_payload(&k, &sa(v6, bits, port));
        assert!(r as u64 == udp_max_spec(&k, v6, bits), "C16.udp.max.exact");
    }

    // [C16.udp.max.fits] r + 8 + ip_hdr_of(dst.sip()) <= mtu_of(*k, dst.sip()) || r == 0
    #[kani::proof]
    fn udp_max_fits() {
        let mtu: u32 = kani::any();
        let loopback_mtu: u32 = kani::any();
        let v6: bool = kani::any();
        let bits: u128 = kani::any();
        let port: u16 = kani::any();
        let k = Kernel { mtu, loopback_mtu };
        let r = max_payload(&k, &sa(v6, bits, port));
        assert!(r as u64 + 8 + ip_hdr_of(v6) <= mtu_of(&k, v6, bits) || r == 0, "C16.udp.max.fits");
    }
}
