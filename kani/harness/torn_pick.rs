// Kani twin of the per-write decision of crates/turmoil-fs/src/lib.rs::Fs::apply_torn_writes (unit fs, property C07): the
// body of the closure given to `filter_map`, lifted verbatim (the same R5 lift fs.vspec uses, there called `torn_pick`).
// enum PendingOp is extracted verbatim too.  The byte CONTENT of a write is not modelled here (lengths only): the clause's
// "surviving prefix has the bytes of the original" part stays with Verus; this twin covers the integer part - which lengths
// can survive.  Loop-free, but BOUNDED in width: data length and block size below 2^16 (offset, draw, flags unrestricted) - the
// symbolic 64-bit division / multiplication / remainder of this arithmetic is out of reach for CaDiCaL and z3 (> 200 s).
#![allow(dead_code, unused)]
use std::ops::{Index, RangeInclusive, RangeTo};
use std::time::Duration;

// ---------------------------------------------------------------- STUBS (trusted, hand-written)
#[derive(Clone, PartialEq, Eq)]
struct PathBuf(u8);
// Vec<u8> as a length: `data.len()`, `data[..n]` (panics past the end, like a slice) and `.to_vec()` of that prefix
#[derive(Clone)]
struct Vec<T> { len: usize, _p: core::marker::PhantomData<T> }
#[derive(Clone, Copy)]
struct Byte;                                        // zero-sized + Copy: a `[Byte]` of any length needs no memory, to_vec() is loop-free
impl<T> Vec<T> { fn len(&self) -> usize { self.len } }
impl<T> Index<RangeTo<usize>> for Vec<T> {
    type Output = [Byte];
    fn index(&self, r: RangeTo<usize>) -> &[Byte] {
        assert!(r.end <= self.len, "range end index out of range for slice");
        unsafe { std::slice::from_raw_parts(std::ptr::NonNull::<Byte>::dangling().as_ptr(), r.end) }
    }
}
// Fs.synced_entries: IndexSet<PathBuf> with at most one element
struct Synced { p: PathBuf, present: bool }
impl Synced { fn contains(&self, p: &PathBuf) -> bool { self.present && *p == self.p } }
struct Fs { synced_entries: Synced }
// rand::Rng::random_range(lo..=hi) on usize: ASSUMED as in specs/prelude/fs_torn.rs (idiom_random_range_incl) -
// "some value of the closed range; which one is unconstrained".  The value is fixed up front so that it is a named input.
trait RngCore { fn random_range(&mut self, r: RangeInclusive<usize>) -> usize; }
struct Draw { v: usize, calls: u8 }
impl RngCore for Draw {
    fn random_range(&mut self, r: RangeInclusive<usize>) -> usize { self.calls += 1; kani::assume(*r.start() <= self.v && self.v <= *r.end()); self.v }
}

// ---------------------------------------------------------------- EXTRACTED
//@@EXTRACT PendingOp@@

impl Fs {
    // header as declared by the sidecar's lift: params self_: &Fs, block_size: u64, rng: &mut dyn RngCore, op: &PendingOp
    fn torn_pick(&self, block_size: u64, rng: &mut dyn RngCore, op: &PendingOp) -> Option<(PathBuf, u64, std::vec::Vec<Byte>, Duration)>
    //@@EXTRACT torn_pick_body@@
}

#[cfg(kani)]
mod h {
    use super::*;

    // fs.vspec / prelude fs_torn.rs:
    //   spec fn ceil_div(a: int, b: int) -> int { (a + b - 1) / b }
    //   spec fn min_int(a, b) -> int
    //   spec fn torn_len_ok(len: int, bs: int, k: int) -> bool { exists|j: int| 0 <= j <= ceil_div(len, bs) && #[trigger] min_int(j * bs, len) == k }
    //   spec fn torn_prefix_ok(data, bs, d) -> bool { torn_len_ok(data.len(), bs, d.len()) && d.len() <= data.len() && (d is a prefix of data) }
    //   spec fn torn_pick_rel(synced, bs, op, w) -> bool { match op { PendingOp::Write { path, offset, data, time } =>
    //       w.0 == path && w.1 == offset && w.3 == time && synced.contains(path) && w.2@.len() > 0 && torn_prefix_ok(data@, bs as int, w.2@), _ => false } }
    //   requires block_size > 0, torn_fits_op(*op, block_size)     // ceil_div(len, bs) * bs <= u64::MAX && offset + len <= usize::MAX
    // For bs > 0 and 0 <= k:  torn_len_ok(len, bs, k)  <=>  k <= len && (k == len || k % bs == 0)
    //   (=>: min(j*bs, len) is len or a multiple of bs;  <=: k == len take j = ceil_div(len, bs); k < len, k = q*bs take j = q <= ceil_div).
    // The closed form is what is asserted (an existential over j is not executable); the replay test searches j.
    fn torn_len_ok(len: u64, bs: u64, k: u64) -> bool { k <= len && (k == len || k % bs == 0) }

    const BOUND: usize = 1 << 16;
    struct In { len: usize, block_size: u64, draw: usize, synced: bool, offset: u64 }
    // Sub-domain the replay test can build (a real Vec of that length, a file of offset + len bytes): `_w` witnesses only
    fn replayable(i: &In) -> bool { i.len <= (1 << 20) && i.offset <= 4096 }
    fn inputs(w: bool, bounded: bool) -> In {
        // named inputs first, in the order of the twin spec
        let i = In { len: kani::any(), block_size: kani::any(), draw: kani::any(), synced: kani::any(), offset: kani::any() };
        kani::assume(i.block_size > 0);
        if bounded {
            // THE BOUND of the torn_pick harnesses: data length and block size below 2^16.  (With all 64 bits symbolic the
            // remainder in torn_len_ok on top of the code's division and multiplication was not decided within 200 s by
            // CaDiCaL or z3; inside the bound CaDiCaL needs about 80 s.)  torn_fits_op's product bound holds inside it.
            kani::assume(i.len < BOUND && i.block_size < BOUND as u64);
        } else {
            // torn_fits_op: no u64 overflow in surviving_blocks * block_size
            let total = (i.len as u128 + i.block_size as u128 - 1) / i.block_size as u128;
            kani::assume(total * i.block_size as u128 <= u64::MAX as u128);
        }
        kani::assume(i.offset as u128 + i.len as u128 <= usize::MAX as u128);      // torn_fits_op: the write fits the platform
        if w { kani::assume(replayable(&i)); }
        i
    }
    fn run(w: bool, bounded: bool) -> (In, Option<(PathBuf, u64, std::vec::Vec<Byte>, Duration)>, Duration) {
        let i = inputs(w, bounded);
        let time = Duration::new(kani::any(), 0);
        let fs = Fs { synced_entries: Synced { p: PathBuf(1), present: i.synced } };
        let op = PendingOp::Write { path: PathBuf(1), offset: i.offset, data: Vec { len: i.len, _p: core::marker::PhantomData }, time };
        let mut rng = Draw { v: i.draw, calls: 0 };
        let r = fs.torn_pick(i.block_size, &mut rng, &op);
        (i, r, time)
    }

    // [C07.torn.pick] r is Some ==> torn_pick_rel(self_.synced_entries@, block_size, *op, r->0)
    fn torn_pick_body(w: bool) {
        let (i, r, time) = run(w, true);
        if let Some(wr) = r {
            let k = wr.2.len() as u64;
            assert!(wr.0 == PathBuf(1) && wr.1 == i.offset && wr.3 == time && i.synced && k > 0 && torn_len_ok(i.len as u64, i.block_size, k), "C07.torn.pick");
        }
    }
    #[kani::proof] fn torn_pick() { torn_pick_body(false) }
    #[kani::proof] fn torn_pick_w() { torn_pick_body(true) }

    // [C07.torn.pick.aligned] min_int(surviving_blocks as int * block_size as int, data@.len() as int) == surviving_bytes as int
    // (an assertion inside the body, at `Some((`: surviving_blocks is the generator's draw, surviving_bytes the length handed on)
    fn torn_aligned_body(w: bool) {
        let (i, r, time) = run(w, true);          // (unbounded, the 128-bit form of torn_fits_op alone kept CaDiCaL and z3 busy for > 200 s)
        if let Some(wr) = r {
            let want = core::cmp::min(i.draw as u128 * i.block_size as u128, i.len as u128);
            assert!(wr.2.len() as u128 == want, "C07.torn.pick.aligned");
        }
    }
    #[kani::proof] fn torn_aligned() { torn_aligned_body(false) }
    #[kani::proof] fn torn_aligned_w() { torn_aligned_body(true) }
}
