// Kani twin of crates/turmoil-io-uring/src/sim.rs::exec_write (unit uring, property C18).
// exec_write, direct_io_aligned and the four errno constants are extracted verbatim.  turmoil_fs::Fs is the stand-in below:
// like the unit-local stub of uring.vspec it keeps the fields the io_uring crate reads and turns file_len / check_space /
// write_file / sync_file into a recorded model (answers are inputs, calls are logged).
// Loop-free; fd, pointer value, len, offset, file length, alignment, both probabilities and both draw outcomes are
// symbolic: a pass is a complete proof of the clause's projection onto (result code, calls made) over this stand-in.
#![allow(dead_code, unused)]
use std::os::fd::RawFd;
use std::time::Duration;

// ---------------------------------------------------------------- STUBS (trusted, hand-written)
#[derive(Clone, PartialEq, Eq)]
struct PathBuf(u8);
struct Handles { fd: RawFd, path: PathBuf, present: bool }            // IndexMap<RawFd, PathBuf> with at most one key
impl Handles { fn get(&self, fd: &RawFd) -> Option<&PathBuf> { if self.present && *fd == self.fd { Some(&self.path) } else { None } } }
struct FdSet { fd: RawFd, present: bool }                              // IndexSet<RawFd> with at most one element
impl FdSet { fn contains(&self, fd: &RawFd) -> bool { self.present && *fd == self.fd } }
struct Fs {
    open_handles: Handles, direct_io_fds: FdSet, direct_io_alignment: u64, io_error_probability: f64, sync_probability: f64,
    // model answers
    m_file_len: u64, m_space_ok: bool,
    // call log
    asked_space: Option<u64>, writes: u8, wrote: Option<(PathBuf, u64, usize)>, syncs: u8,
}
impl Fs {
    fn file_len(&self, _path: &PathBuf) -> u64 { self.m_file_len }
    fn check_space(&mut self, additional_bytes: u64) -> Result<(), &'static str> {      // (&self in the real Fs; &mut here only to log)
        self.asked_space = Some(additional_bytes);
        if self.m_space_ok { Ok(()) } else { Err("No space left on device") }
    }
    fn write_file(&mut self, path: &PathBuf, offset: u64, data: &[u8], _time: Duration) {
        self.writes += 1;
        self.wrote = Some((path.clone(), offset, data.len()));
    }
    fn sync_file(&mut self, _path: &PathBuf) -> Result<(), &'static str> { self.syncs += 1; if kani::any() { Ok(()) } else { Err("No such file or directory") } }
}
// rand::RngCore: exec_write only hands the generator to sample_prob
trait RngCore { fn outcome(&mut self) -> bool; }
struct Draws { outcomes: [bool; 2], used: usize }
impl RngCore for Draws { fn outcome(&mut self) -> bool { let b = self.outcomes[self.used]; self.used += 1; b } }
// sim.rs::sample_prob: ASSUMED as in uring.vspec -  ensures adm(p, b)  with
//   spec fn adm(p: f64, outcome: bool) -> bool { (prob_never(p) ==> !outcome) && (prob_always(p) ==> outcome) }   // p <= 0.0 / p >= 1.0
fn sample_prob(rng: &mut dyn RngCore, p: f64) -> bool {
    let b = rng.outcome();
    kani::assume(!(p <= 0.0) || !b);
    kani::assume(!(p >= 1.0) || b);
    b
}
// std::slice::from_raw_parts (replaced through `-Z stubbing`): the same fat pointer without CBMC demanding `len` valid bytes
// behind it; the Fs stand-in reads data.len() only.
unsafe fn raw_parts_len_only<'a, T>(data: *const T, len: usize) -> &'a [T] {
    std::mem::transmute::<*const [T], &'a [T]>(std::ptr::slice_from_raw_parts(data, len))
}

// ---------------------------------------------------------------- EXTRACTED
//@@EXTRACT EBADF@@
//@@EXTRACT EIO@@
//@@EXTRACT ENOSPC@@
//@@EXTRACT EINVAL@@
//@@EXTRACT direct_io_aligned@@
//@@EXTRACT exec_write@@

#[cfg(kani)]
mod h {
    use super::*;

    // uring.vspec:
    //   spec fn is_mult(x: int, a: int) -> bool { if a == 0 { x == 0 } else { x % a == 0 } }
    //   spec fn sat_sub(a: int, b: int) -> int { if a >= b { a - b } else { 0 } }
    //   spec fn uring_aligned(fs, ptr, offset, len) -> bool { fs.direct_io_alignment == 0 || (is_mult(ptr, align as usize) && is_mult(offset, align) && is_mult(len, align)) }
    //   spec fn u_write(fs, fd, ptr, len, offset, now, io_err, spont) -> (i32, Fs) {
    //       match handle_path(fs, fd) {
    //           None => (-9i32, fs),
    //           Some(path) =>
    //               if fs.direct_io_fds@.contains(fd) && !uring_aligned(fs, ptr as usize, offset, len) { (-22i32, fs) }
    //               else if io_err { (-5i32, fs) }
    //               else if offset + len > u64::MAX { (-22i32, fs) }   // checked_add: an end past u64::MAX is an invalid request
    //               else {
    //                   let additional = sat_sub(offset + len, fs_file_len(fs, path) as int);
    //                   if additional > 0 && !fs_space_ok(fs, additional as u64) { (-28i32, fs) }
    //                   else { let fs1 = fs_after_write(fs, path, offset, raw_mem(ptr, len as nat), now);
    //                          (len as i32, if spont { fs_after_sync(fs1, path) } else { fs1 }) } } } }
    //   write_does = write_case for SOME admissible outcome (io_err, spont) of the two draws; the io-error draw happens only
    //   after the EBADF and alignment guards, the spontaneous-sync draw only after the write.
    // Projection checked here: the result code, and which of (check_space, write_file, sync_file) ran with which arguments.
    fn is_mult(x: u64, a: u64) -> bool { if a == 0 { x == 0 } else { x % a == 0 } }
    fn uring_aligned(alignment: u64, ptr: usize, offset: u64, len: u32) -> bool {
        alignment == 0 || (is_mult(ptr as u64, (alignment as usize) as u64) && is_mult(offset, alignment) && is_mult(len as u64, alignment))
    }
    #[derive(PartialEq, Eq)]
    struct Model { code: i32, wrote: bool, synced: bool }
    fn u_write(i: &In, aligned: bool) -> Model {
        if !i.has_handle { return Model { code: -9, wrote: false, synced: false }; }
        if i.direct && !aligned { return Model { code: -22, wrote: false, synced: false }; }
        if i.io_err { return Model { code: -5, wrote: false, synced: false }; }
        let end = i.offset as u128 + i.len as u128;
        if end > u64::MAX as u128 { return Model { code: -22, wrote: false, synced: false }; }
        let additional = if end >= i.file_len as u128 { end - i.file_len as u128 } else { 0 };
        if additional > 0 && !i.space_ok { return Model { code: -28, wrote: false, synced: false }; }
        Model { code: i.len as i32, wrote: true, synced: i.spont }
    }

    struct In { has_handle: bool, direct: bool, alignment: u64, ptr: usize, len: u32, offset: u64, io_err: bool, spont: bool, file_len: u64, space_ok: bool }
    // Sub-domain the replay test can set up on a real Fs from this crate (witness harnesses `_w` only; never a `pass`):
    // a buffer of at most 64 KiB, an empty file, an alignment the test can realise by shifting the buffer.
    fn replayable(i: &In) -> bool { i.len <= 65536 && i.file_len == 0 && i.alignment <= 4096 }

    fn run(w: bool) -> (In, i32, Fs, Draws, bool) {
        // named inputs first, in the order of the twin spec
        let i = In { has_handle: kani::any(), direct: kani::any(), alignment: kani::any(), ptr: kani::any(), len: kani::any(), offset: kani::any(),
                     io_err: kani::any(), spont: kani::any(), file_len: kani::any(), space_ok: kani::any() };
        if w { kani::assume(replayable(&i)); }
        kani::assume(i.ptr != 0);
        let fd: RawFd = kani::any();
        let mut fs = Fs { open_handles: Handles { fd, path: PathBuf(kani::any()), present: i.has_handle }, direct_io_fds: FdSet { fd, present: i.direct },
                          direct_io_alignment: i.alignment, io_error_probability: kani::any(), sync_probability: kani::any(),
                          m_file_len: i.file_len, m_space_ok: i.space_ok, asked_space: None, writes: 0, wrote: None, syncs: 0 };
        let mut rng = Draws { outcomes: [i.io_err, i.spont], used: 0 };
        let now = Duration::new(kani::any(), 0);
        // the oracle's alignment verdict is the spec function (z3 decides the symbolic 64-bit remainders; the SAT back ends
        // did not finish within 300 s, see the twin spec's kani_args)
        let aligned = uring_aligned(i.alignment, i.ptr, i.offset, i.len);
        let r = exec_write(&mut fs, &mut rng, fd, i.ptr as *const u8, i.len, i.offset, now);
        (i, r, fs, rng, aligned)
    }

    // [C18.exec.write.does] write_does(*old(fs), fd, ptr, len, offset, now, r, *final(fs))
    fn write_does_body(w: bool) {
        let (i, r, fs, rng, aligned) = run(w);
        let m = u_write(&i, aligned);
        // the draws: none before the guards pass, the io-error draw first, the sync draw only after a write
        let reached_io = i.has_handle && !(i.direct && !aligned);
        let expected_draws = if !reached_io { 0 } else if !m.wrote { 1 } else { 2 };
        let ok = r == m.code
            && rng.used == expected_draws
            && fs.writes == (if m.wrote { 1 } else { 0 })
            && (!m.wrote || fs.wrote == Some((fs.open_handles.path.clone(), i.offset, i.len as usize)))
            && fs.syncs == (if m.synced { 1 } else { 0 });
        assert!(ok, "C18.exec.write.does");
    }
    #[kani::proof]
    #[kani::stub(std::slice::from_raw_parts, raw_parts_len_only)]
    fn write_does() { write_does_body(false) }
    #[kani::proof]
    #[kani::stub(std::slice::from_raw_parts, raw_parts_len_only)]
    fn write_does_w() { write_does_body(true) }

    // [uring.exec_write.body] (automatic obligation of the unit: no reachable panic / overflow / failed unwrap in the body)
    // Kani checks exactly that on every path of the extracted text; the assertion below is only the anchor for the label.
    fn write_body_body(w: bool) {
        let (i, r, fs, rng, aligned) = run(w);
        assert!(r <= i32::MAX, "uring.exec_write.body");
    }
    #[kani::proof]
    #[kani::stub(std::slice::from_raw_parts, raw_parts_len_only)]
    fn write_body() { write_body_body(false) }
    #[kani::proof]
    #[kani::stub(std::slice::from_raw_parts, raw_parts_len_only)]
    fn write_body_w() { write_body_body(true) }
}
