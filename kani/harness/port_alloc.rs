// Kani twin of crates/turmoil-net/src/kernel/socket.rs::PortAllocator::{new, allocate} (unit nettable, property C17).
// The struct and both methods are extracted verbatim; there are NO stand-in types (RangeInclusive<u16> is std's).
// allocate loops over the range, so this twin is BOUNDED: ranges of 1..=4 ports (any position in u16, any cursor inside),
// `in_use` = membership in any set of at most 4 ports (so a full range is reachable).  Unwinding assertions are on
// (unwind 6): nothing is cut off inside the bound.  Reported as kani-bounded, never as a proof.
#![allow(dead_code, unused)]
use std::ops::RangeInclusive;

//@@EXTRACT PortAllocator@@

impl PortAllocator {
    //@@EXTRACT new@@
    //@@EXTRACT allocate@@
}

#[cfg(kani)]
mod h {
    use super::*;

    // nettable.vspec:
    //   spec fn cand(lo, hi, c0, k) -> int { if c0 + k <= hi { c0 + k } else { c0 + k - (hi - lo + 1) } }      // k-th port in cyclic order from c0
    //   spec fn in_range(lo, hi, p) -> bool { lo <= p <= hi }
    //   spec fn first_free_at(a, f, p, k) -> bool { 0 <= k < a.hi() - a.lo() + 1 && p == cand(a.lo(), a.hi(), a.cursor, k)
    //       && (forall|j| 0 <= j < k ==> f.ensures((cand(a.lo(), a.hi(), a.cursor, j) as u16,), true)) }
    //   spec fn next_cursor(a, k) -> int { cand(a.lo(), a.hi(), a.cursor, k + 1) }
    //   wf = lo <= cursor <= hi
    fn cand(lo: i64, hi: i64, c0: i64, k: i64) -> i64 { if c0 + k <= hi { c0 + k } else { c0 + k - (hi - lo + 1) } }

    struct In { lo: u16, len: u8, cursor: u16, n: u8, a: u16, b: u16, c: u16, d: u16 }
    fn in_use(i: &In, p: u16) -> bool { (i.n >= 1 && i.a == p) || (i.n >= 2 && i.b == p) || (i.n >= 3 && i.c == p) || (i.n >= 4 && i.d == p) }
    fn inputs() -> (In, u16) {
        // named inputs first, in the order of the twin spec
        let i = In { lo: kani::any(), len: kani::any(), cursor: kani::any(), n: kani::any(), a: kani::any(), b: kani::any(), c: kani::any(), d: kani::any() };
        kani::assume(i.len >= 1 && i.len <= 4 && i.n <= 4);                               // THE BOUND
        kani::assume(i.lo as u32 + i.len as u32 - 1 <= u16::MAX as u32);
        let hi = i.lo + (i.len as u16 - 1);
        kani::assume(i.lo <= i.cursor && i.cursor <= hi);                                  // requires old(self).wf()
        (i, hi)
    }
    fn run() -> (In, u16, Option<u16>, PortAllocator) {
        let (i, hi) = inputs();
        let mut pa = PortAllocator { range: i.lo..=hi, cursor: i.cursor };
        let res = pa.allocate(|p| in_use(&i, p));
        (i, hi, res, pa)
    }

    // [C17.pa.new] a.wf() && a.range == range && a.cursor == ri_start(&range)              (requires start <= end)
    #[kani::proof]
    fn pa_new() {
        let (i, hi) = inputs();
        let a = PortAllocator::new(i.lo..=hi);
        assert!(i.lo <= a.cursor && a.cursor <= hi && a.range == (i.lo..=hi) && a.cursor == i.lo, "C17.pa.new");
    }
    // [C17.pa.wf] final(self).wf() && final(self).range == old(self).range
    #[kani::proof]
    fn pa_wf() {
        let (i, hi, res, pa) = run();
        assert!(i.lo <= pa.cursor && pa.cursor <= hi && pa.range == (i.lo..=hi), "C17.pa.wf");
    }
    // [C17.pa.free] res is Some ==> in_range(old(self).lo(), old(self).hi(), res.unwrap()) && in_use.ensures((res.unwrap(),), false)
    #[kani::proof]
    fn pa_free() {
        let (i, hi, res, pa) = run();
        if let Some(p) = res { assert!(i.lo <= p && p <= hi && !in_use(&i, p), "C17.pa.free"); }
    }
    // [C17.pa.first] res is Some ==> exists|k: int| first_free_at(*old(self), in_use, res.unwrap(), k) && final(self).cursor == #[trigger] next_cursor(*old(self), k)
    #[kani::proof]
    fn pa_first() {
        let (i, hi, res, pa) = run();
        if let Some(p) = res {
            let (lo, hi, c0) = (i.lo as i64, hi as i64, i.cursor as i64);
            let mut found = false;
            let mut all_before_in_use = true;           // forall j < k: in_use(cand(j))
            let mut k = 0i64;
            while k < 4 {
                if k < i.len as i64 {
                    if all_before_in_use && p as i64 == cand(lo, hi, c0, k) && pa.cursor as i64 == cand(lo, hi, c0, k + 1) { found = true; }
                    all_before_in_use = all_before_in_use && in_use(&i, cand(lo, hi, c0, k) as u16);
                }
                k += 1;
            }
            assert!(found, "C17.pa.first");
        }
    }
    // [C17.pa.none] res is None ==> final(self).cursor == old(self).cursor && (forall|p: u16| #[trigger] in_range(old(self).lo(), old(self).hi(), p) ==> in_use.ensures((p,), true))
    #[kani::proof]
    fn pa_none() {
        let (i, hi, res, pa) = run();
        if res.is_none() {
            let mut all = true;
            let mut k = 0u16;
            while k < 4 { if k < i.len as u16 { all = all && in_use(&i, i.lo + k); } k += 1; }
            assert!(pa.cursor == i.cursor && all, "C17.pa.none");
        }
    }
}
