// Kani twin of crates/turmoil-net/src/kernel/tcp.rs::handle_established and ::poll_recv (unit nettcp, property C06; the window
// rule also serves C16).  Extracted verbatim: both functions, advertised_window, emit, bound_endpoint, abort_error,
// Kernel::lookup / lookup_mut, struct Tcb, enum TcpState and the packet / socket-key types.  Stand-ins: the byte buffers
// (lengths only - which bytes arrive is Verus' part of the clauses), the socket, the one-entry socket table, the kernel.
// handle_established: loop-free, every length / sequence number / flag / state symbolic -> complete proof of the clauses'
// projection onto lengths and header fields.  poll_recv copies into the caller's buffer, so there the USER BUFFER is bounded
// to 8 bytes (receive-buffer length and cap stay unrestricted) -> kani-bounded.
#![allow(dead_code, unused)]
use std::io::{Error, ErrorKind, Result};
use std::net::{IpAddr, Ipv4Addr, Ipv6Addr, SocketAddr};
use std::ops::{Deref, Index, RangeTo};
use std::task::{Context, Poll, Waker};

// ---------------------------------------------------------------- STUBS (trusted, hand-written)
// bytes::Bytes / BytesMut as lengths.  `payload[..n]` yields a slice VALUE of length n with no memory behind it (only its
// length is read); `&drained` (poll_recv's copy source) derefs to n zero bytes, n <= 8.
#[derive(Clone, PartialEq, Eq)]
struct Bytes { len: usize }
impl Bytes {
    fn new() -> Bytes { Bytes { len: 0 } }
    fn len(&self) -> usize { self.len }
    fn is_empty(&self) -> bool { self.len == 0 }
}
fn len_only_slice<'a>(len: usize) -> &'a [u8] {
    unsafe { std::mem::transmute::<*const [u8], &'a [u8]>(std::ptr::slice_from_raw_parts(std::ptr::NonNull::<u8>::dangling().as_ptr(), len)) }
}
impl Index<RangeTo<usize>> for Bytes {
    type Output = [u8];
    fn index(&self, r: RangeTo<usize>) -> &[u8] { assert!(r.end <= self.len, "range end index out of range for slice"); len_only_slice(r.end) }
}
struct BytesMut { len: usize }
static ZEROS: [u8; 8] = [0; 8];
impl BytesMut {
    fn len(&self) -> usize { self.len }
    fn is_empty(&self) -> bool { self.len == 0 }
    fn extend_from_slice(&mut self, s: &[u8]) { self.len += s.len(); }
    fn split_to(&mut self, at: usize) -> BytesMut { assert!(at <= self.len, "split_to out of bounds"); self.len -= at; BytesMut { len: at } }
}
impl Deref for BytesMut { type Target = [u8]; fn deref(&self) -> &[u8] { &ZEROS[..self.len] } }
// kernel::socket::Socket: tcb, binding, and the two waker lists as counters (wake_* drains, register adds one)
struct Socket { tcb: Option<Tcb>, bound: Option<BindKey>, read_wakers: usize, write_wakers: usize }
impl Socket {
    fn wake_read(&mut self) { self.read_wakers = 0; }
    fn wake_write(&mut self) { self.write_wakers = 0; }
    fn register_read_waker(&mut self, _w: &Waker) { self.read_wakers += 1; }
}
// kernel::socket::SocketTable: exactly one socket
struct SocketTable { fd: Fd, st: Socket }
impl SocketTable {
    fn get(&self, fd: Fd) -> Option<&Socket> { if fd == self.fd { Some(&self.st) } else { None } }
    fn get_mut(&mut self, fd: Fd) -> Option<&mut Socket> { if fd == self.fd { Some(&mut self.st) } else { None } }
}
// Kernel.outbound: counts pushes, keeps the last packet
struct Outbound { pushed: usize, last: Option<Packet> }
impl Outbound { fn push_back(&mut self, p: Packet) { self.pushed += 1; self.last = Some(p); } }
struct Kernel { sockets: SocketTable, recv_buf_cap: usize, outbound: Outbound }

// ---------------------------------------------------------------- EXTRACTED
//@@EXTRACT Domain@@
//@@EXTRACT Type@@
//@@EXTRACT Fd@@
//@@EXTRACT BindKey@@
//@@EXTRACT TcpState@@
//@@EXTRACT Tcb@@
//@@EXTRACT Packet@@
//@@EXTRACT Transport@@
//@@EXTRACT UdpDatagram@@
//@@EXTRACT TcpSegment@@
//@@EXTRACT TcpFlags@@
impl Kernel {
    //@@EXTRACT lookup@@
    //@@EXTRACT lookup_mut@@
}
//@@EXTRACT advertised_window@@
//@@EXTRACT emit@@
//@@EXTRACT bound_endpoint@@
//@@EXTRACT abort_error@@
//@@EXTRACT handle_established@@
//@@EXTRACT poll_recv@@

#[cfg(kani)]
mod h {
    use super::*;

    const STATES: [TcpState; 9] = [TcpState::SynSent, TcpState::SynReceived, TcpState::Established, TcpState::FinWait1, TcpState::FinWait2,
                                   TcpState::CloseWait, TcpState::LastAck, TcpState::Closing, TcpState::Closed];
    // Tcb as the harness builds it: named inputs, in the order of the twin spec
    struct T { state: u8, snd_una: u32, snd_nxt: u32, snd_wnd: u16, rcv_nxt: u32, send_len: usize, recv_len: usize, wr_closed: bool, peer_fin: bool,
               fin_some: bool, fin_seq: u32, reset: bool, timed_out: bool }
    struct S { seq: u32, ack: u32, f_ack: bool, f_fin: bool, window: u16, payload_len: usize }
    fn any_t() -> T { T { state: kani::any(), snd_una: kani::any(), snd_nxt: kani::any(), snd_wnd: kani::any(), rcv_nxt: kani::any(), send_len: kani::any(),
                          recv_len: kani::any(), wr_closed: kani::any(), peer_fin: kani::any(), fin_some: kani::any(), fin_seq: kani::any(), reset: kani::any(), timed_out: kani::any() } }
    // Sub-domain the replay test can build (real buffers): `_w` witnesses only, never a `pass`
    const REPLAYABLE: usize = 65536;
    fn mk_kernel(t: &T, recv_cap: usize) -> (Kernel, Fd, SocketAddr, SocketAddr) {
        kani::assume(t.state < 9);
        let fd = Fd(kani::any());
        let local = SocketAddr::new(IpAddr::V4(Ipv4Addr::new(10, 0, 0, 1)), kani::any());
        let remote = SocketAddr::new(IpAddr::V4(Ipv4Addr::new(10, 0, 0, 2)), kani::any());
        let tcb = Tcb { state: STATES[t.state as usize], peer: remote, snd_nxt: t.snd_nxt, snd_una: t.snd_una, snd_wnd: t.snd_wnd, rcv_nxt: t.rcv_nxt,
                        send_buf: BytesMut { len: t.send_len }, recv_buf: BytesMut { len: t.recv_len }, wr_closed: t.wr_closed, peer_fin: t.peer_fin,
                        fin_seq: if t.fin_some { Some(t.fin_seq) } else { None }, reset: t.reset, timed_out: t.timed_out,
                        egress_since_ack: kani::any(), retx_attempts: kani::any() };
        let bound = BindKey { domain: Domain::Inet, ty: Type::Stream, local_addr: local.ip(), local_port: local.port() };
        let st = Socket { tcb: Some(tcb), bound: Some(bound), read_wakers: 1, write_wakers: 1 };
        (Kernel { sockets: SocketTable { fd, st }, recv_buf_cap: recv_cap, outbound: Outbound { pushed: 0, last: None } }, fd, local, remote)
    }

    // ---------------------------------------------------------------- handle_established
    // nettcp.vspec (views; `len` = length of the byte sequence):
    //   wfn(una, nxt, len, fs, wr_closed) = 0 <= len < 0x7fff_0000 && match fs { None => nxt.wrapping_sub(una) <= len,
    //       Some(f) => wr_closed && ((f == una.wrapping_add(len as u32) && nxt.wrapping_sub(una) <= len + 1) || (una == f.wrapping_add(1) && len == 0 && nxt == una)) }
    //   ack_ok(t, s)    = s.flags.ack && 0 < s.ack.wrapping_sub(t.snd_una) && s.ack.wrapping_sub(t.snd_una) <= t.snd_nxt.wrapping_sub(t.snd_una)
    //   fin_acked(t, s) = t.fin_seq is Some && s.ack == t.fin_seq.unwrap().wrapping_add(1)
    //   ack_data_bytes  = s.ack.wrapping_sub(t.snd_una) - (if fin_acked { 1 } else { 0 })
    //   after_ack(t, s) = if ack_ok { send_buf: skip(ack_data_bytes), snd_una: s.ack, egress_since_ack: 0, retx_attempts: 0,
    //                                 state: if fin_acked { st_fin_acked(state) } else { state }, snd_wnd: s.window } else if s.flags.ack { snd_wnd: s.window } else { t }
    //   rx_accept(t, s) = s.payload.len() > 0 && s.seq == t.rcv_nxt && !t.peer_fin
    //   rx_n(t, s, cap) = if rx_accept { min(s.payload.len(), sat_sub(cap, t.recv_buf.len())) } else { 0 }
    //   after_data      = recv_buf + payload.take(rx_n), rcv_nxt.wrapping_add(rx_n as u32)
    //   fin_ok(t, s)    = s.flags.fin && !t.peer_fin && s.seq.wrapping_add(s.payload.len() as u32) == t.rcv_nxt
    //   after_fin       = if fin_ok { peer_fin: true, rcv_nxt.wrapping_add(1), state: st_fin_rcvd(state) } else { t }
    //   he_tcb = after_fin(after_data(after_ack(t, s), s, cap), s);   he_sends_ack = rx_n(after_ack ..) > 0 || fin_ok(after_data(after_ack ..), s)
    //   rx_exact(t0, t, s, cap) = t.recv_buf == t0.recv_buf + (if s.payload.len() > 0 && s.seq == t0.rcv_nxt && !t0.peer_fin
    //                                                            { s.payload.take(min(s.payload.len(), sat_sub(cap, t0.recv_buf.len()))) } else { empty })
    #[derive(Clone, Copy, PartialEq, Eq)]
    struct V { state: u8, snd_una: u32, snd_wnd: u16, rcv_nxt: u32, send_len: usize, recv_len: usize, peer_fin: bool, reset_retx: bool }
    fn st_fin_acked(s: u8) -> u8 { match s { 3 => 4, 7 => 8, 6 => 8, o => o } }       // FinWait1->FinWait2, Closing->Closed, LastAck->Closed
    fn st_fin_rcvd(s: u8) -> u8 { match s { 2 => 5, 3 => 7, 4 => 8, o => o } }        // Established->CloseWait, FinWait1->Closing, FinWait2->Closed
    fn wfn(t: &T) -> bool {
        t.send_len < 0x7fff_0000 && if !t.fin_some { (t.snd_nxt.wrapping_sub(t.snd_una) as usize) <= t.send_len } else {
            t.wr_closed && ((t.fin_seq == t.snd_una.wrapping_add(t.send_len as u32) && (t.snd_nxt.wrapping_sub(t.snd_una) as usize) <= t.send_len + 1)
                            || (t.snd_una == t.fin_seq.wrapping_add(1) && t.send_len == 0 && t.snd_nxt == t.snd_una)) }
    }
    fn rx_n(t: &T, s: &S, cap: usize) -> usize {
        if s.payload_len > 0 && s.seq == t.rcv_nxt && !t.peer_fin { core::cmp::min(s.payload_len, cap.saturating_sub(t.recv_len)) } else { 0 }
    }
    // he_tcb projected onto (state, snd_una, snd_wnd, rcv_nxt, |send_buf|, |recv_buf|, peer_fin, retx counters reset), and he_sends_ack
    fn he_tcb(t: &T, s: &S, cap: usize) -> (V, bool) {
        let ack_ok = s.f_ack && 0 < s.ack.wrapping_sub(t.snd_una) && s.ack.wrapping_sub(t.snd_una) <= t.snd_nxt.wrapping_sub(t.snd_una);
        let fin_acked = t.fin_some && s.ack == t.fin_seq.wrapping_add(1);
        let mut v = V { state: t.state, snd_una: t.snd_una, snd_wnd: t.snd_wnd, rcv_nxt: t.rcv_nxt, send_len: t.send_len, recv_len: t.recv_len, peer_fin: t.peer_fin, reset_retx: false };
        if ack_ok {
            let db = s.ack.wrapping_sub(t.snd_una) as usize - (if fin_acked { 1 } else { 0 });
            v.send_len = t.send_len - db; v.snd_una = s.ack; v.reset_retx = true;
            if fin_acked { v.state = st_fin_acked(t.state); }
        }
        if s.f_ack { v.snd_wnd = s.window; }
        let n = rx_n(t, s, cap);                                         // after_ack leaves rcv_nxt, recv_buf, peer_fin alone
        v.recv_len = t.recv_len + n; v.rcv_nxt = t.rcv_nxt.wrapping_add(n as u32);
        let fin_ok = s.f_fin && !v.peer_fin && s.seq.wrapping_add(s.payload_len as u32) == v.rcv_nxt;
        if fin_ok { v.peer_fin = true; v.rcv_nxt = v.rcv_nxt.wrapping_add(1); v.state = st_fin_rcvd(v.state); }
        (v, n > 0 || fin_ok)
    }
    struct HeOut { t: T, s: S, cap: usize, after: V, retx0: bool, pushed: usize, rw: usize, ww: usize }
    fn run_he(w: bool) -> HeOut {
        // named inputs first: the Tcb, then recv_cap, then the segment
        let t = any_t();
        let cap: usize = kani::any();
        let s = S { seq: kani::any(), ack: kani::any(), f_ack: kani::any(), f_fin: kani::any(), window: kani::any(), payload_len: kani::any() };
        kani::assume(wfn(&t));                                           // requires tcb_wf(tcb_of(*old(k), fd))
        kani::assume(t.recv_len <= usize::MAX / 2 && s.payload_len <= usize::MAX / 2);     // lengths of real buffers (no overflow of their sum)
        if w { kani::assume(t.recv_len <= REPLAYABLE && t.send_len <= REPLAYABLE && s.payload_len <= REPLAYABLE && cap <= 2 * REPLAYABLE); }
        let (mut k, fd, local, remote) = mk_kernel(&t, cap);
        let seg = TcpSegment { src_port: remote.port(), dst_port: local.port(), seq: s.seq, ack: s.ack,
                               flags: TcpFlags { ack: s.f_ack, fin: s.f_fin, ..TcpFlags::default() }, window: s.window, payload: Bytes { len: s.payload_len } };
        handle_established(&mut k, fd, local, remote, &seg);
        let st = &k.sockets.st;
        let b = st.tcb.as_ref().unwrap();
        let state = STATES.iter().position(|x| *x == b.state).unwrap() as u8;
        let after = V { state, snd_una: b.snd_una, snd_wnd: b.snd_wnd, rcv_nxt: b.rcv_nxt, send_len: b.send_buf.len, recv_len: b.recv_buf.len, peer_fin: b.peer_fin,
                        reset_retx: false };
        let retx0 = b.egress_since_ack == 0 && b.retx_attempts == 0;
        HeOut { t, s, cap, after, retx0, pushed: k.outbound.pushed, rw: st.read_wakers, ww: st.write_wakers }
    }

    // [C06.rx.exact] rx_exact(tv(tcb_of(*old(k), fd)), tv(tcb_of(*final(k), fd)), *s, old(k).recv_buf_cap as int)          (length of the grown buffer)
    fn he_rx_exact_body(w: bool) {
        let o = run_he(w);
        assert!(o.after.recv_len == o.t.recv_len + rx_n(&o.t, &o.s, o.cap), "C06.rx.exact");
    }
    #[kani::proof] fn he_rx_exact() { he_rx_exact_body(false) }
    #[kani::proof] fn he_rx_exact_w() { he_rx_exact_body(true) }

    // [C06.he.sock] he_sock(sock_of(*old(k), fd), sock_of(*final(k), fd), *s, old(k).recv_buf_cap as int)
    //   he_sock = post.tcb is Some && tv(post.tcb) == he_tcb(tv(pre.tcb), s, cap) && sock_rest_eq && (s.flags.ack ? write_wakers drained : kept)
    //             && (he_sends_ack ? read_wakers drained : kept)
    fn he_sock_body(w: bool) {
        let o = run_he(w);
        let (v, sends) = he_tcb(&o.t, &o.s, o.cap);
        let got = V { reset_retx: v.reset_retx, ..o.after };
        assert!(got == v && (!v.reset_retx || o.retx0) && o.ww == (if o.s.f_ack { 0 } else { 1 }) && o.rw == (if sends { 0 } else { 1 }), "C06.he.sock");
    }
    #[kani::proof] fn he_sock() { he_sock_body(false) }
    #[kani::proof] fn he_sock_w() { he_sock_body(true) }

    // [C06.rx.ack] final(k).outbound@.len() == old(k).outbound@.len() + (if he_sends_ack(..) { 1int } else { 0 }) && final(k).outbound@.take(old len) == old(k).outbound@
    fn he_rx_ack_body(w: bool) {
        let o = run_he(w);
        let (_, sends) = he_tcb(&o.t, &o.s, o.cap);
        assert!(o.pushed == (if sends { 1 } else { 0 }), "C06.rx.ack");
    }
    #[kani::proof] fn he_rx_ack() { he_rx_ack_body(false) }
    #[kani::proof] fn he_rx_ack_w() { he_rx_ack_body(true) }

    // ---------------------------------------------------------------- poll_recv
    //   recv_gate(k, fd) = !has_sock => NotFound; tcb None => NotConnected; else abort_kind(tcb) (reset => ConnectionReset, timed_out => TimedOut)
    //   recv_n(k, fd, buflen) = min(recv_buf.len(), buflen)
    //   wnd_update_sent(pre, post, fd) = exactly one packet queued: a pure ACK from fd's endpoint to the peer carrying snd_nxt, rcv_nxt,
    //       flags_ack() and window adv_wnd(cap, |recv_buf| AFTER the read), empty payload
    struct PrOut { t: T, cap: usize, buf_len: usize, ready_ok: Option<usize>, recv_after: usize, pushed: usize, ack_ok: bool }
    fn adv_wnd(cap: usize, len: usize) -> u16 { let d = cap.saturating_sub(len); if d < 65535 { d as u16 } else { 65535 } }
    fn run_pr(w: bool) -> PrOut {
        let t = any_t();
        let cap: usize = kani::any();
        let buf_len: usize = kani::any();
        kani::assume(buf_len <= 8);                                       // THE BOUND: the caller's buffer
        if w { kani::assume(t.recv_len <= REPLAYABLE && t.send_len <= REPLAYABLE && cap <= 2 * REPLAYABLE); }
        let (mut k, fd, local, remote) = mk_kernel(&t, cap);
        let mut store = [0u8; 8];
        let mut cx = Context::from_waker(Waker::noop());
        let r = poll_recv(&mut k, fd, &mut cx, &mut store[..buf_len]);
        let b = k.sockets.st.tcb.as_ref().unwrap();
        let ack_ok = match &k.outbound.last {
            Some(p) => p.src == local.ip() && p.dst == remote.ip() && (match &p.payload {
                Transport::Tcp(g) => g.src_port == local.port() && g.dst_port == remote.port() && g.seq == b.snd_nxt && g.ack == b.rcv_nxt
                    && g.flags == (TcpFlags { ack: true, ..TcpFlags::default() }) && g.window == adv_wnd(cap, b.recv_buf.len) && g.payload.len == 0,
                _ => false }),
            None => false };
        let ready_ok = match &r { Poll::Ready(Ok(m)) => Some(*m), _ => None };
        // The result is not dropped: CBMC unwinds the drop glue of std::io::Error (Box<dyn Error> inside) as an unbounded
        // recursion when a symbolic Error reaches the end of a harness.
        core::mem::forget(r);
        PrOut { cap, buf_len, ready_ok, recv_after: b.recv_buf.len, pushed: k.outbound.pushed, ack_ok, t }
    }
    fn gate_none(t: &T) -> bool { !t.reset && !t.timed_out }

    // [C06.win.reopen] (recv_gate(*old(k), fd) is None && tcb_of(*old(k), fd).recv_buf@.len() == old(k).recv_buf_cap && old(k).recv_buf_cap > 0 && old(buf)@.len() > 0) ==>
    //     wnd_update_sent(*old(k), *final(k), fd)
    fn pr_win_reopen_body(w: bool) {
        let o = run_pr(w);
        if gate_none(&o.t) && o.t.recv_len == o.cap && o.cap > 0 && o.buf_len > 0 { assert!(o.pushed == 1 && o.ack_ok, "C06.win.reopen"); }
    }
    #[kani::proof] fn pr_win_reopen() { pr_win_reopen_body(false) }
    #[kani::proof] fn pr_win_reopen_w() { pr_win_reopen_body(true) }

    // [C16.recv.wndrule] (recv_gate(*old(k), fd) is None && tcb_of(*old(k), fd).recv_buf@.len() > 0) ==>
    //     (if recv_n(..) >= old(k).recv_buf_cap / 2 || (recv_n(..) > 0 && tcb_of(*old(k), fd).recv_buf@.len() >= old(k).recv_buf_cap)
    //      { wnd_update_sent(*old(k), *final(k), fd) } else { final(k).outbound@ == old(k).outbound@ })
    fn pr_wndrule_body(w: bool) {
        let o = run_pr(w);
        if gate_none(&o.t) && o.t.recv_len > 0 {
            let n = core::cmp::min(o.t.recv_len, o.buf_len);
            if n >= o.cap / 2 || (n > 0 && o.t.recv_len >= o.cap) { assert!(o.pushed == 1 && o.ack_ok, "C16.recv.wndrule"); } else { assert!(o.pushed == 0, "C16.recv.wndrule"); }
        }
    }
    #[kani::proof] fn pr_wndrule() { pr_wndrule_body(false) }
    #[kani::proof] fn pr_wndrule_w() { pr_wndrule_body(true) }

    // [C06.recv.front] (recv_gate(*old(k), fd) is None && tcb_of(*old(k), fd).recv_buf@.len() > 0) ==> ({ let n = recv_n(*old(k), fd, old(buf)@.len() as int);
    //     ready_ok(r, n as usize) && final(buf)@ == tcb_of(*old(k), fd).recv_buf@.take(n) + old(buf)@.skip(n) && recv_taken(*old(k), *final(k), fd, n) })      (count and remaining length)
    fn pr_front_body(w: bool) {
        let o = run_pr(w);
        if gate_none(&o.t) && o.t.recv_len > 0 {
            let n = core::cmp::min(o.t.recv_len, o.buf_len);
            assert!(o.ready_ok == Some(n) && o.recv_after == o.t.recv_len - n, "C06.recv.front");
        }
    }
    #[kani::proof] fn pr_front() { pr_front_body(false) }
    #[kani::proof] fn pr_front_w() { pr_front_body(true) }
}
