// Kani twin of crates/turmoil/src/host.rs::HostTimer (unit clock, property C05: virtual clocks).
// The struct and its six methods are extracted verbatim; std::time::Duration is the real type.
// Loop-free; every Duration (secs + nanos), the mark and the clock reading are symbolic: complete proofs under the stated
// range assumption (sums of Durations stay below 2^64 s - the unit's "Duration as naturals" assumption).
#![allow(dead_code, unused)]
use std::time::Duration;

// ---------------------------------------------------------------- STUB (trusted, hand-written)
// tokio::time::Instant under a paused clock: a reading (whole seconds, sub-second nanos < 10^9).  `elapsed()` = now() - self,
// saturating at zero - the contract of specs/prelude/time.rs:
//     d.ns@ == (if tokio_now() >= self.ns@ { tokio_now() - self.ns@ } else { 0 })
// (kept as a pair so that no 64-bit division by 10^9 enters the formula: with `Duration::from_nanos(now_ns - self_ns)`
// no solver finished within 200 s)
static mut TOKIO_NOW: (u64, u32) = (0, 0);
#[derive(Clone, Copy, PartialEq, Eq)]
struct Instant { s: u64, n: u32 }
fn sat_diff(c: (u64, u32), m: (u64, u32)) -> (u64, u32) {
    if c.0 > m.0 || (c.0 == m.0 && c.1 >= m.1) {
        if c.1 >= m.1 { (c.0 - m.0, c.1 - m.1) } else { (c.0 - m.0 - 1, c.1 + 1_000_000_000 - m.1) }
    } else { (0, 0) }
}
impl Instant {
    fn elapsed(&self) -> Duration { let d = sat_diff(unsafe { TOKIO_NOW }, (self.s, self.n)); Duration::new(d.0, d.1) }
}

//@@EXTRACT HostTimer@@

impl HostTimer {
    //@@EXTRACT new@@
    //@@EXTRACT tick@@
    //@@EXTRACT now@@
    //@@EXTRACT elapsed@@
    //@@EXTRACT sim_elapsed@@
    //@@EXTRACT since_epoch@@
}

#[cfg(kani)]
mod h {
    use super::*;

    // clock.vspec:
    //   spec fn run_at(t: HostTimer, clock: nat) -> nat {
    //       if t.now is Some && clock >= t.now.unwrap().ns@ { (clock - t.now.unwrap().ns@) as nat } else { 0 } }
    //   spec fn elapsed_at(t, clock) -> nat { t.elapsed.ns@ + run_at(t, clock) }
    //   spec fn sim_elapsed_at(t, clock) -> nat { t.start_offset.ns@ + elapsed_at(t, clock) }
    //   spec fn since_epoch_at(t, clock) -> nat { t.since_epoch.ns@ + sim_elapsed_at(t, clock) }
    // `.ns@` = the duration in nanoseconds.  Sums of `.ns@` are stated here on the canonical pair (whole seconds,
    // sub-second nanos < 10^9) - a bijection with the nanosecond count - because the 128-bit multiplications of
    // `as_nanos()` put a symbolic 64x64 multiplier into the formula (no SAT/SMT back end finished within 300 s on that form).
    type D = (u64, u32);
    fn add(a: D, b: D) -> D { let n = a.1 + b.1; if n >= 1_000_000_000 { (a.0 + b.0 + 1, n - 1_000_000_000) } else { (a.0 + b.0, n) } }
    fn is(r: Duration, d: D) -> bool { r.as_secs() == d.0 && r.subsec_nanos() == d.1 }
    struct In { el_s: u64, el_ns: u32, has_mark: bool, mark_s: u64, mark_ns: u32, so_s: u64, so_ns: u32, se_s: u64, se_ns: u32, d_s: u64, d_ns: u32, clock_s: u64, clock_ns: u32 }
    // Sub-domain the replay test can realise on tokio's paused clock (witness harnesses `_w` only; never a `pass`)
    const REPLAYABLE_S: u64 = 3_600;
    fn inputs(replayable: bool) -> In {
        // named inputs first, in the order of the twin spec
        let i = In { el_s: kani::any(), el_ns: kani::any(), has_mark: kani::any(), mark_s: kani::any(), mark_ns: kani::any(), so_s: kani::any(), so_ns: kani::any(),
                     se_s: kani::any(), se_ns: kani::any(), d_s: kani::any(), d_ns: kani::any(), clock_s: kani::any(), clock_ns: kani::any() };
        kani::assume(i.el_ns < 1_000_000_000 && i.so_ns < 1_000_000_000 && i.se_ns < 1_000_000_000 && i.d_ns < 1_000_000_000);
        kani::assume(i.mark_ns < 1_000_000_000 && i.clock_ns < 1_000_000_000 && i.mark_s < (1 << 34) && i.clock_s < (1 << 34));
        // ASSUMPTION: each duration below 2^61 s, so no sum of four of them (plus a clock difference < 2^35 s) leaves Duration's range
        kani::assume(i.el_s < (1 << 61) && i.so_s < (1 << 61) && i.se_s < (1 << 61) && i.d_s < (1 << 61));
        if replayable { kani::assume(i.clock_s <= REPLAYABLE_S && i.mark_s <= REPLAYABLE_S); }
        unsafe { TOKIO_NOW = (i.clock_s, i.clock_ns); }
        i
    }
    fn timer(i: &In) -> HostTimer {
        HostTimer { elapsed: Duration::new(i.el_s, i.el_ns), now: if i.has_mark { Some(Instant { s: i.mark_s, n: i.mark_ns }) } else { None },
                    start_offset: Duration::new(i.so_s, i.so_ns), since_epoch: Duration::new(i.se_s, i.se_ns) }
    }
    fn run_at(i: &In) -> D { if i.has_mark { sat_diff((i.clock_s, i.clock_ns), (i.mark_s, i.mark_ns)) } else { (0, 0) } }

    // [C05.new] t.elapsed.ns@ == 0 && t.now is None && t.start_offset == start_offset && t.since_epoch == since_epoch
    #[kani::proof]
    fn timer_new() {
        let i = inputs(false);
        let t = HostTimer::new(Duration::new(i.so_s, i.so_ns), Duration::new(i.se_s, i.se_ns));
        assert!(t.elapsed.as_nanos() == 0 && t.now.is_none() && t.start_offset == Duration::new(i.so_s, i.so_ns)
                && t.since_epoch == Duration::new(i.se_s, i.se_ns), "C05.new");
    }
    // [C05.tick] final(self).elapsed.ns@ == old(self).elapsed.ns@ + duration.ns@
    #[kani::proof]
    fn timer_tick() {
        let i = inputs(false);
        let mut t = timer(&i);
        t.tick(Duration::new(i.d_s, i.d_ns));
        assert!(is(t.elapsed, add((i.el_s, i.el_ns), (i.d_s, i.d_ns))), "C05.tick");
    }
    // [C05.tick.unmark] final(self).now is None
    #[kani::proof]
    fn timer_tick_unmark() {
        let i = inputs(false);
        let mut t = timer(&i);
        t.tick(Duration::new(i.d_s, i.d_ns));
        assert!(t.now.is_none(), "C05.tick.unmark");
    }
    // [C05.tick.frame] final(self).start_offset == old(self).start_offset && final(self).since_epoch == old(self).since_epoch
    #[kani::proof]
    fn timer_tick_frame() {
        let i = inputs(false);
        let mut t = timer(&i);
        t.tick(Duration::new(i.d_s, i.d_ns));
        assert!(t.start_offset == Duration::new(i.so_s, i.so_ns) && t.since_epoch == Duration::new(i.se_s, i.se_ns), "C05.tick.frame");
    }
    // [C05.now] final(self).now == Some(now)
    #[kani::proof]
    fn timer_now() {
        let i = inputs(false);
        let mut t = timer(&i);
        t.now(Instant { s: i.clock_s, n: i.clock_ns });
        assert!(t.now == Some(Instant { s: i.clock_s, n: i.clock_ns }), "C05.now");
    }
    // [C05.now.frame] final(self).elapsed == old(self).elapsed && final(self).start_offset == old(self).start_offset && final(self).since_epoch == old(self).since_epoch
    #[kani::proof]
    fn timer_now_frame() {
        let i = inputs(false);
        let mut t = timer(&i);
        t.now(Instant { s: i.clock_s, n: i.clock_ns });
        assert!(t.elapsed == Duration::new(i.el_s, i.el_ns) && t.start_offset == Duration::new(i.so_s, i.so_ns)
                && t.since_epoch == Duration::new(i.se_s, i.se_ns), "C05.now.frame");
    }
    // [C05.elapsed] r.ns@ == self.elapsed.ns@ + run_at(*self, Instant::tokio_now())
    fn timer_elapsed_body(w: bool) {
        let i = inputs(w);
        let t = timer(&i);
        let r = t.elapsed();
        assert!(is(r, add((i.el_s, i.el_ns), run_at(&i))), "C05.elapsed");
    }
    #[kani::proof]
    fn timer_elapsed() { timer_elapsed_body(false) }
    #[kani::proof]
    fn timer_elapsed_w() { timer_elapsed_body(true) }
    // [C05.sim] r.ns@ == self.start_offset.ns@ + elapsed_at(*self, Instant::tokio_now())
    fn timer_sim_body(w: bool) {
        let i = inputs(w);
        let t = timer(&i);
        let r = t.sim_elapsed();
        assert!(is(r, add((i.so_s, i.so_ns), add((i.el_s, i.el_ns), run_at(&i)))), "C05.sim");
    }
    #[kani::proof]
    fn timer_sim() { timer_sim_body(false) }
    #[kani::proof]
    fn timer_sim_w() { timer_sim_body(true) }
    // [C05.epoch] r.ns@ == self.since_epoch.ns@ + sim_elapsed_at(*self, Instant::tokio_now())
    fn timer_epoch_body(w: bool) {
        let i = inputs(w);
        let t = timer(&i);
        let r = t.since_epoch();
        assert!(is(r, add((i.se_s, i.se_ns), add((i.so_s, i.so_ns), add((i.el_s, i.el_ns), run_at(&i))))), "C05.epoch");
    }
    #[kani::proof]
    fn timer_epoch() { timer_epoch_body(false) }
    #[kani::proof]
    fn timer_epoch_w() { timer_epoch_body(true) }
}
