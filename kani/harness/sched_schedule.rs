// Kani twin of crates/turmoil-net/src/fixture/scheduler.rs::Scheduler::schedule (unit rules, property C19).
// struct Scheduled, struct Scheduler and the method are extracted verbatim; Vec, its binary_search_by and insert, Duration and
// the tuple ordering are the real std items.  The only stand-in is the packet (an id).
// The pending queue is a Vec, so this twin is BOUNDED: at most 1 pending packet (2 after the call; with 2 or 3 pending CBMC exceeded the 16 GB cap: Vec::insert + binary_search_by) (deadlines, sequence numbers, the clock and
// the delay fully symbolic below 2^62 s).  Unwinding assertions are on (unwind 4).  Reported as kani-bounded, never as a proof.
#![allow(dead_code, unused)]
use std::time::Duration;

// STUB (trusted): kernel::Packet as an id (schedule only moves it)
#[derive(Clone, PartialEq, Eq)]
struct Packet(u8);

//@@EXTRACT Scheduled@@
//@@EXTRACT Scheduler@@
impl Scheduler {
    //@@EXTRACT schedule@@
}

#[cfg(kani)]
mod h {
    use super::*;

    // rules.vspec:
    //   key_lt(a, b)      = a.deliver_at < b.deliver_at || (a.deliver_at == b.deliver_at && a.seq < b.seq)
    //   pending_sorted(s) = forall a < b. key_lt(s[a], s[b])
    //   sched_wf(s)       = pending_sorted(s.pending) && forall i. s.pending[i].seq < s.next_seq
    //   deadline(now, d)  = now + d
    //   is_slot(s, at, idx) = 0 <= idx <= s.len() && (forall j < idx. s[j].deliver_at <= at) && (forall j >= idx. s[j].deliver_at > at)
    //   requires sched_wf(*old(self)), old(self).next_seq < u64::MAX
    const MAXN: usize = 1;
    #[derive(Clone, Copy)]
    struct E { s: u64, ns: u32, q: u64 }
    struct In { n: u8, e: [E; MAXN], now_s: u64, now_ns: u32, d_s: u64, d_ns: u32, next_seq: u64 }
    fn at(e: &E) -> Duration { Duration::new(e.s, e.ns) }
    fn key_lt(a: &E, b: &E) -> bool { at(a) < at(b) || (at(a) == at(b) && a.q < b.q) }
    fn inputs() -> In {
        // named inputs first, in the order of the twin spec
        let n: u8 = kani::any();
        let e = [E { s: kani::any(), ns: kani::any(), q: kani::any() }];
        let i = In { n, e, now_s: kani::any(), now_ns: kani::any(), d_s: kani::any(), d_ns: kani::any(), next_seq: kani::any() };
        kani::assume(i.n as usize <= MAXN);                                                   // THE BOUND
        kani::assume(i.now_ns < 1_000_000_000 && i.d_ns < 1_000_000_000 && i.now_s < (1 << 62) && i.d_s < (1 << 62));   // now + delay stays a Duration
        kani::assume(i.next_seq < u64::MAX);
        let mut k = 0;
        while k < MAXN {
            if k < i.n as usize {
                kani::assume(i.e[k].ns < 1_000_000_000 && i.e[k].q < i.next_seq);
                if k > 0 { kani::assume(key_lt(&i.e[k - 1], &i.e[k])); }                      // strictly sorted: sched_wf
            }
            k += 1;
        }
        i
    }
    // what the queue holds afterwards, copied out of the Vec once (slot k is meaningful for k < len)
    struct Out { len: usize, at: [Duration; MAXN + 1], q: [u64; MAXN + 1], id: [u8; MAXN + 1], next_seq: u64, now: Duration, egress_len: usize }
    fn run() -> (In, Out, Duration) {
        let i = inputs();
        let mut pending = Vec::with_capacity(MAXN + 1);
        let mut k = 0;
        while k < MAXN { if k < i.n as usize { pending.push(Scheduled { deliver_at: at(&i.e[k]), seq: i.e[k].q, pkt: Packet(k as u8) }); } k += 1; }
        let mut s = Scheduler { now: Duration::new(i.now_s, i.now_ns), pending, next_seq: i.next_seq, egress: Vec::new() };
        s.schedule(Packet(9), Duration::new(i.d_s, i.d_ns));
        let dl = Duration::new(i.now_s, i.now_ns) + Duration::new(i.d_s, i.d_ns);
        let mut o = Out { len: s.pending.len(), at: [Duration::ZERO; MAXN + 1], q: [0; MAXN + 1], id: [0; MAXN + 1], next_seq: s.next_seq, now: s.now, egress_len: s.egress.len() };
        let mut k = 0;
        while k < MAXN + 1 { if k < o.len { o.at[k] = s.pending[k].deliver_at; o.q[k] = s.pending[k].seq; o.id[k] = s.pending[k].pkt.0; } k += 1; }
        (i, o, dl)
    }

    // [C19.sched.insert] exists|idx: int| #[trigger] is_slot(old(self).pending@, deadline(old(self).now, delay), idx)
    //     && final(self).pending@ == old(self).pending@.insert(idx, mk_sched(deadline(old(self).now, delay), old(self).next_seq, pkt))
    #[kani::proof]
    fn sched_insert() {
        let (i, o, dl) = run();
        let n = i.n as usize;
        // the new entry is the one carrying the new packet (ids of the old ones are 0..n): that fixes idx
        let mut idx = MAXN + 1;
        let mut k = 0;
        while k < MAXN + 1 { if k < o.len && o.id[k] == 9 && idx == MAXN + 1 { idx = k; } k += 1; }
        let mut ok = o.len == n + 1 && idx <= n && o.q[idx] == i.next_seq && o.at[idx] == dl;
        let mut j = 0;
        while j < MAXN {
            if ok && j < n {
                let g = if j < idx { j } else { j + 1 };
                ok = o.id[g] == j as u8 && o.q[g] == i.e[j].q && o.at[g] == at(&i.e[j])                      // the old queue, in order, around idx
                    && (if j < idx { at(&i.e[j]) <= dl } else { at(&i.e[j]) > dl });                          // is_slot
            }
            j += 1;
        }
        assert!(ok, "C19.sched.insert");
    }
    // [C19.sched.sorted] sched_wf(*final(self))
    #[kani::proof]
    fn sched_sorted() {
        let (i, o, dl) = run();
        let mut ok = true;
        let mut j = 0usize;
        while j < MAXN + 1 {
            if j < o.len {
                ok = ok && o.q[j] < o.next_seq;
                if j > 0 { ok = ok && (o.at[j - 1] < o.at[j] || (o.at[j - 1] == o.at[j] && o.q[j - 1] < o.q[j])); }
            }
            j += 1;
        }
        assert!(ok, "C19.sched.sorted");
    }
    // [C19.sched.seq] final(self).next_seq == old(self).next_seq + 1
    #[kani::proof]
    fn sched_seq() {
        let (i, o, dl) = run();
        assert!(o.next_seq == i.next_seq + 1, "C19.sched.seq");
    }
    // [C19.sched.frame] final(self).now == old(self).now && final(self).egress == old(self).egress
    #[kani::proof]
    fn sched_frame() {
        let (i, o, dl) = run();
        assert!(o.now == Duration::new(i.now_s, i.now_ns) && o.egress_len == 0, "C19.sched.frame");
    }
}
