// Kani twin of crates/turmoil/src/top.rs::Link::delay (unit top, property C14: latency window).
// config::{Link, Latency, MessageLoss} and Link::delay are extracted verbatim.  Float and Duration arithmetic are the real
// thing here (CBMC bit-precise f64, std::time::Duration), where the Verus unit needs axioms "IEEE operators are total".
// Loop-free; every bit of both durations and of the sampled multiplier is symbolic: complete proof under the two stated
// assumptions (min <= max: the clause's `requires`; durations below 2^63 s: the unit's "Duration as naturals" assumption).
#![allow(dead_code, unused)]
use std::time::Duration;

// ---------------------------------------------------------------- STUBS (trusted, hand-written)
// rand::RngCore: the generator state is irrelevant here, the distribution stand-in below decides the sample
trait RngCore {}
struct NoRng;
impl RngCore for NoRng {}
// rand_distr::Exp<f64>::sample: ASSUMED as in specs/prelude/core.rs - "sample is >= 0 and not NaN; its value is otherwise
// unconstrained".  The sample is fixed when the stand-in is built so that it can be a named input of the harness.
#[derive(Clone)]
struct Exp<F> { sample: F }
impl Exp<f64> {
    fn sample(&self, _rng: &mut dyn RngCore) -> f64 { self.sample }
}
// top.rs::Link: the one field delay reads
struct Link { config: config::Link }

mod config {
    use super::*;
    //@@EXTRACT ConfigLink@@
    //@@EXTRACT Latency@@
    //@@EXTRACT MessageLoss@@
}

impl Link {
    //@@EXTRACT delay@@
}

#[cfg(kani)]
mod h {
    use super::*;

    struct In { link_has: bool, lmin_s: u64, lmin_ns: u32, lmax_s: u64, lmax_ns: u32, gmin_s: u64, gmin_ns: u32, gmax_s: u64, gmax_ns: u32, mult_bits: u64 }
    // top.vspec:  spec fn eff_latency(l: Link, global: Latency) -> Latency { if l.config.latency.is_some() { l.config.latency.unwrap() } else { global } }
    //   requires eff_latency(*self, *global).min_message_latency.ns@ <= eff_latency(*self, *global).max_message_latency.ns@
    fn run() -> (Duration, Duration, Duration) {
        // named inputs first, in the order of the twin spec
        let i = In { link_has: kani::any(), lmin_s: kani::any(), lmin_ns: kani::any(), lmax_s: kani::any(), lmax_ns: kani::any(),
                     gmin_s: kani::any(), gmin_ns: kani::any(), gmax_s: kani::any(), gmax_ns: kani::any(), mult_bits: kani::any() };
        // Duration::new normalises nanos >= 10^9 into seconds (and panics past u64::MAX s): keep the inputs canonical
        kani::assume(i.lmin_ns < 1_000_000_000 && i.lmax_ns < 1_000_000_000 && i.gmin_ns < 1_000_000_000 && i.gmax_ns < 1_000_000_000);
        // ASSUMPTION (evidence: "Duration/Instant arithmetic treated as mathematical naturals"): below 2^63 s the sums in
        // delay cannot leave Duration's range (Duration::from_millis(u64::MAX) < 2^55 s)
        kani::assume(i.lmax_s < (1u64 << 63) && i.gmax_s < (1u64 << 63) && i.lmin_s < (1u64 << 63) && i.gmin_s < (1u64 << 63));
        let mult = f64::from_bits(i.mult_bits);
        kani::assume(mult >= 0.0);                      // Exp::sample: >= 0 and not NaN (NaN fails every comparison)
        let lat = |min_s, min_ns, max_s, max_ns| config::Latency {
            min_message_latency: Duration::new(min_s, min_ns), max_message_latency: Duration::new(max_s, max_ns),
            latency_distribution: Exp { sample: mult } };
        let global = lat(i.gmin_s, i.gmin_ns, i.gmax_s, i.gmax_ns);
        let link = Link { config: config::Link { latency: if i.link_has { Some(lat(i.lmin_s, i.lmin_ns, i.lmax_s, i.lmax_ns)) } else { None }, message_loss: None } };
        let (emin, emax) = if i.link_has { (Duration::new(i.lmin_s, i.lmin_ns), Duration::new(i.lmax_s, i.lmax_ns)) }
                           else { (Duration::new(i.gmin_s, i.gmin_ns), Duration::new(i.gmax_s, i.gmax_ns)) };
        kani::assume(emin <= emax);                     // the clause's requires
        let r = link.delay(&global, &mut NoRng);
        (r, emin, emax)
    }

    // [C14.delay.lower] eff_latency(*self, *global).min_message_latency.ns@ <= r.ns@
    #[kani::proof]
    fn delay_lower() {
        let (r, emin, emax) = run();
        assert!(emin <= r, "C14.delay.lower");
    }

    // [C14.delay.upper] r.ns@ <= eff_latency(*self, *global).max_message_latency.ns@
    #[kani::proof]
    fn delay_upper() {
        let (r, emin, emax) = run();
        assert!(r <= emax, "C14.delay.upper");
    }
}
