// Kani twin of crates/turmoil-net/src/kernel/udp.rs::send_to (unit nettcp, property C16: the MTU check of UDP send).
// send_to, max_payload, is_ipv4_broadcast and the packet / socket-key types are extracted verbatim; the kernel state
// around them is the hand-written stand-in below (same role as the unit-local stubs of nettcp.vspec).
// Loop-free (the one iterator chain is a stub): every input below is fully symbolic, a pass is a complete proof of the
// clauses over this stand-in state.
#![allow(dead_code, unused)]
use std::io::{Error, ErrorKind, Result};
use std::net::{IpAddr, Ipv4Addr, Ipv6Addr, SocketAddr};
use std::task::{Context, Poll, Waker};

// ---------------------------------------------------------------- STUBS (trusted, hand-written)
// bytes::Bytes: only the length is modelled (nettcp_bytes.rs models the content too; the MTU clauses do not read it)
#[derive(Clone, PartialEq, Eq)]
struct Bytes { len: usize }
impl Bytes {
    fn copy_from_slice(b: &[u8]) -> Bytes { Bytes { len: b.len() } }
    fn len(&self) -> usize { self.len }
}
// kernel::socket::Socket: the three fields send_to reads
struct Socket { domain: Domain, bound: Option<BindKey>, broadcast: bool }
// kernel::socket::SocketTable: a table holding exactly one socket (the clause requires has_sock(k, fd))
struct SocketTable { fd: Fd, st: Socket }
impl SocketTable {
    fn get(&self, fd: Fd) -> Option<&Socket> { if fd == self.fd { Some(&self.st) } else { None } }
}
// Kernel.addresses: `.iter().copied().find(p)` yields None or SOME address satisfying p (any list content)
struct Addrs;
struct AddrsIter;
impl Addrs { fn iter(&self) -> AddrsIter { AddrsIter } }
impl AddrsIter {
    fn copied(self) -> AddrsIter { self }
    fn find<P: FnMut(&IpAddr) -> bool>(self, mut p: P) -> Option<IpAddr> {
        if kani::any() { return None; }
        let a = any_ip(kani::any(), kani::any());
        kani::assume(p(&a));
        Some(a)
    }
}
// Kernel.outbound: counts pushes and keeps the last packet
struct Outbound { pushed: usize, last: Option<Packet> }
impl Outbound { fn push_back(&mut self, p: Packet) { self.pushed += 1; self.last = Some(p); } }
struct Kernel { sockets: SocketTable, addresses: Addrs, mtu: u32, loopback_mtu: u32, outbound: Outbound }
// udp::auto_bind (unit nettable): ASSUMED as in nettcp.vspec - may fail with a plain io::Error, never touches the
// outbound queue or the configuration
fn auto_bind(k: &mut Kernel, fd: Fd, domain: Domain, ty: Type, dst: IpAddr) -> Result<BindKey> {
    if kani::any() { return Err(Error::from(ErrorKind::AddrInUse)); }
    Ok(BindKey { domain, ty, local_addr: any_ip(kani::any(), kani::any()), local_port: kani::any() })
}
fn any_ip(v6: bool, bits: u128) -> IpAddr { if v6 { IpAddr::V6(Ipv6Addr::from(bits)) } else { IpAddr::V4(Ipv4Addr::from(bits as u32)) } }

mod packet { pub(crate) use super::{IPV4_HEADER_SIZE, IPV6_HEADER_SIZE, UDP_HEADER_SIZE}; }
// ---------------------------------------------------------------- EXTRACTED
//@@EXTRACT IPV4_HEADER_SIZE@@
//@@EXTRACT IPV6_HEADER_SIZE@@
//@@EXTRACT UDP_HEADER_SIZE@@
//@@EXTRACT EMSGSIZE@@
//@@EXTRACT Domain@@
//@@EXTRACT Type@@
//@@EXTRACT Fd@@
//@@EXTRACT BindKey@@
//@@EXTRACT Packet@@
//@@EXTRACT Transport@@
//@@EXTRACT UdpDatagram@@
//@@EXTRACT TcpSegment@@
//@@EXTRACT TcpFlags@@
//@@EXTRACT max_payload@@
//@@EXTRACT is_ipv4_broadcast@@
//@@EXTRACT send_to@@

#[cfg(kani)]
mod h {
    use super::*;

    // nettcp.vspec:
    //   spec fn sat_sub(a: int, b: int) -> int { if a >= b { a - b } else { 0 } }
    //   spec fn ip_hdr_of(ip: IpAddr) -> int { if ip is V4 { 20 } else { 40 } }
    //   spec fn mtu_of(k: Kernel, ip: IpAddr) -> int { if ip.spec_is_loopback() { k.loopback_mtu as int } else { k.mtu as int } }
    //   spec fn udp_max_spec(k: Kernel, ip: IpAddr) -> int { sat_sub(sat_sub(mtu_of(k, ip), ip_hdr_of(ip)), 8) }
    //   spec fn ready_err_any<T>(r) -> bool { match r { Poll::Ready(Err(e)) => true, _ => false } }
    //   spec fn ready_emsgsize<T>(r) -> bool { match r { Poll::Ready(Err(e)) => e.os_ == Some(90i32), _ => false } }
    //   spec fn ready_err<T>(r, kind) -> bool { match r { Poll::Ready(Err(e)) => e.kind_ == kind, _ => false } }
    fn sat_sub(a: u128, b: u128) -> u128 { if a >= b { a - b } else { 0 } }
    fn ip_hdr_of(v6: bool) -> u128 { if !v6 { 20 } else { 40 } }
    fn spec_is_loopback(v6: bool, bits: u128) -> bool { if !v6 { ((bits as u32) >> 24) == 127 } else { bits == 1 } }
    fn udp_max_spec(mtu: u32, lo: u32, v6: bool, bits: u128) -> u128 {
        let m = if spec_is_loopback(v6, bits) { lo as u128 } else { mtu as u128 };
        sat_sub(sat_sub(m, ip_hdr_of(v6)), 8)
    }
    fn ready_err_any(r: &Poll<Result<usize>>) -> bool { matches!(r, Poll::Ready(Err(_))) }
    fn ready_emsgsize(r: &Poll<Result<usize>>) -> bool { match r { Poll::Ready(Err(e)) => e.raw_os_error() == Some(90i32), _ => false } }
    fn ready_perm(r: &Poll<Result<usize>>) -> bool {
        match r { Poll::Ready(Err(e)) => e.raw_os_error().is_none() && e.kind() == ErrorKind::PermissionDenied, _ => false }
    }

    // A `&[u8]` of ANY length (up to isize::MAX, the language's bound for slices) without 2^63 bytes of memory behind it:
    // send_to reads buf.len() only, and the Bytes stand-in copies nothing.
    fn any_len_slice<'a>(len: usize) -> &'a [u8] {
        kani::assume(len <= isize::MAX as usize);
        // (`slice::from_raw_parts` would make CBMC demand `len` valid bytes; the raw fat pointer is reinterpreted instead)
        let raw: *const [u8] = std::ptr::slice_from_raw_parts(std::ptr::NonNull::<u8>::dangling().as_ptr(), len);
        unsafe { std::mem::transmute::<*const [u8], &'a [u8]>(raw) }
    }

    struct In { buf_len: usize, mtu: u32, loopback_mtu: u32, v6: bool, bits: u128, port: u16, broadcast: bool, bound: bool }
    struct Out { r: Poll<Result<usize>>, pushed: usize }
    // Largest buffer the replay test allocates (4 GiB + 64 KiB).  Only the `_w` (witness) harnesses assume it: they are run
    // after the full-domain harness FAILED, to obtain a counterexample that can be executed; they never produce a `pass`.
    const REPLAYABLE_LEN: usize = (1usize << 32) + (1usize << 16);
    // `_s` witnesses are tried first: a buffer of at most 64 KiB (cheap replay); `_w` is the fallback (a 4 GiB replay).
    const SMALL_LEN: usize = 1usize << 16;
    #[derive(Clone, Copy, PartialEq)]
    enum Dom { Full, Replayable, Small }
    // named inputs are drawn first, in the order the twin spec lists them
    fn run(dom: Dom) -> (In, Out) {
        let i = In { buf_len: kani::any(), mtu: kani::any(), loopback_mtu: kani::any(), v6: kani::any(), bits: kani::any(),
                     port: kani::any(), broadcast: kani::any(), bound: kani::any() };
        if dom == Dom::Replayable { kani::assume(i.buf_len <= REPLAYABLE_LEN); }
        if dom == Dom::Small { kani::assume(i.buf_len <= SMALL_LEN); }
        let fd = Fd(kani::any());
        let domain = if i.v6 { Domain::Inet6 } else { Domain::Inet };
        let bound = if i.bound {
            Some(BindKey { domain, ty: Type::Dgram, local_addr: any_ip(i.v6, kani::any()), local_port: kani::any() })
        } else { None };
        let mut k = Kernel { sockets: SocketTable { fd, st: Socket { domain, bound, broadcast: i.broadcast } }, addresses: Addrs,
                             mtu: i.mtu, loopback_mtu: i.loopback_mtu, outbound: Outbound { pushed: 0, last: None } };
        let dst = SocketAddr::new(any_ip(i.v6, i.bits), i.port);
        let mut cx = Context::from_waker(Waker::noop());
        let r = send_to(&mut k, fd, &mut cx, any_len_slice(i.buf_len), &dst);
        let pushed = k.outbound.pushed;
        (i, Out { r, pushed })
    }

    // [C16.udp.mtu] buf@.len() > udp_max_spec(*old(k), dst_sa.sip()) ==> ready_err_any(r) && final(k).outbound@ == old(k).outbound@
    fn udp_mtu_body(dom: Dom) {
        let (i, o) = run(dom);
        if i.buf_len as u128 > udp_max_spec(i.mtu, i.loopback_mtu, i.v6, i.bits) {
            assert!(ready_err_any(&o.r) && o.pushed == 0, "C16.udp.mtu");
        }
    }
    #[kani::proof]
    fn udp_mtu() { udp_mtu_body(Dom::Full) }
    #[kani::proof]
    fn udp_mtu_s() { udp_mtu_body(Dom::Small) }
    #[kani::proof]
    fn udp_mtu_w() { udp_mtu_body(Dom::Replayable) }

    // [C16.udp.mtu.u32] (buf@.len() <= u32::MAX && buf@.len() > udp_max_spec(*old(k), dst_sa.sip())) ==>
    //     (ready_emsgsize(r) || ready_err(r, ErrorKind::PermissionDenied)) && final(k).outbound@ == old(k).outbound@
    fn udp_mtu_u32_body(dom: Dom) {
        let (i, o) = run(dom);
        if i.buf_len as u128 <= u32::MAX as u128 && i.buf_len as u128 > udp_max_spec(i.mtu, i.loopback_mtu, i.v6, i.bits) {
            assert!((ready_emsgsize(&o.r) || ready_perm(&o.r)) && o.pushed == 0, "C16.udp.mtu.u32");
        }
    }
    #[kani::proof]
    fn udp_mtu_u32() { udp_mtu_u32_body(Dom::Full) }
    #[kani::proof]
    fn udp_mtu_u32_s() { udp_mtu_u32_body(Dom::Small) }
    #[kani::proof]
    fn udp_mtu_u32_w() { udp_mtu_u32_body(Dom::Replayable) }

    // [C16.udp.emsgsize.only] ready_emsgsize(r) ==> buf@.len() > udp_max_spec(*old(k), dst_sa.sip()) || buf@.len() > u32::MAX
    fn udp_emsgsize_only_body(dom: Dom) {
        let (i, o) = run(dom);
        if ready_emsgsize(&o.r) {
            assert!(i.buf_len as u128 > udp_max_spec(i.mtu, i.loopback_mtu, i.v6, i.bits) || i.buf_len as u128 > u32::MAX as u128, "C16.udp.emsgsize.only");
        }
    }
    #[kani::proof]
    fn udp_emsgsize_only() { udp_emsgsize_only_body(Dom::Full) }
    #[kani::proof]
    fn udp_emsgsize_only_s() { udp_emsgsize_only_body(Dom::Small) }
    #[kani::proof]
    fn udp_emsgsize_only_w() { udp_emsgsize_only_body(Dom::Replayable) }
}
