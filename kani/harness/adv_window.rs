// Kani twin of crates/turmoil-net/src/kernel/tcp.rs::advertised_window (unit nettcp, property C16).
// Property side only: the function text is spliced in by vp/kanitwin.py at the marker below.
// Loop-free, both inputs fully symbolic (usize x usize): a pass is a complete proof, not a bounded one.
#![allow(dead_code, unused)]

//@@EXTRACT advertised_window@@

#[cfg(kani)]
mod h {
    use super::*;

    // nettcp.vspec:  spec fn sat_sub(a: int, b: int) -> int { if a >= b { a - b } else { 0 } }
    //                spec fn adv_wnd(cap: int, len: int) -> int { if sat_sub(cap, len) < 65535 { sat_sub(cap, len) } else { 65535 } }
    // (over mathematical integers: u128 holds every usize difference)
    fn sat_sub(a: u128, b: u128) -> u128 { if a >= b { a - b } else { 0 } }
    fn adv_wnd(cap: u128, len: u128) -> u128 { if sat_sub(cap, len) < 65535 { sat_sub(cap, len) } else { 65535 } }

    // [C16.adv.exact] r == adv_wnd(recv_buf_cap as int, recv_buf_len as int)
    #[kani::proof]
    fn adv_exact() {
        let recv_buf_cap: usize = kani::any();
        let recv_buf_len: usize = kani::any();
        let r = advertised_window(recv_buf_cap, recv_buf_len);
        assert!(r as u128 == adv_wnd(recv_buf_cap as u128, recv_buf_len as u128), "C16.adv.exact");
    }

    // [C16.adv.room] recv_buf_len + r <= recv_buf_cap || r == 0
    #[kani::proof]
    fn adv_room() {
        let recv_buf_cap: usize = kani::any();
        let recv_buf_len: usize = kani::any();
        let r = advertised_window(recv_buf_cap, recv_buf_len);
        assert!(recv_buf_len as u128 + r as u128 <= recv_buf_cap as u128 || r == 0, "C16.adv.room");
    }
}
