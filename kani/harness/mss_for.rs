// Kani twin of crates/turmoil-net/src/kernel/tcp.rs::mss_for (unit nettcp, property C16).
// Loop-free; mtu, loopback_mtu: u32 and the address (family + all 128/32 bits) are fully symbolic: complete proof.
#![allow(dead_code, unused)]
use std::net::{IpAddr, Ipv4Addr, Ipv6Addr};

// STUB (trusted, hand-written): the two fields of kernel::Kernel that mss_for reads.  The real Kernel also holds the
// socket table, the address list, buffer caps and the outbound queue; mss_for touches none of them.
struct Kernel { mtu: u32, loopback_mtu: u32 }

// `packet::X` paths of the extracted text resolve to the constants extracted from kernel/packet.rs
mod packet { pub(crate) use super::{IPV4_HEADER_SIZE, IPV6_HEADER_SIZE, TCP_HEADER_SIZE}; }
//@@EXTRACT IPV4_HEADER_SIZE@@
//@@EXTRACT IPV6_HEADER_SIZE@@
//@@EXTRACT TCP_HEADER_SIZE@@

//@@EXTRACT mss_for@@

#[cfg(kani)]
mod h {
    use super::*;

    // nettcp.vspec (over int; u64 holds every value here):
    //   spec fn sat_sub(a: int, b: int) -> int { if a >= b { a - b } else { 0 } }
    //   spec fn ip_hdr_of(ip: IpAddr) -> int { if ip is V4 { 20 } else { 40 } }
    //   spec fn mtu_of(k: Kernel, ip: IpAddr) -> int { if ip.spec_is_loopback() { k.loopback_mtu as int } else { k.mtu as int } }
    //   spec fn mss_spec(k: Kernel, ip: IpAddr) -> int { sat_sub(sat_sub(mtu_of(k, ip), ip_hdr_of(ip)), 20) }
    // prelude/net.rs: Ipv4Addr::spec_is_loopback = (bits >> 24) == 127;  Ipv6Addr::spec_is_loopback = bits == 1
    fn sat_sub(a: u64, b: u64) -> u64 { if a >= b { a - b } else { 0 } }
    fn ip_hdr_of(v6: bool) -> u64 { if !v6 { 20 } else { 40 } }
    fn spec_is_loopback(v6: bool, bits: u128) -> bool { if !v6 { ((bits as u32) >> 24) == 127 } else { bits == 1 } }
    fn mtu_of(k: &Kernel, v6: bool, bits: u128) -> u64 { if spec_is_loopback(v6, bits) { k.loopback_mtu as u64 } else { k.mtu as u64 } }
    fn mss_spec(k: &Kernel, v6: bool, bits: u128) -> u64 { sat_sub(sat_sub(mtu_of(k, v6, bits), ip_hdr_of(v6)), 20) }
    fn ip(v6: bool, bits: u128) -> IpAddr { if v6 { IpAddr::V6(Ipv6Addr::from(bits)) } else { IpAddr::V4(Ipv4Addr::from(bits as u32)) } }

    // [C16.mss.exact] r == mss_spec(*k, src_ip)
    #[kani::proof]
    fn mss_exact() {
        let mtu: u32 = kani::any();
        let loopback_mtu: u32 = kani::any();
        let v6: bool = kani::any();
        let bits: u128 = kani::any();
        let k = Kernel { mtu, loopback_mtu };
        let r = mss_for(&k, ip(v6, bits));
        assert!(r as u64 == mss_spec(&k, v6, bits), "C16.mss.exact");
    }

    // [C16.mss.fits] r + 20 + ip_hdr_of(src_ip) <= mtu_of(*k, src_ip) || r == 0
    #[kani::proof]
    fn mss_fits() {
        let mtu: u32 = kani::any();
        let loopback_mtu: u32 = kani::any();
        let v6: bool = kani::any();
        let bits: u128 = kani::any();
        let k = Kernel { mtu, loopback_mtu };
        let r = mss_for(&k, ip(v6, bits));
        assert!(r as u64 + 20 + ip_hdr_of(v6) <= mtu_of(&k, v6, bits) || r == 0, "C16.mss.fits");
    }
}
