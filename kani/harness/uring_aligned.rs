// Kani twin of crates/turmoil-io-uring/src/sim.rs::direct_io_aligned (unit uring, property C18).
// Loop-free; alignment, pointer value, offset and length are fully symbolic: complete proof.
#![allow(dead_code, unused)]

// STUB (trusted, hand-written): the one field of turmoil_fs::Fs that direct_io_aligned reads.
struct Fs { direct_io_alignment: u64 }

//@@EXTRACT direct_io_aligned@@

#[cfg(kani)]
mod h {
    use super::*;

    // uring.vspec:
    //   // uN::is_multiple_of
    //   spec fn is_mult(x: int, a: int) -> bool { if a == 0 { x == 0 } else { x % a == 0 } }
    //   spec fn uring_aligned(fs: Fs, ptr: usize, offset: u64, len: u32) -> bool {
    //       fs.direct_io_alignment == 0
    //       || (is_mult(ptr as int, (fs.direct_io_alignment as usize) as int) && is_mult(offset as int, fs.direct_io_alignment as int)
    //           && is_mult(len as int, fs.direct_io_alignment as int)) }
    // (all operands are non-negative and below 2^64, so `%` over int is `%` over u64.  Same-width arithmetic matters: a
    // symbolic 64-bit remainder is out of reach for the SAT back ends here - CaDiCaL and kissat did not finish in 300 s -
    // while z3 (`--solver z3`, see the twin spec) decides this harness in ~6 s.)
    fn is_mult(x: u64, a: u64) -> bool { if a == 0 { x == 0 } else { x % a == 0 } }
    fn uring_aligned(alignment: u64, ptr: usize, offset: u64, len: u32) -> bool {
        alignment == 0
            || (is_mult(ptr as u64, (alignment as usize) as u64) && is_mult(offset, alignment) && is_mult(len as u64, alignment))
    }

    // [C18.exec.aligned] r == uring_aligned(*fs, ptr, offset, len)
    #[kani::proof]
    fn aligned_exact() {
        let alignment: u64 = kani::any();
        let ptr: usize = kani::any();
        let offset: u64 = kani::any();
        let len: u32 = kani::any();
        let fs = Fs { direct_io_alignment: alignment };
        let r = direct_io_aligned(&fs, ptr, offset, len);
        assert!(r == uring_aligned(alignment, ptr, offset, len), "C18.exec.aligned");
    }
}
