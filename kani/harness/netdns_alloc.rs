// Kani twin of the allocation step of crates/turmoil-net/src/dns.rs::Dns::resolve (unit netdns, property C17): the body of
// the closure given to `or_insert_with`, lifted verbatim (the same R5 lift netdns.vspec uses, there called `alloc_next`).
// The fn header below is the one the sidecar declares (`params=next: &mut u32  ret=IpAddr`); no stand-in types.
// Loop-free; the whole counter is symbolic: complete proof.  The `assert!(host <= u16::MAX ..)` of fix 712b0f4 is read as a
// guard (netdns.vspec: idiom_panic_unless) - declared as `guard_panics` in the twin spec.
#![allow(dead_code, unused)]
use std::net::{IpAddr, Ipv4Addr};

fn alloc_next(next: &mut u32) -> IpAddr
//@@EXTRACT alloc_next_body@@

#[cfg(kani)]
mod h {
    use super::*;

    // netdns.vspec:
    //   spec fn nd_bits(k: u32) -> u32 { ((192u8 as u32) << 24) | ((168u8 as u32) << 16) | ((((k >> 8) as u8) as u32) << 8) | (((k & 0xff) as u8) as u32) }
    //   spec fn nd_addr(k: u32) -> IpAddr { IpAddr::V4(Ipv4Addr { bits: nd_bits(k) }) }
    //   spec fn nd_succ(k: u32) -> u32 { if k == u32::MAX { 0 } else { (k + 1) as u32 } }
    //   spec fn nd_has_room(k: u32) -> bool { k < 0x1_0000 }
    // (`bits` of an Ipv4Addr = u32::from(addr), prelude/net.rs)
    fn nd_bits(k: u32) -> u32 { ((192u8 as u32) << 24) | ((168u8 as u32) << 16) | ((((k >> 8) as u8) as u32) << 8) | (((k & 0xff) as u8) as u32) }
    fn nd_succ(k: u32) -> u32 { if k == u32::MAX { 0 } else { k + 1 } }
    fn nd_has_room(k: u32) -> bool { k < 0x1_0000 }

    // [C17.ndns.alloc.guard] nd_has_room(*old(next))           (an `ensures`: whenever the step RETURNS there was room)
    #[kani::proof]
    fn ndns_guard() {
        let counter: u32 = kani::any();
        let mut next = counter;
        let _ = alloc_next(&mut next);
        assert!(nd_has_room(counter), "C17.ndns.alloc.guard");
    }
    // [C17.ndns.alloc.addr] r == nd_addr(*old(next))
    #[kani::proof]
    fn ndns_addr() {
        let counter: u32 = kani::any();
        let mut next = counter;
        let r = alloc_next(&mut next);
        assert!(matches!(r, IpAddr::V4(a) if u32::from(a) == nd_bits(counter)), "C17.ndns.alloc.addr");
    }
    // [C17.ndns.alloc.succ] *final(next) == nd_succ(*old(next))
    #[kani::proof]
    fn ndns_succ() {
        let counter: u32 = kani::any();
        let mut next = counter;
        let _ = alloc_next(&mut next);
        assert!(next == nd_succ(counter), "C17.ndns.alloc.succ");
    }
}
