// Kani twin of crates/turmoil/src/host.rs::Host::assign_ephemeral_port (unit ports, property C15).
// The method is extracted verbatim.  It loops over the configured port range, so this twin is BOUNDED: ranges of at most
// 4 ports (any position in u16, any cursor inside), at most 2 UDP and 2 TCP ports in use (anywhere in u16).  Kani's
// unwinding assertions are on (unwind 6): within that bound nothing is cut off.  Reported as kani-bounded, never as a proof.
#![allow(dead_code, unused)]
use std::ops::RangeInclusive;

// ---------------------------------------------------------------- STUBS (trusted, hand-written)
// host.rs::Udp / Tcp: only `is_port_assigned` is called; the in-use set is any set of at most two ports each
struct Udp { p: [u16; 2], n: u8 }
struct Tcp { p: [u16; 2], n: u8 }
impl Udp { fn is_port_assigned(&self, port: u16) -> bool { (self.n >= 1 && self.p[0] == port) || (self.n >= 2 && self.p[1] == port) } }
impl Tcp { fn is_port_assigned(&self, port: u16) -> bool { (self.n >= 1 && self.p[0] == port) || (self.n >= 2 && self.p[1] == port) } }
// host.rs::Host: the fields the method touches (nodename only feeds the panic message)
struct Host { nodename: &'static str, udp: Udp, tcp: Tcp, next_ephemeral_port: u16, ephemeral_ports: RangeInclusive<u16> }

impl Host {
    //@@EXTRACT assign_ephemeral_port@@
}

#[cfg(kani)]
mod h {
    use super::*;

    // ports.vspec:
    //   spec fn cand(lo, hi, c0, k) -> int { if c0 + k <= hi { c0 + k } else { c0 + k - (hi - lo + 1) } }
    //   spec fn steps_to(lo, hi, c0, p) -> int { if p >= c0 { p - c0 } else { p - c0 + (hi - lo + 1) } }
    //   in_use(p) = self.udp.assigned(p) || self.tcp.assigned(p)
    //   eph_wf    = !exhausted && (lo <= hi ==> lo <= next_ephemeral_port <= hi)
    //   requires old(self).eph_wf(), old(self).some_port_free()      // exists p in lo..=hi not in use
    fn cand(lo: i64, hi: i64, c0: i64, k: i64) -> i64 { if c0 + k <= hi { c0 + k } else { c0 + k - (hi - lo + 1) } }
    fn steps_to(lo: i64, hi: i64, c0: i64, p: i64) -> i64 { if p >= c0 { p - c0 } else { p - c0 + (hi - lo + 1) } }

    struct In { lo: u16, len: u8, next: u16, udp_n: u8, udp_a: u16, udp_b: u16, tcp_n: u8, tcp_a: u16, tcp_b: u16 }
    fn in_use(i: &In, p: u16) -> bool {
        (i.udp_n >= 1 && i.udp_a == p) || (i.udp_n >= 2 && i.udp_b == p) || (i.tcp_n >= 1 && i.tcp_a == p) || (i.tcp_n >= 2 && i.tcp_b == p)
    }
    fn run() -> (In, u16, Host) {
        // named inputs first, in the order of the twin spec
        let i = In { lo: kani::any(), len: kani::any(), next: kani::any(), udp_n: kani::any(), udp_a: kani::any(), udp_b: kani::any(),
                     tcp_n: kani::any(), tcp_a: kani::any(), tcp_b: kani::any() };
        // THE BOUND: 1..=4 ports in the range, at most two in-use ports per protocol
        kani::assume(i.len >= 1 && i.len <= 4 && i.udp_n <= 2 && i.tcp_n <= 2);
        kani::assume(i.lo as u32 + i.len as u32 - 1 <= u16::MAX as u32);
        let hi = i.lo + (i.len as u16 - 1);
        kani::assume(i.lo <= i.next && i.next <= hi);                                   // eph_wf
        let free = (0..4u16).any(|k| k < i.len as u16 && !in_use(&i, i.lo + k));       // some_port_free
        kani::assume(free);
        let mut host = Host { nodename: "h", udp: Udp { p: [i.udp_a, i.udp_b], n: i.udp_n }, tcp: Tcp { p: [i.tcp_a, i.tcp_b], n: i.tcp_n },
                              next_ephemeral_port: i.next, ephemeral_ports: i.lo..=hi };
        let r = host.assign_ephemeral_port();
        (i, r, host)
    }

    // [C15.eph.range] old(self).lo() <= r <= old(self).hi()
    #[kani::proof]
    fn eph_range() {
        let (i, r, host) = run();
        assert!(i.lo <= r && r <= i.lo + (i.len as u16 - 1), "C15.eph.range");
    }
    // [C15.eph.free] !old(self).udp.assigned(r) && !old(self).tcp.assigned(r)
    #[kani::proof]
    fn eph_free() {
        let (i, r, host) = run();
        assert!(!in_use(&i, r), "C15.eph.free");
    }
    // [C15.eph.first] forall|j: int| 0 <= j < steps_to(old(self).lo(), old(self).hi(), old(self).next_ephemeral_port as int, r as int)
    //     ==> old(self).in_use_at(#[trigger] cand(old(self).lo(), old(self).hi(), old(self).next_ephemeral_port as int, j))
    #[kani::proof]
    fn eph_first() {
        let (i, r, host) = run();
        let (lo, hi, c0) = (i.lo as i64, i.lo as i64 + i.len as i64 - 1, i.next as i64);
        let steps = steps_to(lo, hi, c0, r as i64);
        let mut ok = true;
        let mut j = 0i64;
        while j < 4 {                      // steps <= len - 1 <= 3 within the bound
            if j < steps { let c = cand(lo, hi, c0, j); ok = ok && 0 <= c && c <= u16::MAX as i64 && in_use(&i, c as u16); }
            j += 1;
        }
        assert!(ok && steps <= 3, "C15.eph.first");
    }
    // [C15.eph.cursor] final(self).next_ephemeral_port == (if r == old(self).hi() { old(self).lo() } else { r + 1 })
    #[kani::proof]
    fn eph_cursor() {
        let (i, r, host) = run();
        let hi = i.lo + (i.len as u16 - 1);
        assert!(host.next_ephemeral_port == (if r == hi { i.lo } else { r + 1 }), "C15.eph.cursor");
    }
}
