// Replay on the REAL Host::assign_ephemeral_port with REAL Udp/Tcp bind tables (appended to crates/turmoil/src/host.rs).
use super::*;
use std::net::{IpAddr, Ipv4Addr, SocketAddr};
use std::time::Duration;
fn cand(lo: i64, hi: i64, c0: i64, k: i64) -> i64 { if c0 + k <= hi { c0 + k } else { c0 + k - (hi - lo + 1) } }
fn steps_to(lo: i64, hi: i64, c0: i64, p: i64) -> i64 { if p >= c0 { p - c0 } else { p - c0 + (hi - lo + 1) } }
struct Case { lo: u16, hi: u16, next: u16, used: Vec<u16> }
// a real Host whose UDP / TCP tables hold binds on the counterexample's in-use ports (duplicates bind once)
fn setup(lo: u16, len: u8, next: u16, udp_n: u8, udp_a: u16, udp_b: u16, tcp_n: u8, tcp_a: u16, tcp_b: u16) -> (Host, Case) {
    let hi = lo + (len as u16 - 1);
    let ip = IpAddr::V4(Ipv4Addr::new(192, 168, 0, 1));
    let timer = HostTimer::new(Duration::ZERO, Duration::ZERO);
    #[cfg(not(feature = "unstable-fs"))]
    let mut host = Host::new("replay", ip, timer, lo..=hi, 64, 64);
    #[cfg(feature = "unstable-fs")]
    let mut host = Host::new("replay", ip, timer, lo..=hi, 64, 64, Default::default(), 0);
    let mut used = vec![];
    for p in [udp_a, udp_b].iter().take(udp_n as usize) {
        if !host.udp.is_port_assigned(*p) { std::mem::forget(host.udp.bind(SocketAddr::new(ip, *p)).unwrap()); }
        used.push(*p);
    }
    for p in [tcp_a, tcp_b].iter().take(tcp_n as usize) {
        if !host.tcp.is_port_assigned(*p) { std::mem::forget(host.tcp.bind(SocketAddr::new(ip, *p)).unwrap()); }
        used.push(*p);
    }
    host.next_ephemeral_port = next;
    println!("REPLAY-SETUP-DONE");
    (host, Case { lo, hi, next, used })
}
fn call(lo: u16, len: u8, next: u16, udp_n: u8, udp_a: u16, udp_b: u16, tcp_n: u8, tcp_a: u16, tcp_b: u16) -> (u16, Host, Case) {
    let (mut host, c) = setup(lo, len, next, udp_n, udp_a, udp_b, tcp_n, tcp_a, tcp_b);
    let r = host.assign_ephemeral_port();
    println!("REPLAY-OBSERVED assign_ephemeral_port() = {r} with range {}..={}, cursor {}, ports in use {:?}; cursor afterwards {}", c.lo, c.hi, c.next, c.used, host.next_ephemeral_port);
    (r, host, c)
}
//@@REPLAY eph_range@@
#[test]
fn eph_range() {
    let (r, host, c) = call(@lo@, @len@, @next@, @udp_n@, @udp_a@, @udp_b@, @tcp_n@, @tcp_a@, @tcp_b@);
    assert!(c.lo <= r && r <= c.hi, "REPLAY-VIOLATION C15.eph.range");
}
//@@REPLAY eph_free@@
#[test]
fn eph_free() {
    let (r, host, c) = call(@lo@, @len@, @next@, @udp_n@, @udp_a@, @udp_b@, @tcp_n@, @tcp_a@, @tcp_b@);
    assert!(!c.used.contains(&r), "REPLAY-VIOLATION C15.eph.free");
}
//@@REPLAY eph_first@@
#[test]
fn eph_first() {
    let (r, host, c) = call(@lo@, @len@, @next@, @udp_n@, @udp_a@, @udp_b@, @tcp_n@, @tcp_a@, @tcp_b@);
    let (lo, hi, c0) = (c.lo as i64, c.hi as i64, c.next as i64);
    let ok = (0..steps_to(lo, hi, c0, r as i64)).all(|j| { let p = cand(lo, hi, c0, j); 0 <= p && p <= 65535 && c.used.contains(&(p as u16)) });
    assert!(ok, "REPLAY-VIOLATION C15.eph.first");
}
//@@REPLAY eph_cursor@@
#[test]
fn eph_cursor() {
    let (r, host, c) = call(@lo@, @len@, @next@, @udp_n@, @udp_a@, @udp_b@, @tcp_n@, @tcp_a@, @tcp_b@);
    assert!(host.next_ephemeral_port == (if r == c.hi { c.lo } else { r + 1 }), "REPLAY-VIOLATION C15.eph.cursor");
}
