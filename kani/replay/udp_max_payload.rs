// Replay on the REAL udp::max_payload with a REAL Kernel (appended to kernel/udp.rs in a scratch copy).
use super::*;
fn sat_sub(a: u64, b: u64) -> u64 { if a >= b { a - b } else { 0 } }
fn ip_hdr_of(v6: bool) -> u64 { if !v6 { 20 } else { 40 } }
fn spec_is_loopback(v6: bool, bits: u128) -> bool { if !v6 { ((bits as u32) >> 24) == 127 } else { bits == 1 } }
fn mtu_of(mtu: u32, lo: u32, v6: bool, bits: u128) -> u64 { if spec_is_loopback(v6, bits) { lo as u64 } else { mtu as u64 } }
fn sa(v6: bool, bits: u128, port: u16) -> SocketAddr {
    SocketAddr::new(if v6 { IpAddr::V6(Ipv6Addr::from(bits)) } else { IpAddr::V4(Ipv4Addr::from(bits as u32)) }, port)
}
fn kernel(mtu: u32, lo: u32) -> Kernel {
    let mut k = Kernel::new();
    k.mtu = mtu;
    k.loopback_mtu = lo;
    k
}
//@@REPLAY udp_max_exact@@
#[test]
fn udp_max_exact() {
    let (mtu, loopback_mtu, v6, bits, port) = (@mtu@, @loopback_mtu@, @v6@, @bits@, @port@);
    let k = kernel(mtu, loopback_mtu);
    println!("REPLAY-SETUP-DONE");
    let r = max_payload(&k, &sa(v6, bits, port));
    let want = sat_sub(sat_sub(mtu_of(mtu, loopback_mtu, v6, bits), ip_hdr_of(v6)), 8);
    println!("REPLAY-OBSERVED max_payload(mtu={mtu}, loopback_mtu={loopback_mtu}, {}) = {r}; clause demands {want}", sa(v6, bits, port));
    assert!(r as u64 == want, "REPLAY-VIOLATION C16.udp.max.exact");
}
//@@REPLAY udp_max_fits@@
#[test]
fn udp_max_fits() {
    let (mtu, loopback_mtu, v6, bits, port) = (@mtu@, @loopback_mtu@, @v6@, @bits@, @port@);
    let k = kernel(mtu, loopback_mtu);
    println!("REPLAY-SETUP-DONE");
    let r = max_payload(&k, &sa(v6, bits, port));
    println!("REPLAY-OBSERVED max_payload(mtu={mtu}, loopback_mtu={loopback_mtu}, {}) = {r}; mtu in force {}", sa(v6, bits, port), mtu_of(mtu, loopback_mtu, v6, bits));
    assert!(r as u64 + 8 + ip_hdr_of(v6) <= mtu_of(mtu, loopback_mtu, v6, bits) || r == 0, "REPLAY-VIOLATION C16.udp.max.fits");
}
