// Replay on the REAL udp::send_to with a REAL Kernel (appended to kernel/udp.rs in a scratch copy).
use super::*;
use std::task::Waker;
fn sat_sub(a: u128, b: u128) -> u128 { if a >= b { a - b } else { 0 } }
fn ip_hdr_of(v6: bool) -> u128 { if !v6 { 20 } else { 40 } }
fn spec_is_loopback(v6: bool, bits: u128) -> bool { if !v6 { ((bits as u32) >> 24) == 127 } else { bits == 1 } }
fn udp_max_spec(mtu: u32, lo: u32, v6: bool, bits: u128) -> u128 {
    let m = if spec_is_loopback(v6, bits) { lo as u128 } else { mtu as u128 };
    sat_sub(sat_sub(m, ip_hdr_of(v6)), 8)
}
fn ready_err_any(r: &Poll<Result<usize>>) -> bool { matches!(r, Poll::Ready(Err(_))) }
fn ready_emsgsize(r: &Poll<Result<usize>>) -> bool { match r { Poll::Ready(Err(e)) => e.raw_os_error() == Some(90i32), _ => false } }
fn ready_perm(r: &Poll<Result<usize>>) -> bool {
    match r { Poll::Ready(Err(e)) => e.raw_os_error().is_none() && e.kind() == ErrorKind::PermissionDenied, _ => false }
}
fn show(r: &Poll<Result<usize>>) -> String {
    match r { Poll::Pending => "Pending".into(), Poll::Ready(Ok(n)) => format!("Ok({n})"), Poll::Ready(Err(e)) => format!("Err(kind={:?}, os={:?})", e.kind(), e.raw_os_error()) }
}
// A real kernel with one UDP socket of the destination's family (bound to the wildcard address, or unbound), one
// configured non-loopback address of that family (so that an unbound socket can auto-bind), and the two MTUs.
fn setup(mtu: u32, lo: u32, v6: bool, bits: u128, port: u16, broadcast: bool, bound: bool) -> (Kernel, Fd, SocketAddr) {
    let mut k = Kernel::new();
    k.mtu = mtu;
    k.loopback_mtu = lo;
    k.add_address(if v6 { "fe80::1".parse().unwrap() } else { "10.0.0.1".parse().unwrap() });
    let domain = if v6 { Domain::Inet6 } else { Domain::Inet };
    let fd = if bound {
        let any: SocketAddr = if v6 { "[::]:0".parse().unwrap() } else { "0.0.0.0:0".parse().unwrap() };
        k.bind(&Addr::Inet(any), Type::Dgram).unwrap()
    } else {
        k.open(domain, Type::Dgram)
    };
    k.sockets.get_mut(fd).unwrap().broadcast = broadcast;
    let dst = SocketAddr::new(if v6 { IpAddr::V6(Ipv6Addr::from(bits)) } else { IpAddr::V4(Ipv4Addr::from(bits as u32)) }, port);
    (k, fd, dst)
}
fn call(buf_len: usize, mtu: u32, lo: u32, v6: bool, bits: u128, port: u16, broadcast: bool, bound: bool) -> (Poll<Result<usize>>, usize, u128) {
    let (mut k, fd, dst) = setup(mtu, lo, v6, bits, port, broadcast, bound);
    let buf = vec![0u8; buf_len];          // the real buffer (zero pages until the code under test copies it)
    let before = k.outbound.len();
    println!("REPLAY-SETUP-DONE");
    let mut cx = Context::from_waker(Waker::noop());
    let r = send_to(&mut k, fd, &mut cx, &buf, &dst);
    let pushed = k.outbound.len() - before;
    let max = udp_max_spec(mtu, lo, v6, bits);
    println!("REPLAY-OBSERVED send_to(buf.len()={buf_len}, dst={dst}, mtu={mtu}, loopback_mtu={lo}, broadcast={broadcast}, bound={bound}) = {}; packets queued: {pushed}; max UDP payload by the clause: {max}", show(&r));
    (r, pushed, max)
}
//@@REPLAY udp_mtu@@
#[test]
fn udp_mtu() {
    let (r, pushed, max) = call(@buf_len@, @mtu@, @loopback_mtu@, @v6@, @bits@, @port@, @broadcast@, @bound@);
    if @buf_len@ as u128 > max {
        assert!(ready_err_any(&r) && pushed == 0, "REPLAY-VIOLATION C16.udp.mtu");
    }
}
//@@REPLAY udp_mtu_u32@@
#[test]
fn udp_mtu_u32() {
    let (r, pushed, max) = call(@buf_len@, @mtu@, @loopback_mtu@, @v6@, @bits@, @port@, @broadcast@, @bound@);
    if @buf_len@ as u128 <= u32::MAX as u128 && @buf_len@ as u128 > max {
        assert!((ready_emsgsize(&r) || ready_perm(&r)) && pushed == 0, "REPLAY-VIOLATION C16.udp.mtu.u32");
    }
}
//@@REPLAY udp_emsgsize_only@@
#[test]
fn udp_emsgsize_only() {
    let (r, pushed, max) = call(@buf_len@, @mtu@, @loopback_mtu@, @v6@, @bits@, @port@, @broadcast@, @bound@);
    if ready_emsgsize(&r) {
        assert!(@buf_len@ as u128 > max || @buf_len@ as u128 > u32::MAX as u128, "REPLAY-VIOLATION C16.udp.emsgsize.only");
    }
}
