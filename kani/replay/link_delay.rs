// Replay on the REAL Link::delay with the REAL rand_distr::Exp and a seeded SmallRng (appended to top.rs in a scratch copy).
use super::*;
use rand::{rngs::SmallRng, SeedableRng};
// Realise the counterexample's sample `mult` with the real distribution: with the generator in a known state Exp(1)
// yields e > 0, so Exp(lambda = e / mult) yields e * (1 / lambda), which is `mult` up to rounding (printed below).
fn dist_for(mult: f64, rng0: &SmallRng) -> Exp<f64> {
    let e: f64 = Exp::new(1.0).unwrap().sample(&mut rng0.clone());
    Exp::new(e / mult).expect("lambda")
}
fn call(link_has: bool, lmin_s: u64, lmin_ns: u32, lmax_s: u64, lmax_ns: u32, gmin_s: u64, gmin_ns: u32, gmax_s: u64, gmax_ns: u32, mult_bits: u64) -> (Duration, Duration, Duration) {
    let mult = f64::from_bits(mult_bits);
    let rng0 = SmallRng::seed_from_u64(0);
    let dist = dist_for(mult, &rng0);
    let realised: f64 = dist.sample(&mut rng0.clone());
    let lat = |min_s, min_ns, max_s, max_ns| config::Latency {
        min_message_latency: Duration::new(min_s, min_ns), max_message_latency: Duration::new(max_s, max_ns), latency_distribution: dist };
    let global = lat(gmin_s, gmin_ns, gmax_s, gmax_ns);
    let mut link = Link::new(Instant::now());
    link.config = config::Link { latency: if link_has { Some(lat(lmin_s, lmin_ns, lmax_s, lmax_ns)) } else { None }, message_loss: None };
    let (emin, emax) = if link_has { (Duration::new(lmin_s, lmin_ns), Duration::new(lmax_s, lmax_ns)) } else { (Duration::new(gmin_s, gmin_ns), Duration::new(gmax_s, gmax_ns)) };
    assert!(emin <= emax, "set-up: the counterexample must satisfy the clause's requires");
    let mut rng = rng0.clone();
    println!("REPLAY-SETUP-DONE");
    let r = link.delay(&global, &mut rng);
    println!("REPLAY-OBSERVED delay() = {r:?} with effective window [{emin:?}, {emax:?}], per-link config present: {link_has}, sample {realised:e} (counterexample asked for {mult:e})");
    (r, emin, emax)
}
//@@REPLAY delay_lower@@
#[test]
fn delay_lower() {
    let (r, emin, emax) = call(@link_has@, @lmin_s@, @lmin_ns@, @lmax_s@, @lmax_ns@, @gmin_s@, @gmin_ns@, @gmax_s@, @gmax_ns@, @mult_bits_raw@);
    assert!(emin <= r, "REPLAY-VIOLATION C14.delay.lower");
}
//@@REPLAY delay_upper@@
#[test]
fn delay_upper() {
    let (r, emin, emax) = call(@link_has@, @lmin_s@, @lmin_ns@, @lmax_s@, @lmax_ns@, @gmin_s@, @gmin_ns@, @gmax_s@, @gmax_ns@, @mult_bits_raw@);
    assert!(r <= emax, "REPLAY-VIOLATION C14.delay.upper");
}
