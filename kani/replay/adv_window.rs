// Replay of a Kani counterexample on the REAL advertised_window (appended to kernel/tcp.rs in a scratch copy).
use super::*;
fn sat_sub(a: u128, b: u128) -> u128 { if a >= b { a - b } else { 0 } }
fn adv_wnd(cap: u128, len: u128) -> u128 { if sat_sub(cap, len) < 65535 { sat_sub(cap, len) } else { 65535 } }
//@@REPLAY adv_exact@@
#[test]
fn adv_exact() {
    let (recv_buf_cap, recv_buf_len) = (@recv_buf_cap@, @recv_buf_len@);
    println!("REPLAY-SETUP-DONE");
    let r = advertised_window(recv_buf_cap, recv_buf_len);
    println!("REPLAY-OBSERVED advertised_window({recv_buf_cap}, {recv_buf_len}) = {r}; clause demands {}", adv_wnd(recv_buf_cap as u128, recv_buf_len as u128));
    assert!(r as u128 == adv_wnd(recv_buf_cap as u128, recv_buf_len as u128), "REPLAY-VIOLATION C16.adv.exact");
}
//@@REPLAY adv_room@@
#[test]
fn adv_room() {
    let (recv_buf_cap, recv_buf_len) = (@recv_buf_cap@, @recv_buf_len@);
    println!("REPLAY-SETUP-DONE");
    let r = advertised_window(recv_buf_cap, recv_buf_len);
    println!("REPLAY-OBSERVED advertised_window({recv_buf_cap}, {recv_buf_len}) = {r}");
    assert!(recv_buf_len as u128 + r as u128 <= recv_buf_cap as u128 || r == 0, "REPLAY-VIOLATION C16.adv.room");
}
