// Replay on the REAL Fs::apply_torn_writes (the closure is not callable on its own) with a REAL Fs holding one pending Write
// to an empty durable file (appended to crates/turmoil-fs/src/lib.rs in a scratch copy).  The generator is a constant-output
// RngCore; which block count `random_range(0..=total)` turns that constant into is measured with a twin generator, and a few
// constants are tried so that the counterexample's draw is met when the real sampler can produce it.
use super::*;
struct ConstRng(u64);
impl RngCore for ConstRng {
    fn next_u32(&mut self) -> u32 { self.0 as u32 }
    fn next_u64(&mut self) -> u64 { self.0 }
    fn fill_bytes(&mut self, dst: &mut [u8]) { for (i, b) in dst.iter_mut().enumerate() { *b = (self.0 >> (8 * (i % 8))) as u8; } }
}
fn ceil_div(a: u128, b: u128) -> u128 { (a + b - 1) / b }
// fs.vspec: exists j. 0 <= j <= ceil_div(len, bs) && min(j * bs, len) == k     (searched, not the closed form)
fn torn_len_ok(len: u64, bs: u64, k: u64) -> bool {
    let top = ceil_div(len as u128, bs as u128);
    k <= len && (k == len || (k % bs == 0 && (k / bs) as u128 <= top)) && (0..=top.min(1 << 20)).any(|j| core::cmp::min(j * bs as u128, len as u128) == k as u128) 
}
struct Obs { j: u64, k: u64, touched: bool }
// one run of the real function; returns the block count the sampler produced for this constant and the surviving length
fn one(len: usize, bs: u64, synced: bool, offset: u64, c: u64) -> Obs {
    let mut fs = Fs::default();
    let path = PathBuf::from("/f");
    fs.persisted_files.insert(path.clone(), FileData::new(Duration::ZERO));
    if synced { fs.synced_entries.insert(path.clone()); }
    fs.pending.push(PendingOp::Write { path: path.clone(), offset, data: vec![7u8; len], time: Duration::from_secs(5) });
    let total = (len as u64).div_ceil(bs);
    let j = ConstRng(c).random_range(0..=total as usize) as u64;
    fs.apply_torn_writes(bs, &mut ConstRng(c));
    let f = &fs.persisted_files[&path];
    let touched = f.mtime == Duration::from_secs(5);
    let k = if touched { f.content.len() as u64 - offset } else { 0 };
    Obs { j, k, touched }
}
fn candidates(len: usize, bs: u64, draw: usize) -> Vec<u64> {
    let range = (len as u64).div_ceil(bs) as u128 + 1;
    let d = draw as u128;
    let mut v = vec![];
    for bits in [32u32, 64] { for delta in [0i128, 1, -1] {
        let c = ((d << bits) + range - 1) / range;
        let c = (c as i128 + delta).max(0) as u128;
        v.push(if bits == 32 { (c as u32) as u64 | ((c as u32 as u64) << 32) } else { c as u64 });
    } }
    v.extend([0, u64::MAX, 1 << 31, 1 << 63]);
    v
}
fn sweep(len: usize, bs: u64, draw: usize, synced: bool, offset: u64) -> Vec<Obs> {
    assert!(len <= (1 << 20) && offset <= 4096 && bs > 0, "set-up: counterexample outside the replayable sub-domain");
    println!("REPLAY-SETUP-DONE");
    let mut out = vec![];
    for c in candidates(len, bs, draw) {
        let o = one(len, bs, synced, offset, c);
        println!("REPLAY-OBSERVED apply_torn_writes(block_size={bs}) on a {len}-byte write at {offset} (entry durable: {synced}): sampler drew {} of {} blocks{}, {} bytes survived (file touched: {})",
                 o.j, (len as u64).div_ceil(bs), if o.j as usize == draw { " = the counterexample's draw" } else { "" }, o.k, o.touched);
        out.push(o);
    }
    out
}
//@@REPLAY torn_pick@@
#[test]
fn torn_pick() {
    let (len, bs, synced): (usize, u64, bool) = (@len@, @block_size@, @synced@);
    for o in sweep(len, bs, @draw@, synced, @offset@) {
        if o.touched { assert!(synced && o.k > 0 && torn_len_ok(len as u64, bs, o.k), "REPLAY-VIOLATION C07.torn.pick"); }
    }
}
//@@REPLAY torn_aligned@@
#[test]
fn torn_aligned() {
    let (len, bs, synced): (usize, u64, bool) = (@len@, @block_size@, @synced@);
    for o in sweep(len, bs, @draw@, synced, @offset@) {
        if o.touched { assert!(o.k as u128 == core::cmp::min(o.j as u128 * bs as u128, len as u128), "REPLAY-VIOLATION C07.torn.pick.aligned"); }
    }
}
