// Replay on the REAL <Seek for File>::seek with a REAL Fs entered on this thread (appended to shim/std/fs/mod.rs, scratch copy).
use super::*;
use std::io::{Seek, SeekFrom};
use std::sync::{Arc, Mutex};
fn seek_base(which: u8, off: i64, len: u64, cur: u64) -> i128 {
    match which { 0 => ((off as u64) as i64) as i128, 1 => (len as i64) as i128 + off as i128, _ => (cur as i64) as i128 + off as i128 }
}
fn seek_ok(which: u8, off: i64, len: u64, cur: u64) -> bool { let b = seek_base(which, off, len, cur); 0 <= b && b <= i64::MAX as i128 }
struct Obs { res: Result<u64>, cur_after: u64, len_after: u64, handle_after: bool }
// a real file "/f" of `file_len` bytes behind a real handle, the handle's cursor set to `cur`; without `has_handle` the fd is
// dropped from the open-file table (the state a crash / stale handle leaves behind)
fn call(which: u8, off: i64, has_handle: bool, file_len: u64, cur: u64) -> Obs {
    assert!(file_len <= 65536, "set-up: counterexample outside the replayable sub-domain");
    let arc = Arc::new(Mutex::new(crate::Fs::default()));
    let _g = crate::enter(&arc, crate::EnterCtx { now: std::time::Duration::ZERO, on_corruption: None });
    let mut f = File::create("/f").expect("create");
    f.set_len(file_len).expect("set_len");
    let len_before = crate::FsContext::current(|ctx| ctx.fs.file_len(std::path::Path::new("/f")));
    assert!(len_before == file_len, "set-up: file length");
    if !has_handle { crate::FsContext::current(|ctx| { ctx.fs.open_handles.swap_remove(&f.fd); }); }
    *f.cursor.lock().unwrap() = cur;
    let pos = match which { 0 => SeekFrom::Start(off as u64), 1 => SeekFrom::End(off), _ => SeekFrom::Current(off) };
    println!("REPLAY-SETUP-DONE");
    let res = f.seek(pos);
    let cur_after = *f.cursor.lock().unwrap();
    let (len_after, handle_after) = crate::FsContext::current(|ctx| (ctx.fs.file_len(std::path::Path::new("/f")), ctx.fs.open_handles.contains_key(&f.fd)));
    println!("REPLAY-OBSERVED seek({pos:?}) on a {file_len}-byte file, cursor {cur}, handle open: {has_handle} = {:?}; cursor afterwards {cur_after}; clause: base {} valid {}",
             res.as_ref().map_err(|e| e.kind()), seek_base(which, off, file_len, cur), seek_ok(which, off, file_len, cur));
    Obs { res, cur_after, len_after, handle_after }
}
fn kind(r: &Result<u64>) -> Option<ErrorKind> { match r { Err(e) => Some(e.kind()), Ok(_) => None } }
//@@REPLAY seek_badfd@@
#[test]
fn seek_badfd() {
    let o = call(@which@, @off@, @has_handle@, @file_len@, @cur@);
    if @which@ == 1 && !@has_handle@ { assert!(kind(&o.res) == Some(ErrorKind::NotFound) && o.cur_after == @cur@, "REPLAY-VIOLATION C10.shim.cur.seek.badfd"); }
}
//@@REPLAY seek_okay@@
#[test]
fn seek_okay() {
    let o = call(@which@, @off@, @has_handle@, @file_len@, @cur@);
    if @has_handle@ && seek_ok(@which@, @off@, @file_len@, @cur@) {
        let ok = match &o.res { Ok(v) => *v as i128 == seek_base(@which@, @off@, @file_len@, @cur@) && o.cur_after == *v, Err(_) => false };
        assert!(ok, "REPLAY-VIOLATION C10.shim.cur.seek");
    }
}
//@@REPLAY seek_invalid@@
#[test]
fn seek_invalid() {
    let o = call(@which@, @off@, @has_handle@, @file_len@, @cur@);
    if @has_handle@ && !seek_ok(@which@, @off@, @file_len@, @cur@) {
        assert!(kind(&o.res) == Some(ErrorKind::InvalidInput) && o.cur_after == @cur@, "REPLAY-VIOLATION C10.shim.cur.seek.invalid");
    }
}
//@@REPLAY seek_frame@@
#[test]
fn seek_frame() {
    let o = call(@which@, @off@, @has_handle@, @file_len@, @cur@);
    assert!(o.len_after == @file_len@ && o.handle_after == @has_handle@, "REPLAY-VIOLATION C10.shim.cur.seek.frame");
}
