// Replay on the REAL PortAllocator (appended to crates/turmoil-net/src/kernel/socket.rs in a scratch copy).
use super::*;
fn cand(lo: i64, hi: i64, c0: i64, k: i64) -> i64 { if c0 + k <= hi { c0 + k } else { c0 + k - (hi - lo + 1) } }
struct Case { lo: u16, hi: u16, cursor: u16, used: Vec<u16>, res: Option<u16>, after: PortAllocator }
fn call(lo: u16, len: u8, cursor: u16, n: u8, a: u16, b: u16, c: u16, d: u16) -> Case {
    let hi = lo + (len as u16 - 1);
    let used: Vec<u16> = [a, b, c, d].iter().take(n as usize).copied().collect();
    let mut pa = PortAllocator { range: lo..=hi, cursor };
    println!("REPLAY-SETUP-DONE");
    let res = pa.allocate(|p| used.contains(&p));
    println!("REPLAY-OBSERVED allocate() = {res:?} with range {lo}..={hi}, cursor {cursor}, ports in use {used:?}; cursor afterwards {}, range afterwards {:?}", pa.cursor, pa.range);
    Case { lo, hi, cursor, used, res, after: pa }
}
//@@REPLAY pa_new@@
#[test]
fn pa_new() {
    let (lo, hi) = (@lo@, @lo@ + (@len@ as u16 - 1));
    println!("REPLAY-SETUP-DONE");
    let a = PortAllocator::new(lo..=hi);
    println!("REPLAY-OBSERVED PortAllocator::new({lo}..={hi}) = {a:?}");
    assert!(lo <= a.cursor && a.cursor <= hi && a.range == (lo..=hi) && a.cursor == lo, "REPLAY-VIOLATION C17.pa.new");
}
//@@REPLAY pa_wf@@
#[test]
fn pa_wf() {
    let c = call(@lo@, @len@, @cursor@, @n@, @a@, @b@, @c@, @d@);
    assert!(c.lo <= c.after.cursor && c.after.cursor <= c.hi && c.after.range == (c.lo..=c.hi), "REPLAY-VIOLATION C17.pa.wf");
}
//@@REPLAY pa_free@@
#[test]
fn pa_free() {
    let c = call(@lo@, @len@, @cursor@, @n@, @a@, @b@, @c@, @d@);
    if let Some(p) = c.res { assert!(c.lo <= p && p <= c.hi && !c.used.contains(&p), "REPLAY-VIOLATION C17.pa.free"); }
}
//@@REPLAY pa_first@@
#[test]
fn pa_first() {
    let c = call(@lo@, @len@, @cursor@, @n@, @a@, @b@, @c@, @d@);
    if let Some(p) = c.res {
        let (lo, hi, c0, len) = (c.lo as i64, c.hi as i64, c.cursor as i64, c.hi as i64 - c.lo as i64 + 1);
        let ok = (0..len).any(|k| p as i64 == cand(lo, hi, c0, k) && c.after.cursor as i64 == cand(lo, hi, c0, k + 1)
                                  && (0..k).all(|j| c.used.contains(&(cand(lo, hi, c0, j) as u16))));
        assert!(ok, "REPLAY-VIOLATION C17.pa.first");
    }
}
//@@REPLAY pa_none@@
#[test]
fn pa_none() {
    let c = call(@lo@, @len@, @cursor@, @n@, @a@, @b@, @c@, @d@);
    if c.res.is_none() { assert!(c.after.cursor == c.cursor && (c.lo..=c.hi).all(|p| c.used.contains(&p)), "REPLAY-VIOLATION C17.pa.none"); }
}
