// Replay on the REAL handle_established / poll_recv with a REAL Kernel, Socket, Tcb and bytes buffers
// (appended to crates/turmoil-net/src/kernel/tcp.rs in a scratch copy).
use super::*;
use std::task::Waker;
const STATES: [TcpState; 9] = [TcpState::SynSent, TcpState::SynReceived, TcpState::Established, TcpState::FinWait1, TcpState::FinWait2,
                               TcpState::CloseWait, TcpState::LastAck, TcpState::Closing, TcpState::Closed];
struct T { state: u8, snd_una: u32, snd_nxt: u32, snd_wnd: u16, rcv_nxt: u32, send_len: usize, recv_len: usize, wr_closed: bool, peer_fin: bool,
           fin_some: bool, fin_seq: u32, reset: bool, timed_out: bool }
struct S { seq: u32, ack: u32, f_ack: bool, f_fin: bool, window: u16, payload_len: usize }
#[derive(Clone, Copy, PartialEq, Eq, Debug)]
struct V { state: u8, snd_una: u32, snd_wnd: u16, rcv_nxt: u32, send_len: usize, recv_len: usize, peer_fin: bool, reset_retx: bool }
fn st_fin_acked(s: u8) -> u8 { match s { 3 => 4, 7 => 8, 6 => 8, o => o } }
fn st_fin_rcvd(s: u8) -> u8 { match s { 2 => 5, 3 => 7, 4 => 8, o => o } }
fn rx_n(t: &T, s: &S, cap: usize) -> usize {
    if s.payload_len > 0 && s.seq == t.rcv_nxt && !t.peer_fin { core::cmp::min(s.payload_len, cap.saturating_sub(t.recv_len)) } else { 0 }
}
fn he_tcb(t: &T, s: &S, cap: usize) -> (V, bool) {
    let ack_ok = s.f_ack && 0 < s.ack.wrapping_sub(t.snd_una) && s.ack.wrapping_sub(t.snd_una) <= t.snd_nxt.wrapping_sub(t.snd_una);
    let fin_acked = t.fin_some && s.ack == t.fin_seq.wrapping_add(1);
    let mut v = V { state: t.state, snd_una: t.snd_una, snd_wnd: t.snd_wnd, rcv_nxt: t.rcv_nxt, send_len: t.send_len, recv_len: t.recv_len, peer_fin: t.peer_fin, reset_retx: false };
    if ack_ok {
        let db = s.ack.wrapping_sub(t.snd_una) as usize - (if fin_acked { 1 } else { 0 });
        v.send_len = t.send_len - db; v.snd_una = s.ack; v.reset_retx = true;
        if fin_acked { v.state = st_fin_acked(t.state); }
    }
    if s.f_ack { v.snd_wnd = s.window; }
    let n = rx_n(t, s, cap);
    v.recv_len = t.recv_len + n; v.rcv_nxt = t.rcv_nxt.wrapping_add(n as u32);
    let fin_ok = s.f_fin && !v.peer_fin && s.seq.wrapping_add(s.payload_len as u32) == v.rcv_nxt;
    if fin_ok { v.peer_fin = true; v.rcv_nxt = v.rcv_nxt.wrapping_add(1); v.state = st_fin_rcvd(v.state); }
    (v, n > 0 || fin_ok)
}
fn adv_wnd(cap: usize, len: usize) -> u16 { let d = cap.saturating_sub(len); if d < 65535 { d as u16 } else { 65535 } }
fn mk_kernel(t: &T, cap: usize) -> (Kernel, Fd, SocketAddr, SocketAddr) {
    assert!(t.recv_len <= 65536 && t.send_len <= 65536 && cap <= 131072 && t.state < 9, "set-up: counterexample outside the replayable sub-domain");
    let local: SocketAddr = "10.0.0.1:5000".parse().unwrap();
    let remote: SocketAddr = "10.0.0.2:6000".parse().unwrap();
    let mut k = Kernel::new();
    k.recv_buf_cap = cap;
    let mut st = Socket::new(Domain::Inet, Type::Stream);
    st.bound = Some(BindKey { domain: Domain::Inet, ty: Type::Stream, local_addr: local.ip(), local_port: local.port() });
    st.tcb = Some(Tcb { state: STATES[t.state as usize], peer: remote, snd_nxt: t.snd_nxt, snd_una: t.snd_una, snd_wnd: t.snd_wnd, rcv_nxt: t.rcv_nxt,
                        send_buf: BytesMut::from(&vec![1u8; t.send_len][..]), recv_buf: BytesMut::from(&vec![2u8; t.recv_len][..]),
                        wr_closed: t.wr_closed, peer_fin: t.peer_fin, fin_seq: if t.fin_some { Some(t.fin_seq) } else { None },
                        reset: t.reset, timed_out: t.timed_out, egress_since_ack: 3, retx_attempts: 2 });
    st.read_wakers.push(Waker::noop().clone());
    st.write_wakers.push(Waker::noop().clone());
    let fd = k.sockets.insert(st);
    (k, fd, local, remote)
}
struct HeObs { after: V, retx0: bool, pushed: usize, rw: usize, ww: usize, want: V, sends: bool, n: usize }
fn call_he(t: T, cap: usize, s: S) -> HeObs {
    assert!(s.payload_len <= 65536, "set-up: counterexample outside the replayable sub-domain");
    let (mut k, fd, local, remote) = mk_kernel(&t, cap);
    let seg = TcpSegment { src_port: remote.port(), dst_port: local.port(), seq: s.seq, ack: s.ack, flags: TcpFlags { ack: s.f_ack, fin: s.f_fin, ..TcpFlags::default() },
                           window: s.window, payload: Bytes::from(vec![9u8; s.payload_len]) };
    let before = k.outbound.len();
    println!("REPLAY-SETUP-DONE");
    handle_established(&mut k, fd, local, remote, &seg);
    let st = k.sockets.get(fd).unwrap();
    let b = st.tcb.as_ref().unwrap();
    let after = V { state: STATES.iter().position(|x| *x == b.state).unwrap() as u8, snd_una: b.snd_una, snd_wnd: b.snd_wnd, rcv_nxt: b.rcv_nxt, send_len: b.send_buf.len(),
                    recv_len: b.recv_buf.len(), peer_fin: b.peer_fin, reset_retx: false };
    let (want, sends) = he_tcb(&t, &s, cap);
    let o = HeObs { after, retx0: b.egress_since_ack == 0 && b.retx_attempts == 0, pushed: k.outbound.len() - before, rw: st.read_wakers.len(), ww: st.write_wakers.len(), want, sends, n: rx_n(&t, &s, cap) };
    println!("REPLAY-OBSERVED handle_established(seq={} ack={} ack_flag={} fin={} payload={} bytes) on rcv_nxt={} recv_buf={} of cap {}: tcb after {:?}, packets queued {}; clause demands {:?}, {} packet(s), {} byte(s) stored",
             s.seq, s.ack, s.f_ack, s.f_fin, s.payload_len, t.rcv_nxt, t.recv_len, cap, o.after, o.pushed, V { reset_retx: false, ..want }, sends as u8, o.n);
    o
}
struct PrObs { ready_ok: Option<usize>, recv_after: usize, pushed: usize, ack_ok: bool }
fn call_pr(t: T, cap: usize, buf_len: usize) -> PrObs {
    assert!(buf_len <= 8, "set-up: counterexample outside the bound");
    let (mut k, fd, local, remote) = mk_kernel(&t, cap);
    let mut store = [0u8; 8];
    let before = k.outbound.len();
    let mut cx = Context::from_waker(Waker::noop());
    println!("REPLAY-SETUP-DONE");
    let r = poll_recv(&mut k, fd, &mut cx, &mut store[..buf_len]);
    let b = k.sockets.get(fd).unwrap().tcb.as_ref().unwrap();
    let pushed = k.outbound.len() - before;
    let ack_ok = pushed == 1 && match k.outbound.back() {
        Some(p) => p.src == local.ip() && p.dst == remote.ip() && (match &p.payload {
            Transport::Tcp(g) => g.src_port == local.port() && g.dst_port == remote.port() && g.seq == b.snd_nxt && g.ack == b.rcv_nxt
                && g.flags == (TcpFlags { ack: true, ..TcpFlags::default() }) && g.window == adv_wnd(cap, b.recv_buf.len()) && g.payload.is_empty(),
            _ => false }),
        None => false };
    println!("REPLAY-OBSERVED poll_recv(buf of {buf_len}) on recv_buf={} of cap {cap} = {}; recv_buf afterwards {}, packets queued {pushed} (a correct window update: {ack_ok})",
             t.recv_len, match &r { Poll::Pending => "Pending".to_string(), Poll::Ready(Ok(n)) => format!("Ok({n})"), Poll::Ready(Err(e)) => format!("Err({:?})", e.kind()) }, b.recv_buf.len());
    PrObs { ready_ok: match &r { Poll::Ready(Ok(n)) => Some(*n), _ => None }, recv_after: b.recv_buf.len(), pushed, ack_ok }
}
fn t_in() -> T { T { state: @state@, snd_una: @snd_una@, snd_nxt: @snd_nxt@, snd_wnd: @snd_wnd@, rcv_nxt: @rcv_nxt@, send_len: @send_len@, recv_len: @recv_len@, wr_closed: @wr_closed@,
                    peer_fin: @peer_fin@, fin_some: @fin_some@, fin_seq: @fin_seq@, reset: @reset@, timed_out: @timed_out@ } }
//@@REPLAY he_rx_exact@@
#[test]
fn he_rx_exact() {
    let o = call_he(t_in(), @cap@, S { seq: @seq@, ack: @ack@, f_ack: @f_ack@, f_fin: @f_fin@, window: @window@, payload_len: @payload_len@ });
    assert!(o.after.recv_len == @recv_len@ + o.n, "REPLAY-VIOLATION C06.rx.exact");
}
//@@REPLAY he_sock@@
#[test]
fn he_sock() {
    let o = call_he(t_in(), @cap@, S { seq: @seq@, ack: @ack@, f_ack: @f_ack@, f_fin: @f_fin@, window: @window@, payload_len: @payload_len@ });
    let got = V { reset_retx: o.want.reset_retx, ..o.after };
    assert!(got == o.want && (!o.want.reset_retx || o.retx0) && o.ww == (if @f_ack@ { 0 } else { 1 }) && o.rw == (if o.sends { 0 } else { 1 }), "REPLAY-VIOLATION C06.he.sock");
}
//@@REPLAY he_rx_ack@@
#[test]
fn he_rx_ack() {
    let o = call_he(t_in(), @cap@, S { seq: @seq@, ack: @ack@, f_ack: @f_ack@, f_fin: @f_fin@, window: @window@, payload_len: @payload_len@ });
    assert!(o.pushed == (if o.sends { 1 } else { 0 }), "REPLAY-VIOLATION C06.rx.ack");
}
//@@REPLAY pr_win_reopen@@
#[test]
fn pr_win_reopen() {
    let t = t_in();
    let gate_none = !t.reset && !t.timed_out;
    let o = call_pr(t, @cap@, @buf_len@);
    if gate_none && @recv_len@ == @cap@ && @cap@ > 0 && @buf_len@ > 0 { assert!(o.pushed == 1 && o.ack_ok, "REPLAY-VIOLATION C06.win.reopen"); }
}
//@@REPLAY pr_wndrule@@
#[test]
fn pr_wndrule() {
    let t = t_in();
    let gate_none = !t.reset && !t.timed_out;
    let o = call_pr(t, @cap@, @buf_len@);
    let (recv_len, cap, buf_len): (usize, usize, usize) = (@recv_len@, @cap@, @buf_len@);
    if gate_none && recv_len > 0 {
        let n = core::cmp::min(recv_len, buf_len);
        if n >= cap / 2 || (n > 0 && recv_len >= cap) { assert!(o.pushed == 1 && o.ack_ok, "REPLAY-VIOLATION C16.recv.wndrule"); } else { assert!(o.pushed == 0, "REPLAY-VIOLATION C16.recv.wndrule"); }
    }
}
//@@REPLAY pr_front@@
#[test]
fn pr_front() {
    let t = t_in();
    let gate_none = !t.reset && !t.timed_out;
    let o = call_pr(t, @cap@, @buf_len@);
    let (recv_len, buf_len): (usize, usize) = (@recv_len@, @buf_len@);
    if gate_none && recv_len > 0 {
        let n = core::cmp::min(recv_len, buf_len);
        assert!(o.ready_ok == Some(n) && o.recv_after == recv_len - n, "REPLAY-VIOLATION C06.recv.front");
    }
}
