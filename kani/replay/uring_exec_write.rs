// Replay on the REAL exec_write with a REAL turmoil_fs::Fs (appended to turmoil-io-uring/src/sim.rs in a scratch copy).
use super::*;
use std::path::{Path, PathBuf};
use turmoil_fs::FsConfig;
// the two draws are forced through the probabilities (0.0 / 1.0: sample_prob never consults the generator then)
struct NoRng;
impl RngCore for NoRng {
    fn next_u32(&mut self) -> u32 { 0 }
    fn next_u64(&mut self) -> u64 { 0 }
    fn fill_bytes(&mut self, dst: &mut [u8]) { dst.fill(0) }
}
fn is_mult(x: u64, a: u64) -> bool { if a == 0 { x == 0 } else { x % a == 0 } }
fn uring_aligned(alignment: u64, ptr: usize, offset: u64, len: u32) -> bool {
    alignment == 0 || (is_mult(ptr as u64, (alignment as usize) as u64) && is_mult(offset, alignment) && is_mult(len as u64, alignment))
}
// (code, wrote) of u_write in uring.vspec
fn u_write(has_handle: bool, direct: bool, aligned: bool, io_err: bool, offset: u64, len: u32, file_len: u64, space_ok: bool) -> (i32, bool) {
    if !has_handle { return (-9, false); }
    if direct && !aligned { return (-22, false); }
    if io_err { return (-5, false); }
    let end = offset as u128 + len as u128;
    if end > u64::MAX as u128 { return (-22, false); }
    let additional = if end >= file_len as u128 { end - file_len as u128 } else { 0 };
    if additional > 0 && !space_ok { return (-28, false); }
    (len as i32, true)
}
fn call(has_handle: bool, direct: bool, alignment: u64, ptr_pat: usize, len: u32, offset: u64, io_err: bool, spont: bool, file_len: u64, space_ok: bool) -> (i32, (i32, bool), u64) {
    assert!(file_len == 0 && len <= 65536 && alignment <= 4096, "set-up: counterexample outside the replayable sub-domain");
    let mut cfg = FsConfig::default();
    if !space_ok { cfg.capacity(0); }
    let mut fs = Fs::new(cfg, 0);
    let fd = fs.alloc_fd();
    if has_handle { fs.open_handles.insert(fd, PathBuf::from("/f")); }
    if direct { fs.direct_io_fds.insert(fd); }
    fs.direct_io_alignment = alignment;
    fs.io_error_probability = if io_err { 1.0 } else { 0.0 };
    fs.sync_probability = if spont { 1.0 } else { 0.0 };
    // a real buffer whose address has the same residue modulo the alignment as the counterexample's pointer value
    let store = vec![0xA5u8; len as usize + 8192];
    let base = store.as_ptr() as usize;
    let shift = if alignment == 0 { 0 } else { (0..alignment as usize).find(|s| (base + s) % alignment as usize == ptr_pat % alignment as usize).unwrap() };
    let ptr = unsafe { store.as_ptr().add(shift) };
    let want = u_write(has_handle, direct, uring_aligned(alignment, ptr as usize, offset, len), io_err, offset, len, file_len, space_ok);
    println!("REPLAY-SETUP-DONE");
    let r = exec_write(&mut fs, &mut NoRng, fd, ptr, len, offset, Duration::ZERO);
    let after = fs.file_len(Path::new("/f"));
    println!("REPLAY-OBSERVED exec_write(handle={has_handle}, direct={direct}, alignment={alignment}, ptr%align={}, len={len}, offset={offset}, io_err={io_err}, spont={spont}, space_ok={space_ok}) = {r}; clause demands {}; file length afterwards {after}",
             if alignment == 0 { 0 } else { ptr as usize % alignment as usize }, want.0);
    (r, want, after)
}
//@@REPLAY write_does@@
#[test]
fn write_does() {
    let (r, want, after) = call(@has_handle@, @direct@, @alignment@, @ptr@, @len@, @offset@, @io_err@, @spont@, @file_len@, @space_ok@);
    let wrote_ok = if want.1 && @len@ > 0 { after as u128 == @offset@ as u128 + @len@ as u128 } else { after == 0 };
    assert!(r == want.0 && wrote_ok, "REPLAY-VIOLATION C18.exec.write.does");
}
//@@REPLAY write_body@@
#[test]
fn write_body() {
    // the obligation is "no panic inside exec_write": a panic after REPLAY-SETUP-DONE fails this test
    let (r, want, after) = call(@has_handle@, @direct@, @alignment@, @ptr@, @len@, @offset@, @io_err@, @spont@, @file_len@, @space_ok@);
}
