// Replay on the REAL direct_io_aligned with a REAL turmoil_fs::Fs (appended to turmoil-io-uring/src/sim.rs, scratch copy).
use super::*;
fn is_mult(x: u128, a: u128) -> bool { if a == 0 { x == 0 } else { x % a == 0 } }
fn uring_aligned(alignment: u64, ptr: usize, offset: u64, len: u32) -> bool {
    alignment == 0
        || (is_mult(ptr as u128, (alignment as usize) as u128) && is_mult(offset as u128, alignment as u128) && is_mult(len as u128, alignment as u128))
}
//@@REPLAY aligned_exact@@
#[test]
fn aligned_exact() {
    let (alignment, ptr, offset, len): (u64, usize, u64, u32) = (@alignment@, @ptr@, @offset@, @len@);
    let mut fs = Fs::default();
    fs.direct_io_alignment = alignment;
    println!("REPLAY-SETUP-DONE");
    let r = direct_io_aligned(&fs, ptr, offset, len);
    println!("REPLAY-OBSERVED direct_io_aligned(alignment={alignment}, ptr={ptr:#x}, offset={offset}, len={len}) = {r}; clause demands {}", uring_aligned(alignment, ptr, offset, len));
    assert!(r == uring_aligned(alignment, ptr, offset, len), "REPLAY-VIOLATION C18.exec.aligned");
}
