// Replay on the REAL mss_for with a REAL Kernel (appended to kernel/tcp.rs in a scratch copy).
use super::*;
use crate::kernel::KernelConfig;
use std::net::{Ipv4Addr, Ipv6Addr};
fn sat_sub(a: u64, b: u64) -> u64 { if a >= b { a - b } else { 0 } }
fn ip_hdr_of(v6: bool) -> u64 { if !v6 { 20 } else { 40 } }
fn spec_is_loopback(v6: bool, bits: u128) -> bool { if !v6 { ((bits as u32) >> 24) == 127 } else { bits == 1 } }
fn mtu_of(mtu: u32, lo: u32, v6: bool, bits: u128) -> u64 { if spec_is_loopback(v6, bits) { lo as u64 } else { mtu as u64 } }
fn ip(v6: bool, bits: u128) -> IpAddr { if v6 { IpAddr::V6(Ipv6Addr::from(bits)) } else { IpAddr::V4(Ipv4Addr::from(bits as u32)) } }
fn kernel(mtu: u32, lo: u32) -> Kernel {
    let mut k = Kernel::new();
    k.mtu = mtu;
    k.loopback_mtu = lo;
    k
}
//@@REPLAY mss_exact@@
#[test]
fn mss_exact() {
    let (mtu, loopback_mtu, v6, bits) = (@mtu@, @loopback_mtu@, @v6@, @bits@);
    let k = kernel(mtu, loopback_mtu);
    println!("REPLAY-SETUP-DONE");
    let r = mss_for(&k, ip(v6, bits));
    let want = sat_sub(sat_sub(mtu_of(mtu, loopback_mtu, v6, bits), ip_hdr_of(v6)), 20);
    println!("REPLAY-OBSERVED mss_for(mtu={mtu}, loopback_mtu={loopback_mtu}, {}) = {r}; clause demands {want}", ip(v6, bits));
    assert!(r as u64 == want, "REPLAY-VIOLATION C16.mss.exact");
}
//@@REPLAY mss_fits@@
#[test]
fn mss_fits() {
    let (mtu, loopback_mtu, v6, bits) = (@mtu@, @loopback_mtu@, @v6@, @bits@);
    let k = kernel(mtu, loopback_mtu);
    println!("REPLAY-SETUP-DONE");
    let r = mss_for(&k, ip(v6, bits));
    println!("REPLAY-OBSERVED mss_for(mtu={mtu}, loopback_mtu={loopback_mtu}, {}) = {r}; mtu in force {}", ip(v6, bits), mtu_of(mtu, loopback_mtu, v6, bits));
    assert!(r as u64 + 20 + ip_hdr_of(v6) <= mtu_of(mtu, loopback_mtu, v6, bits) || r == 0, "REPLAY-VIOLATION C16.mss.fits");
}
