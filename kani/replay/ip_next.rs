// Replay on the REAL IpVersionAddrIter::next (appended to crates/turmoil/src/ip.rs in a scratch copy).
use super::*;
fn v4_bits(i: u32) -> u32 {
    ((192u8 as u32) << 24) | ((168u8 as u32) << 16) | ((((i >> 8) as u8) as u32) << 8) | (((i & 0xFF) as u8) as u32)
}
fn v6_bits(i: u128) -> u128 {
    ((0xfe80u16 as u128) << 112) | ((0u16 as u128) << 96) | ((0u16 as u128) << 80) | ((0u16 as u128) << 64)
        | (((((i >> 48) & 0xffff) as u16) as u128) << 48) | (((((i >> 32) & 0xffff) as u16) as u128) << 32)
        | (((((i >> 16) & 0xffff) as u16) as u128) << 16) | (((i & 0xffff) as u16) as u128)
}
fn mk(v6: bool, counter: u128) -> IpVersionAddrIter { if v6 { IpVersionAddrIter::V6(counter) } else { IpVersionAddrIter::V4(counter as u32) } }
//@@REPLAY ip_next_guard@@
#[test]
fn ip_next_guard() {
    let (v6, counter): (bool, u128) = (@v6@, @counter@);
    let mut it = mk(v6, counter);
    println!("REPLAY-SETUP-DONE");
    let r = it.next();
    let room = if v6 { counter < 0x1_0000_0000_0000_0000 } else { ((counter as u32) as u128) < 0x1_0000 };
    println!("REPLAY-OBSERVED {}({}).next() returned {r}; room left inside the subnet: {room}", if v6 { "V6" } else { "V4" }, if v6 { counter } else { counter as u32 as u128 });
    assert!(room, "REPLAY-VIOLATION C15.ip.next.guard");
}
//@@REPLAY ip_next_addr@@
#[test]
fn ip_next_addr() {
    let (v6, counter): (bool, u128) = (@v6@, @counter@);
    let mut it = mk(v6, counter);
    println!("REPLAY-SETUP-DONE");
    let r = it.next();
    let want = if v6 { IpAddr::V6(Ipv6Addr::from(v6_bits(counter))) } else { IpAddr::V4(Ipv4Addr::from(v4_bits(counter as u32))) };
    println!("REPLAY-OBSERVED {}({}).next() = {r}; clause demands {want}", if v6 { "V6" } else { "V4" }, if v6 { counter } else { counter as u32 as u128 });
    assert!(r == want, "REPLAY-VIOLATION C15.ip.next.addr");
}
//@@REPLAY ip_next_succ@@
#[test]
fn ip_next_succ() {
    let (v6, counter): (bool, u128) = (@v6@, @counter@);
    let mut it = mk(v6, counter);
    println!("REPLAY-SETUP-DONE");
    let _ = it.next();
    println!("REPLAY-OBSERVED after {}({}).next() the iterator is {:?}", if v6 { "V6" } else { "V4" }, if v6 { counter } else { counter as u32 as u128 }, it);
    let ok = match it {
        IpVersionAddrIter::V4(n) => !v6 && n == (if counter as u32 == u32::MAX { 0 } else { counter as u32 + 1 }),
        IpVersionAddrIter::V6(n) => v6 && n == (if counter == u128::MAX { 0 } else { counter + 1 }),
    };
    assert!(ok, "REPLAY-VIOLATION C15.ip.next.succ");
}
