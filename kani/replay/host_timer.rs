// Replay on the REAL HostTimer with tokio's REAL paused clock (appended to crates/turmoil/src/host.rs in a scratch copy).
use super::*;
use std::time::Duration;
use tokio::time::Instant;
fn ns(s: u64, n: u32) -> u128 { s as u128 * 1_000_000_000 + n as u128 }
// Runs `f(timer, mark, clock_reading)` inside a current-thread runtime whose clock is paused: the mark is `base + mark_ns`,
// the clock is advanced to `base + clock_ns` (what it really reads is measured, the clause is evaluated on the measured values).
fn with_clock<R>(el: Duration, has_mark: bool, mark: Duration, so: Duration, se: Duration, clock: Duration, f: impl FnOnce(HostTimer, Instant) -> R) -> (R, u128) {
    let rt = tokio::runtime::Builder::new_current_thread().enable_time().start_paused(true).build().unwrap();
    rt.block_on(async move {
        let base = Instant::now();
        tokio::time::advance(clock).await;
        let mark = base + mark;
        let t = HostTimer { elapsed: el, now: if has_mark { Some(mark) } else { None }, start_offset: so, since_epoch: se };
        let run_at = if has_mark { Instant::now().saturating_duration_since(mark).as_nanos() } else { 0 };
        println!("REPLAY-SETUP-DONE");
        (f(t, mark), run_at)
    })
}
fn show(t: &HostTimer) -> String { format!("elapsed={:?} mark={} start_offset={:?} since_epoch={:?}", t.elapsed, t.now.is_some(), t.start_offset, t.since_epoch) }
//@@REPLAY timer_new@@
#[test]
fn timer_new() {
    let (so, se) = (Duration::new(@so_s@, @so_ns@), Duration::new(@se_s@, @se_ns@));
    println!("REPLAY-SETUP-DONE");
    let t = HostTimer::new(so, se);
    println!("REPLAY-OBSERVED HostTimer::new({so:?}, {se:?}) = {}", show(&t));
    assert!(t.elapsed.as_nanos() == 0 && t.now.is_none() && t.start_offset == so && t.since_epoch == se, "REPLAY-VIOLATION C05.new");
}
//@@REPLAY timer_tick@@
#[test]
fn timer_tick() {
    let (el, d) = (Duration::new(@el_s@, @el_ns@), Duration::new(@d_s@, @d_ns@));
    let (after, _) = with_clock(el, @has_mark@, Duration::new(@mark_s@, @mark_ns@), Duration::new(@so_s@, @so_ns@), Duration::new(@se_s@, @se_ns@), Duration::ZERO, |mut t, _| { t.tick(d); t });
    println!("REPLAY-OBSERVED after tick({d:?}) from elapsed={el:?}: {}", show(&after));
    assert!(after.elapsed.as_nanos() == el.as_nanos() + d.as_nanos(), "REPLAY-VIOLATION C05.tick");
}
//@@REPLAY timer_tick_unmark@@
#[test]
fn timer_tick_unmark() {
    let (el, d) = (Duration::new(@el_s@, @el_ns@), Duration::new(@d_s@, @d_ns@));
    let (after, _) = with_clock(el, @has_mark@, Duration::new(@mark_s@, @mark_ns@), Duration::new(@so_s@, @so_ns@), Duration::new(@se_s@, @se_ns@), Duration::ZERO, |mut t, _| { t.tick(d); t });
    println!("REPLAY-OBSERVED after tick({d:?}) with mark set before = {}: {}", @has_mark@, show(&after));
    assert!(after.now.is_none(), "REPLAY-VIOLATION C05.tick.unmark");
}
//@@REPLAY timer_tick_frame@@
#[test]
fn timer_tick_frame() {
    let (el, d, so, se) = (Duration::new(@el_s@, @el_ns@), Duration::new(@d_s@, @d_ns@), Duration::new(@so_s@, @so_ns@), Duration::new(@se_s@, @se_ns@));
    let (after, _) = with_clock(el, @has_mark@, Duration::new(@mark_s@, @mark_ns@), so, se, Duration::ZERO, |mut t, _| { t.tick(d); t });
    println!("REPLAY-OBSERVED after tick({d:?}): {}", show(&after));
    assert!(after.start_offset == so && after.since_epoch == se, "REPLAY-VIOLATION C05.tick.frame");
}
//@@REPLAY timer_now@@
#[test]
fn timer_now() {
    let ((after, arg), _) = with_clock(Duration::new(@el_s@, @el_ns@), @has_mark@, Duration::new(@mark_s@, @mark_ns@), Duration::new(@so_s@, @so_ns@), Duration::new(@se_s@, @se_ns@), Duration::new(@clock_s@, @clock_ns@),
        |mut t, _| { let now = Instant::now(); t.now(now); (t, now) });
    println!("REPLAY-OBSERVED after now(clock): mark == Some(clock) is {}", after.now == Some(arg));
    assert!(after.now == Some(arg), "REPLAY-VIOLATION C05.now");
}
//@@REPLAY timer_now_frame@@
#[test]
fn timer_now_frame() {
    let (el, so, se) = (Duration::new(@el_s@, @el_ns@), Duration::new(@so_s@, @so_ns@), Duration::new(@se_s@, @se_ns@));
    let (after, _) = with_clock(el, @has_mark@, Duration::new(@mark_s@, @mark_ns@), so, se, Duration::new(@clock_s@, @clock_ns@), |mut t, _| { t.now(Instant::now()); t });
    println!("REPLAY-OBSERVED after now(clock): {}", show(&after));
    assert!(after.elapsed == el && after.start_offset == so && after.since_epoch == se, "REPLAY-VIOLATION C05.now.frame");
}
//@@REPLAY timer_elapsed@@
#[test]
fn timer_elapsed() {
    let el = Duration::new(@el_s@, @el_ns@);
    let (r, run_at) = with_clock(el, @has_mark@, Duration::new(@mark_s@, @mark_ns@), Duration::new(@so_s@, @so_ns@), Duration::new(@se_s@, @se_ns@), Duration::new(@clock_s@, @clock_ns@), |t, _| t.elapsed());
    println!("REPLAY-OBSERVED elapsed() = {r:?}; stored elapsed {el:?}, clock past the mark by {run_at} ns (mark set: {})", @has_mark@);
    assert!(r.as_nanos() == el.as_nanos() + run_at, "REPLAY-VIOLATION C05.elapsed");
}
//@@REPLAY timer_sim@@
#[test]
fn timer_sim() {
    let (el, so) = (Duration::new(@el_s@, @el_ns@), Duration::new(@so_s@, @so_ns@));
    let (r, run_at) = with_clock(el, @has_mark@, Duration::new(@mark_s@, @mark_ns@), so, Duration::new(@se_s@, @se_ns@), Duration::new(@clock_s@, @clock_ns@), |t, _| t.sim_elapsed());
    println!("REPLAY-OBSERVED sim_elapsed() = {r:?}; start_offset {so:?}, stored elapsed {el:?}, clock past the mark by {run_at} ns");
    assert!(r.as_nanos() == so.as_nanos() + el.as_nanos() + run_at, "REPLAY-VIOLATION C05.sim");
}
//@@REPLAY timer_epoch@@
#[test]
fn timer_epoch() {
    let (el, so, se) = (Duration::new(@el_s@, @el_ns@), Duration::new(@so_s@, @so_ns@), Duration::new(@se_s@, @se_ns@));
    let (r, run_at) = with_clock(el, @has_mark@, Duration::new(@mark_s@, @mark_ns@), so, se, Duration::new(@clock_s@, @clock_ns@), |t, _| t.since_epoch());
    println!("REPLAY-OBSERVED since_epoch() = {r:?}; since_epoch {se:?}, start_offset {so:?}, stored elapsed {el:?}, clock past the mark by {run_at} ns");
    assert!(r.as_nanos() == se.as_nanos() + so.as_nanos() + el.as_nanos() + run_at, "REPLAY-VIOLATION C05.epoch");
}
