// Replay on the REAL Dns::resolve (appended to crates/turmoil-net/src/dns.rs in a scratch copy): a table whose counter is
// the counterexample's value resolves a name it has never seen, which runs the allocation closure exactly once.
use super::*;
fn nd_bits(k: u32) -> u32 { ((192u8 as u32) << 24) | ((168u8 as u32) << 16) | ((((k >> 8) as u8) as u32) << 8) | (((k & 0xff) as u8) as u32) }
fn call(counter: u32) -> (IpAddr, u32) {
    let mut dns = Dns::new();
    dns.next = counter;
    println!("REPLAY-SETUP-DONE");
    let r = dns.resolve("kani-replay-fresh-name");
    println!("REPLAY-OBSERVED resolve(new name) with counter {counter} = {r}; counter afterwards {}; clause demands {} and {}", dns.next,
             Ipv4Addr::from(nd_bits(counter)), if counter == u32::MAX { 0 } else { counter + 1 });
    (r, dns.next)
}
//@@REPLAY ndns_guard@@
#[test]
fn ndns_guard() {
    let (r, next) = call(@counter@);
    assert!(@counter@ < 0x1_0000, "REPLAY-VIOLATION C17.ndns.alloc.guard");
}
//@@REPLAY ndns_addr@@
#[test]
fn ndns_addr() {
    let (r, next) = call(@counter@);
    assert!(r == IpAddr::V4(Ipv4Addr::from(nd_bits(@counter@))), "REPLAY-VIOLATION C17.ndns.alloc.addr");
}
//@@REPLAY ndns_succ@@
#[test]
fn ndns_succ() {
    let (r, next) = call(@counter@);
    assert!(next == (if @counter@ == u32::MAX { 0 } else { @counter@ + 1 }), "REPLAY-VIOLATION C17.ndns.alloc.succ");
}
