// Replay on the REAL StreamSocket / Tcp with tokio's REAL mpsc channel (appended to crates/turmoil/src/host.rs, scratch copy).
use super::*;
use std::net::{IpAddr, Ipv4Addr, SocketAddr};
//@@REPLAY ss_new_state@@
#[test]
fn ss_new_state() {
    let capacity: usize = @capacity@;
    println!("REPLAY-SETUP-DONE");
    let r = StreamSocket::new(capacity);
    println!("REPLAY-OBSERVED StreamSocket::new({capacity}): next_send_seq={} recv_seq={} buffered={} ref_ct={}", r.0.next_send_seq, r.0.recv_seq, r.0.buf.len(), r.0.ref_ct);
    assert!(r.0.next_send_seq == 1 && r.0.recv_seq == 0 && r.0.buf.is_empty() && r.0.ref_ct == 2, "REPLAY-VIOLATION C02.new.state");
}
//@@REPLAY ss_new_finroom@@
#[test]
fn ss_new_finroom() {
    let capacity: usize = @capacity@;
    println!("REPLAY-SETUP-DONE");
    let r = StreamSocket::new(capacity);
    println!("REPLAY-OBSERVED StreamSocket::new({capacity}): the receive queue has {} slots for {capacity} flow-control credits", r.0.sender.max_capacity());
    assert!(r.0.sender.max_capacity() > capacity, "REPLAY-VIOLATION C02.new.finroom");
}
//@@REPLAY tcp_seq_assign@@
#[test]
fn tcp_seq_assign() {
    let (next_send_seq, recv_seq, present, same_key): (u64, u64, bool, bool) = (@next_send_seq@, @recv_seq@, @present@, @same_key@);
    let ip = IpAddr::V4(Ipv4Addr::new(192, 168, 0, 1));
    let stored = SocketPair::new(SocketAddr::new(ip, 1000), SocketAddr::new(ip, 2000));
    let asked = if same_key { stored } else { SocketPair::new(SocketAddr::new(ip, 1001), SocketAddr::new(ip, 2000)) };
    let mut tcp = Tcp::new(4);
    if present {
        let _ = tcp.new_stream(stored);
        let s = tcp.sockets.get_mut(&stored).unwrap();
        s.next_send_seq = next_send_seq;
        s.recv_seq = recv_seq;
    }
    println!("REPLAY-SETUP-DONE");
    let r = tcp.assign_send_seq(asked);
    let after = tcp.sockets.get(&stored).map(|s| (s.next_send_seq, s.recv_seq, s.ref_ct));
    println!("REPLAY-OBSERVED assign_send_seq(asked {} stored key, socket present: {present}) = {r:?}; stored counter {next_send_seq} -> {:?}; sockets: {}",
             if same_key { "==" } else { "!=" }, after.map(|a| a.0), tcp.sockets.len());
    let has = present && same_key;
    let ok = match r {
        None => !has && tcp.sockets.len() == present as usize && (!present || after == Some((next_send_seq, recv_seq, 2))),
        Some(q) => has && q == next_send_seq && tcp.sockets.len() == 1 && after == Some((q + 1, recv_seq, 2)),
    };
    assert!(ok, "REPLAY-VIOLATION C02.seq.assign");
}
