// Replay on the REAL Scheduler::schedule with REAL packets (appended to crates/turmoil-net/src/fixture/scheduler.rs, scratch copy).
use super::*;
use crate::kernel::{Transport, UdpDatagram};
fn pkt(id: u16) -> Packet {
    Packet { src: "10.0.0.1".parse().unwrap(), dst: "10.0.0.2".parse().unwrap(), ttl: 64,
             payload: Transport::Udp(UdpDatagram { src_port: id, dst_port: 1, payload: bytes::Bytes::new() }) }
}
fn id_of(p: &Packet) -> u16 { match &p.payload { Transport::Udp(d) => d.src_port, _ => u16::MAX } }
struct Obs { old: Vec<(Duration, u64)>, got: Vec<(Duration, u64, u16)>, next_seq: u64, now: Duration, egress: usize, dl: Duration }
fn call(n: u8, a0_s: u64, a0_ns: u32, q0: u64, now_s: u64, now_ns: u32, d_s: u64, d_ns: u32, next_seq: u64) -> Obs {
    let old: Vec<(Duration, u64)> = [(Duration::new(a0_s, a0_ns), q0)].iter().take(n as usize).copied().collect();
    let mut s = Scheduler { now: Duration::new(now_s, now_ns), pending: old.iter().enumerate().map(|(k, e)| Scheduled { deliver_at: e.0, seq: e.1, pkt: pkt(k as u16) }).collect(),
                            next_seq, egress: Vec::new() };
    let dl = Duration::new(now_s, now_ns) + Duration::new(d_s, d_ns);
    println!("REPLAY-SETUP-DONE");
    s.schedule(pkt(9), Duration::new(d_s, d_ns));
    let got: Vec<(Duration, u64, u16)> = s.pending.iter().map(|x| (x.deliver_at, x.seq, id_of(&x.pkt))).collect();
    println!("REPLAY-OBSERVED schedule(delay {:?}) at now {:?} (deadline {dl:?}, next_seq {next_seq}) on pending {old:?} -> pending (deadline, seq, packet) {got:?}, next_seq {}", Duration::new(d_s, d_ns), Duration::new(now_s, now_ns), s.next_seq);
    Obs { old, got, next_seq: s.next_seq, now: s.now, egress: s.egress.len(), dl }
}
//@@REPLAY sched_insert@@
#[test]
fn sched_insert() {
    let o = call(@n@, @a0_s@, @a0_ns@, @q0@, @now_s@, @now_ns@, @d_s@, @d_ns@, @next_seq@);
    let n = o.old.len();
    let ok = (0..=n).any(|idx| o.got.len() == n + 1 && o.got[idx] == (o.dl, @next_seq@, 9)
        && (0..n).all(|j| { let g = if j < idx { j } else { j + 1 }; o.got[g] == (o.old[j].0, o.old[j].1, j as u16) && (if j < idx { o.old[j].0 <= o.dl } else { o.old[j].0 > o.dl }) }));
    assert!(ok, "REPLAY-VIOLATION C19.sched.insert");
}
//@@REPLAY sched_sorted@@
#[test]
fn sched_sorted() {
    let o = call(@n@, @a0_s@, @a0_ns@, @q0@, @now_s@, @now_ns@, @d_s@, @d_ns@, @next_seq@);
    let ok = o.got.iter().all(|x| x.1 < o.next_seq) && o.got.windows(2).all(|w| w[0].0 < w[1].0 || (w[0].0 == w[1].0 && w[0].1 < w[1].1));
    assert!(ok, "REPLAY-VIOLATION C19.sched.sorted");
}
//@@REPLAY sched_seq@@
#[test]
fn sched_seq() {
    let o = call(@n@, @a0_s@, @a0_ns@, @q0@, @now_s@, @now_ns@, @d_s@, @d_ns@, @next_seq@);
    assert!(o.next_seq == @next_seq@ + 1, "REPLAY-VIOLATION C19.sched.seq");
}
//@@REPLAY sched_frame@@
#[test]
fn sched_frame() {
    let o = call(@n@, @a0_s@, @a0_ns@, @q0@, @now_s@, @now_ns@, @d_s@, @d_ns@, @next_seq@);
    assert!(o.now == Duration::new(@now_s@, @now_ns@) && o.egress == 0, "REPLAY-VIOLATION C19.sched.frame");
}
