#!/usr/bin/env python3
"""Self-test against false alarms: apply each BEHAVIOUR-PRESERVING edit from selftest/harmless/*.json to a scratch copy of
/repo and run the named property checks: exit 0 (still proved) or 2 (undecided) are acceptable, exit 1 never is.
An entry with "expect": [2] is an edit that does not compile inside a contracted fn: it must be UNDECIDED for every property (never 0: nothing was verified)."""
import glob, json, os, shutil, subprocess, sys, tempfile
VERIF = os.path.dirname(os.path.dirname(os.path.abspath(__file__)))
REPO = os.environ.get('VERIF_REPO', '/repo')
def main():
    bad = 0; rows = []
    scratch = tempfile.mkdtemp(prefix='turmoil-verif-harmless-')
    try:
        subprocess.run(['rsync', '-a', '--exclude', 'target', '--exclude', '.git', REPO + '/', scratch + '/'], check=True)
        for f in sorted(glob.glob(os.path.join(VERIF, 'selftest', 'harmless', '*.json'))):
            for m in json.load(open(f)):
                path = os.path.join(scratch, m['file']); orig = open(path).read()
                if orig.count(m['old']) != 1:
                    print(f"{m['id']:45s} ANCHOR-LOST"); continue
                open(path, 'w').write(orig.replace(m['old'], m['new']))
                res = []
                for prop in m['props']:
                    p = subprocess.run([os.path.join(VERIF, 'check'), prop], capture_output=True, text=True,
                                       env=dict(os.environ, VERIF_REPO=scratch, VERIF_NO_EVIDENCE='1', VERIF_REPLAY_DIR=os.path.join(scratch, '.verif-replays')))
                    res.append((prop, p.returncode))
                    if p.returncode not in m.get('expect', [0, 2]):
                        bad += 1; print(f"UNEXPECTED exit {p.returncode} for {m['id']} {prop} (expected one of {m.get('expect', [0, 2])})")
                    if p.returncode == 1:
                        bad += 1
                        print('\n'.join(l for l in p.stdout.split('\n') if l.startswith('VIOLATION'))[:600])
                open(path, 'w').write(orig)
                print(f"{m['id']:45s} " + ' '.join(f'{p}:exit{rc}' for p, rc in res), flush=True)
    finally:
        shutil.rmtree(scratch, ignore_errors=True)
    print('FALSE ALARMS:', bad)
    return 1 if bad else 0
if __name__ == '__main__':
    sys.exit(main())
