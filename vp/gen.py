"""vspec parser + generator: builds one Verus file per verification unit from
/repo's *current working tree* plus the unit's sidecar annotations.

Rewrite rules applied to extracted text (each application is logged):
  R1 strip visibility            R2 drop tracing statements, doc comments, attributes
  R3 insert annotations          R4 `use` lines are not extracted (names resolve to prelude stubs)
  R5 closure lifting             R6 async prefix
  R7 declared path renames (`@rename a::B => C`, `as NAME` on an item)
"""
import hashlib
import os
import re
import sys
from dataclasses import dataclass, field

sys.path.insert(0, os.path.dirname(os.path.abspath(__file__)))
import rustlex as rl

REPO = os.environ.get('VERIF_REPO', '/repo')
VERIF = os.path.dirname(os.path.dirname(os.path.abspath(__file__)))

# [Cxx.name] or [Cxx.name|Cyy|Czz]: the obligation also counts for properties Cyy, Czz
# proof-mode attributes a sidecar may put in front of an extracted fn (`@attr <<...>>`).  They change how Verus
# searches for the proof (which facts are in scope), never what is assumed.
# exec_allows_no_decreases_clause: the fn is checked for partial correctness only (its loops get no termination proof);
# the unit must report termination of that fn as NOT decided.
HINT_KINDS = ('before', 'after', 'inarm', 'tail', 'head', 'loophead', 'loopend', 'loop')   # annotations inside a fn body that name locals
ALLOWED_FN_ATTRS = ('#[verifier::loop_isolation(false)]', '#[verifier::spinoff_prover]', '#[verifier::exec_allows_no_decreases_clause]')

LABEL_RE = re.compile(r'\[((?:C\d\d|[a-z]+)\.[A-Za-z0-9_.\-]+)((?:\|C\d\d)*)\]')


class SpecError(Exception):
    """Broken sidecar or lost anchor: undecided, never an alarm."""


@dataclass
class Ann:
    kind: str          # sig loop before after closure ret replace_closure
    arg: str = ''
    arg2: str = ''
    text: str = ''
    opts: dict = field(default_factory=dict)
    line: int = 0


@dataclass
class ItemSpec:
    file: str
    kind: str           # struct enum fn type const lift
    sel: str            # Name  or  Type::name or <Trait for Type>::name
    as_name: str = ''
    props: list = field(default_factory=list)
    anns: list = field(default_factory=list)
    opts: dict = field(default_factory=dict)
    line: int = 0


@dataclass
class Unit:
    name: str
    serves: list = field(default_factory=list)
    prelude: list = field(default_factory=list)
    renames: list = field(default_factory=list)
    parts: list = field(default_factory=list)   # ('spec', text, line) | ('item', ItemSpec)
    path: str = ''


def parse_vspec(path):
    u = Unit(name=os.path.basename(path).split('.')[0], path=path)
    lines = open(path).read().split('\n')
    i = 0
    cur_item = None

    def take_block(j):
        buf = []
        while j < len(lines) and not lines[j].startswith('@'):
            buf.append(lines[j]); j += 1
        return '\n'.join(buf), j

    while i < len(lines):
        ln = lines[i]
        if not ln.startswith('@'):
            if ln.strip() and not ln.lstrip().startswith('#'):
                raise SpecError(f'{path}:{i+1}: text outside a block: {ln!r}')
            i += 1; continue
        parts = ln.split()
        d = parts[0]
        if d == '@unit':
            u.name = parts[1]; i += 1
        elif d == '@serves':
            u.serves += parts[1:]; i += 1
        elif d == '@prelude':
            u.prelude += parts[1:]; i += 1
        elif d == '@rename':
            m = re.match(r'@rename\s+(\S+)\s*=>\s*(\S+)', ln)
            if not m: raise SpecError(f'{path}:{i+1}: bad @rename')
            u.renames.append((m.group(1), m.group(2))); i += 1
        elif d == '@fxauto':
            # unit-level switch for R13a: calls of sibling items with the same `fx=` get the effect state automatically
            u.fxauto = True; i += 1
        elif d == '@spec':
            cur_item = None
            text, j = take_block(i + 1)
            u.parts.append(('spec', text, i + 2)); i = j
        elif d == '@item':
            # @item <file> <kind> <selector> [as NAME] [props=C01,C02] [opt=val]
            if len(parts) < 4: raise SpecError(f'{path}:{i+1}: bad @item')
            sel = parts[3]; nsel = 4
            if (sel.startswith('<') or '::<' in sel) and '>::' not in sel:   # also `module::<Trait for Type>::method`
                while nsel < len(parts) and '>::' not in sel:
                    sel += ' ' + parts[nsel]; nsel += 1
            it = ItemSpec(file=parts[1], kind=parts[2], sel=sel, line=i + 1)
            rest = parts[nsel:]
            k = 0
            while k < len(rest):
                if rest[k] == 'as':
                    it.as_name = rest[k + 1]; k += 2
                elif '=' in rest[k]:
                    a, b = rest[k].split('=', 1)
                    if a == 'props': it.props = b.split(',')
                    else: it.opts[a] = b
                    k += 1
                else:
                    raise SpecError(f'{path}:{i+1}: bad token {rest[k]}')
            u.parts.append(('item', it)); cur_item = it; i += 1
        elif d in ('@sig', '@loop', '@loopend', '@before', '@after', '@closure', '@closure?', '@ret', '@tail', '@head', '@drop', '@split_or_arm', '@idiom', '@idiom?', '@dropstmt', '@relift', '@tryforeach', '@attr', '@hoist', '@loophead', '@loopafter', '@implspec', '@inarm'):
            if cur_item is None: raise SpecError(f'{path}:{i+1}: {d} outside @item')
            a = Ann(kind=d[1:].rstrip('?'), line=i + 1)
            if d.endswith('?'): a.opts['optional'] = '1'   # anchor may be absent (code before/after a fix)
            rest = ln[len(d):].strip()
            if d == '@ret':
                a.arg = rest; i += 1
            elif d in ('@loop', '@loopend', '@tryforeach', '@loophead', '@loopafter'):
                ps = rest.split()
                a.arg = ps[0]
                for p in ps[1:]:
                    kk, vv = p.split('='); a.opts[kk] = vv
                a.text, i = take_block(i + 1)
            elif d in ('@before', '@after', '@inarm', '@drop', '@dropstmt', '@split_or_arm', '@attr'):
                m = re.match(r'<<(.*)>>\s*$', rest)
                if not m: raise SpecError(f'{path}:{i+1}: {d} needs <<anchor>>')
                a.arg = m.group(1)
                if d in ('@before', '@after', '@inarm') and '\\n' in a.arg:
                    a.arg = a.arg.replace('\\n', '\n')   # `\n` in a hint anchor = line break: anchors may span lines (disambiguation)
                if d == '@attr' and a.arg not in ALLOWED_FN_ATTRS:
                    raise SpecError(f'{path}:{i+1}: @attr {a.arg} is not a whitelisted proof-mode attribute')
                if d in ('@drop', '@dropstmt', '@split_or_arm', '@attr'):
                    i += 1
                else:
                    a.text, i = take_block(i + 1)
            elif d == '@hoist':
                # R20: `@hoist <<enum Name>>` moves a fn-local item in front of the fn
                m = re.match(r'<<\s*(enum|struct)\s+(\w+)\s*>>\s*$', rest)
                if not m: raise SpecError(f'{path}:{i+1}: @hoist needs <<enum|struct Name>>')
                a.arg, a.arg2 = m.group(1), m.group(2); i += 1
            elif d in ('@closure', '@closure?', '@idiom', '@idiom?', '@relift'):
                # optional third part `<<let PAT = p;>>` (or `bind <<let PAT = p;>>`) = destructuring of the renamed closure
                # parameter, inserted as the first statement of the closure body (Verus: closure params must be plain variables)
                m = re.match(r'<<(.*?)>>\s*=>\s*<<(.*?)>>(?:\s*(?:bind\s*)?<<(.*?)>>)?(?:\s+nth=(\d+))?\s*$', rest)
                if not m: raise SpecError(f'{path}:{i+1}: {d} needs <<old>> => <<new>> [<<let PAT = p;>>] [nth=N]')
                a.arg, a.arg2 = m.group(1), m.group(2); a.text = m.group(3) or ''
                if m.group(4): a.opts['nth'] = m.group(4)   # N-th textual occurrence of the header in the body
                i += 1
            else:
                a.text, i = take_block(i + 1)
            cur_item.anns.append(a)
        else:
            raise SpecError(f'{path}:{i+1}: unknown directive {d}')
    return u


# ---------------------------------------------------------------------------
# extraction

_file_cache = {}


def load_file(rel):
    p = os.path.join(REPO, rel)
    if p not in _file_cache:
        if not os.path.exists(p):
            raise SpecError(f'LOST-ANCHOR: file {rel} not found')
        src = open(p).read()
        toks = rl.lex(src)
        ct = rl.code_toks(toks)
        items = rl.parse_items(src, toks, ct)
        _file_cache[p] = (src, toks, ct, items)
    return _file_cache[p]


def find_item(rel, kind, sel):
    """Returns (item, impl_item_or_None, src)."""
    src, toks, ct, items = load_file(rel)

    def non_test(its):
        # R22: an item whose `#[cfg(P)]` is false under the verified configuration (R2c: all features, tokio_unstable, unix,
        # not test) is not compiled, hence never a candidate; this selects between cfg-alternative definitions of one name
        # (e.g. the two `Host::new`).  Children of impls are filtered when the impl is searched (cfg_live below).
        return [x for x in its if not x.cfg_test and cfg_live(x)]

    def cfg_live(x):
        # comment lines (doc comments may quote `#[cfg(test)]`, e.g. the shim's sync_dir) are not attributes
        attrs = '\n'.join(l for l in src[x.start:x.decl_start].split('\n') if not l.lstrip().startswith('//'))
        for m in re.finditer(r'#\[cfg\((.*)\)\]', attrs):
            if not cfg_true(m.group(1)):
                return False
        return True

    mods = []
    path = sel
    # optional module prefix: mod::mod::Rest  (only lower-case first segments that are modules)
    scope = non_test(items)
    segs = sel.split('::')
    while len(segs) > 1:
        m = [x for x in scope if x.kind == 'mod' and x.name == segs[0]]
        if not m: break
        scope = non_test(m[0].children); segs = segs[1:]
    if kind in ('struct', 'enum', 'type', 'const', 'static', 'trait'):
        if len(segs) == 2:
            # associated const/type: Type::NAME
            cand = []
            for imp in scope:
                if imp.kind == 'impl' and imp.self_type == segs[0] and not imp.trait_name:
                    for c in imp.children:
                        if c.kind == kind and c.name == segs[1]:
                            cand.append((c, imp))
            if len(cand) != 1:
                raise SpecError(f'LOST-ANCHOR: {rel}: {kind} {sel}: {len(cand)} matches')
            return cand[0][0], cand[0][1], src
        cand = [x for x in scope if x.kind == kind and x.name == segs[0]]
        if len(cand) != 1:
            raise SpecError(f'LOST-ANCHOR: {rel}: {kind} {sel}: {len(cand)} matches')
        return cand[0], None, src
    if kind in ('fn', 'lift'):
        m = re.match(r'^<(\w+) for (\w+)>::(\w+)(#\d+)?$', '::'.join(segs))
        if m:
            tr, ty, fn = m.group(1), m.group(2), m.group(3)
            nth = int(m.group(4)[1:]) if m.group(4) else None
            cand = []
            for imp in scope:
                if imp.kind == 'impl' and imp.self_type == ty and imp.trait_name == tr:
                    for c in imp.children:
                        if c.kind == 'fn' and c.name == fn:
                            cand.append((c, imp))
            if nth is not None and len(cand) >= nth:
                cand = [cand[nth - 1]]
            if len(cand) != 1:
                raise SpecError(f'LOST-ANCHOR: {rel}: fn {sel}: {len(cand)} matches')
            return cand[0][0], cand[0][1], src
        if len(segs) == 2:
            cand = []
            for imp in scope:
                if imp.kind == 'impl' and imp.self_type == segs[0] and not imp.trait_name:
                    for c in imp.children:
                        if c.kind == 'fn' and c.name == segs[1] and cfg_live(c):
                            cand.append((c, imp))
            if len(cand) != 1:
                raise SpecError(f'LOST-ANCHOR: {rel}: fn {sel}: {len(cand)} matches')
            return cand[0][0], cand[0][1], src
        cand = [x for x in scope if x.kind == 'fn' and x.name == segs[0]]
        if len(cand) != 1:
            raise SpecError(f'LOST-ANCHOR: {rel}: fn {sel}: {len(cand)} matches')
        return cand[0], None, src
    raise SpecError(f'unknown item kind {kind}')


def cfg_true(pred):
    """Evaluate a cfg predicate under the verified configuration: every cargo feature on, tokio_unstable,
    unix, not(test), not(kani).  Unknown atoms count as true (conservative: the element is kept)."""
    pred = pred.strip()
    m = re.match(r'^(not|all|any)\s*\((.*)\)$', pred, flags=re.S)
    if m:
        parts, depth, cur = [], 0, ''
        for ch in m.group(2):
            if ch == '(': depth += 1
            if ch == ')': depth -= 1
            if ch == ',' and depth == 0:
                parts.append(cur); cur = ''
            else:
                cur += ch
        if cur.strip(): parts.append(cur)
        vals = [cfg_true(x) for x in parts]
        return {'not': (not vals[0]) if vals else True, 'all': all(vals), 'any': any(vals)}[m.group(1)]
    if pred in ('test', 'kani', 'windows', 'loom'):
        return False
    return True


KEEP_DERIVES = {'Clone', 'Copy', 'PartialEq', 'Eq', 'Default', 'PartialOrd', 'Ord', 'Hash'}


class Text:
    """Token-based editable copy of an item's text.  Edits are recorded as
    (start, end, replacement) over the original span and applied at the end."""

    def __init__(self, src, start, end, rel):
        self.src = src
        self.start, self.end = start, end
        self.rel = rel
        self.toks = [t for t in rl.lex(src[start:end])]
        for t in self.toks:
            t.start += start; t.end += start
        self.ct = rl.code_toks(self.toks)
        self.edits = []
        self.log = []

    def edit(self, s, e, repl, rule, note=''):
        self.edits.append((s, e, repl))
        self.log.append({'rule': rule, 'at': f'{self.rel}:{rl.line_of(self.src, s)}',
                         'text': self.src[s:e][:160], 'note': note})

    def render(self):
        out = []
        pos = self.start
        for s, e, r in sorted(self.edits, key=lambda x: (x[0], x[1])):
            if s < pos:
                if e <= pos and (not r or (s, e) in getattr(self, 'subsumed', ())):
                    continue
                raise SpecError(f'overlapping edits in {self.rel} at byte {s}')
            out.append(self.src[pos:s]); out.append(r); pos = e
        out.append(self.src[pos:self.end])
        return ''.join(out)


def strip_common(tx: Text, keep_derive=True, extra_keep=(), drop_derive=(), keep_vis=False):
    """R1/R2 on the item text."""
    ct = tx.ct
    i = 0
    while i < len(ct):
        t = ct[i]
        if t.kind == 'id' and t.text == 'pub' and not keep_vis:
            e = t.end
            if i + 1 < len(ct) and ct[i + 1].text == '(' and ct[i + 2].kind == 'id' and ct[i + 2].text in ('crate', 'super', 'in', 'self'):
                e = ct[rl.match_close(ct, i + 1)].end
            # swallow following whitespace
            while e < tx.end and tx.src[e] in ' \t':
                e += 1
            tx.edits.append((t.start, e, ''))
            i += 1; continue
        if t.kind == 'punct' and t.text == '#' and i + 1 < len(ct) and ct[i + 1].text in ('[', '!'):
            j = i + 1
            if ct[j].text == '!': j += 1
            close = rl.match_close(ct, j)
            body = tx.src[ct[j].end:ct[close].start].strip()
            if body.startswith('derive') and keep_derive:
                ds = [d.strip() for d in body[body.index('(') + 1:body.rindex(')')].split(',')]
                kept = [d for d in ds if (d in KEEP_DERIVES or d in extra_keep) and d not in drop_derive]
                dropped = [d for d in ds if d and ((d not in KEEP_DERIVES and d not in extra_keep) or d in drop_derive)]
                repl = f"#[derive({', '.join(kept)})]" if kept else ''
                tx.edits.append((t.start, ct[close].end, repl))
                if dropped:
                    tx.log.append({'rule': 'R2', 'at': f'{tx.rel}:{rl.line_of(tx.src, t.start)}', 'text': 'derive ' + ','.join(dropped), 'note': 'derive dropped'})
            elif body.startswith('cfg(') and not cfg_true(body[4:body.rindex(')')]):
                # R2c: the configuration verified is "all cargo features on, tokio_unstable, unix, not test".
                # An element whose cfg predicate is false under that configuration is not compiled: drop it.
                j2 = close + 1
                # further attributes on the same element
                while j2 + 1 < len(ct) and ct[j2].text == '#' and ct[j2 + 1].text == '[':
                    j2 = rl.match_close(ct, j2 + 1) + 1
                k2 = j2
                end = None
                while k2 < len(ct):
                    tk = ct[k2]
                    if tk.kind == 'punct' and tk.text in rl.OPEN:
                        k2 = rl.match_close(ct, k2) + 1
                        # a block-bodied item / statement (`fn f() {..}`, `if .. {..}`) ends at its closing brace
                        if ct[k2 - 1].text == '}' and (k2 >= len(ct) or ct[k2].text not in (',', ';', '.', '?', 'else')):
                            end = ct[k2 - 1].end; break
                        continue
                    if tk.kind == 'punct' and tk.text in (',', ';'):
                        end = tk.end; break
                    if tk.kind == 'punct' and tk.text in rl.CLOSE:
                        end = ct[k2 - 1].end; break
                    k2 += 1
                if end is None:
                    end = ct[-1].end
                tx.edit(t.start, end, '', 'R2c', f'cfg({body[4:body.rindex(")")]}) is false under the verified configuration: element dropped')
                # skip the tokens inside the dropped element
                while i < len(ct) and ct[i].start < end:
                    i += 1
                continue
            else:
                tx.edit(t.start, ct[close].end, '', 'R2', 'attribute dropped')
            i = close + 1; continue
        i += 1
    # R4 also inside bodies: a statement-level `use a::b::C;` is not extracted (the name resolves to the prelude stub)
    for i, t in enumerate(ct):
        if (t.kind == 'id' and t.text == 'use' and i > 0 and ct[i - 1].text in ('{', ';', '}')
                and i + 1 < len(ct) and ct[i + 1].text in ('std', 'core', 'alloc')):
            # only std paths: other function-local imports (e.g. `use mpsc::error::TrySendError::*`) must resolve
            # against the prelude's stub modules and are kept
            j = i
            while j < len(ct) and ct[j].text != ';':
                j += 1
            if j < len(ct):
                tx.edit(t.start, ct[j].end, '', 'R4', 'function-local use not extracted')
    for t in tx.toks:
        if t.kind == 'lcomment' and (t.text.startswith('///') or t.text.startswith('//!')):
            tx.edits.append((t.start, t.end, ''))
    # R14: `_ = EXPR;` (destructuring assignment to the wildcard, not accepted by Verus) ==> `let _ = EXPR;`
    # Same semantics: EXPR is evaluated and its value dropped at the end of the statement.
    for i in range(1, len(ct) - 2):
        if (ct[i].kind == 'id' and ct[i].text == '_' and ct[i - 1].kind == 'punct' and ct[i - 1].text in (';', '{', '}')
                and ct[i + 1].kind == 'punct' and ct[i + 1].text == '=' and ct[i + 2].text not in ('=', '>')):
            tx.edit(ct[i].start, ct[i].end, 'let _', 'R14', '`_ = E;` rewritten to `let _ = E;`')
    # tracing statements:  tracing::xxx!( ... );
    i = 0
    while i + 4 < len(ct):
        if (ct[i].kind == 'id' and ct[i].text == 'tracing' and ct[i + 1].text == ':' and ct[i + 2].text == ':'
                and ct[i + 3].kind == 'id' and ct[i + 4].text == '!'):
            o = i + 5
            close = rl.match_close(ct, o)
            e = ct[close].end
            if close + 1 < len(ct) and ct[close + 1].text == ';':
                e = ct[close + 1].end
                tx.edit(ct[i].start, e, '', 'R2', 'tracing statement dropped')
            else:
                tx.edit(ct[i].start, e, '()', 'R2', 'tracing expression replaced by ()')
            i = close + 1; continue
        i += 1


def apply_renames(tx: Text, renames):
    ct = tx.ct
    for old, new in renames:
        if old.startswith('.'):
            # method-call rename: `.name(` => `.new(` (declared in the sidecar, logged as R7)
            for i in range(1, len(ct) - 1):
                if ct[i].kind == 'id' and ct[i].text == old[1:] and ct[i - 1].text == '.' and ct[i + 1].text == '(':
                    tx.edit(ct[i].start, ct[i].end, new.lstrip('.'), 'R7', f'method {old} => {new}')
            continue
        # R21: `@rename dyn~a::Trait => Stub` erases the trait-object type `dyn a::Trait` to the declared (sized) stub type:
        # the `dyn` keyword in front of the path is part of the match and of the replaced span.  Verus supports neither
        # `&mut T -> &mut dyn Trait` unsizing nor contracts on foreign trait methods; a trait object used only as an opaque
        # value is modelled by one abstract type carrying ghost state (the dispatch target is not observable in the contracts).
        dyn_erase = old.startswith('dyn~')
        if dyn_erase:
            old = old[4:]
        segs = old.split('::')
        n = len(segs)
        i = 0
        while i < len(ct):
            # match ident (:: ident)*
            k = i; ok = True
            if dyn_erase and not (i > 0 and ct[i - 1].kind == 'id' and ct[i - 1].text == 'dyn'):
                i += 1; continue
            for si, sname in enumerate(segs):
                if k >= len(ct) or ct[k].kind != 'id' or ct[k].text != sname: ok = False; break
                k += 1
                if si < n - 1:
                    if k + 1 < len(ct) and ct[k].text == ':' and ct[k + 1].text == ':': k += 2
                    else: ok = False; break
            if ok:
                # not preceded by `::` or `.` (must be a path start) unless single segment w/ explicit flag
                prev = ct[i - 1].text if i > 0 else ''
                is_path_sep = (i > 1 and prev == ':' and ct[i - 2].text == ':' and ct[i - 2].end == ct[i - 1].start)
                if is_path_sep or prev == '.':
                    i += 1; continue
                if dyn_erase:
                    # `dyn Fn(A, B)` / `dyn FnMut(..)`: the parenthesised argument sugar belongs to the trait-object type
                    if k < len(ct) and ct[k].text == '(' and segs[-1] in ('Fn', 'FnMut', 'FnOnce'):
                        k = rl.match_close(ct, k) + 1
                    tx.edit(ct[i - 1].start, ct[k - 1].end, new, 'R21', f'trait-object type `dyn {old}` erased to stub type {new}')
                else:
                    tx.edit(ct[i].start, ct[k - 1].end, new, 'R7', f'{old} => {new}')
                i = k; continue
            i += 1


def fn_parts(tx: Text):
    """Locate signature pieces of a fn item: returns dict with token indexes."""
    ct = tx.ct
    i = 0
    while not (ct[i].kind == 'id' and ct[i].text == 'fn'):
        i += 1
    fn_i = i
    # params
    k = i + 2
    if ct[k].text == '<':
        depth = 0
        while True:
            if ct[k].text == '<': depth += 1
            elif ct[k].text == '>' and ct[k - 1].text != '-': depth -= 1
            k += 1
            if depth == 0: break
    assert ct[k].text == '(', (tx.rel, ct[k].text)
    pclose = rl.match_close(ct, k)
    # body open
    b = pclose + 1
    arrow = None
    where = None
    while not (ct[b].kind == 'punct' and ct[b].text == '{'):
        if ct[b].text == '-' and ct[b + 1].text == '>' and arrow is None:
            arrow = b
        if ct[b].kind == 'id' and ct[b].text == 'where' and where is None:
            where = b
        if ct[b].kind == 'punct' and ct[b].text in ('(', '['):
            b = rl.match_close(ct, b)
        b += 1
    bclose = rl.match_close(ct, b)
    return dict(fn=fn_i, popen=k, pclose=pclose, arrow=arrow, where=where, bopen=b, bclose=bclose)


def find_loops(tx: Text, lo, hi):
    """Indexes (in ct) of loop keywords for/while/loop inside body token range, textual order,
    with the index of the loop body's '{'."""
    ct = tx.ct
    res = []
    i = lo
    while i < hi:
        t = ct[i]
        if t.kind == 'id' and t.text in ('for', 'while', 'loop'):
            prev = ct[i - 1]
            # `for<'a>` HRTB and `impl X for Y` cannot occur inside bodies we extract; guard anyway
            if t.text == 'for' and ct[i + 1].text == '<':
                i += 1; continue
            j = i + 1
            while j < hi:
                if ct[j].kind == 'punct' and ct[j].text in ('(', '['):
                    j = rl.match_close(ct, j) + 1; continue
                if ct[j].kind == 'punct' and ct[j].text == '{':
                    break
                j += 1
            res.append((i, j))
        i += 1
    return res


def closure_braces(tx, hdr_end):
    """Verus wants a braced body on a closure that carries `ensures`.  If the body following the header
    (byte offset hdr_end) is a bare expression, return the two insertions that wrap it in `{ }`."""
    ct = tx.ct
    k = next(i for i, t in enumerate(ct) if t.start >= hdr_end)
    if ct[k].kind == 'punct' and ct[k].text == '{':
        return []
    j = k
    while j < len(ct):
        t = ct[j]
        if t.kind == 'punct' and t.text in rl.OPEN:
            j = rl.match_close(ct, j) + 1; continue
        if t.kind == 'punct' and t.text in (')', ']', '}', ',', ';'):
            break
        j += 1
    return [(ct[k].start, '{ '), (ct[j - 1].end, ' }')]


def auto_closure_patterns(tx, ct, lo, hi, add_insert):
    """R15a (automatic): a closure whose parameter is a pattern (`|(a, b)|`, `|&x|`, `|Foo { f, .. }|`) is rewritten to
    `|__cpN| { let PAT = __cpN; BODY }` -- the Reference's meaning of closure parameter patterns (irrefutable bindings).
    Verus accepts only plain variables as closure parameters.  Closures already rewritten by `@closure` are left alone."""
    starts = ('(', ',', '=', 'move')
    k = lo
    n = 0
    while k < hi:
        t = ct[k]
        if t.kind == 'punct' and t.text == '|' and ct[k - 1].text in starts and ct[k + 1].text != '|':
            j = k + 1; depth = 0
            while j < hi and not (ct[j].text == '|' and depth == 0):
                if ct[j].text in rl.OPEN: depth += 1
                elif ct[j].text in rl.CLOSE: depth -= 1
                if depth < 0: break
                j += 1
            if j >= hi or depth != 0:
                k += 1; continue
            if any(not (e_[1] <= ct[k].start or e_[0] >= ct[j].end) for e_ in tx.edits):
                k = j + 1; continue        # header already edited (annotated closure)
            # split params at depth-0 commas
            params = []; a = k + 1; depth = 0
            for q in range(k + 1, j + 1):
                if q == j or (ct[q].text == ',' and depth == 0):
                    if q > a: params.append((a, q))
                    a = q + 1
                elif ct[q].text in rl.OPEN or ct[q].text == '<': depth += 1
                elif ct[q].text in rl.CLOSE or (ct[q].text == '>' and ct[q - 1].text != '-'): depth -= 1
            lets = []
            for (a, b) in params:
                # pattern = tokens up to a depth-0 single ':' (type ascription)
                e = b; depth = 0
                for q in range(a, b):
                    if ct[q].text in rl.OPEN: depth += 1
                    elif ct[q].text in rl.CLOSE: depth -= 1
                    elif ct[q].text == ':' and depth == 0 and ct[q + 1].text != ':' and ct[q - 1].text != ':':
                        e = q; break
                toks = [ct[q].text for q in range(a, e)]
                simple = (len(toks) == 1 and ct[a].kind == 'id' and toks[0] != '_') or (len(toks) == 2 and toks[0] == 'mut' and ct[a + 1].kind == 'id')
                if simple:
                    continue
                name = f'__cp{n}'; n += 1
                pat = tx.src[ct[a].start:ct[e - 1].end]
                tx.edit(ct[a].start, ct[e - 1].end, name, 'R15a', f'closure parameter pattern `{pat}` moved into the body')
                lets.append(f'let {pat} = {name};')
            if lets:
                cb = closure_braces(tx, ct[j].end)
                text = ' '.join(lets)
                if cb:
                    add_insert(cb[0][0], '{ ' + text + ' '); add_insert(cb[1][0], cb[1][1])
                else:
                    kb = next(i_ for i_, t_ in enumerate(ct) if t_.start >= ct[j].end)
                    add_insert(ct[kb].end, ' ' + text + ' ')
            k = j + 1; continue
        k += 1


def loop_values(tx, ct, lo, hi, types, region):
    """R26 (automatic): `let X = loop { .. break E; .. };`  =>  `let __lvN[: T]; loop { .. { __lvN = E; break; } .. } let X = __lvN;`
    -- the Reference's meaning of `break` with a value (Verus: "complex break expressions" are unsupported).  A fresh name
    is used because the loop body may shadow X.  `loopval=T1,T2` on the item gives the types (needed when an invariant
    mentions the value before it is assigned; `~` = space, `-` = none)."""
    n = 0
    k = lo
    while k + 4 < hi:
        if (ct[k].kind == 'id' and ct[k].text == 'let' and ct[k + 1].kind == 'id' and ct[k + 2].text == '=' and ct[k + 3].kind == 'id'
                and ct[k + 3].text == 'loop' and ct[k + 4].text == '{' and ct[k + 2].end <= ct[k + 3].start):
            name = ct[k + 1].text
            tmp = f'__lv{n}'
            ty = types[n].replace('~', ' ') if n < len(types) and types[n] not in ('', '-') else ''
            n += 1
            ob = k + 4
            cb = rl.match_close(ct, ob)
            if ct[cb + 1].text != ';':
                raise SpecError(f'UNSUPPORTED: {region}: `let {name} = loop {{..}}` not followed by `;`')
            tx.edit(ct[k].start, ct[k + 2].end, f'let {tmp}' + (f': {ty}' if ty else '') + ';', 'R26', f'loop with break value: result of `{name}` carried in `{tmp}`')
            tx.edits.append((ct[cb].end, ct[cb].end, f' let {name} = {tmp}'))
            q = ob + 1
            while q < cb:
                t = ct[q]
                if t.kind == 'id' and t.text in ('for', 'while', 'loop'):
                    j = q + 1
                    while j < cb and not (ct[j].kind == 'punct' and ct[j].text == '{'):
                        if ct[j].kind == 'punct' and ct[j].text in ('(', '['): j = rl.match_close(ct, j)
                        j += 1
                    q = rl.match_close(ct, j) + 1; continue       # a nested loop owns its own breaks
                if t.kind == 'id' and t.text == 'break':
                    if ct[q + 1].kind == 'lifetime' or ct[q + 1].text.startswith("'"):
                        raise SpecError(f'UNSUPPORTED: {region}: labelled break in a loop with value')
                    if ct[q + 1].text in (';', '}', ','):
                        q += 1; continue
                    e = q + 1
                    while e < cb and ct[e].text not in (';', ',') and ct[e].text not in rl.CLOSE:
                        if ct[e].text in rl.OPEN: e = rl.match_close(ct, e)
                        e += 1
                    tx.edit(t.start, t.end, '{ ' + tmp + ' =', 'R26', 'break with value => assignment + break')
                    tx.edits.append((ct[e - 1].end, ct[e - 1].end, '; break; }'))
                    q = e; continue
                q += 1
            k = ob + 1; continue
        k += 1


def apply_fx(tx, ct, lo, hi, fxname, fxcalls, inserts, mk, bare=False):
    """R13 (effect state made explicit): every call `.NAME(ARGS)` / `path::NAME(ARGS)` with NAME in fxcalls gets the
    effect-state variable appended as last argument.  Shared mutable state behind `&self` handles (channels) cannot be
    expressed in Verus; the stub contracts take it as an explicit `&mut` parameter instead."""
    # an entry `name*` of fxcalls passes ALL effect-state parameters (fx=a:A+b:B), a plain `name` the first one
    fxarg = {}
    for c_ in fxcalls:
        fxarg[c_.rstrip('*')] = fxname if not c_.endswith('*') else getattr(tx, 'fxall', fxname)
    fxcalls = list(fxarg)
    for k in range(lo, hi):
        t = ct[k]
        if t.kind == 'id' and t.text in fxcalls and ct[k - 1].text == ':':
            q_ = k
            while ct[q_ - 1].text == ':' and ct[q_ - 2].text == ':' and ct[q_ - 3].kind == 'id':
                q_ -= 3
            if ct[q_].text in ('std', 'core', 'alloc'):
                continue        # a std path (`std::mem::forget(x)`) is never an item of the unit, whatever its last segment is called
        if t.kind == 'id' and t.text in fxcalls and ct[k + 1].text == '!' and ct[k + 2].kind == 'punct' and ct[k + 2].text in rl.OPEN:
            # macro invocation (e.g. tokio::select!): the effect state becomes the first macro argument (`select! { fx; .. }`)
            inserts.append(mk(ct[k + 2].end, ' ' + fxname + ';'))
            tx.log.append({'rule': 'R13', 'at': f'{tx.rel}:{rl.line_of(tx.src, t.start)}', 'text': t.text + '!{..}',
                           'note': f'effect state `{fxname}` passed to the macro model'})
            continue
        # fxbare=1: also plain calls `NAME(ARGS)` of a free fn (never the `fn NAME(` of a definition)
        if t.kind == 'id' and t.text in fxcalls and ct[k + 1].text == '(' and (ct[k - 1].text in ('.', ':') or (bare and ct[k - 1].text != 'fn')) \
                and not (ct[k - 1].text == '.' and ct[k - 2].kind == 'id' and ct[k - 2].text == fxname):   # the effect state never receives itself
            close = rl.match_close(ct, k + 1)
            empty = close == k + 2
            trailing = ct[close - 1].text == ','
            inserts.append(mk(ct[close].start, (fxarg[t.text] if (empty or trailing) else ', ' + fxarg[t.text])))
            tx.log.append({'rule': 'R13', 'at': f'{tx.rel}:{rl.line_of(tx.src, t.start)}', 'text': t.text + '(..)',
                           'note': f'effect state `{fxname}` passed explicitly'})


def apply_refpat(tx, ct, lo, hi, inserts, mk):
    """R18: `for (&x, y) in E { B }`  ==>  `for (__ref_x, y) in E { let x = *__ref_x; B }` (also `for &x in E`).
    Verus rejects reference patterns ("ref patterns").  Same semantics: `&x` binds a copy of the referent
    (the pattern only type-checks for Copy referents)."""
    for kw, ob in find_loops(tx, lo, hi):
        if ct[kw].text != 'for':
            continue
        j = kw + 1
        while not (ct[j].kind == 'id' and ct[j].text == 'in'):
            j += 1
        names = []
        for k in range(kw + 1, j - 1):
            if (ct[k].kind == 'punct' and ct[k].text == '&' and ct[k + 1].kind == 'id' and ct[k + 1].text != 'mut'
                    and ct[k - 1].text in ('(', ',', 'for') and ct[k + 2].text in (',', ')', 'in')):
                n = ct[k + 1].text
                tx.edit(ct[k].start, ct[k + 1].end, '__ref_' + n, 'R18', f'reference pattern &{n} bound by reference, dereferenced in the body')
                names.append(n)
        if names:
            inserts.append(mk(ct[ob].end, ''.join(f' let {n} = *__ref_{n};' for n in names)))


def apply_pollfn_await(tx, ct, lo, hi, fxname, fxcalls):
    """R30 (`poll_fn(|cx| BODY).await` as one successful poll): with `pollfn=1` (needs `fx=`) the expression becomes
        ({ await_suspend(FX); let mut __cx = await_cx(); let cx = &mut __cx;
           match BODY { Poll::Ready(__v) => __v, Poll::Pending => await_pending_forever() } })
    `std::future::poll_fn(f).await` calls f each time the task is polled and completes with v as soon as f answers Ready(v); between
    two calls the task is suspended.  The rewrite describes a *returning* await: everything before the last call of f -- earlier
    calls that answered Pending, with their effects, and whatever other tasks did meanwhile -- is the ASSUMED stub
    `await_suspend(FX)` (it may change the effect state arbitrarily within its stated invariants); the last call is BODY itself,
    verified as it stands; an answer Pending there means the await has not finished: `await_pending_forever()` never returns
    (`loop {}`), which is partial correctness, not an assumption.  Needed because Verus rejects closures that capture `&mut`
    state, which BODY does once the thread-local is an explicit parameter (R27).  BODY must not contain closure-level
    `return`/`?`.  Also: `.await` directly after a call `NAME(..)` with NAME in fxcalls is dropped -- the callee is an async fn
    of this unit that is itself verified as a blocking fn taking FX."""
    n_done = 0
    k = lo
    while k < hi:
        t = ct[k]
        if (t.kind == 'id' and t.text == 'poll_fn' and ct[k - 1].text != '.' and ct[k + 1].text == '(' and ct[k + 2].text == '|'
                and ct[k + 3].kind == 'id' and ct[k + 4].text == '|'):
            close = rl.match_close(ct, k + 1)
            if not (ct[close + 1].text == '.' and ct[close + 2].kind == 'id' and ct[close + 2].text == 'await'):
                raise SpecError(f'UNSUPPORTED: {tx.rel}: poll_fn(..) is not awaited in place; R30 not applicable')
            depth = 0
            for q in range(k + 5, close):
                if ct[q].text == '|' and ct[q - 1].text in ('(', ',', '=', 'move', '{', ';'):
                    depth += 1
                if depth == 0 and ((ct[q].kind == 'id' and ct[q].text == 'return')
                                   or (ct[q].text == '?' and (ct[q - 1].kind in ('id', 'num') or ct[q - 1].text in (')', ']', '}')))):
                    raise SpecError(f'UNSUPPORTED: {tx.rel}: poll_fn closure contains return/?; R30 not applicable')
            cxn = ct[k + 3].text
            tx.edit(ct[k].start, ct[k + 4].end,
                    f'({{ await_suspend({fxname}); let mut __cx = await_cx(); let {cxn} = &mut __cx; match', 'R30',
                    'poll_fn(|cx| BODY).await read as: suspension (assumed stub), then one poll that answers Ready')
            tx.edit(ct[close].start, ct[close + 2].end, ' { Poll::Ready(__v) => __v, Poll::Pending => await_pending_forever() } })', 'R30',
                    'end of the poll: Ready(v) => v, Pending => keep waiting (never returns)')
            n_done += 1
            k = k + 5; continue
        if (t.kind == 'id' and t.text == 'await' and ct[k - 1].text == '.' and ct[k - 2].text == ')'):
            # `.await` on a call of an fx callee of this unit (verified as a blocking fn): drop it
            op = k - 2; depth = 0
            while op > lo:
                if ct[op].text == ')': depth += 1
                elif ct[op].text == '(':
                    depth -= 1
                    if depth == 0: break
                op -= 1
            if ct[op - 1].kind == 'id' and ct[op - 1].text in fxcalls:
                tx.edit(ct[k - 1].start, ct[k].end, '', 'R30', f'.await on {ct[op - 1].text}(..) dropped: the callee is verified as a blocking fn taking {fxname}')
                n_done += 1
        k += 1
    if n_done == 0:
        raise SpecError(f'LOST-ANCHOR: {tx.rel}: pollfn=1 given but no poll_fn(|cx| ..).await / fx-callee .await found')


def apply_tl_accessor_inline(tx, ct, lo, hi, accessor, fxname):
    """R27 (thread-local accessor made explicit): `ACCESSOR(|x| BODY)` ==> `{ BODY }` when x is the name of the fn's first
    effect-state parameter (`fx=x:T`).  For an accessor of the shape `fn sys<R>(f: impl FnOnce(&mut T) -> R) -> R { TL.with(|c| f(&mut
    *c.borrow_mut()...)) }` the call runs BODY once on the thread-local state and returns its value; with the state passed as
    an explicit `&mut T` parameter the block means the same.  What is dropped: the RefCell borrow and the accessor's own
    panics (no state installed), exactly as with R5.  BODY must not contain `return` / postfix `?` at closure level (they
    would leave the closure, not the fn): such closures have to be lifted (R5) and re-inserted (R16)."""
    # accessor = path (`a::sys`) or a thread-local's own accessor method (`CURRENT.with`: LocalKey::with runs the closure
    # once on the thread's value); fxname may list several effect parameters (`a,b`): the closure parameter must be one of them
    segs = re.split(r'::|\.', accessor)
    seps = re.findall(r'::|\.', accessor)
    fxnames = fxname.split(',')
    n_done = 0
    k = lo
    while k < hi:
        j = k; ok = True
        for si, sname in enumerate(segs):
            if ct[j].kind != 'id' or ct[j].text != sname: ok = False; break
            j += 1
            if si < len(segs) - 1:
                if seps[si] == '::' and ct[j].text == ':' and ct[j + 1].text == ':': j += 2
                elif seps[si] == '.' and ct[j].text == '.': j += 1
                else: ok = False; break
        if ok and ct[k - 1].text not in ('.', ':') and ct[j].text == '(' and ct[j + 1].text == '|' and ct[j + 2].kind == 'id' and ct[j + 3].text == '|':
            if ct[j + 2].text not in fxnames:
                raise SpecError(f'UNSUPPORTED: {tx.rel}: {accessor}(|{ct[j + 2].text}| ..): closure parameter is not the fx parameter `{fxname}`')
            close = rl.match_close(ct, j)
            depth = 0
            for q in range(j + 4, close):
                if ct[q].text == '|' and ct[q - 1].text in ('(', ',', '=', 'move', '{', ';'):
                    depth += 1   # a nested closure starts: its own return/? are not inspected further (conservative: reject below only at depth 0)
                if depth == 0 and ((ct[q].kind == 'id' and ct[q].text == 'return')
                                   or (ct[q].text == '?' and (ct[q - 1].kind in ('id', 'num') or ct[q - 1].text in (')', ']', '}')))):
                    raise SpecError(f'UNSUPPORTED: {tx.rel}: {accessor} closure contains return/?; R27 not applicable (lift it)')
            tx.edit(ct[k].start, ct[j + 3].end, '{', 'R27', f'{accessor}(|{ct[j + 2].text}| BODY) inlined: thread-local state is the explicit parameter `{ct[j + 2].text}`')
            tx.edit(ct[close].start, ct[close].end, '}', 'R27', f'end of inlined {accessor} closure')
            n_done += 1
            k = j + 4; continue
        k += 1
    if n_done == 0:
        # nothing to inline (e.g. the body now delegates to another fx item of the unit): not an error
        tx.log.append({'rule': 'R27', 'at': tx.rel, 'text': '', 'note': f'tlin={accessor}: no {accessor}(|{fxname}| ..) in this fn'})


def apply_tls_inline(tx, ct, lo, hi, fxcalls, inserts, mk):
    """R19 (scoped thread-local made explicit): `World::enter(&W, || BODY)` ==> `{ BODY' }` where, inside BODY,
    every call `.NAME(ARGS)` with NAME in fxcalls gets `&mut W` appended and `World::current(|x| B)` becomes
    `{ let x = W.borrow_mut(); B }`.  World::enter is `CURRENT.set(world, f)`: it installs &W as the scoped thread-local for
    the duration of f() and returns f's result; World::current(g) is `g(&mut CURRENT.borrow_mut())`.  Verus rejects closures
    that capture `&mut` state, and has no thread-locals: callees that reach the world through CURRENT get it as an explicit
    parameter (the same idea as R13).  BODY must not contain `return`/`?` at closure level (they would change meaning)."""
    k = lo
    n_done = 0
    while k < hi:
        if (ct[k].text == 'World' and ct[k + 1].text == ':' and ct[k + 2].text == ':' and ct[k + 3].text == 'enter'
                and ct[k + 4].text == '(' and ct[k + 5].text == '&'):
            close = rl.match_close(ct, k + 4)
            c = k + 6
            while ct[c].text != ',':
                if ct[c].text in rl.OPEN: c = rl.match_close(ct, c)
                c += 1
            W = tx.src[ct[k + 6].start:ct[c - 1].end]
            if not (ct[c + 1].text == '|' and ct[c + 2].text == '|'):
                raise SpecError(f'UNSUPPORTED: {tx.rel}: World::enter argument is not a `|| BODY` closure')
            b0 = c + 3
            for q in range(b0, close):
                # a postfix `?` operator follows an expression; `= ?x` inside a tracing macro is field syntax
                if (ct[q].kind == 'id' and ct[q].text == 'return') or (ct[q].text == '?' and (ct[q - 1].kind in ('id', 'num') or ct[q - 1].text in (')', ']', '}'))):
                    raise SpecError(f'UNSUPPORTED: {tx.rel}: World::enter closure contains return/?; R19 not applicable')
            tx.edit(ct[k].start, ct[b0].start, '{ ', 'R19', f'World::enter(&{W}, || BODY) inlined: scoped thread-local made explicit')
            tx.edit(ct[close].start, ct[close].end, ' }', 'R19', 'end of inlined World::enter scope')
            q = b0
            while q < close:
                t = ct[q]
                if (t.text == 'World' and ct[q + 1].text == ':' and ct[q + 2].text == ':' and ct[q + 3].text == 'current'
                        and ct[q + 4].text == '(' and ct[q + 5].text == '|' and ct[q + 6].kind == 'id' and ct[q + 7].text == '|'):
                    c2 = rl.match_close(ct, q + 4)
                    x = ct[q + 6].text
                    tx.edit(t.start, ct[q + 7].end, f'{{ let {x} = {W}.borrow_mut();', 'R19', f'World::current(|{x}| B) inside the entered scope reads {W}')
                    tx.edit(ct[c2].start, ct[c2].end, ' }', 'R19', 'end of inlined World::current closure')
                    q += 8; continue
                # an entry `recv.name` only matches calls on that receiver identifier
                if (t.kind == 'id' and ct[q + 1].text == '(' and ct[q - 1].text == '.'
                        and (t.text in fxcalls or (ct[q - 2].kind == 'id' and f'{ct[q - 2].text}.{t.text}' in fxcalls))):
                    cl = rl.match_close(ct, q + 1)
                    # no comma needed only if the call has no argument and no earlier rule (R13) already appended one
                    empty = cl == q + 2 and not any(ins[0] == ct[cl].start for ins in inserts)
                    inserts.append(mk(ct[cl].start, (f'&mut {W}' if empty else f', &mut {W}')))
                    tx.log.append({'rule': 'R19', 'at': f'{tx.rel}:{rl.line_of(tx.src, t.start)}', 'text': t.text + '(..)',
                                   'note': f'callee reaches the world through the thread-local: `&mut {W}` passed explicitly'})
                q += 1
            n_done += 1
            k = close + 1; continue
        k += 1
    if n_done == 0:
        raise SpecError(f'LOST-ANCHOR: {tx.rel}: tls= given but no World::enter(&W, || ..) found')


RUST_KW = {'as', 'break', 'const', 'continue', 'crate', 'else', 'enum', 'extern', 'false', 'fn', 'for', 'if', 'impl', 'in', 'let', 'loop',
           'match', 'mod', 'move', 'mut', 'pub', 'ref', 'return', 'self', 'Self', 'static', 'struct', 'super', 'trait', 'true', 'type',
           'unsafe', 'use', 'where', 'while', 'async', 'await', 'dyn'}


def inline_hof(fn_text, spec, rel, log):
    """R28 (higher-order helper inlined at its call sites): `hof=<file>::<callee>` on an @item.  Every call
    `callee(ARG1, .., |p1, ..| BODY)` in the extracted fn whose closure argument is a literal is replaced by the callee's own
    body, taken verbatim from the working tree (beta reduction):
        { let __hof_<x1>: T1 = ARG1; ..;  <callee body with x_i renamed to __hof_<x_i> and every call `f(E1, ..)` of the closure
                                            parameter replaced by `{ let p1 = E1; ..; BODY }`> }
    Needed because the closures capture `&mut` state (Verus: "closures capturing a mutable reference" unsupported).  The
    rewrite keeps the meaning iff neither text contains `return`/`?` (they would leave a different fn), the callee is not
    recursive, and no variable bound in the callee occurs free in BODY (capture); all three are checked, else UNSUPPORTED.
    The loops of the callee become loops of the extracted fn (numbered in textual order for @loop)."""
    cfile, cname = spec.rsplit('::', 1)
    citem, cimp, csrc = find_item(cfile, 'fn', cname)
    ctx = Text(csrc, citem.decl_start, citem.end, cfile)
    cfp = fn_parts(ctx)
    cct = ctx.ct
    # ---- callee parameters
    params = []
    k = cfp['popen'] + 1
    while k < cfp['pclose']:
        j = k; depth = 0
        while j < cfp['pclose'] and not (cct[j].text == ',' and depth == 0):
            if cct[j].kind == 'punct' and (cct[j].text in rl.OPEN or cct[j].text == '<'): depth += 1
            elif cct[j].kind == 'punct' and (cct[j].text in rl.CLOSE or (cct[j].text == '>' and cct[j - 1].text != '-')): depth -= 1
            j += 1
        q = k
        if cct[q].text == 'mut': q += 1
        if not (cct[q].kind == 'id' and cct[q + 1].text == ':'):
            raise SpecError(f'UNSUPPORTED: R28: parameter pattern of {cname} is not `name: T`')
        params.append((cct[q].text, csrc[cct[q + 2].start:cct[j - 1].end]))
        k = j + 1
    fpar = [n for n, ty in params if re.match(r'impl\s+Fn(Mut|Once)?\b', ty)]
    if len(fpar) != 1 or params[-1][0] != fpar[0]:
        raise SpecError(f'UNSUPPORTED: R28: {cname} must take exactly one `impl Fn*` parameter, in last position')
    fname = fpar[0]
    vpars = [n for n, ty in params[:-1]]
    body_toks = cct[cfp['bopen']:cfp['bclose'] + 1]
    if cfp['arrow'] is not None:
        raise SpecError(f'UNSUPPORTED: R28: {cname} returns a value')
    for t in body_toks:
        if (t.kind == 'id' and t.text in ('return', cname)) or t.text == '?':
            raise SpecError(f'UNSUPPORTED: R28: body of {cname} contains return/?/recursion')
    bound = {t.text for i_, t in enumerate(body_toks) if t.kind == 'id' and t.text not in RUST_KW and t.text not in vpars
             and t.text != fname and body_toks[i_ - 1].text != '.'}

    def render_callee(lo, hi, cl_params, cl_body):
        """callee tokens [lo, hi) with parameter renames and the closure applications expanded"""
        out = []; pos = cct[lo].start; i = lo
        while i < hi:
            t = cct[i]
            if t.kind == 'id' and t.text == fname and cct[i + 1].text == '(' and cct[i - 1].text != '.':
                close = rl.match_close(cct, i + 1)
                args = []; a0 = i + 2; d = 0
                for j in range(i + 2, close + 1):
                    if j == close or (cct[j].text == ',' and d == 0):
                        if j > a0: args.append((a0, j))
                        a0 = j + 1
                    elif cct[j].kind == 'punct' and cct[j].text in rl.OPEN: d += 1
                    elif cct[j].kind == 'punct' and cct[j].text in rl.CLOSE: d -= 1
                if len(args) != len(cl_params):
                    raise SpecError(f'UNSUPPORTED: R28: closure arity differs from the call {fname}(..) in {cname}')
                out.append(csrc[pos:t.start])
                out.append('{ ' + ''.join(f'let {p} = {render_callee(a, b, cl_params, cl_body)}; ' for p, (a, b) in zip(cl_params, args)) + cl_body + ' }')
                pos = cct[close].end; i = close + 1; continue
            if t.kind == 'id' and t.text in vpars and cct[i - 1].text != '.':
                out.append(csrc[pos:t.start]); out.append('__hof_' + t.text); pos = t.end
            i += 1
        out.append(csrc[pos:cct[hi - 1].end])
        return ''.join(out)

    # ---- call sites in the extracted fn
    ftx = Text(fn_text, 0, len(fn_text), rel)
    ct = ftx.ct
    edits = []
    for i, t in enumerate(ct):
        if not (t.kind == 'id' and t.text == cname and ct[i + 1].text == '(' and ct[i - 1].text not in ('.', ':', 'fn')):
            continue
        close = rl.match_close(ct, i + 1)
        args = []; a0 = i + 2; d = 0; in_cl = False
        for j in range(i + 2, close + 1):
            if j == close or (ct[j].text == ',' and d == 0):
                if j > a0: args.append((a0, j))
                a0 = j + 1
            elif ct[j].kind == 'punct' and ct[j].text in rl.OPEN: d += 1
            elif ct[j].kind == 'punct' and ct[j].text in rl.CLOSE: d -= 1
            elif ct[j].text == '|' and d == 0 and j == a0:
                # closure header `|p1, p2|`: its commas are not argument separators
                e = j + 1
                while ct[e].text != '|': e += 1
                hdr = (j, e)
                in_cl = True
                break
        if not in_cl or len(args) != len(vpars):
            raise SpecError(f'UNSUPPORTED: R28: call of {cname} in {rel} does not pass a closure literal as last argument')
        j0, e = hdr
        cl_params = []
        q = j0 + 1
        while q < e:
            if not (ct[q].kind == 'id' and ct[q + 1].text in (',', '|')):
                raise SpecError(f'UNSUPPORTED: R28: closure parameters must be plain identifiers')
            cl_params.append(ct[q].text); q += 2
        b1 = close - 1
        if ct[b1].text == ',': b1 -= 1
        cl_body = fn_text[ct[e + 1].start:ct[b1].end]
        for q in range(e + 1, b1 + 1):
            if (ct[q].kind == 'id' and ct[q].text == 'return') or (ct[q].text == '?' and (ct[q - 1].kind in ('id', 'num') or ct[q - 1].text in (')', ']', '}'))):
                raise SpecError(f'UNSUPPORTED: R28: closure passed to {cname} contains return/?')
            if ct[q].kind == 'id' and ct[q].text in bound and ct[q - 1].text != '.' and ct[q].text not in cl_params:
                raise SpecError(f'UNSUPPORTED: R28: `{ct[q].text}` is bound in {cname} and occurs in the closure body (capture)')
        lets = ''.join(f'let __hof_{n}: {ty} = {fn_text[ct[a].start:ct[b - 1].end]}; ' for (n, ty), (a, b) in zip(params[:-1], args))
        repl = '{ ' + lets + render_callee(cfp['bopen'], cfp['bclose'] + 1, cl_params, cl_body) + ' }'
        edits.append((t.start, ct[close].end, repl))
        log.append({'rule': 'R28', 'at': f'{rel}', 'text': fn_text[t.start:ct[close].end][:160],
                    'note': f'call of higher-order helper {cfile}::{cname} replaced by its body (closure applied in place)'})
    if not edits:
        raise SpecError(f'LOST-ANCHOR: {rel}: hof={spec} given but no call `{cname}(.., |..| ..)` found')
    out = []; pos = 0
    for s_, e_, r_ in edits:
        out.append(fn_text[pos:s_]); out.append(r_); pos = e_
    out.append(fn_text[pos:])
    return ''.join(out)


R32_MACROS = {'matches', 'assert', 'assert_eq', 'assert_ne', 'debug_assert', 'debug_assert_eq', 'debug_assert_ne', 'panic', 'unreachable',
              'unimplemented', 'todo', 'format', 'vec', 'trace', 'debug', 'info', 'warn', 'error'}


def mod_prefix(rel, sel):
    """Module part of an item selector (`m::Type::f` -> `m::`), resolved like find_item does: R32 looks a helper up in the module of
    the fn that calls it."""
    scope = load_file(rel)[3]; segs = sel.split('::'); pre = ''
    while len(segs) > 1:
        m = [x for x in scope if x.kind == 'mod' and x.name == segs[0] and not x.cfg_test]
        if not m: break
        scope = m[0].children; pre += segs[0] + '::'; segs = segs[1:]
    return pre


def call_sites(ct, name, form):
    """Token indexes of the calls of `name` in one of three forms: 'free' `name(..)`, 'method' `RECV.name(..)`,
    'assoc' `Type::name(..)` / `Self::name(..)` (shared by R32 and its guard in vp/run.py)."""
    out = []
    for i in range(1, len(ct) - 1):
        if not (ct[i].kind == 'id' and ct[i].text == name and ct[i + 1].text == '('):
            continue
        p = ct[i - 1]
        if p.text == '.':
            f = 'method'
        elif p.text == ':' and i > 1 and ct[i - 2].text == ':':
            f = 'assoc'
        elif p.kind == 'id' and p.text == 'fn':
            continue
        else:
            f = 'free'
        if f == form:
            out.append(i)
    return out


def inline_helper(fn_text, rel, cfile, sel, form, caller_self, base_line, log):
    """R32 (helper inlined at its call sites; automatic, driven by vp/run.py like R31): a change moved lines of a contracted fn
    into a NEW small fn/method of the same source file, which the sidecar does not list, so Verus reports an unknown name.
    Every call  name(A..) | Type::name(A..) | Self::name(A..) | RECV.name(A..)  in the extracted text is replaced by
        ({ let p1: T1 = A1; ..; let __r32: RET = BODY[self := RECV]; __r32 })      (no `let` for an argument that is the parameter's own name)
    with BODY the helper's own body, verbatim from the working tree (beta reduction; the caller keeps its contract, the sidecar
    is not consulted).  Meaning is kept iff: the helper is a plain non-generic, non-async fn whose parameters are `name: T`
    (plus self/&self/&mut self); its body has no `return`, `?`, `.await`, nested fn, recursion, or macro that may hide control flow
    (they would leave a different fn); RECV is a place expression without side effects (identifier / field path), so it may
    be named several times and after the arguments (two-phase borrow order); an argument does not mention an earlier
    parameter's name, and RECV's root is not bound in the helper.  Every condition is checked; else SpecError('R32-REFUSED..')
    and the caller is left exactly as it was.  Returns (new text, degrade notes)."""
    citem, cimp, csrc = find_item(cfile, 'fn', sel)
    cname = citem.name
    ctx = Text(csrc, citem.decl_start, citem.end, cfile)
    cfp = fn_parts(ctx)
    cct = ctx.ct
    where = f'{cfile}:{rl.line_of(csrc, citem.decl_start)}-{rl.line_of(csrc, citem.end)}'

    def refuse(why):
        raise SpecError(f'R32-REFUSED: helper {sel} ({where}): {why}')

    if any(t.kind == 'id' and t.text in ('async', 'unsafe', 'const', 'extern') for t in cct[:cfp['fn']]):
        refuse('async/unsafe/const/extern fn')
    if cct[cfp['fn'] + 2].text == '<' or cfp['where'] is not None or (cimp is not None and cimp.header.strip() != cimp.self_type):
        refuse('generic fn or impl')
    # ---- parameters
    params = []; recv_kind = None
    k = cfp['popen'] + 1
    while k < cfp['pclose']:
        j = k; depth = 0
        while j < cfp['pclose'] and not (cct[j].text == ',' and depth == 0):
            if cct[j].kind == 'punct' and (cct[j].text in rl.OPEN or cct[j].text == '<'): depth += 1
            elif cct[j].kind == 'punct' and (cct[j].text in rl.CLOSE or (cct[j].text == '>' and cct[j - 1].text != '-')): depth -= 1
            j += 1
        ptxt = ' '.join(t.text for t in cct[k:j])
        if not params and recv_kind is None and ptxt in ('self', '& self', '& mut self'):
            recv_kind = {'self': 'value', '& self': 'ref', '& mut self': 'mut'}[ptxt]
        else:
            q = k; mut = ''
            if cct[q].text == 'mut': q += 1; mut = 'mut '
            if not (cct[q].kind == 'id' and cct[q].text not in ('self', '_') and cct[q + 1].text == ':' and j > q + 2):
                refuse(f'parameter `{ptxt}` is not `name: T`')
            if any(t.kind == 'life' or (t.kind == 'id' and t.text in ('impl', 'dyn')) for t in cct[q + 2:j]):
                refuse(f'parameter type of `{cct[q].text}` has a lifetime / impl / dyn')
            params.append((mut + cct[q].text, cct[q].text, (cct[q + 2].start, cct[j - 1].end)))
        k = j + 1
    if (form == 'method') != (recv_kind is not None):
        refuse(f'call form `{form}` does not fit the receiver of the helper')
    ret = None
    if cfp['arrow'] is not None:
        e_idx = cfp['bopen'] - 1
        ret = (cct[cfp['arrow'] + 2].start, cct[e_idx].end)
        if any(t.kind == 'life' or t.text == '!' or (t.kind == 'id' and t.text in ('impl', 'dyn')) for t in cct[cfp['arrow'] + 2:e_idx + 1]):
            refuse('return type has a lifetime / impl / dyn / !')
    # ---- body
    blo, bhi = cfp['bopen'], cfp['bclose']
    notes = []
    for i in range(blo + 1, bhi):
        t = cct[i]
        if t.kind == 'id' and t.text in ('return', 'await', 'async', 'yield', 'fn', 'become'):
            refuse(f'body contains `{t.text}`')
        if t.kind == 'id' and t.text == cname:
            refuse('body mentions its own name (recursion)')
        if t.kind == 'punct' and t.text == '?':
            refuse('body contains `?`')
        if t.kind == 'id' and cct[i + 1].text == '!' and cct[i + 2].text in rl.OPEN and t.text not in R32_MACROS:
            refuse(f'macro `{t.text}!` may hide control flow')
        if t.kind == 'id' and t.text in ('for', 'while', 'loop', 'try_for_each') and not notes:
            notes.append(f'R32 inlined helper {sel} contains a loop: @loop numbering / invariants of the sidecar may not apply')
        if t.text == '|' and (cct[i - 1].text in ('(', ',', '=', '{', ';', '[', 'move')) and not notes:
            notes.append(f'R32 inlined helper {sel} contains a closure: opaque to Verus unless a sidecar annotation happens to fit')
    body_ids = {t.text for i, t in enumerate(cct[blo:bhi + 1]) if t.kind == 'id' and cct[blo + i - 1].text != '.'}
    pnames = [n for _m, n, _t in params]
    if '__r32' in body_ids or '__r32' in pnames:
        refuse('name __r32 in use')
    # free fn / path heads the body refers to must not be captured by a binding of the caller
    heads = {t.text for i, t in enumerate(cct[blo:bhi]) if t.kind == 'id' and t.text not in RUST_KW and not t.text[0].isupper()
             and cct[blo + i - 1].text not in ('.', ':')
             and (cct[blo + i + 1].text == '(' or (cct[blo + i + 1].text == ':' and cct[blo + i + 2].text == ':'))} - set(pnames)

    def ty_text(span, same_self):
        s = csrc[span[0]:span[1]]
        if not same_self and cimp is not None:
            s = re.sub(r'\bSelf\b', cimp.self_type, s)
        return s

    ftx = Text(fn_text, 0, len(fn_text), rel)
    ct = ftx.ct
    same_self = (cimp is None) or (caller_self == cimp.self_type)
    for i, t in enumerate(ct[:-2]):
        if t.kind == 'id' and t.text in heads and i > 1 and ct[i - 1].text != '.' and ct[i + 1].text not in ('(', '!') \
                and not (ct[i + 1].text == ':' and ct[i + 2].text == ':') and not (ct[i - 1].text == ':' and ct[i - 2].text == ':'):
            refuse(f'`{t.text}` names an item in the helper and a variable in the caller (capture)')
    edits = []
    for i in call_sites(ct, cname, form):
        close = rl.match_close(ct, i + 1)
        recv = 'self'
        start = i
        if form == 'method':
            b = i - 2
            if not (ct[b].kind == 'id' and ct[b].text not in RUST_KW - {'self'}):
                refuse('receiver is not a place expression (identifier / field path)')
            while b >= 2 and ct[b - 1].text == '.' and ct[b - 2].kind in ('id', 'num') and ct[b - 2].text not in RUST_KW - {'self'} \
                    and not (ct[b - 2].kind == 'num' and '.' in ct[b - 2].text):
                b -= 2
            if ct[b].kind != 'id' or ct[b - 1].text == '.' or (ct[b - 1].text == ':' and ct[b - 2].text == ':'):
                refuse('receiver is not a place expression (identifier / field path)')
            start = b
            recv = fn_text[ct[b].start:ct[i - 2].end]
            root = ct[b].text
            if root != 'self' and (root in body_ids or root in pnames):
                refuse(f'receiver root `{root}` is bound or used in the helper (capture)')
            if recv_kind == 'mut' and recv != 'self' and any(
                    cct[q].text == 'self' and cct[q + 1].text != '.' for q in range(blo, bhi)):
                refuse('`&mut self` helper uses `self` as a value and the receiver is not `self`')
        elif form == 'assoc':
            b = i - 3
            if not (ct[b].kind == 'id' and ct[b].text in ('Self', cimp.self_type if cimp else '')) or (ct[b - 1].text == ':' and ct[b - 2].text == ':') \
                    or ct[b - 1].text == '>' or (ct[b].text == 'Self' and not same_self):
                refuse('call path is not `Self::name` / `Type::name` of the helper\'s own type')
            start = b
        # arguments
        args = []; a0 = i + 2; d = 0
        for j in range(i + 2, close + 1):
            if j == close or (ct[j].text == ',' and d == 0):
                if j > a0: args.append((a0, j))
                a0 = j + 1
            elif ct[j].kind == 'punct' and ct[j].text in rl.OPEN: d += 1
            elif ct[j].kind == 'punct' and ct[j].text in rl.CLOSE: d -= 1
            elif d == 0 and ct[j].text in ('|', '<') and (ct[j].text == '|' or (ct[j - 1].text == ':' and ct[j - 2].text == ':')):
                refuse('argument with a closure literal / turbofish')
        if len(args) != len(params):
            refuse(f'{len(args)} arguments for {len(params)} parameters')
        # an argument that is the parameter's own name (`world` for `world: &mut World`) needs no binding: the body then names the
        # caller's variable itself (so a hint with `old(world)` that moved along still applies); not for `mut p: T` (a fresh copy)
        ident = [b_ == a + 1 and ct[a].kind == 'id' and ct[a].text == decl for (decl, _n, _ty), (a, b_) in zip(params, args)]
        for n_, (a, b_) in enumerate(args):
            for q in range(a, b_):
                if ct[q].kind == 'id' and ct[q].text in [pn for pn, idt in zip(pnames[:n_], ident) if not idt] and ct[q - 1].text != '.':
                    refuse(f'argument {n_ + 1} mentions `{ct[q].text}`, the name of an earlier parameter (capture)')
        lets = ''.join(f'let {decl}: {ty_text(ty, same_self)} = {fn_text[ct[a].start:ct[b_ - 1].end]}; '
                       for (decl, _n, ty), (a, b_), idt in zip(params, args, ident) if not idt)
        # body, `self` := RECV
        out = []; pos = cct[blo].start
        for q in range(blo, bhi + 1):
            tk = cct[q]
            rep = None
            if tk.kind == 'id' and tk.text == 'self' and recv != 'self':
                rep = recv if (cct[q + 1].text == '.' or recv_kind == 'value') else f'(&{recv})'
            elif tk.kind == 'id' and tk.text == 'Self' and not same_self:
                rep = cimp.self_type
            if rep is not None:
                out.append(csrc[pos:tk.start]); out.append(rep); pos = tk.end
        out.append(csrc[pos:cct[bhi].end])
        body = ''.join(out)
        if ret is not None:
            repl = '({ ' + lets + f'let __r32: {ty_text(ret, same_self)} = ' + body + '; __r32 })'
        else:
            repl = '({ ' + lets + body + ' })'
        edits.append((ct[start].start, ct[close].end, repl))
        log.append({'rule': 'R32', 'at': f'{rel}:{base_line + fn_text.count(chr(10), 0, ct[start].start)}', 'text': fn_text[ct[start].start:ct[close].end][:160],
                    'note': f'call of helper {sel} ({where}), unknown to the sidecar, replaced by its body (arguments let-bound'
                            + (f', self := {recv}' if form == 'method' else '') + ')'})
    if not edits:
        refuse(f'no `{form}` call site in {rel}')
    edits.sort()
    for (s1, e1, _r1), (s2, _e2, _r2) in zip(edits, edits[1:]):
        if s2 < e1:
            refuse('nested calls of the helper')
    out = []; pos = 0
    for s_, e_, r_ in edits:
        out.append(fn_text[pos:s_]); out.append(r_); pos = e_
    out.append(fn_text[pos:])
    return ''.join(out), notes


def label_lines(text, labels, base_line, region):
    """Replace [Cxx.label] markers by comments and record label -> line range within text."""
    out_lines = []
    cur = None
    for off, ln in enumerate(text.split('\n')):
        m = LABEL_RE.search(ln)
        if m and '//' in ln[:m.start()]:
            m = None     # a label mentioned inside a comment is documentation, not an obligation
        if m:
            cur = m.group(1)
            ln = ln[:m.start()] + '/*' + cur + '*/' + ln[m.end():]
            labels.append({'label': cur, 'line0': base_line + off, 'line1': base_line + off, 'region': region,
                           'also': [x for x in m.group(2).split('|') if x]})
        elif cur is not None and ln.strip() and not re.match(r'^\s*(requires|ensures|invariant|invariant_except_break|decreases|recommends|\{|\}|proof\b)', ln):
            labels[-1]['line1'] = base_line + off
        else:
            cur = None
        out_lines.append(ln)
    return '\n'.join(out_lines)


class Gen:
    def __init__(self, unit: Unit):
        self.u = unit
        self.out = []          # list of text chunks
        self.nline = 1
        self.regions = []      # {name, line0, line1, kind, props, src}
        self.labels = []       # {label, line0, line1, region}
        self.dropped = []      # rewrite log
        self.hint_lines = []   # generated line ranges of proof-hint annotations (for the hint-drop retry of vp/run.py)
        self.skip_hints = set()
        self.sources = []      # functions under contract: file:lines sha
        self.degraded = {}         # region -> lost hint anchors (@before/@after): hint skipped, failures there are undecided
        self.inject_false = None   # vacuity self-test: region name whose body gets `assert(false)` at its end
        self.inline = {}           # R32 requests of vp/run.py: sidecar line of the @item -> [(file, helper selector, call form)]
        self.r32_refused = []

    def apply_r32(self, text, it, imp, base_line, log, notes):
        """R32: the requested helpers, in request order (a later one may be called from the body of an earlier one).  A refused
        request leaves the text as it is."""
        for (cfile, sel, form) in self.inline.get(it.line, []):
            try:
                text, nn = inline_helper(text, it.file, cfile, sel, form, imp.self_type if imp else '', base_line, log)
                notes += nn
            except SpecError as e:
                self.r32_refused.append(str(e))
            except Exception as e:      # text the rule cannot parse: refused as well
                self.r32_refused.append(f'R32-REFUSED: helper {sel}: {type(e).__name__}: {e}')
        return text

    def emit(self, text):
        self.out.append(text)
        self.nline += text.count('\n')

    def emit_spec(self, text, line):
        # split into regions per fn for error attribution
        text = text.rstrip('\n') + '\n'
        base = self.nline
        # labels
        tmp_labels = []
        text2 = label_lines(text, tmp_labels, base, None)
        # regions by fn
        lines = text2.split('\n')
        starts = []
        cur_impl = ''
        for off, ln in enumerate(lines):
            mi = re.match(r'^impl\b(?:<[^>]*>)?\s+(?:.*\bfor\s+)?(\w+)', ln)
            if mi:
                cur_impl = mi.group(1)
            elif ln.startswith('}'):
                cur_impl = ''
            m = re.match(r'^\s*(?:pub\s+)?(?:(?:open|closed|uninterp|broadcast)\s+)*(?:(proof|spec|exec)\s+)?fn\s+(\w+)', ln)
            if m:
                mode = m.group(1) or 'exec'
                # exec stubs inside `impl T { .. }` are named T::f (several stub types may each have a `new`)
                fname = f'{cur_impl}::{m.group(2)}' if (cur_impl and mode == 'exec') else m.group(2)
                starts.append((off, fname, mode))
        for idx, (off, name, mode) in enumerate(starts):
            end = (starts[idx + 1][0] - 1) if idx + 1 < len(starts) else len(lines) - 1
            rname = f'{self.u.name}.spec.{name}'
            self.regions.append({'name': rname, 'line0': base + off, 'line1': base + end, 'kind': 'spec-' + mode,
                                 'props': [], 'fn': name})
            for l in tmp_labels:
                if base + off <= l['line0'] <= base + end:
                    l['region'] = rname
        self.labels += tmp_labels
        self.emit(text2)

    def emit_item(self, it: ItemSpec):
        u = self.u
        if it.kind == 'lift':
            return self.emit_lift(it)
        item, imp, src = find_item(it.file, it.kind, it.sel)
        tx = Text(src, item.start, item.end, it.file)
        hof_log = []
        r32_notes = []
        src_orig, l0_orig, l1_orig = src, rl.line_of(src, item.decl_start), rl.line_of(src, item.end)
        if it.kind == 'fn' and it.opts.get('hof'):
            # R28: the fn text with the calls of a higher-order helper replaced by the helper's body; every later step
            # (annotations, @loop numbering) works on this text.  Line numbers in the rewrite log then refer to it.
            src = inline_hof(src[item.start:item.end], it.opts['hof'], it.file, hof_log)
        if it.kind == 'fn' and self.inline.get(it.line):
            # R32: calls of same-file helpers the sidecar does not know replaced by the helpers' bodies (same mechanics as R28)
            r32_log = []
            new = self.apply_r32(src if hof_log else src[item.start:item.end], it, imp, rl.line_of(src_orig, item.start), r32_log, r32_notes)
            if r32_log:
                src = new
                hof_log = hof_log + r32_log
        if hof_log:
            tx = Text(src, 0, len(src), it.file)
            tx.log += hof_log
        strip_common(tx, extra_keep=tuple(it.opts.get('keep', '').split(',')), drop_derive=tuple(it.opts.get('noderive', '').split(',')),
                     keep_vis=(it.opts.get('vis') == 'keep'))
        # per-item renames: `ren=Old:New[,Old2:New2]` on the @item line (R7; for names that mean different
        # things in different source files, e.g. rt::Config vs config::Config both written `Config`)
        # (the separator is a single `:`, so that Old may be a path: `ren=Self::Item:SentRef<'a>`)
        item_ren = [tuple(re.split(r'(?<!:):(?!:)', x, maxsplit=1)) for x in it.opts.get('ren', '').split(',') if re.search(r'(?<!:):(?!:)', x)]
        apply_renames(tx, u.renames + item_ren)
        l0, l1 = rl.line_of(src, item.decl_start), rl.line_of(src, item.end)
        sha = hashlib.sha256(src[item.start:item.end].encode()).hexdigest()[:16]
        if hof_log:
            l0, l1 = l0_orig, l1_orig
            sha = hashlib.sha256(src.encode()).hexdigest()[:16]     # covers the inlined helper text too
        name = it.as_name or item.name
        if it.as_name:
            # rename the item's own name at its definition
            for k, t in enumerate(tx.ct):
                if t.kind == 'id' and t.text == it.kind and tx.ct[k + 1].text == item.name:
                    tx.edit(tx.ct[k + 1].start, tx.ct[k + 1].end, it.as_name, 'R7', f'item renamed {item.name} => {it.as_name}')
                    break
        header = f'// @src {it.file}:{l0}-{l1} sha256={sha} {it.kind} {it.sel}\n'
        if it.kind != 'fn':
            for a in it.anns:
                if a.kind == 'drop':
                    self.apply_drop(tx, a, 0, len(tx.ct))
            region = f'{u.name}.{name}'
            self.emit(header)
            base = self.nline
            if imp is not None:
                self.emit(f'impl {imp.header} {{\n')
            text = tx.render().strip('\n') + '\n'
            self.emit(text)
            if imp is not None:
                self.emit('}\n')
            self.regions.append({'name': region, 'line0': base, 'line1': self.nline - 1, 'kind': it.kind,
                                 'props': it.props, 'src': f'{it.file}:{l0}-{l1}', 'sha': sha})
            self.dropped += tx.log
            return
        # ---- fn
        fp = fn_parts(tx)
        ct = tx.ct
        tyname = imp.self_type if imp else ''
        imp_header = imp.header if imp else ''
        if imp and it.opts.get('self'):
            imp_header = re.sub(r'\b%s\b' % re.escape(imp.self_type), it.opts['self'], imp_header)
            tyname = it.opts['self']
            tx.log.append({'rule': 'R7', 'at': f'{it.file}:{rl.line_of(src, imp.decl_start)}', 'text': imp.header, 'note': f'impl self type renamed to {tyname}'})
        if imp and imp.trait_name and it.opts.get('trait'):
            # trait=NAME: the impl header names another contract trait (a source trait with several methods is split into one
            # contract trait per method in @spec, because every extracted method gets its own `impl` block)
            imp_header = re.sub(r'\b%s\b' % re.escape(imp.trait_name), it.opts['trait'], imp_header, count=1)
            tx.log.append({'rule': 'R7', 'at': f'{it.file}:{rl.line_of(src, imp.decl_start)}', 'text': imp.header, 'note': f'impl trait renamed to {it.opts["trait"]}'})
        fkey = f'{tyname}::{item.name}' if imp else item.name
        if it.as_name:
            fkey = it.as_name
        if it.opts.get('key'):
            fkey = it.opts['key']     # obligation/region name only (several trait impls whose self types share a last token)
        region = f'{u.name}.{fkey}'
        for n_ in r32_notes:
            self.degraded.setdefault(region, []).append(n_)
        pending_inserts = []   # (byte_pos, text, tag)
        hoisted = []
        split_anns = []
        # R18 first: its `let x = *__ref_x;` must precede annotation text anchored at the same loop-body start
        apply_refpat(tx, ct, fp['bopen'] + 1, fp['bclose'], pending_inserts, lambda pos, text: (pos, text, 'R18'))
        # R25 (`*` as loop number): `@loop * ..`, `@loophead *`, `@loopend *`, `@tryforeach * ..` apply to EVERY loop of the fn
        # (`@loop * kw=for`: every `for` loop) / every `.try_for_each(closure)` call -- zero or more, so they are never lost
        # anchors.  For functions in which every iteration construct has to maintain the same invariant, whatever form the
        # iteration takes.  `{n}` in the text becomes L<k> (k-th loop) / T<k> (k-th try_for_each), for unique labels.
        if any(a.arg == '*' and a.kind in ('loop', 'loophead', 'loopend', 'tryforeach') for a in it.anns):
            import dataclasses
            n_try = len([k for k in range(fp['bopen'] + 1, fp['bclose'])
                         if ct[k].kind == 'id' and ct[k].text == 'try_for_each' and ct[k - 1].text == '.' and ct[k + 1].text == '('])
            all_loops = find_loops(tx, fp['bopen'] + 1, fp['bclose'])
            expanded = []
            for a in it.anns:
                if a.arg == '*' and a.kind == 'tryforeach':
                    expanded += [dataclasses.replace(a, arg=str(n), text=a.text.replace('{n}', f'T{n}')) for n in range(1, n_try + 1)]
                elif a.arg == '*' and a.kind in ('loop', 'loophead', 'loopend'):
                    for n, (kw_, ob_) in enumerate(all_loops, 1):
                        if 'kw' in a.opts and ct[kw_].text != a.opts['kw']:
                            continue
                        expanded.append(dataclasses.replace(a, arg=str(n), text=a.text.replace('{n}', f'L{n}')))
                else:
                    expanded.append(a)
            it = dataclasses.replace(it, anns=expanded)
        for a in it.anns:
            if a.kind in HINT_KINDS and (region, a.line) in getattr(self, 'skip_hints', set()):
                # the hint text does not compile against the changed code (it names a local that is gone): it is dropped and
                # the fn degraded -- its failures are undecided, every other fn of the unit is still decided (driven by vp/run.py)
                self.degraded.setdefault(region, []).append(f'{a.kind} hint of sidecar line {a.line} dropped: it does not compile against this code')
                continue
            if a.kind == 'ret':
                if fp['arrow'] is None:
                    raise SpecError(f'LOST-ANCHOR: {region}: @ret but fn has no return type')
                s = ct[fp['arrow'] + 2].start
                e_idx = (fp['where'] if fp['where'] is not None else fp['bopen']) - 1
                e = ct[e_idx].end
                pending_inserts.append((s, f'({a.arg}: ', 'ret'))
                pending_inserts.append((e, ')', 'ret'))
            elif a.kind == 'sig':
                pos = ct[fp['bopen']].start
                pending_inserts.append((pos, '\n' + a.text.rstrip() + '\n', 'sig'))
            elif a.kind == 'loop':
                loops = find_loops(tx, fp['bopen'] + 1, fp['bclose'])
                n = int(a.arg)
                if n < 1 or n > len(loops):
                    # loop invariants / loop hints are proof hints: a vanished loop degrades the fn (its failures become
                    # undecided) instead of aborting the whole unit, exactly like a lost @before/@after anchor
                    self.degraded.setdefault(region, []).append(f'{a.kind} {n} not found ({len(loops)} loops)')
                    continue
                kw, ob = loops[n - 1]
                if 'kw' in a.opts and ct[kw].text != a.opts['kw']:
                    raise SpecError(f'LOST-ANCHOR: {region}: loop {n} is `{ct[kw].text}`, expected `{a.opts["kw"]}`')
                if a.opts.get('desugar') == 'index':
                    # R8: `for PAT in &mut EXPR { BODY }` (EXPR a VecDeque/Vec place)  ==>
                    #     { let mut __i: usize = 0; while __i < EXPR.len() INV { let PAT = &mut EXPR[__i]; BODY __i += 1; } }
                    # IterMut yields &mut to elements 0..len in index order, each once; the length cannot change
                    # inside the body because the collection is mutably borrowed by the iterator.
                    j = kw + 1
                    while not (ct[j].kind == 'id' and ct[j].text == 'in'):
                        if ct[j].text in ('(', '['): j = rl.match_close(ct, j)
                        j += 1
                    pat = src[ct[kw + 1].start:ct[j - 1].end]
                    if not (ct[j + 1].text == '&' and ct[j + 2].text == 'mut'):
                        raise SpecError(f'LOST-ANCHOR: {region}: loop {n} is not `for PAT in &mut EXPR`')
                    expr = src[ct[j + 3].start:ct[ob - 1].end]
                    iv = a.opts.get('var', '__i')
                    tx.edit(ct[kw].start, ct[ob].start,
                            f'{{ let mut {iv}: usize = 0; while {iv} < {expr}.len()', 'R8', 'for-in-&mut desugared to index loop')
                    pending_inserts.append((ct[ob].start, '\n' + a.text.rstrip() + '\n', f'hint:{a.line}'))
                    # the counter is advanced *before* BODY so that `continue` in BODY keeps its meaning
                    pending_inserts.append((ct[ob].end, f' let {pat} = &mut {expr}[{iv}]; {iv} += 1;', 'R8'))
                    pending_inserts.append((ct[rl.match_close(ct, ob)].end, ' }', 'R8'))
                    continue
                if a.opts.get('desugar') == 'map_iter_mut':
                    # R10 (pair form): `for PAT in &mut EXPR { BODY }` (EXPR an IndexMap place)  ==>
                    #     { let mut __i: usize = 0; while __i < EXPR.len() INV { let PAT = EXPR.get_index_mut(__i).unwrap(); __i += 1; BODY } }
                    j = kw + 1
                    while not (ct[j].kind == 'id' and ct[j].text == 'in'):
                        if ct[j].text in ('(', '['): j = rl.match_close(ct, j)
                        j += 1
                    pat = src[ct[kw + 1].start:ct[j - 1].end]
                    if ct[ob - 1].text == ')' and ct[ob - 2].text == '(' and ct[ob - 3].text == 'iter_mut' and ct[ob - 4].text == '.':
                        # `for PAT in EXPR.iter_mut()`: the same iterator as `&mut EXPR` (IntoIterator for &mut IndexMap is iter_mut)
                        expr = src[ct[j + 1].start:ct[ob - 5].end]
                    elif ct[j + 1].text == '&' and ct[j + 2].text == 'mut':
                        expr = src[ct[j + 3].start:ct[ob - 1].end]
                    else:
                        raise SpecError(f'LOST-ANCHOR: {region}: loop {n} is not `for PAT in &mut EXPR` / `for PAT in EXPR.iter_mut()`')
                    iv = a.opts.get('var', '__i')
                    tx.edit(ct[kw].start, ct[ob].start,
                            f'{{ let mut {iv}: usize = 0; while {iv} < {expr}.len()', 'R10', 'for-in-&mut-IndexMap desugared to index loop')
                    pending_inserts.append((ct[ob].start, '\n' + a.text.rstrip() + '\n', f'hint:{a.line}'))
                    pending_inserts.append((ct[ob].end, f' let {pat} = {expr}.get_index_mut({iv}).unwrap(); {iv} += 1;', 'R10'))
                    pending_inserts.append((ct[rl.match_close(ct, ob)].end, ' }', 'R10'))
                    continue
                if a.opts.get('desugar') == 'values_mut':
                    # R10: `for PAT in EXPR.values_mut() { BODY }` (EXPR an IndexMap place)  ==>
                    #     { let mut __i: usize = 0; while __i < EXPR.len() INV { let PAT = EXPR.get_index_mut(__i).unwrap().1; __i += 1; BODY } }
                    # ValuesMut yields `&mut` to the values of entries 0..len in index order, each once; the map's
                    # length/keys cannot change inside the body because the map is mutably borrowed by the iterator.
                    # The counter is advanced *before* BODY so that `continue` in BODY keeps its meaning.
                    j = kw + 1
                    while not (ct[j].kind == 'id' and ct[j].text == 'in'):
                        if ct[j].text in ('(', '['): j = rl.match_close(ct, j)
                        j += 1
                    pat = src[ct[kw + 1].start:ct[j - 1].end]
                    if not (ct[ob - 1].text == ')' and ct[ob - 2].text == '(' and ct[ob - 3].text == 'values_mut' and ct[ob - 4].text == '.'):
                        raise SpecError(f'LOST-ANCHOR: {region}: loop {n} is not `for PAT in EXPR.values_mut()`')
                    expr = src[ct[j + 1].start:ct[ob - 5].end]
                    iv = a.opts.get('var', '__i')
                    tx.edit(ct[kw].start, ct[ob].start,
                            f'{{ let mut {iv}: usize = 0; while {iv} < {expr}.len()', 'R10', 'for-in-values_mut desugared to index loop')
                    pending_inserts.append((ct[ob].start, '\n' + a.text.rstrip() + '\n', f'hint:{a.line}'))
                    pending_inserts.append((ct[ob].end, f' let {pat} = {expr}.get_index_mut({iv}).unwrap().1; {iv} += 1;', 'R10'))
                    pending_inserts.append((ct[rl.match_close(ct, ob)].end, ' }', 'R10'))
                    continue
                if a.opts.get('desugar') == 'next':
                    # R12: `for PAT in EXPR { BODY }` (EXPR's type is itself an Iterator, e.g. a Range)  ==>
                    #     { let mut __it = EXPR; loop INV { match __it.next() { None => break, Some(PAT) => { BODY } } } }
                    # This is the Rust Reference's own desugaring of `for` (IntoIterator::into_iter is the identity
                    # on an Iterator); `continue`/`break`/`return` in BODY keep their meaning.  Needed because Verus
                    # rejects `continue` inside `for` ("for-loops do not yet support continue").
                    if ct[kw].text != 'for':
                        raise SpecError(f'LOST-ANCHOR: {region}: loop {n} is `{ct[kw].text}`, desugar=next needs `for`')
                    j = kw + 1
                    while not (ct[j].kind == 'id' and ct[j].text == 'in'):
                        if ct[j].text in ('(', '['): j = rl.match_close(ct, j)
                        j += 1
                    pat = src[ct[kw + 1].start:ct[j - 1].end]
                    expr = src[ct[j + 1].start:ct[ob - 1].end]
                    if a.opts.get('into_iter'):
                        # EXPR is an IntoIterator that is not itself an Iterator (e.g. a Vec): the Reference's desugaring
                        # calls IntoIterator::into_iter(EXPR) first
                        expr = f'({expr}).into_iter()'
                    iv = a.opts.get('var', '__it')
                    close = rl.match_close(ct, ob)
                    tx.edit(ct[kw].start, ct[ob].start, f'{{ let mut {iv} = {expr}; loop', 'R12', 'for desugared to loop/match next()')
                    pending_inserts.append((ct[ob].start, '\n' + a.text.rstrip() + '\n', f'hint:{a.line}'))
                    pending_inserts.append((ct[ob].end, f' match {iv}.next() {{ None => break, Some({pat}) => {{', 'R12'))
                    pending_inserts.append((ct[close].start, ' } }', 'R12'))
                    pending_inserts.append((ct[close].end, ' }', 'R12'))
                    continue
                if 'binder' in a.opts:
                    # for PAT in EXPR  ->  for PAT in binder: EXPR
                    j = kw + 1
                    while not (ct[j].kind == 'id' and ct[j].text == 'in'):
                        if ct[j].text in ('(', '['): j = rl.match_close(ct, j)
                        j += 1
                    pending_inserts.append((ct[j].end, f' {a.opts["binder"]}:', 'binder'))
                pending_inserts.append((ct[ob].start, '\n' + a.text.rstrip() + '\n', f'hint:{a.line}'))
            elif a.kind == 'loophead':
                # text inserted at the start of loop n's body (ghost snapshots, `broadcast use`, proof hints that must hold
                # on every path incl. `continue`/`break`).  With desugar=next put @loophead BEFORE the @loop line in the
                # sidecar so that it lands in front of the generated `match __it.next()`.
                loops = find_loops(tx, fp['bopen'] + 1, fp['bclose'])
                n = int(a.arg)
                if n < 1 or n > len(loops):
                    # loop invariants / loop hints are proof hints: a vanished loop degrades the fn (its failures become
                    # undecided) instead of aborting the whole unit, exactly like a lost @before/@after anchor
                    self.degraded.setdefault(region, []).append(f'{a.kind} {n} not found ({len(loops)} loops)')
                    continue
                kw, ob = loops[n - 1]
                pending_inserts.append((ct[ob].end, '\n' + a.text.rstrip() + '\n', f'hint:{a.line}'))
            elif a.kind == 'loopafter':
                # text inserted right AFTER loop n (behind its closing brace): proof hints that use the loop's exit state and must
                # not be anchored at whatever statement happens to follow the loop (that statement may be the subject of a clause).
                # With a desugar= option put @loopafter after the @loop line so that it lands behind the desugaring's own `}`.
                loops = find_loops(tx, fp['bopen'] + 1, fp['bclose'])
                n = int(a.arg)
                if n < 1 or n > len(loops):
                    self.degraded.setdefault(region, []).append(f'{a.kind} {n} not found ({len(loops)} loops)')
                    continue
                kw, ob = loops[n - 1]
                pending_inserts.append((ct[rl.match_close(ct, ob)].end, '\n' + a.text.rstrip() + '\n', f'hint:{a.line}'))
            elif a.kind == 'loopend':
                loops = find_loops(tx, fp['bopen'] + 1, fp['bclose'])
                n = int(a.arg)
                if n < 1 or n > len(loops):
                    # loop invariants / loop hints are proof hints: a vanished loop degrades the fn (its failures become
                    # undecided) instead of aborting the whole unit, exactly like a lost @before/@after anchor
                    self.degraded.setdefault(region, []).append(f'{a.kind} {n} not found ({len(loops)} loops)')
                    continue
                kw, ob = loops[n - 1]
                pending_inserts.append((ct[rl.match_close(ct, ob)].start, '\n' + a.text.rstrip() + '\n', f'hint:{a.line}'))
            elif a.kind == 'tryforeach':
                # R17: `RECV.try_for_each(|PAT| BODY)` (closure result type Result<(), E>)  ==>
                #     { let mut __r = Ok(()); for PAT in [binder:] RECV INV { [HINTS] match (BODY) { Ok(()) => {}, Err(__e) => { __r = Err(__e); break; } } } __r }
                # This is std's definition of Iterator::try_for_each for R = Result<(), E>: the closure is called on the
                # items in order, the first Err stops the iteration and is returned, else Ok(()).  Needed because the
                # closure mutates captured state (`world`), which Verus closures cannot do.
                n = int(a.arg)
                hits = [k for k in range(fp['bopen'] + 1, fp['bclose'])
                        if ct[k].kind == 'id' and ct[k].text == 'try_for_each' and ct[k - 1].text == '.' and ct[k + 1].text == '(']
                if n < 1 or n > len(hits):
                    raise SpecError(f'LOST-ANCHOR: {region}: try_for_each {n} not found ({len(hits)} calls)')
                k = hits[n - 1]
                popen = k + 1
                pclose = rl.match_close(ct, popen)
                if ct[popen + 1].text != '|':
                    raise SpecError(f'LOST-ANCHOR: {region}: try_for_each {n}: argument is not a closure literal')
                j = popen + 2
                while ct[j].text != '|': j += 1
                pat = src[ct[popen + 2].start:ct[j - 1].end]
                if ct[pclose - 1].text == ',':
                    raise SpecError(f'LOST-ANCHOR: {region}: try_for_each {n}: trailing comma in argument list')
                # receiver start: walk back over the postfix chain to the nearest expression boundary at depth 0
                opens = {}
                stack = []
                for q in range(fp['bopen'], fp['bclose'] + 1):
                    if ct[q].kind == 'punct' and ct[q].text in ('(', '[', '{'): stack.append(q)
                    elif ct[q].kind == 'punct' and ct[q].text in (')', ']', '}'):
                        if stack: opens[q] = stack.pop()
                b = k - 2
                while True:
                    tb = ct[b]
                    if tb.kind == 'punct' and tb.text in (')', ']', '}'):
                        b = opens[b] - 1; continue
                    if (tb.kind == 'punct' and tb.text in (';', '{', '(', '[', ',', '=')) or (tb.kind == 'id' and tb.text in ('return', 'in', 'break')):
                        break
                    if tb.kind == 'punct' and tb.text == '>' and ct[b - 1].text == '=' and ct[b - 1].end == tb.start:
                        break
                    b -= 1
                rstart = b + 1
                binder = (a.opts['binder'] + ': ') if 'binder' in a.opts else ''
                pending_inserts.append((ct[rstart].start, f'{{ let mut __r = Ok(()); for {pat} in {binder}', 'R17'))
                tx.edit(ct[k - 1].start, ct[j].end, '', 'R17', 'try_for_each(|PAT| BODY) desugared to for/match/break (std definition for Result<(), E>)')
                inv, _, hints = a.text.partition('--body--')   # optional proof hints for the start of the loop body
                pending_inserts.append((ct[j].end, '\n' + inv.rstrip() + '\n{ ' + hints.strip() + ' match (', 'loop'))
                tx.edit(ct[pclose].start, ct[pclose].end, ') { Ok(()) => {}, Err(__e) => { __r = Err(__e); break; } } } __r }', 'R17', 'end of desugared try_for_each')
            elif a.kind in ('before', 'after'):
                body_s, body_e = ct[fp['bopen']].end, ct[fp['bclose']].start
                body = src[body_s:body_e]
                cnt = body.count(a.arg)
                if cnt != 1:
                    # a lost *hint* anchor degrades the proof instead of aborting the unit: the hint is skipped, the
                    # function is still verified; failures inside a degraded function are reported as undecided
                    self.degraded.setdefault(region, []).append(f'{a.kind} <<{a.arg}>> occurs {cnt} times')
                    continue
                pos = body_s + body.index(a.arg)
                if a.kind == 'after':
                    pos += len(a.arg)
                pending_inserts.append((pos, '\n' + a.text.rstrip() + '\n', f'hint:{a.line}'))
            elif a.kind == 'inarm':
                # `@inarm <<text at the start of an arm's expression>>`: hint text for an expression-bodied match arm `P => E,`,
                # where no statement position exists: `P => { TEXT E },` (R3; a block around an expression means the same).
                # E ends at the first `,` at nesting depth 0 or at the `}` that closes the match.  A lost anchor degrades.
                body_s, body_e = ct[fp['bopen']].end, ct[fp['bclose']].start
                body = src[body_s:body_e]
                if body.count(a.arg) != 1:
                    self.degraded.setdefault(region, []).append(f'inarm <<{a.arg}>> occurs {body.count(a.arg)} times')
                    continue
                pos = body_s + body.index(a.arg)
                q = next(i_ for i_, t_ in enumerate(ct) if t_.start >= pos)
                if not (ct[q - 1].text == '>' and ct[q - 2].text == '='):
                    raise SpecError(f'LOST-ANCHOR: {region}: @inarm <<{a.arg}>> does not start the expression of a match arm')
                e_ = q
                while True:
                    if ct[e_].kind == 'punct' and ct[e_].text in rl.OPEN: e_ = rl.match_close(ct, e_) + 1; continue
                    if ct[e_].kind == 'punct' and ct[e_].text in (',', '}'): break
                    e_ += 1
                pending_inserts.append((ct[q].start, '{\n' + a.text.rstrip() + '\n', f'hint:{a.line}'))
                pending_inserts.append((ct[e_ - 1].end, ' }', 'inarm'))
            elif a.kind == 'tail':
                pending_inserts.append((ct[fp['bclose']].start, '\n' + a.text.rstrip() + '\n', f'hint:{a.line}'))
            elif a.kind == 'head':
                pending_inserts.append((ct[fp['bopen']].end, '\n' + a.text.rstrip() + '\n', f'hint:{a.line}'))
            elif a.kind == 'closure':
                body_s, body_e = ct[fp['bopen']].end, ct[fp['bclose']].start
                body = src[body_s:body_e]
                cnt = body.count(a.arg)
                if cnt == 0 and a.opts.get('optional'):
                    # the closure is verified as it stands (un-annotated = opaque to its caller); a failure in this fn
                    # may then be the missing annotation, not the code: degrade it to undecided, keep the rest of the unit
                    self.degraded.setdefault(region, []).append(f'closure <<{a.arg}>> absent')
                    continue
                nth = int(a.opts.get('nth', '0'))
                if (nth == 0 and cnt != 1) or nth > cnt:
                    if a.opts.get('optional'):
                        # ambiguous now (the change added a second closure with the same header): the annotation is not applied,
                        # the fn is degraded like for an absent optional anchor
                        self.degraded.setdefault(region, []).append(f'closure <<{a.arg}>> occurs {cnt} times')
                        continue
                    raise SpecError(f'LOST-ANCHOR: {region}: closure header <<{a.arg}>> occurs {cnt} times')
                # the anchor may carry a disambiguating prefix (`.ok_or_else(||`), which the replacement must repeat verbatim
                mpre = re.match(r'^(.*?)((?:move\s+)?\|[^|]*\|)$', a.arg.strip(), flags=re.S)
                if not mpre or not a.arg2.strip().startswith(mpre.group(1)) or not re.match(r'^(move\s+)?\|', a.arg2.strip()[len(mpre.group(1)):]):
                    raise SpecError(f'{region}: @closure must rewrite a closure header only')
                if a.text and not re.match(r'^let [^;]*;$', a.text.strip()):
                    raise SpecError(f'{region}: @closure third part must be a single `let PAT = x;`')
                off = -1
                for _ in range(max(nth, 1)):
                    off = body.index(a.arg, off + 1)
                pos = body_s + off
                tx.edit(pos, pos + len(a.arg), a.arg2, 'R3', 'closure header annotated')
                cb = closure_braces(tx, pos + len(a.arg))
                if a.text:
                    # R15: closure parameter pattern moved into the body
                    if cb:
                        cb[0] = (cb[0][0], '{ ' + a.text.strip() + ' ')
                    else:
                        kb = next(i_ for i_, t_ in enumerate(ct) if t_.start >= pos + len(a.arg))
                        cb = [(ct[kb].end, ' ' + a.text.strip() + ' ')]
                    tx.log.append({'rule': 'R15', 'at': f'{it.file}:{rl.line_of(src, pos)}', 'text': a.arg, 'note': f'closure parameter pattern moved into `{a.text.strip()}`'})
                for (bp, btxt) in cb:
                    pending_inserts.append((bp, btxt, 'closure-brace'))
            elif a.kind == 'drop':
                self.apply_drop(tx, a, fp['bopen'], fp['bclose'])
            elif a.kind == 'attr':
                q = fp['fn']
                while q > 0 and ct[q - 1].kind == 'id' and ct[q - 1].text in ('async', 'const', 'unsafe'):
                    q -= 1
                pending_inserts.append((ct[q].start, a.arg + '\n    ', 'attr'))
            elif a.kind == 'dropstmt':
                self.apply_dropstmt(tx, a, region)
            elif a.kind == 'idiom':
                self.apply_idiom(tx, a, region)
            elif a.kind == 'hoist':
                # R20: Verus rejects items declared inside a fn body ("internal item statements").  A fn-local enum/struct
                # that captures nothing (items cannot capture) means the same at module level; only its scope widens.
                hit = [j for j in range(fp['bopen'], fp['bclose'])
                       if ct[j].kind == 'id' and ct[j].text == a.arg and ct[j + 1].text == a.arg2]
                if len(hit) != 1:
                    raise SpecError(f'LOST-ANCHOR: {region}: @hoist <<{a.arg} {a.arg2}>> found {len(hit)} times')
                j = hit[0]; ob_ = j + 2
                while ct[ob_].text != '{': ob_ += 1
                cb_ = rl.match_close(ct, ob_)
                hoisted.append(src[ct[j].start:ct[cb_].end])
                tx.edit(ct[j].start, ct[cb_].end, '', 'R20', f'fn-local item `{a.arg} {a.arg2}` hoisted in front of the fn')
            elif a.kind == 'relift':
                self.apply_relift(tx, a, region)
            elif a.kind == 'split_or_arm':
                split_anns.append(a)
        auto_closure_patterns(tx, ct, fp['bopen'] + 1, fp['bclose'], lambda pos, text: pending_inserts.append((pos, text, 'R15a')))
        loop_values(tx, ct, fp['bopen'] + 1, fp['bclose'], it.opts.get('loopval', '').split(','), region)
        if self.inject_false == region:
            # vacuity self-test: `{ BODY }` -> `{ let __vac = { BODY }; proof { assert(false); } __vac }` (works for tail expressions too)
            pending_inserts.append((ct[fp['bopen']].end, ' proof { assert(false); } let __vac = {', 'selftest'))
            pending_inserts.append((ct[fp['bclose']].start, '\n    }; proof { assert(false); } __vac // vacuity self-test\n', 'selftest'))
        body_hi = fp['bclose']
        if it.opts.get('prefix'):
            # R6 async prefix: keep the body up to (excluding) the top-level statement that contains the first `.await`.
            # The cut is placed after the last top-level `;` before that `.await`.  The dropped tail is NOT verified.
            # A suspension point is `.await` or a `select!`/`join!` macro invocation (they await inside).
            aw = next((k for k in range(fp['bopen'], fp['bclose'])
                       if (ct[k].kind == 'id' and ct[k].text == 'await' and ct[k - 1].text == '.')
                       or (ct[k].kind == 'id' and ct[k].text in ('select', 'join', 'try_join') and ct[k + 1].text == '!')), None)
            if aw is None:
                # no suspension point at all: the body is synchronous and is verified as a whole (never less text than before)
                tx.log.append({'rule': 'R6', 'at': f'{it.file}:{l0}', 'text': item.name,
                               'note': 'prefix=1 but the body has no suspension point: whole body extracted and verified'})
            else:
                depth = 0; cut = fp['bopen'] + 1
                for k in range(fp['bopen'] + 1, aw):
                    tk = ct[k]
                    if tk.kind == 'punct' and tk.text in rl.OPEN: depth += 1
                    elif tk.kind == 'punct' and tk.text in rl.CLOSE: depth -= 1
                    elif tk.kind == 'punct' and tk.text == ';' and depth == 0: cut = k + 1
                if depth != 0:
                    raise SpecError(f'UNSUPPORTED: {region}: first .await is nested in a block; prefix cut not possible')
                # automatic edits (R2 comment/tracing drops, renames) lying inside the dropped tail are subsumed by the cut
                if not hasattr(tx, 'subsumed'): tx.subsumed = set()
                tx.subsumed |= {(s_, e_) for (s_, e_, _r) in tx.edits if ct[cut].start <= s_ and e_ <= ct[fp['bclose']].start}
                tx.edit(ct[cut].start, ct[fp['bclose']].start, '', 'R6',
                        'async prefix: tail starting at the first statement with .await dropped -- NOT VERIFIED')
                body_hi = cut
        if it.opts.get('unpin'):
            # R23 (Pin erasure): `[mut] self: Pin<&mut Self>` => `&mut self`, `Pin<&mut T>` => `&mut T`, `Pin::new(E)` => `(E)`.
            # For `T: Unpin`, `Pin<&mut T>` and `&mut T` are interchangeable (Pin::new / Pin::get_mut are safe identities);
            # rustc has checked `Unpin` wherever the extracted text calls `Pin::new(..)` or reaches `&mut` through the Pin
            # (DerefMut for Pin<P> requires P::Target: Unpin).  Verus does not know the `Unpin` bound of Pin's DerefMut.
            k = fp['popen'] + 1
            k0 = k
            if ct[k].kind == 'id' and ct[k].text == 'mut': k += 1
            if (ct[k].text == 'self' and ct[k + 1].text == ':' and ct[k + 2].text == 'Pin' and ct[k + 3].text == '<' and ct[k + 4].text == '&'
                    and ct[k + 5].text == 'mut' and ct[k + 6].text == 'Self' and ct[k + 7].text == '>'):
                tx.edit(ct[k0].start, ct[k + 7].end, '&mut self', 'R23', 'Pin erased (Self: Unpin): self: Pin<&mut Self> => &mut self')
                k_from = k + 8
            else:
                k_from = fp['popen']
            k = k_from
            while k < fp['bclose']:
                if ct[k].kind == 'id' and ct[k].text == 'Pin' and ct[k + 1].text == '<' and ct[k + 2].text == '&' and ct[k + 3].text == 'mut':
                    # Pin<&mut T>: find the matching '>'
                    depth = 0; j = k + 1
                    while True:
                        if ct[j].text == '<': depth += 1
                        elif ct[j].text == '>' and ct[j - 1].text != '-':
                            depth -= 1
                            if depth == 0: break
                        j += 1
                    tx.edit(ct[k].start, ct[k + 1].end, '', 'R23', 'Pin erased (T: Unpin): Pin<&mut T> => &mut T')
                    tx.edits.append((ct[j].start, ct[j].end, ''))
                    k = j + 1; continue
                if (ct[k].kind == 'id' and ct[k].text == 'Pin' and ct[k + 1].text == ':' and ct[k + 2].text == ':' and ct[k + 3].text == 'new'
                        and ct[k + 4].text == '('):
                    tx.edit(ct[k].start, ct[k + 3].end, '', 'R23', 'Pin erased (T: Unpin): Pin::new(E) => (E)')
                    k += 4; continue
                k += 1
        if getattr(self, 'drop_items', None):
            # R33 (automatic): an explicit `drop(X)` / `mem::drop(X)` / `std::mem::drop(X)` of a local X (`self` or a by-value parameter) whose type T
            # has its `<Drop for T>::drop` as an ITEM of this unit runs that item: `{ let mut __d = X; __d.drop(FX); __d.drop_fields(FXREST) }` --
            # Drop::drop first, then the drop glue of the fields, which the unit models by a method `drop_fields` of T (an ASSUMED stub in @spec;
            # it receives the effect-state parameters of the enclosing fn that the Drop item does not take).  (`mem::forget(X)` is left alone: a
            # prelude `assume_specification [core::mem::forget]` gives it its meaning -- the value is consumed, neither Drop::drop nor the glue runs.)
            mut_self = ct[fp['popen'] + 1].text == 'mut' and ct[fp['popen'] + 2].text == 'self'
            ptypes = {'self': tyname}
            for q in range(fp['popen'] + 1, fp['pclose']):
                if ct[q].kind == 'id' and ct[q + 1].text == ':' and ct[q + 2].text != ':' and ct[q + 2].kind == 'id' and ct[q + 2].text != 'mut':
                    ptypes[ct[q].text] = ct[q + 2].text
            for k in range(fp['bopen'] + 1, body_hi):
                if not (ct[k].kind == 'id' and ct[k].text == 'drop' and ct[k + 1].text == '(' and ct[k + 2].kind == 'id' and ct[k + 3].text == ')'
                        and ct[k - 1].text not in ('.', 'fn') and ptypes.get(ct[k + 2].text) in self.drop_items):
                    continue
                k0 = k
                while ct[k0 - 1].text == ':' and ct[k0 - 2].text == ':' and ct[k0 - 3].kind == 'id' and ct[k0 - 3].text in ('mem', 'std'):
                    k0 -= 3
                x = '__self' if (ct[k + 2].text == 'self' and mut_self) else ct[k + 2].text
                dfx = [y.split(':', 1)[0] for y in self.drop_items[ptypes[ct[k + 2].text]].split('+') if y]
                efx = [y.split(':', 1)[0] for y in it.opts.get('fx', '').split('+') if y]
                if any(n not in efx for n in dfx):
                    raise SpecError(f'{region}: R33: drop({ct[k + 2].text}) runs an item with effect state {dfx}, which this item (fx={efx}) does not carry')
                rep = f'{{ let mut __d = {x}; __d.drop({", ".join(dfx)}); __d.drop_fields({", ".join(n for n in efx if n not in dfx)}) }}'
                tx.edit(ct[k0].start, ct[k + 3].end, rep, 'R33', f'explicit {ct[k].text}({ct[k + 2].text}) of a value whose Drop impl is an item of the unit made explicit')
        if ct[fp['popen'] + 1].text == 'mut' and ct[fp['popen'] + 2].text == 'self' and ct[fp['popen'] + 3].text in (',', ')'):
            # R29 (automatic): `fn f(mut self, ..) { B }` => `fn f(self, ..) { let mut __self = self; B[self := __self] }`.
            # A `mut` binding mode on a by-value parameter is exactly a mutable local initialised from the argument;
            # Verus rejects the `mut self` spelling ("does not yet support: mut self").
            tx.edit(ct[fp['popen'] + 1].start, ct[fp['popen'] + 2].start, '', 'R29', '`mut self` receiver rebound as a mutable local')
            pending_inserts.append((ct[fp['bopen']].end, ' let mut __self = self;', 'R29'))
            for k in range(fp['bopen'] + 1, fp['bclose']):
                if ct[k].kind == 'id' and ct[k].text == 'self' and not any(s_ <= ct[k].start and ct[k].end <= e_ for (s_, e_, _r) in tx.edits):   # (R33 may have rewritten it)
                    tx.edit(ct[k].start, ct[k].end, '__self', 'R29', 'self => __self')
        if it.opts.get('mutself'):
            # R13b: interior mutability made explicit: `&self` receiver becomes `&mut self`
            for k in range(fp['popen'], fp['pclose']):
                if ct[k].text == '&' and ct[k + 1].kind == 'id' and ct[k + 1].text == 'self':
                    tx.edit(ct[k].start, ct[k + 1].end, '&mut self', 'R13b', 'interior mutability made explicit: &self => &mut self')
        if it.opts.get('fx'):
            # fx=a:A+b:B adds several effect-state parameters; fxcalls/awaitfx pass the first one (`name*` in fxcalls: all)
            fxall = [x.split(':', 1) for x in it.opts['fx'].split('+')]
            fxname, fxty = fxall[0]
            tx.fxall = ', '.join(n for n, _t in fxall)
            empty = fp['pclose'] == fp['popen'] + 1
            trailing = ct[fp['pclose'] - 1].text == ','
            # an effect-state name that is already a parameter of the fn (the real code threads it itself) is not added again
            have = {ct[q].text for q in range(fp['popen'] + 1, fp['pclose']) if ct[q].kind == 'id' and ct[q + 1].text == ':' and ct[q + 2].text != ':'}
            fxnew = [(n, t) for n, t in fxall if n not in have]
            if fxnew:
                pending_inserts.append((ct[fp['pclose']].start, ('' if (empty or trailing) else ', ') + ', '.join(f'{n}: &mut {t}' for n, t in fxnew), 'R13'))
            tx.log.append({'rule': 'R13', 'at': f'{it.file}:{l0}', 'text': item.name, 'note': 'effect-state parameter(s) added: ' + ', '.join(f'`{n}: &mut {t}`' for n, t in fxall)})
            if it.opts.get('awaitfx'):
                # R24: `EXPR.await` => `EXPR.await_model(fx)`: the suspension is modelled as a blocking call of an ASSUMED
                # contract stub (prelude) that lets the rest of the world move on (other tasks run) and states what holds on resumption.
                for k in range(fp['bopen'], body_hi):
                    if ct[k].kind == 'id' and ct[k].text == 'await' and ct[k - 1].text == '.' \
                            and not any(s_ <= ct[k].start and ct[k].end <= e_ for (s_, e_, _r) in tx.edits):
                        tx.edit(ct[k].start, ct[k].end, f'await_model({fxname})', 'R24', 'await modelled as a blocking call with an assumed contract')
            # R13a (automatic, units with `@fxauto`): calls of the unit's other items that carry the same `fx=` get the effect state
            # too, so a body that starts delegating to a sibling (after a source change) still type-checks; a method call on the
            # effect state itself (`k.local_addr(..)`) is never touched (see apply_fx)
            declared = [x for x in it.opts.get('fxcalls', '').split(',') if x]
            sibl = [n_ for n_, f_ in (getattr(self, 'fx_items', {}) if getattr(u, 'fxauto', False) else {}).items()
                    if f_ == it.opts['fx'] and n_ not in [d.rstrip('*') for d in declared]]
            it_fxcalls = ','.join(declared + sibl)
            apply_fx(tx, ct, fp['bopen'], body_hi, fxname, it_fxcalls.split(','), pending_inserts,
                     lambda pos, text: (pos, text, 'R13'), bare=bool(it.opts.get('fxbare')))
        if it.opts.get('pollfn'):
            # pollfn=1 (with fx=): R30 on every `poll_fn(|cx| BODY).await` of the fn
            if not it.opts.get('fx'):
                raise SpecError(f'{region}: pollfn= needs fx=')
            apply_pollfn_await(tx, ct, fp['bopen'], body_hi, it.opts['fx'].split('+')[0].split(':', 1)[0],
                               [x for x in it.opts.get('fxcalls', '').split(',') if x])
        if it.opts.get('tlin'):
            # tlin=sys (with fx=k:Kernel): R27 on every `sys(|k| BODY)` of the fn
            if not it.opts.get('fx'):
                raise SpecError(f'{region}: tlin= needs fx=')
            apply_tl_accessor_inline(tx, ct, fp['bopen'], body_hi, it.opts['tlin'], ','.join(x.split(':', 1)[0] for x in it.opts['fx'].split('+')))
        if it.opts.get('tls'):
            # tls=recv.name,name2 (or tls=-): R19 on every World::enter(&W, || BODY) of the fn
            apply_tls_inline(tx, ct, fp['bopen'], fp['bclose'], [x for x in it.opts['tls'].split(',') if x and x != '-'],
                             pending_inserts, lambda pos, text: (pos, text, 'R19'))
        if it.opts.get('inherent') and imp is not None and imp.trait_name:
            # the method gets an extra parameter (fx), so it can no longer be emitted inside the trait impl
            imp_header = re.sub(r'\b(?:\w+\s*::\s*)*%s(?:<[^>]*>)?\s+for\s+' % re.escape(imp.trait_name), '', imp_header)   # also a path-qualified trait (`impl std::os::unix::fs::FileExt for File`)
            tx.log.append({'rule': 'R13', 'at': f'{it.file}:{l0}', 'text': imp.header, 'note': 'trait method emitted as inherent method (signature extended by effect state)'})
        if 'async' in it.opts or any(t.kind == 'id' and t.text == 'async' for t in ct[:fp['fn']]):
            for t in ct[:fp['fn']]:
                if t.kind == 'id' and t.text == 'async':
                    tx.edit(t.start, t.end, '', 'R6', 'async dropped (body must contain no .await)')
            for k in range(fp['bopen'], body_hi):
                if ct[k].kind == 'id' and ct[k].text == 'await' and ct[k - 1].text == '.' and not it.opts.get('awaitfx') \
                        and not any(s_ <= ct[k].start and ct[k].end <= e_ for (s_, e_, _r) in tx.edits):   # (an @idiom may have replaced it)
                    raise SpecError(f'UNSUPPORTED: {region}: async fn with .await in extracted text')
        # apply inserts as edits of zero width; compute label lines after render.
        MARK = '\x00%d\x00'
        inserts = sorted(pending_inserts, key=lambda x: x[0])
        for n_, (pos, text, tag) in enumerate(inserts):
            tx.edits.append((pos, pos, MARK % n_))
            tx.log.append({'rule': 'R3', 'at': f'{it.file}:{rl.line_of(src, pos)}', 'text': '', 'note': f'annotation inserted ({tag})'})
        rendered = tx.render().strip('\n') + '\n'
        # R9 runs on the text with all other edits applied, so annotations inside the arm are duplicated with it
        for a in split_anns:
            t2 = Text(rendered, 0, len(rendered), it.file)
            self.apply_split_or_arm(t2, a, region)
            rendered = t2.render()
            for lg in t2.log:
                lg['at'] = f'{it.file}:{l0}-{l1}'
            tx.log += t2.log
        # R9a (automatic): every remaining arm `P1 | P2 if G => B` is split the same way (Verus rejects the combined form); an arm
        # pattern starting with a leading `|` is left alone.  Bounded number of passes; a failure to parse leaves the text as it is.
        for _ in range(24):
            try:
                t2 = Text(rendered, 0, len(rendered), it.file)
                if not self.apply_split_or_arm(t2, Ann(kind='split_or_arm', arg='\x00auto'), region):
                    break
                rendered = t2.render()
                for lg in t2.log:
                    lg['at'] = f'{it.file}:{l0}-{l1}'
                tx.log += t2.log
            except SpecError:
                break
        for h_ in hoisted:
            self.emit(h_.rstrip('\n') + '\n')
        self.emit(header)
        if imp is not None:
            self.emit(f'impl {imp_header} {{\n')
            if imp.trait_name and not it.opts.get('inherent'):
                for c in imp.children:
                    if c.kind == 'type':
                        self.emit('    ' + src_orig[c.decl_start:c.end] + '\n')
            # @implspec: spec-fn definitions of a contract trait (declared in @spec) for this impl; Verus wants them in
            # the same impl block as the method.  Only `spec fn` items are accepted.
            for a in it.anns:
                if a.kind == 'implspec':
                    if re.search(r'\b(exec|proof)\s+fn\b', a.text) or re.search(r'^\s*(?:pub\s+)?fn\b', a.text, flags=re.M) or 'external_body' in a.text:
                        raise SpecError(f'{region}: @implspec may only contain spec fns')
                    self.emit(a.text.rstrip('\n') + '\n')
        base = self.nline
        # expand markers, tracking lines
        pieces = re.split(r'\x00(\d+)\x00', rendered)
        cur_line = base
        buf = []
        for idx, piece in enumerate(pieces):
            if idx % 2 == 0:
                buf.append(piece); cur_line += piece.count('\n')
            else:
                text = inserts[int(piece)][1]
                text2 = label_lines(text, self.labels, cur_line, region)
                tag_ = inserts[int(piece)][2] if len(inserts[int(piece)]) > 2 else ''
                if isinstance(tag_, str) and tag_.startswith('hint:'):
                    self.hint_lines.append({'region': region, 'ann_line': int(tag_[5:]), 'line0': cur_line, 'line1': cur_line + text2.count('\n')})
                buf.append(text2); cur_line += text2.count('\n')
        self.emit(''.join(buf))
        if imp is not None:
            self.emit('}\n')
        self.regions.append({'name': region, 'line0': base, 'line1': self.nline - 1, 'kind': 'fn',
                             'props': it.props, 'src': f'{it.file}:{l0}-{l1}', 'sha': sha, 'fn': fkey, 'iline': it.line, 'sel': it.sel})
        self.sources.append({'fn': fkey, 'src': f'{it.file}:{l0}-{l1}', 'sha256': sha})
        self.dropped += tx.log

    def apply_split_or_arm(self, tx, a, region):
        """R9: `P1 | P2 if G => BODY` ==> `P1 if G => BODY P2 if G => BODY`.  This is Rust's own semantics
        for an or-pattern with a guard (the guard is evaluated per alternative, in order); Verus does not
        accept the combined form.  The anchor is the first alternative's text up to the `|`."""
        ct = tx.ct
        src = tx.src
        s_all = src[tx.start:tx.end]
        # anchor = whitespace-normalised arm header prefix "P1 | P2 if"
        norm = lambda x: re.sub(r'\s+', ' ', x).strip()
        want = norm(a.arg)
        hits = []
        for i, t in enumerate(ct):
            if t.kind == 'punct' and t.text == '=' and i + 1 < len(ct) and ct[i + 1].text == '>' and ct[i + 1].start == t.end:
                # walk back to arm start: previous ',' '{' or '}' at same depth
                j = i - 1
                depth = 0
                while j >= 0:
                    tj = ct[j]
                    if tj.kind == 'punct' and tj.text in rl.CLOSE: depth += 1
                    elif tj.kind == 'punct' and tj.text in rl.OPEN:
                        if depth == 0: break
                        depth -= 1
                    elif tj.kind == 'punct' and tj.text == ',' and depth == 0:
                        break
                    j -= 1
                # `}` of a previous block-bodied arm without comma also ends an arm
                k = i - 1; depth = 0; last_close = None
                while k > j:
                    tk = ct[k]
                    if tk.kind == 'punct' and tk.text in rl.CLOSE:
                        if depth == 0 and tk.text == '}': last_close = k; break
                        depth += 1
                    elif tk.kind == 'punct' and tk.text in rl.OPEN: depth -= 1
                    k -= 1
                a0 = (last_close if last_close is not None else j) + 1
                header = norm(src[ct[a0].start:t.start])
                if want == '\x00auto':
                    # R9a (automatic): any arm whose header has a depth-0 `|` before a depth-0 `if`
                    dd = 0; gi = None; nb = 0
                    for q in range(a0, i):
                        tq = ct[q]
                        if tq.kind == 'punct' and tq.text in rl.OPEN: dd += 1
                        elif tq.kind == 'punct' and tq.text in rl.CLOSE: dd -= 1
                        elif dd == 0 and tq.kind == 'id' and tq.text == 'if' and gi is None: gi = q
                        elif dd == 0 and tq.kind == 'punct' and tq.text == '|' and gi is None and q > a0: nb += 1
                    if gi is not None and nb > 0 and dd == 0 and not hits:
                        hits.append((a0, i))
                elif header == want:
                    hits.append((a0, i))
        if want == '\x00auto' and not hits:
            return False
        if len(hits) != 1:
            raise SpecError(f'LOST-ANCHOR: {region}: or-arm <<{a.arg}>> found {len(hits)} times')
        a0, arrow = hits[0]
        # split pattern / guard
        g = None; depth = 0; bars = []
        for k in range(a0, arrow):
            tk = ct[k]
            if tk.kind == 'punct' and tk.text in rl.OPEN: depth += 1
            elif tk.kind == 'punct' and tk.text in rl.CLOSE: depth -= 1
            elif depth == 0 and tk.kind == 'id' and tk.text == 'if' and g is None: g = k
            elif depth == 0 and tk.kind == 'punct' and tk.text == '|' and g is None: bars.append(k)
        if g is None or not bars:
            raise SpecError(f'LOST-ANCHOR: {region}: arm <<{a.arg}>> is not `P1 | P2 if G`')
        guard = src[ct[g].start:ct[arrow].start].strip()
        alts = []
        prev = a0
        for b in bars + [g]:
            alts.append(src[ct[prev].start:ct[b - 1].end].strip()); prev = b + 1
        # body
        bstart = arrow + 2
        if ct[bstart].text == '{':
            bend = rl.match_close(ct, bstart)
            body = src[ct[bstart].start:ct[bend].end]
            end_idx = bend
            if ct[bend + 1].text == ',': end_idx = bend + 1
        else:
            k = bstart; depth = 0
            while True:
                tk = ct[k]
                if tk.kind == 'punct' and tk.text in rl.OPEN: k = rl.match_close(ct, k)
                elif tk.kind == 'punct' and tk.text == ',': break
                elif tk.kind == 'punct' and tk.text == '}': k -= 1; break
                k += 1
            body = src[ct[bstart].start:ct[k - 1].end if ct[k].text == ',' else ct[k].end] + ','
            end_idx = k
        repl = '\n'.join(f'{alt} {guard} => {body}' for alt in alts)
        tx.edit(ct[a0].start, ct[end_idx].end, repl, 'R9', 'or-pattern with guard split into one arm per alternative')
        return True

    def apply_dropstmt(self, tx, a, region):
        """@dropstmt <<anchor>>: delete the whole (possibly multi-line) statement that starts at the unique
        anchor text, up to and including its terminating `;` at bracket depth 0.  Logged as R2y.  Meant for
        async tokio glue Verus cannot parse (`rt.block_on(async { .. })`); unlike @drop the statement is NOT
        claimed to be effect-free: the unit must say which assumed contract stands in for its effect."""
        s_all = tx.src[tx.start:tx.end]
        cnt = s_all.count(a.arg)
        if cnt != 1:
            raise SpecError(f'LOST-ANCHOR: {region}: @dropstmt anchor <<{a.arg}>> occurs {cnt} times')
        pos = tx.start + s_all.index(a.arg)
        ct = tx.ct
        k = next(i for i, t in enumerate(ct) if t.start >= pos)
        if ct[k].start != pos:
            raise SpecError(f'LOST-ANCHOR: {region}: @dropstmt anchor does not start at a token')
        if ct[k - 1].text not in (';', '{', '}'):
            raise SpecError(f'LOST-ANCHOR: {region}: @dropstmt anchor is not at the start of a statement')
        j = k
        while True:
            if ct[j].kind == 'punct' and ct[j].text in rl.OPEN:
                j = rl.match_close(ct, j)
            elif ct[j].kind == 'punct' and ct[j].text == ';':
                break
            elif ct[j].kind == 'punct' and ct[j].text in rl.CLOSE:
                raise SpecError(f'LOST-ANCHOR: {region}: @dropstmt: no terminating `;`')
            j += 1
        tx.edit(ct[k].start, ct[j].end, '', 'R2y', 'declared statement drop (async glue; effect covered by an assumed contract)')

    def apply_relift(self, tx, a, region):
        """R16: `@relift <<PREFIX(>> => <<lifted_fn(args)>> [nth=N]`: in the enclosing fn, the call expression that starts with
        PREFIX( (e.g. `World::current(`, `BARRIERS.with(`) and whose argument is the closure lifted by R5 is replaced by a
        call of that lifted fn, with the thread-local state passed explicitly (usually an `fx=` parameter).  Lets the glue
        around a lifted closure be verified as a whole: anything the enclosing fn does besides the call is then visible."""
        s_all = tx.src[tx.start:tx.end]
        pat = r'\s*'.join(re.escape(tok) for tok in re.findall(r'\w+|[^\w\s]', a.arg))
        ms = list(re.finditer(pat, s_all))
        nth = int(a.opts.get('nth', '0'))
        if (nth == 0 and len(ms) != 1) or nth > len(ms):
            raise SpecError(f'LOST-ANCHOR: {region}: relift prefix <<{a.arg}>> occurs {len(ms)} times')
        m = ms[max(nth, 1) - 1]
        if not a.arg.rstrip().endswith('('):
            raise SpecError(f'{region}: @relift prefix must end with `(`')
        ct = tx.ct
        open_pos = tx.start + m.end() - 1
        k = next(i for i, t in enumerate(ct) if t.start == open_pos)
        close = rl.match_close(ct, k)
        if ct[k + 1].text not in ('|', 'move'):
            raise SpecError(f'LOST-ANCHOR: {region}: relift: argument of <<{a.arg}>> is not a closure')
        # automatic edits (renames, R2 drops) lying inside the replaced call are subsumed by it (the closure text is verified
        # separately as the lifted fn, where the same automatic edits apply)
        if not hasattr(tx, 'subsumed'): tx.subsumed = set()
        tx.subsumed |= {(s_, e_) for (s_, e_, _r) in tx.edits if tx.start + m.start() <= s_ and e_ <= ct[close].end}
        tx.edit(tx.start + m.start(), ct[close].end, a.arg2, 'R16', f'closure call replaced by call of its lifted body: {a.arg2}')

    def apply_idiom(self, tx, a, region):
        """R11: replace one std iterator idiom that Verus cannot ingest (e.g. `.drain(..).collect::<Vec<T>>()`) by a call
        of a prelude contract function whose name starts with `idiom_`.  The anchor is matched modulo whitespace.  This is an
        ASSUMED contract on the idiom (listed in evidence with both texts), not a proof about it."""
        if not re.search(r'\bidiom_\w+', a.arg2):
            raise SpecError(f'{region}: @idiom replacement must call a prelude fn named idiom_*')
        s_all = tx.src[tx.start:tx.end]
        mkpat = lambda text: r'\s*'.join(re.escape(tok) for tok in re.findall(r'\w+|[^\w\s]', text))
        if '(...)' in a.arg:
            # `(...)` in the anchor stands for one balanced parenthesis group (e.g. a closure argument whose text is
            # verified separately through a lifted fn); the pieces around it are matched modulo whitespace as usual.
            pieces = a.arg.split('(...)')
            hits = []
            for m0 in re.finditer(mkpat(pieces[0]), s_all):
                pos = m0.end(); ok = True
                for piece in pieces[1:]:
                    k = next((i for i, t in enumerate(tx.ct) if t.start >= tx.start + pos), None)
                    if k is None or tx.ct[k].text != '(':
                        ok = False; break
                    pos = tx.ct[rl.match_close(tx.ct, k)].end - tx.start
                    m1 = re.compile((r'\s*' if piece.strip() else '') + mkpat(piece)).match(s_all, pos)   # an empty tail must not swallow the whitespace after `)`
                    if not m1:
                        ok = False; break
                    pos = m1.end()
                if ok:
                    hits.append((m0.start(), pos))
            if len(hits) != 1:
                raise SpecError(f'LOST-ANCHOR: {region}: idiom <<{a.arg}>> occurs {len(hits)} times')
            # edits already recorded inside the replaced text (renames, `_ =` rewrites, dropped tracing) go away with it
            tx.edits = [e_ for e_ in tx.edits if not (tx.start + hits[0][0] <= e_[0] and e_[1] <= tx.start + hits[0][1])]
            tx.edit(tx.start + hits[0][0], tx.start + hits[0][1], a.arg2, 'R11', f'std idiom replaced by contract stub: {a.arg2}')
            return
        pat = mkpat(a.arg)
        ms = list(re.finditer(pat, s_all))
        if len(ms) == 0 and a.opts.get('optional'):
            return      # `@idiom?`: optional anchor (one sidecar for code before/after a change), skipped when absent
        if len(ms) != 1:
            raise SpecError(f'LOST-ANCHOR: {region}: idiom <<{a.arg}>> occurs {len(ms)} times')
        # automatic edits (renames R7/R21) lying inside the replaced idiom text are subsumed by it (cf. apply_drop)
        if not hasattr(tx, 'subsumed'): tx.subsumed = set()
        tx.subsumed |= {(s_, e_) for (s_, e_, _r) in tx.edits if tx.start + ms[0].start() <= s_ and e_ <= tx.start + ms[0].end()}
        tx.edit(tx.start + ms[0].start(), tx.start + ms[0].end(), a.arg2, 'R11', f'std idiom replaced by contract stub: {a.arg2}')

    def apply_drop(self, tx, a, lo, hi):
        """@drop <<text>>: delete one statement-level occurrence (logged as R2x).  Only allowed for
        text that has no effect on simulation state; every use is listed in evidence."""
        s_all = tx.src[tx.start:tx.end]
        cnt = s_all.count(a.arg)
        if cnt != 1:
            raise SpecError(f'LOST-ANCHOR: {tx.rel}: @drop anchor <<{a.arg}>> occurs {cnt} times')
        pos = tx.start + s_all.index(a.arg)
        # automatic edits (R2 tracing replacement) lying inside a declared drop are subsumed by it
        if not hasattr(tx, 'subsumed'): tx.subsumed = set()
        tx.subsumed |= {(s_, e_) for (s_, e_, _r) in tx.edits if pos <= s_ and e_ <= pos + len(a.arg)}
        tx.edit(pos, pos + len(a.arg), '', 'R2x', 'declared drop')

    def emit_lift(self, it: ItemSpec):
        """R5: lift the body of the n-th `X::current(|w| BODY)` closure of a fn into a plain fn.
        selector: Type::fn or fn; opts: nth=1 call=World::current param='world: &mut World' name=lifted_name ret=T"""
        item, imp, src = find_item(it.file, 'fn', it.sel)
        tx = Text(src, item.start, item.end, it.file)
        ct = tx.ct
        call = it.opts.get('call', 'World::current')
        segs = call.split('::')
        nth = int(it.opts.get('nth', '1'))
        found = []
        for i in range(len(ct)):
            k = i; ok = True
            for si, s in enumerate(segs):
                if k >= len(ct) or ct[k].text != s: ok = False; break
                k += 1
                if si < len(segs) - 1:
                    if ct[k].text == ':' and ct[k + 1].text == ':': k += 2
                    else: ok = False; break
            if ok and ct[k].text == '(' and ct[k + 1].text == '|':
                found.append(k)
        if it.opts.get('block'):
            # R5b: lift the innermost `{ ... }` block of the fn body that contains the anchor text
            # (block=<anchor>, `~` = space).  The block is taken verbatim; its free variables become
            # the declared params.  Used for statement blocks that are not closures.
            anchor = it.opts['block'].replace('~', ' ')
            s_all = src[item.start:item.end]
            if s_all.count(anchor) != 1:
                raise SpecError(f'LOST-ANCHOR: {it.file}: {it.sel}: block anchor <<{anchor}>> occurs {s_all.count(anchor)} times')
            apos = item.start + s_all.index(anchor)
            k = None
            for i in range(len(ct)):
                if ct[i].kind == 'punct' and ct[i].text == '{' and ct[i].start < apos and ct[rl.match_close(ct, i)].start >= apos + len(anchor):
                    k = i
            if k is None:
                raise SpecError(f'LOST-ANCHOR: {it.file}: {it.sel}: no block around <<{anchor}>>')
            close = rl.match_close(ct, k)
            cparam = ''
            call = 'block'
            body_s, body_e = ct[k].start, ct[close].end
        else:
            if len(found) < nth:
                raise SpecError(f'LOST-ANCHOR: {it.file}: {it.sel}: {call}(|..| ..) #{nth} not found')
            k = found[nth - 1]
            close = rl.match_close(ct, k)
            # closure params: | ... |
            j = k + 2
            while ct[j].text != '|': j += 1
            cparam = src[ct[k + 2].start:ct[j].start].strip()
            body_s, body_e = ct[j].end, ct[close].start
        body = src[body_s:body_e].strip()
        if body.startswith('->') and '{' in body:
            # closure with an explicit return type `|x| -> T { .. }`: the type is given by ret= on the lift item
            body = body[body.index('{'):]
        if not body.startswith('{'):
            body = '{ ' + body + ' }'
        name = it.as_name or (item.name + f'_closure{nth}')
        params = it.opts.get('params', '').replace('~', ' ')
        ret = it.opts.get('ret', '').replace('~', ' ')
        sig = f'fn {name}{it.opts.get("generics", "")}({params})' + (f' -> {ret}' if ret else '') + ' '
        synthetic = sig + body + '\n'
        l0, l1 = rl.line_of(src, body_s), rl.line_of(src, body_e)
        sha = hashlib.sha256(body.encode()).hexdigest()[:16]
        r32_log, r32_notes = [], []
        if self.inline.get(it.line):
            # R32 on the lifted text (see emit_item)
            new = self.apply_r32(synthetic, it, imp, l0, r32_log, r32_notes)
            if r32_log:
                synthetic = new
                sha = hashlib.sha256(synthetic.encode()).hexdigest()[:16]
                self.dropped += r32_log
        # Re-lex the synthetic fn so that the normal fn pipeline (annotations) applies.
        fake_rel = it.file
        sub = Text(synthetic, 0, len(synthetic), fake_rel)
        if it.opts.get('selfas'):
            # the closure captured `self`; in the lifted fn it becomes an ordinary parameter
            for t in sub.ct:
                if t.kind == 'id' and t.text == 'self':
                    sub.edit(t.start, t.end, it.opts['selfas'], 'R5', 'captured self renamed')
        strip_common(sub)
        apply_renames(sub, self.u.renames)
        fp = fn_parts(sub)
        sct = sub.ct
        region = f'{self.u.name}.{name}'
        for n_ in r32_notes:
            self.degraded.setdefault(region, []).append(n_)
        inserts = []
        for a in it.anns:
            if a.kind == 'ret':
                s = sct[fp['arrow'] + 2].start
                e = sct[fp['bopen'] - 1].end
                sub.edits.append((s, e, f'({a.arg}: {synthetic[s:e]})'))
            elif a.kind == 'sig':
                inserts.append((sct[fp['bopen']].start, '\n' + a.text.rstrip() + '\n'))
            elif a.kind == 'loop':
                loops = find_loops(sub, fp['bopen'] + 1, fp['bclose'])
                n = int(a.arg)
                if n < 1 or n > len(loops):
                    raise SpecError(f'LOST-ANCHOR: {region}: loop {n} not found')
                kw, ob = loops[n - 1]
                if 'binder' in a.opts:
                    jj = kw + 1
                    while not (sct[jj].kind == 'id' and sct[jj].text == 'in'):
                        if sct[jj].text in ('(', '['): jj = rl.match_close(sct, jj)
                        jj += 1
                    inserts.append((sct[jj].end, f' {a.opts["binder"]}:'))
                inserts.append((sct[ob].start, '\n' + a.text.rstrip() + '\n'))
            elif a.kind == 'loopend':
                loops = find_loops(sub, fp['bopen'] + 1, fp['bclose'])
                n = int(a.arg)
                if n < 1 or n > len(loops):
                    raise SpecError(f'LOST-ANCHOR: {region}: loop {n} not found')
                kw, ob = loops[n - 1]
                inserts.append((sct[rl.match_close(sct, ob)].start, '\n' + a.text.rstrip() + '\n'))
            elif a.kind in ('before', 'after'):
                bs, be = sct[fp['bopen']].end, sct[fp['bclose']].start
                b = synthetic[bs:be]
                if b.count(a.arg) != 1:
                    self.degraded.setdefault(region, []).append(f'{a.kind} <<{a.arg}>> occurs {b.count(a.arg)} times')
                    continue
                pos = bs + b.index(a.arg) + (len(a.arg) if a.kind == 'after' else 0)
                inserts.append((pos, '\n' + a.text.rstrip() + '\n'))
            elif a.kind == 'tail':
                inserts.append((sct[fp['bclose']].start, '\n' + a.text.rstrip() + '\n'))
            elif a.kind == 'head':
                inserts.append((sct[fp['bopen']].end, '\n' + a.text.rstrip() + '\n'))
            elif a.kind == 'closure':
                bs, be = sct[fp['bopen']].end, sct[fp['bclose']].start
                b = synthetic[bs:be]
                nth = int(a.opts.get('nth', '0'))
                if b.count(a.arg) == 0 and a.opts.get('optional'):
                    self.degraded.setdefault(region, []).append(f'closure <<{a.arg}>> absent')
                    continue
                if (nth == 0 and b.count(a.arg) != 1) or nth > b.count(a.arg):
                    if a.opts.get('optional'):
                        self.degraded.setdefault(region, []).append(f'closure <<{a.arg}>> occurs {b.count(a.arg)} times')
                        continue
                    raise SpecError(f'LOST-ANCHOR: {region}: closure header <<{a.arg}>> occurs {b.count(a.arg)} times')
                off = -1
                for _ in range(max(nth, 1)):
                    off = b.index(a.arg, off + 1)
                pos = bs + off
                sub.edits.append((pos, pos + len(a.arg), a.arg2))
                for (bp, btxt) in closure_braces(sub, pos + len(a.arg)):
                    inserts.append((bp, btxt))
            elif a.kind == 'drop':
                self.apply_drop(sub, a, 0, 0)
            elif a.kind == 'idiom':
                self.apply_idiom(sub, a, region)     # R11 also applies inside a lifted closure body
        if it.opts.get('fx'):
            apply_fx(sub, sct, fp['bopen'], fp['bclose'], it.opts['fx'].split(':', 1)[0], it.opts.get('fxcalls', '').split(','), inserts,
                     lambda pos, text: (pos, text), bare=bool(it.opts.get('fxbare')))
        auto_closure_patterns(sub, sct, fp['bopen'] + 1, fp['bclose'], lambda pos, text: inserts.append((pos, text)))
        if self.inject_false == region:
            inserts.append((sct[fp['bopen']].end, ' proof { assert(false); } let __vac = {'))
            inserts.append((sct[fp['bclose']].start, '\n    }; proof { assert(false); } __vac // vacuity self-test\n'))
        MARK = '\x00%d\x00'
        inserts.sort(key=lambda x: x[0])
        for n_, (pos, text) in enumerate(inserts):
            sub.edits.append((pos, pos, MARK % n_))
        rendered = sub.render().strip('\n') + '\n'
        for _ in range(24):      # R9a (automatic), as in emit_item
            try:
                t2 = Text(rendered, 0, len(rendered), it.file)
                if not self.apply_split_or_arm(t2, Ann(kind='split_or_arm', arg='\x00auto'), region):
                    break
                rendered = t2.render()
                for lg in t2.log:
                    lg['at'] = f'{it.file}:{l0}-{l1}'
                self.dropped += t2.log
            except SpecError:
                break
        if it.opts.get('block'):
            self.emit(f'// @src {it.file}:{l0}-{l1} sha256={sha} lifted statement block of {it.sel} [R5b]\n')
        else:
            self.emit(f'// @src {it.file}:{l0}-{l1} sha256={sha} lifted closure #{nth} of {it.sel} ({call}(|{cparam}| ..)) [R5]\n')
        base = self.nline
        pieces = re.split(r'\x00(\d+)\x00', rendered)
        cur_line = base
        buf = []
        for idx, piece in enumerate(pieces):
            if idx % 2 == 0:
                buf.append(piece); cur_line += piece.count('\n')
            else:
                text = inserts[int(piece)][1]
                text2 = label_lines(text, self.labels, cur_line, region)
                buf.append(text2); cur_line += text2.count('\n')
        self.emit(''.join(buf))
        self.regions.append({'name': region, 'line0': base, 'line1': self.nline - 1, 'kind': 'fn',
                             'props': it.props, 'src': f'{it.file}:{l0}-{l1}', 'sha': sha, 'fn': name, 'iline': it.line, 'sel': it.sel})
        self.sources.append({'fn': name, 'src': f'{it.file}:{l0}-{l1}', 'sha256': sha})
        self.dropped.append({'rule': 'R5b' if it.opts.get('block') else 'R5', 'at': f'{it.file}:{l0}', 'text': f'{call}(|{cparam}| ..)', 'note': f'{"statement block" if it.opts.get("block") else "closure body"} lifted to fn {name}({params})'})
        self.dropped += sub.log

    def build(self):
        u = self.u
        self.emit('#![allow(unused_macros, unused_imports, dead_code, unused_variables, unused_mut, unused_parens, non_snake_case, unused_assignments, unreachable_code, unused_braces, non_camel_case_types, private_interfaces)]\n')
        self.emit('#![feature(allocator_api)]\n')
        feats = []
        for p in u.prelude:
            pp = os.path.join(VERIF, 'specs', 'prelude', p)
            if os.path.exists(pp):
                for m in re.finditer(r'^// @feature (.*)$', open(pp).read(), flags=re.M):
                    feats += [x.strip() for x in m.group(1).split(',') if x.strip()]
        if feats:
            self.emit('#![feature(' + ', '.join(feats) + ')]\n')
        self.emit('use vstd::prelude::*;\nuse std::collections::VecDeque;\n')
        # assert_eq!/assert_ne! expand to core::panicking internals Verus rejects; they are re-read as
        # assert!(a == b) / assert!(a != b) (same condition, message dropped).
        self.emit('macro_rules! assert_ne { ($a:expr, $b:expr $(,)?) => { assert!($a != $b) }; ($a:expr, $b:expr, $($t:tt)+) => { assert!($a != $b) }; }\n')
        self.emit('macro_rules! assert_eq { ($a:expr, $b:expr $(,)?) => { assert!($a == $b) }; ($a:expr, $b:expr, $($t:tt)+) => { assert!($a == $b) }; }\n')
        # std::task::ready! re-stated over the prelude's Poll stub (same definition as core's)
        self.emit('macro_rules! ready { ($e:expr $(,)?) => { match $e { Poll::Ready(t) => t, Poll::Pending => { return Poll::Pending; } } }; }\n')
        self.emit('verus! {\n')
        self.emit('pub mod pre {\nuse vstd::prelude::*;\nuse std::collections::VecDeque;\n')
        bnames = []
        for p in u.prelude:
            path = os.path.join(VERIF, 'specs', 'prelude', p)
            if not os.path.exists(path):
                raise SpecError(f'prelude {p} missing')
            text = open(path).read().rstrip('\n') + '\n'
            self.emit(f'// ===== prelude {p} (TRUSTED contract stubs) =====\n')
            base = self.nline
            tmp = []
            text2 = label_lines(text, tmp, base, f'prelude.{p}')
            for l in tmp: l['prelude'] = True
            self.labels += tmp
            self.regions.append({'name': f'prelude.{p}', 'line0': base, 'line1': base + text2.count('\n'), 'kind': 'prelude', 'props': []})
            self.emit(text2)
            for m in re.finditer(r'^// @broadcast (.*)$', text, flags=re.M):
                bnames += [x.strip() for x in m.group(1).split(',') if x.strip()]
        for part in u.parts:
            if part[0] == 'spec':
                for m in re.finditer(r'^// @broadcast (.*)$', part[1], flags=re.M):
                    bnames += [x.strip() for x in m.group(1).split(',') if x.strip()]
        self.emit('} // mod pre\npub use pre::*;\n')
        if bnames:
            self.emit('broadcast use {' + ', '.join(bnames) + '};\n')
        self.emit(f'// ===== unit {u.name} =====\n')
        self.fx_items = {}
        self.drop_items = {m_.group(1): part[1].opts.get('fx', '') for part in u.parts if part[0] == 'item' and part[1].kind == 'fn'
                           for m_ in [re.match(r'<Drop for (\w+)>::drop$', part[1].sel)] if m_}      # R33
        for part in u.parts:
            if part[0] == 'item' and part[1].kind == 'fn' and part[1].opts.get('fx'):
                self.fx_items[re.split(r'::', part[1].sel)[-1].split('#')[0]] = part[1].opts['fx']
        for part in u.parts:
            if part[0] == 'spec':
                self.emit_spec(part[1], part[2])
            else:
                self.emit_item(part[1])
        self.emit('} // verus!\nfn main() {}\n')
        return ''.join(self.out)


def generate(unit_name, inject_false=None, extra_consts=None, inline=None, skip_hints=None):
    path = os.path.join(VERIF, 'specs', 'units', unit_name + '.vspec')
    u = parse_vspec(path)
    # R31 (automatic, driven by vp/run.py): a `const NAME` of the same source file that extracted text refers to but the sidecar
    # does not list (a change introduced or started using it) is extracted verbatim as well -- strictly more real text, no contract
    first_item = next((k for k, p_ in enumerate(u.parts) if p_[0] == 'item'), len(u.parts))
    for (cfile, cname) in (extra_consts or []):
        u.parts.insert(first_item, ('item', ItemSpec(file=cfile, kind='const', sel=cname, props=[], opts={'auto': '1'})))
    g = Gen(u)
    g.inject_false = inject_false
    g.skip_hints = set(skip_hints or [])
    for (iline, cfile, sel, form) in (inline or []):     # R32 (automatic, driven by vp/run.py): see inline_helper
        g.inline.setdefault(iline, []).append((cfile, sel, form))
    text = g.build()
    if inject_false:
        # Verus wants `hide(..)` headers at the very beginning of a fn body: move them in front of the injected wrapper
        # (same line count: the moved text contains no newline of its own)
        mark = ' proof { assert(false); } let __vac = {'
        def fix(m):
            return m.group(2) + mark + m.group(1)
        text = re.sub(re.escape(mark) + r'((?:\s|//[^\n]*\n)*)((?:hide\([^)]*\);[ \t]*)+)', lambda m: ' ' + m.group(2) + mark + m.group(1), text)
    return u, g, text


if __name__ == '__main__':
    u, g, text = generate(sys.argv[1])
    out = sys.argv[2] if len(sys.argv) > 2 else '/dev/stdout'
    open(out, 'w').write(text)
