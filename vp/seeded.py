#!/usr/bin/env python3
"""Run the registered checks against every seeded change under /verif/seeded/<id>/ (patch.diff + meta.json).
Each patch is applied to a scratch copy of /repo (never to /repo itself); prints which checks raise a VIOLATION."""
import glob, json, os, shutil, subprocess, sys, tempfile
VERIF = os.path.dirname(os.path.dirname(os.path.abspath(__file__)))
def main():
    pats = sys.argv[1:]
    rows = []
    for d in sorted(glob.glob(os.path.join(VERIF, 'seeded', '*'))):
        sid = os.path.basename(d)
        if pats and not any(p in sid for p in pats): continue
        patch = os.path.join(d, 'patch.diff')
        if not os.path.exists(patch): continue
        meta = json.load(open(os.path.join(d, 'meta.json'))) if os.path.exists(os.path.join(d, 'meta.json')) else {'property': sid.split('-')[0]}
        props = meta.get('check_props') or [meta['property']]
        scratch = tempfile.mkdtemp(prefix='turmoil-verif-seed-')
        try:
            subprocess.run(['rsync', '-a', '--exclude', 'target', '--exclude', '.git', '/repo/', scratch + '/'], check=True)
            r = subprocess.run(['patch', '-p1', '-s', '-d', scratch, '-i', patch], capture_output=True, text=True)
            if r.returncode != 0:
                print(f'{sid:12s} PATCH-FAILED {r.stdout[-200:]}'); rows.append((sid, 'PATCH-FAILED')); continue
            res = []
            for prop in props:
                p = subprocess.run([os.path.join(VERIF, 'check'), prop], capture_output=True, text=True,
                                   env=dict(os.environ, VERIF_REPO=scratch, VERIF_NO_EVIDENCE='1', VERIF_REPLAY_DIR=os.path.join(scratch, '.verif-replays')))
                viol = [l.split('replay=')[1].split()[0].split('/')[-1].replace('.json', '') for l in p.stdout.split('\n') if l.startswith('VIOLATION')]
                res.append((prop, p.returncode, viol, [l for l in p.stdout.split('\n') if l.startswith('UNDECIDED')][:2]))
            st = 'DETECTED' if any(rc == 1 for _, rc, _, _ in res) else ('UNDECIDED' if any(rc == 2 for _, rc, _, _ in res) else 'MISSED')
            print(f'{sid:12s} {st:10s} ' + '; '.join(f'{p}:exit{rc}:{",".join(v)[:200]}{(" " + u[0][:200]) if u else ""}' for p, rc, v, u in res), flush=True)
            rows.append((sid, st))
        finally:
            shutil.rmtree(scratch, ignore_errors=True)
    print({s: sum(1 for r in rows if r[1] == s) for s in ('DETECTED', 'UNDECIDED', 'MISSED', 'PATCH-FAILED')})
if __name__ == '__main__':
    main()
