#!/usr/bin/env python3
"""Rewrite the PROPTABLE block of DESIGN.md from specs/properties.json, evidence/*.json and the last seed run."""
import json, os, re, glob
VERIF = os.path.dirname(os.path.dirname(os.path.abspath(__file__)))
cfg = json.load(open(os.path.join(VERIF, 'specs', 'properties.json')))
seeds = {}
try:
    for l in open(os.path.join(VERIF, '.cache', 'seeded_last.txt')):
        m = re.match(r'(C\d\d)-[A-Z]\s+(DETECTED|UNDECIDED|MISSED)', l)
        if m: seeds.setdefault(m.group(1), {}).setdefault(m.group(2), 0); seeds[m.group(1)][m.group(2)] += 1
except OSError:
    pass
known = {}
for l in open(os.path.join(VERIF, 'known_findings.txt')):
    m = re.match(r'(known|fixed): property=(C\d\d)', l)
    if m: known.setdefault(m.group(2), {'known': 0, 'fixed': 0}); known[m.group(2)][m.group(1)] += 1
rows = ['| property | level | units | obligations (discharged) | functions under contract | Kani twins | known / fixed findings | seeded changes D / U / M |',
        '|---|---|---|---|---|---|---|---|']
tot = 0
for pid in sorted(cfg):
    ev = json.load(open(os.path.join(VERIF, 'evidence', pid + '.json')))
    cov = ev['coverage']
    units = sorted({f['unit'] for f in cov.get('functions_under_contract', [])})
    ob, dis = cov['obligations'], cov['discharged']
    tot += ob
    kt = len(cov.get('kani_checks') or [])
    k = known.get(pid, {'known': 0, 'fixed': 0})
    s = seeds.get(pid, {})
    rows.append(f"| {pid} | {cfg[pid].get('level', 'proof')} | {', '.join(units)} | {ob} ({dis}) | {len(cov.get('functions_under_contract', []))} | {kt if kt else '-'} | {k['known']} / {k['fixed']} | {s.get('DETECTED', 0)} / {s.get('UNDECIDED', 0)} / {s.get('MISSED', 0)} |")
rows.append('')
rows.append('(An obligation that serves several properties is counted under each; `units` = units contributing functions; Kani twins are listed from the last thorough-tier evidence; findings are counted by the property they are recorded under in `known_findings.txt`.)')
p = os.path.join(VERIF, 'DESIGN.md'); s = open(p).read()
a, b = '<!-- PROPTABLE BEGIN -->', '<!-- PROPTABLE END -->'
s = s[:s.index(a) + len(a)] + '\n' + '\n'.join(rows) + '\n' + s[s.index(b):]
open(p, 'w').write(s)
print('rows', len(rows) - 4)
