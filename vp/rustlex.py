"""Small Rust-aware lexer + item finder used by the extractor.

It does not parse Rust.  It tokenises (comments, strings, raw strings, char
literals vs. lifetimes, identifiers, punctuation) well enough to
  * match braces / parens / brackets reliably,
  * find top-level items and `fn` items inside `impl` blocks,
  * find loop headers, closure headers and macro statements inside a body.
Everything it returns is a byte span of the *original* text, so the extracted
text is copied verbatim from the working tree.
"""
import re
from dataclasses import dataclass, field

IDENT_RE = re.compile(r'[A-Za-z_][A-Za-z0-9_]*')
NUM_RE = re.compile(r'[0-9][A-Za-z0-9_]*(\.[0-9][A-Za-z0-9_]*)?')


@dataclass
class Tok:
    kind: str  # ws, lcomment, bcomment, str, char, life, id, num, punct
    text: str
    start: int
    end: int


def lex(src: str):
    toks = []
    i, n = 0, len(src)
    while i < n:
        c = src[i]
        if c.isspace():
            j = i
            while j < n and src[j].isspace():
                j += 1
            toks.append(Tok('ws', src[i:j], i, j)); i = j; continue
        if src.startswith('//', i):
            j = src.find('\n', i)
            j = n if j < 0 else j
            toks.append(Tok('lcomment', src[i:j], i, j)); i = j; continue
        if src.startswith('/*', i):
            depth, j = 1, i + 2
            while j < n and depth:
                if src.startswith('/*', j): depth += 1; j += 2
                elif src.startswith('*/', j): depth -= 1; j += 2
                else: j += 1
            toks.append(Tok('bcomment', src[i:j], i, j)); i = j; continue
        # raw strings r"..", r#".."#, br#""#
        m = re.match(r'b?r(#*)"', src[i:i + 40])
        if m:
            hashes = m.group(1)
            close = '"' + hashes
            j = src.find(close, i + m.end())
            j = n if j < 0 else j + len(close)
            toks.append(Tok('str', src[i:j], i, j)); i = j; continue
        if c == '"' or (c == 'b' and i + 1 < n and src[i + 1] == '"'):
            j = i + (2 if c == 'b' else 1)
            while j < n and src[j] != '"':
                j += 2 if src[j] == '\\' else 1
            j += 1
            toks.append(Tok('str', src[i:j], i, j)); i = j; continue
        if c == "'" or (c == 'b' and i + 1 < n and src[i + 1] == "'"):
            k = i + (1 if c == 'b' else 0)
            # char literal: '\x', 'x' ; lifetime: 'ident not followed by '
            if k + 1 < n and src[k + 1] == '\\':
                j = src.find("'", k + 2)
                # '\'' case
                if src[k + 2] == "'":
                    j = src.find("'", k + 3)
                j += 1
                toks.append(Tok('char', src[i:j], i, j)); i = j; continue
            if k + 2 < n and src[k + 2] == "'":
                toks.append(Tok('char', src[i:k + 3], i, k + 3)); i = k + 3; continue
            m2 = IDENT_RE.match(src, k + 1)
            if m2:
                toks.append(Tok('life', src[i:m2.end()], i, m2.end())); i = m2.end(); continue
            # multi-byte char literal like '\u{..}' handled above; fallthrough:
            j = src.find("'", k + 1) + 1
            toks.append(Tok('char', src[i:j], i, j)); i = j; continue
        m = IDENT_RE.match(src, i)
        if m:
            toks.append(Tok('id', m.group(0), i, m.end())); i = m.end(); continue
        m = NUM_RE.match(src, i)
        if m:
            # don't swallow `0..n` as a float
            t = m.group(0)
            if '.' in t and src.startswith('..', i + t.index('.')):
                t = t[:t.index('.')]
            toks.append(Tok('num', t, i, i + len(t))); i += len(t); continue
        toks.append(Tok('punct', c, i, i + 1)); i += 1
    return toks


OPEN = {'(': ')', '[': ']', '{': '}'}
CLOSE = {v: k for k, v in OPEN.items()}


def code_toks(toks):
    return [t for t in toks if t.kind not in ('ws', 'lcomment', 'bcomment')]


def match_close(ct, idx):
    """ct: code tokens; idx: index of an opening bracket; returns index of its close."""
    depth = 0
    for j in range(idx, len(ct)):
        t = ct[j]
        if t.kind == 'punct':
            if t.text in OPEN: depth += 1
            elif t.text in CLOSE:
                depth -= 1
                if depth == 0:
                    return j
    raise ValueError('unbalanced bracket at byte %d' % ct[idx].start)


@dataclass
class Item:
    kind: str          # struct enum fn impl type const trait mod static
    name: str
    start: int         # byte start (including leading attrs / doc comments)
    decl_start: int    # byte start of the keyword / visibility
    end: int           # byte end (after closing brace / semicolon)
    body_open: int = -1   # byte offset of '{' of body (fn/impl/mod), -1 if none
    header: str = ''      # for impl: text between `impl` and `{`
    self_type: str = ''   # for impl
    trait_name: str = ''  # for impl
    children: list = field(default_factory=list)
    cfg_test: bool = False


ITEM_KW = {'struct', 'enum', 'fn', 'impl', 'type', 'const', 'trait', 'mod', 'static', 'union', 'use', 'macro_rules'}
QUALS = {'pub', 'async', 'unsafe', 'extern', 'default', 'const'}


def _attr_start(src, toks_all, pos):
    """Walk backwards from byte pos over attributes and doc comments; return new start."""
    # find index of token starting at pos
    idx = None
    for k, t in enumerate(toks_all):
        if t.start == pos:
            idx = k; break
    if idx is None:
        return pos
    k = idx - 1
    start = pos
    while k >= 0:
        t = toks_all[k]
        if t.kind == 'ws':
            k -= 1; continue
        if t.kind == 'lcomment' and t.text.startswith('///'):
            start = t.start; k -= 1; continue
        if t.kind == 'punct' and t.text == ']':
            # walk back to matching '[' and preceding '#'
            depth = 0
            j = k
            while j >= 0:
                tj = toks_all[j]
                if tj.kind == 'punct' and tj.text == ']': depth += 1
                if tj.kind == 'punct' and tj.text == '[':
                    depth -= 1
                    if depth == 0: break
                j -= 1
            j -= 1
            while j >= 0 and toks_all[j].kind == 'ws': j -= 1
            if j >= 0 and toks_all[j].text == '!':
                j -= 1
            if j >= 0 and toks_all[j].kind == 'punct' and toks_all[j].text == '#':
                start = toks_all[j].start; k = j - 1; continue
            break
        break
    return start


def parse_items(src, toks_all=None, ct=None, lo=0, hi=None):
    """Find items among code tokens ct[lo:hi] at nesting depth 0 of that range."""
    if toks_all is None:
        toks_all = lex(src)
    if ct is None:
        ct = code_toks(toks_all)
    if hi is None:
        hi = len(ct)
    items = []
    i = lo
    while i < hi:
        t = ct[i]
        if t.kind == 'punct' and t.text in OPEN:
            i = match_close(ct, i) + 1; continue
        if t.kind == 'punct' and t.text == '#':
            # attribute: skip [ ... ]
            j = i + 1
            if j < hi and ct[j].text == '!': j += 1
            if j < hi and ct[j].text == '[':
                i = match_close(ct, j) + 1; continue
        if t.kind == 'id' and (t.text in ITEM_KW or t.text in QUALS):
            decl = i
            j = i
            # skip qualifiers
            while j < hi and ct[j].kind == 'id' and ct[j].text in QUALS and not (
                    ct[j].text == 'const' and j + 1 < hi and ct[j + 1].kind == 'id' and ct[j + 1].text not in ITEM_KW and ct[j+1].text not in QUALS):
                j += 1
                if j < hi and ct[j].text == '(' and ct[j - 1].text == 'pub':
                    j = match_close(ct, j) + 1
                if j < hi and ct[j].kind == 'str' and ct[j - 1].text == 'extern':
                    j += 1
            if j >= hi or ct[j].kind != 'id' or ct[j].text not in ITEM_KW:
                i += 1; continue
            kw = ct[j].text
            it = Item(kind=kw, name='', start=0, decl_start=ct[decl].start, end=0)
            it.start = _attr_start(src, toks_all, ct[decl].start)
            attr_text = src[it.start:ct[decl].start]
            # doc comments may quote `#[cfg(test)]` (e.g. shim sync_dir): only real attribute text counts
            it.cfg_test = 'cfg(test)' in '\n'.join(l for l in attr_text.split('\n') if not l.lstrip().startswith('//'))
            if kw == 'impl':
                # header up to body '{'
                k = j + 1
                while ct[k].text != '{' or ct[k].kind != 'punct':
                    if ct[k].kind == 'punct' and ct[k].text in ('(', '['):
                        k = match_close(ct, k)
                    k += 1
                it.header = src[ct[j].end:ct[k].start].strip()
                hdr = ct[j + 1:k]
                # strip where-clause
                names = []
                for_idx = None
                angle = 0
                for q, ht in enumerate(hdr):
                    if ht.kind == 'punct' and ht.text == '<': angle += 1
                    if ht.kind == 'punct' and ht.text == '>': angle -= 1
                    if ht.kind == 'id' and ht.text == 'where' and angle == 0:
                        hdr = hdr[:q]; break
                angle = 0
                for q, ht in enumerate(hdr):
                    if ht.kind == 'punct' and ht.text == '<': angle += 1
                    if ht.kind == 'punct' and ht.text == '>' and not (q > 0 and hdr[q-1].text == '-'): angle -= 1
                    if ht.kind == 'id' and ht.text == 'for' and angle == 0:
                        for_idx = q
                def last_path_ident(tl):
                    angle = 0; name = ''
                    for ht in tl:
                        if ht.kind == 'punct' and ht.text == '<': angle += 1
                        elif ht.kind == 'punct' and ht.text == '>': angle -= 1
                        elif ht.kind == 'id' and angle == 0 and ht.text not in ('dyn', 'mut', 'const'):
                            name = ht.text
                    return name
                # skip leading generics of impl<...>
                hs = 0
                if hdr and hdr[0].text == '<':
                    angle = 0
                    for q, ht in enumerate(hdr):
                        if ht.text == '<': angle += 1
                        if ht.text == '>':
                            angle -= 1
                            if angle == 0:
                                hs = q + 1; break
                if for_idx is not None:
                    it.trait_name = last_path_ident(hdr[hs:for_idx])
                    it.self_type = last_path_ident(hdr[for_idx + 1:])
                else:
                    it.self_type = last_path_ident(hdr[hs:])
                it.name = it.self_type
                close = match_close(ct, k)
                it.body_open = ct[k].start
                it.end = ct[close].end
                it.children = parse_items(src, toks_all, ct, k + 1, close)
                items.append(it)
                i = close + 1; continue
            if kw in ('use',):
                k = j
                while ct[k].text != ';': k += 1
                it.name = 'use'; it.end = ct[k].end
                items.append(it); i = k + 1; continue
            if kw == 'macro_rules':
                k = j
                while ct[k].kind != 'punct' or ct[k].text not in OPEN: k += 1
                close = match_close(ct, k)
                it.name = 'macro_rules'; it.end = ct[close].end
                items.append(it); i = close + 1; continue
            # named items
            if j + 1 < hi and ct[j + 1].kind == 'id':
                it.name = ct[j + 1].text
            k = j + 1
            # find body '{' or ';' at depth 0 (parens skipped)
            while k < hi:
                tk = ct[k]
                if tk.kind == 'punct' and tk.text in ('(', '['):
                    k = match_close(ct, k) + 1; continue
                if tk.kind == 'punct' and tk.text == '{':
                    break
                if tk.kind == 'punct' and tk.text == ';':
                    break
                if kw in ('const', 'static', 'type') and tk.kind == 'punct' and tk.text == '=':
                    # initialiser may contain braces: scan to ';' at depth 0
                    while k < hi and not (ct[k].kind == 'punct' and ct[k].text == ';'):
                        if ct[k].kind == 'punct' and ct[k].text in OPEN:
                            k = match_close(ct, k)
                        k += 1
                    break
                k += 1
            if k >= hi:
                i += 1; continue
            if ct[k].text == ';':
                it.end = ct[k].end
                # tuple struct `struct X(..);`
                items.append(it); i = k + 1; continue
            close = match_close(ct, k)
            it.body_open = ct[k].start
            it.end = ct[close].end
            if kw in ('mod', 'trait'):
                it.children = parse_items(src, toks_all, ct, k + 1, close)
            items.append(it)
            i = close + 1; continue
        i += 1
    return items


def line_of(src, pos):
    return src.count('\n', 0, pos) + 1
