#!/usr/bin/env python3
"""Print a markdown summary of what is under contract (from the sidecars and the lock)."""
import glob, os, re, sys
VERIF = os.path.dirname(os.path.dirname(os.path.abspath(__file__)))
lock = [l.strip() for l in open(os.path.join(VERIF, 'specs', 'obligations.lock')) if l.strip() and not l.startswith('#')]
for p in sorted(glob.glob(os.path.join(VERIF, 'specs', 'units', '*.vspec'))):
    u = os.path.basename(p)[:-6]
    txt = open(p).read()
    serves = re.findall(r'^@serves (.*)$', txt, flags=re.M)
    fns = []
    for m in re.finditer(r'^@item (\S+) (fn|lift) (.+?)(?: as (\S+))?(?: \w+=\S+)*\s*$', txt, flags=re.M):
        f = m.group(1).replace('crates/', '')
        fns.append((f, m.group(3).split(' as ')[0].strip() if m.group(2) == 'fn' else f"{m.group(3).split()[0]} (lifted body)"))
    labels = sorted(set(re.findall(r'\[(C\d\d\.[A-Za-z0-9_.\-]+)(?:\|C\d\d)*\]', '\n'.join(l for l in txt.split('\n') if '//' not in l.split('[')[0]))))
    nlock = sum(1 for l in lock if l.startswith(u + '.') or l.startswith('C01.nd.' + u + '.') or l in labels)
    byfile = {}
    for f, n in fns:
        byfile.setdefault(f, []).append(n)
    print(f'**{u}** (serves {" ".join(serves)}; {len(fns)} functions/bodies, {len(labels)} labelled clauses, {nlock} locked obligations)')
    for f, ns in byfile.items():
        print(f'  - `{f}`: ' + ', '.join(f'`{n}`' for n in ns))
    print()
