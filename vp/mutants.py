#!/usr/bin/env python3
"""Self-test: apply each deliberate property-breaking edit from selftest/mutants/*.json to a scratch copy of
/repo, run the named property checks against it, and require exit 1 with a VIOLATION line.
usage: vp/mutants.py [unit-or-file-substring ...]"""
import glob, json, os, shutil, subprocess, sys, tempfile
VERIF = os.path.dirname(os.path.dirname(os.path.abspath(__file__)))
REPO = os.environ.get('VERIF_REPO', '/repo')

def main():
    pats = sys.argv[1:]
    files = sorted(glob.glob(os.path.join(VERIF, 'selftest', 'mutants', '*.json')))
    rows = []
    scratch = tempfile.mkdtemp(prefix='turmoil-verif-mut-')
    try:
        subprocess.run(['rsync', '-a', '--exclude', 'target', '--exclude', '.git', REPO + '/', scratch + '/'], check=True)
        for f in files:
            if pats and not any(p in f for p in pats):
                continue
            for m in json.load(open(f)):
                path = os.path.join(scratch, m['file'])
                orig = open(path).read()
                if orig.count(m['old']) != 1:
                    rows.append((m['id'], 'ANCHOR-LOST', '', m.get('props'))); continue
                open(path, 'w').write(orig.replace(m['old'], m['new']))
                killed_by = []
                status = 'MISSED'
                for prop in m['props']:
                    p = subprocess.run([os.path.join(VERIF, 'check'), prop], capture_output=True, text=True,
                                       env=dict(os.environ, VERIF_REPO=scratch, VERIF_NO_EVIDENCE='1', VERIF_REPLAY_DIR=os.path.join(scratch, '.verif-replays')))
                    viol = [l for l in p.stdout.split('\n') if l.startswith('VIOLATION')]
                    if p.returncode == 1 and viol:
                        status = 'KILLED'
                        for v in viol:
                            killed_by.append(v.split('replay=')[1].split()[0].split('/')[-1].replace('.json', ''))
                    elif p.returncode == 2 and status != 'KILLED':
                        status = 'UNDECIDED'
                open(path, 'w').write(orig)
                rows.append((m['id'], status, ','.join(sorted(set(killed_by))), m['props']))
                print(f"{m['id']:40s} {status:10s} {','.join(sorted(set(killed_by)))[:150]}", flush=True)
    finally:
        shutil.rmtree(scratch, ignore_errors=True)
    missed = [r for r in rows if r[1] != 'KILLED']
    print(f'{len(rows)} mutants, {len(rows)-len(missed)} killed, not killed: {[r[0] for r in missed]}')
    return 1 if missed else 0

if __name__ == '__main__':
    sys.exit(main())
