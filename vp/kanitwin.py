#!/usr/bin/env python3
"""Kani counterexample twins with replay on the real code.

A *twin* restates ONE labelled Verus clause (specs/units/*.vspec) as a `#[kani::proof]` harness over the SAME function
text: the function is extracted verbatim from $VERIF_REPO's working tree (byte span found by vp/rustlex.py through
vp/gen.py::find_item) into a scratch crate, next to a hand-written harness file (kani/harness/<spec>.rs).  Verus stays
the deciding back end; the twin exists to turn a failed obligation into a concrete input:

    extract -> cargo kani (timeout, RSS watch) -> on FAILURE decode `--concrete-playback=print` bytes into {arg: value}
            -> generate a #[test] from kani/replay/<spec>.rs with those values, append it to the REAL source file in a
               scratch copy of $VERIF_REPO, `cargo test --offline` -> the real code must fail there ("replayed").

usage:
  vp/kanitwin.py --label C16.adv.exact        run the twin of one obligation
  vp/kanitwin.py --spec adv_window            every twin of one spec (specs/kani/<name>.json)
  vp/kanitwin.py --prop C16 | --all           every twin of a property / all
  vp/kanitwin.py --list                       label -> spec, harness, backend
  vp/kanitwin.py --selftest [id-substr ...]   kani/selftest.json: pristine tree passes; each deliberate wrong edit of the
                                              real function (scratch copy) FAILS with a counterexample that replays
exit: 0 pass | 1 fail (Kani counterexample that REPLAYED on the real code) | 2 undecided (Kani error/timeout/memory,
      stale twin, lost anchor, counterexample that did not reproduce on the real code - never reported as a violation).
The last stdout line is `RESULT-JSON: {...}` (what ./check reads).

What extraction changes (R1/R2 of vp/gen.py, nothing else; every application is listed in `extraction`):
  visibility (`pub`, `pub(crate)`, `pub(super)`) stripped; attributes and doc comments dropped (derives Clone/Copy/
  PartialEq/Eq/Default/PartialOrd/Ord/Hash kept); `tracing::...!(..);` statements dropped; elements whose #[cfg] is
  false under the verified configuration dropped.  Types the function mentions but the twin does not extract are
  hand-written stand-ins in the harness file (listed under `stubs` in the spec = trusted, same role as specs/prelude).
"""
import fcntl
import glob
import hashlib
import json
import os
import re
import shutil
import signal
import subprocess
import sys
import tempfile
import time

HERE = os.path.dirname(os.path.abspath(__file__))
VERIF = os.path.dirname(HERE)
sys.path.insert(0, HERE)
import gen   # noqa  (find_item / Text / strip_common: the extractor the Verus units use)
import rustlex as rl   # noqa

SPECS = os.path.join(VERIF, 'specs', 'kani')
KANI_DIR = os.path.join(VERIF, 'kani')
CACHE = os.path.join(VERIF, '.cache')
REPLAY_TARGET = os.path.join(CACHE, 'kani-replay-target')
REPLAY_SRC = os.path.join(CACHE, 'kani-replay-src')
TIMEOUT = int(os.environ.get('VERIF_KANI_TIMEOUT', '300'))
MAX_RSS_KB = int(os.environ.get('VERIF_KANI_MAX_RSS_GB', '16')) * 1024 * 1024
REPLAY_TIMEOUT = int(os.environ.get('VERIF_KANI_REPLAY_TIMEOUT', '900'))

INT_TYPES = {'u8': (1, False), 'u16': (2, False), 'u32': (4, False), 'u64': (8, False), 'u128': (16, False), 'usize': (8, False),
             'i8': (1, True), 'i16': (2, True), 'i32': (4, True), 'i64': (8, True), 'i128': (16, True), 'isize': (8, True)}


class Undecided(Exception):
    pass


# ------------------------------------------------------------------------------------------------ specs
def load_specs():
    out = {}
    for p in sorted(glob.glob(os.path.join(SPECS, '*.json'))):
        s = json.load(open(p))
        s['_path'] = p
        out[s['name']] = s
    return out


def twin_index(specs=None):
    """label -> (spec, twin)"""
    specs = specs or load_specs()
    idx = {}
    for s in specs.values():
        for t in s['twins']:
            idx[t['label']] = (s, t)
    return idx


def norm(s):
    return re.sub(r'\s+', ' ', s).strip().rstrip(',').strip()


def vspec_clause(unit, label):
    """Text of the labelled clause in specs/units/<unit>.vspec (up to the next label / directive / block end)."""
    path = os.path.join(VERIF, 'specs', 'units', unit + '.vspec')
    if not os.path.exists(path):
        return None
    text = open(path).read()
    m = None
    for mm in re.finditer(r'\[' + re.escape(label) + r'(?:\|C\d\d)*\]', text):
        if '//' not in text[text.rfind('\n', 0, mm.start()) + 1:mm.start()]:      # a mention inside a `//` comment is not the clause
            m = mm; break
    if not m:
        return None
    rest = text[m.end():]
    stop = len(rest)
    for pat in (r'\n@', r'\[(?:C\d\d|[a-z]+)\.[A-Za-z0-9_.\-]+(?:\|C\d\d)*\]', r'\n\s*(?:ensures|requires|invariant|decreases)\b', r'\n\{', r'\n\s*\}', r'\n\s*\);'):
        mm = re.search(pat, rest)
        if mm:
            stop = min(stop, mm.start())
    return norm(rest[:stop])


def check_fresh(spec, twin, harness_text):
    """The twin must restate the clause the Verus unit carries today: the spec quotes it, the harness file names it."""
    if twin.get('auto_label'):
        # `<unit>.<fn>.body`: generated for every extracted fn of the unit, there is no clause text to compare
        fn = twin['label'].split('.')[1]
        vs = open(os.path.join(VERIF, 'specs', 'units', spec['unit'] + '.vspec')).read()
        if not re.search(r'^@item \S+ (?:fn|lift) (?:\S*::)?' + re.escape(fn) + r'\b', vs, flags=re.M):
            raise Undecided(f"stale twin: {fn} is no longer an @item of specs/units/{spec['unit']}.vspec")
        if f"[{twin['label']}]" not in harness_text:
            raise Undecided(f"harness file does not quote [{twin['label']}]")
        return
    cur = vspec_clause(spec['unit'], twin['label'])
    if cur is None:
        raise Undecided(f"stale twin: label {twin['label']} not found in specs/units/{spec['unit']}.vspec")
    if norm(twin['clause']) != cur:
        raise Undecided(f"stale twin: clause of {twin['label']} in {spec['unit']}.vspec is now `{cur}`, the twin restates `{norm(twin['clause'])}`")
    if f"[{twin['label']}]" not in harness_text:
        raise Undecided(f"harness file does not quote [{twin['label']}]")


# ------------------------------------------------------------------------------------------------ extraction
def extract_items(spec, repo):
    """Verbatim text of every item of spec['extract'] from the working tree `repo`.  Returns ({id: text}, log)."""
    gen.REPO = repo
    gen._file_cache.clear()
    texts, log = {}, []
    for e in spec['extract']:
        try:
            item, imp, src = gen.find_item(e['file'], 'fn' if e['kind'] == 'closure_body' else e['kind'], e['sel'])
        except gen.SpecError as ex:
            raise Undecided(str(ex))
        span = (item.start, item.end)
        if e['kind'] == 'closure_body':
            span = closure_body_span(src, item, e)
        tx = gen.Text(src, span[0], span[1], e['file'])
        gen.strip_common(tx, keep_vis=bool(e.get('keep_vis')))   # keep_vis: `pub(crate)` etc. stay (items spliced into a nested mod)
        vis = [src[s:t].strip() for s, t, r in tx.edits if r == '' and src[s:t].strip().startswith('pub')]
        docs = sum(1 for s, t, r in tx.edits if r == '' and src[s:t].lstrip().startswith('//'))
        body = tx.render().strip('\n')
        raw = src[span[0]:span[1]]
        texts[e.get('id', e['sel'])] = body
        log.append({'id': e.get('id', e['sel']), 'file': e['file'], 'sel': e['sel'], 'kind': e['kind'],
                    'lines': f"{rl.line_of(src, max(span[0], item.decl_start))}-{rl.line_of(src, span[1])}",
                    'sha256_of_source_span': hashlib.sha256(raw.encode()).hexdigest()[:16],
                    'dropped': {'visibility': vis, 'doc_comment_lines': docs,
                                'other': [f"{d['rule']} {d['at']}: {d['text'][:80]} ({d['note']})" for d in tx.log]}})
    return texts, log


def closure_body_span(src, item, e):
    """kind `closure_body` (the R5 lift of vp/gen.py, reduced to what a twin needs): byte span of the `{ ... }` body of the
    nth closure passed to `.CALL(` / `CALL(` inside fn `sel`  (e.g. call=filter_map, call=or_insert_with, nth=1).  The
    harness file supplies the fn header the block is spliced under; a captured `self` becomes the method's receiver."""
    toks = rl.lex(src[item.body_open:item.end])
    ct = rl.code_toks(toks)
    call = e['call'].split('::')
    want, seen = int(e.get('nth', 1)), 0
    for i in range(len(ct) - len(call) - 2):
        names = [ct[i + 3 * k].text for k in range(len(call))] if len(call) > 1 else [ct[i].text]
        if len(call) > 1:
            ok = all(ct[i + 3 * k].kind == 'id' for k in range(len(call))) and names == call and \
                all(ct[i + 3 * k + 1].text == ':' and ct[i + 3 * k + 2].text == ':' for k in range(len(call) - 1))
            j = i + 3 * (len(call) - 1) + 1
        else:
            ok = ct[i].kind == 'id' and ct[i].text == call[0]
            j = i + 1
        if not ok or ct[j].text != '(':
            continue
        k = j + 1
        if ct[k].text == 'move':
            k += 1
        if ct[k].text == '|' and ct[k + 1].text == '|':
            k += 2                              # `||`
        elif ct[k].text == '|':
            k += 1
            while ct[k].text != '|':
                k += 1
            k += 1
        else:
            continue
        if ct[k].text != '{':
            continue
        seen += 1
        if seen == want:
            close = rl.match_close(ct, k)
            return item.body_open + ct[k].start, item.body_open + ct[close].end
    raise Undecided(f"LOST-ANCHOR: {e['file']}: closure {want} of `{e['call']}(` in fn {e['sel']} not found ({seen} candidates)")


def build_crate(spec, repo, work):
    """Scratch crate = kani/template + harness file with the extracted text spliced at its `//@@EXTRACT id@@` markers."""
    crate = os.path.join(work, 'twin')
    if os.path.exists(crate):
        shutil.rmtree(crate)
    shutil.copytree(os.path.join(KANI_DIR, 'template'), crate)
    texts, log = extract_items(spec, repo)
    h = open(os.path.join(VERIF, spec['harness'])).read()
    for k, v in texts.items():
        marker = f'//@@EXTRACT {k}@@'
        if h.count(marker) != 1:
            raise Undecided(f'harness {spec["harness"]}: marker {marker} occurs {h.count(marker)} times')
        # the extracted bytes go in unchanged (no re-indentation: multi-line string literals would change)
        block = f'// ---- extracted verbatim: {k}\n' + v + f'\n// ---- end of extracted text: {k}'
        h = h.replace(marker, block)
    left = re.findall(r'//@@EXTRACT [^@]*@@', h)
    if left:
        raise Undecided(f'harness {spec["harness"]}: markers without extract entry: {left}')
    os.makedirs(os.path.join(crate, 'src'), exist_ok=True)
    open(os.path.join(crate, 'src', 'lib.rs'), 'w').write(h)
    return crate, h, log


# ------------------------------------------------------------------------------------------------ running Kani
def tree_rss_kb(pid):
    """Sum of VmRSS over the process group of pid."""
    total = 0
    try:
        pgid = os.getpgid(pid)
    except OSError:
        return 0
    for d in os.listdir('/proc'):
        if not d.isdigit():
            continue
        try:
            if os.getpgid(int(d)) != pgid:
                continue
            for ln in open(f'/proc/{d}/status'):
                if ln.startswith('VmRSS:'):
                    total += int(ln.split()[1])
        except (OSError, ValueError):
            continue
    return total


def run_watched(cmd, cwd, env, timeout, max_rss_kb=None):
    """Run cmd in its own process group; kill the group on timeout or when its RSS exceeds the cap."""
    t0 = time.time()
    out_f = tempfile.TemporaryFile(mode='w+')
    p = subprocess.Popen(cmd, cwd=cwd, env=env, stdout=out_f, stderr=subprocess.STDOUT, start_new_session=True)
    why, peak = None, 0
    while p.poll() is None:
        time.sleep(0.25)
        if max_rss_kb:
            rss = tree_rss_kb(p.pid)
            peak = max(peak, rss)
            if rss > max_rss_kb:
                why = f'memory: RSS {rss // 1024} MB above the cap of {max_rss_kb // 1024} MB'
        if time.time() - t0 > timeout:
            why = f'timeout after {timeout} s'
        if why:
            try:
                os.killpg(p.pid, signal.SIGKILL)
            except OSError:
                pass
            p.wait()
            break
    out_f.seek(0)
    out = out_f.read()
    out_f.close()
    return p.returncode, out, round(time.time() - t0, 2), why, peak


def kani_cmd(spec, twin, harness=None):
    cmd = ['cargo', 'kani', '--harness', 'h::' + (harness or twin['harness']), '--exact', '-Z', 'concrete-playback',
           '--concrete-playback=print', '--output-format=terse']
    for z in spec.get('kani_z', []):
        cmd += ['-Z', z]
    b = twin.get('unwind', spec.get('unwind'))
    if b:
        cmd += ['--default-unwind', str(b)]
    cmd += spec.get('kani_args', [])
    return cmd


def decode_value(ty, bs):
    if ty == 'bool':
        return bool(bs[0]), 'true' if bs[0] else 'false'
    if ty in INT_TYPES:
        n, signed = INT_TYPES[ty]
        if len(bs) != n:
            raise Undecided(f'counterexample decode: {ty} expects {n} bytes, got {len(bs)}')
        v = int.from_bytes(bytes(bs), 'little', signed=signed)
        return v, (f'{v}{ty}' if v >= 0 else f'({v}{ty})')
    if ty == 'f64bits':   # harness does f64::from_bits(kani::any::<u64>()); the JSON value keeps the exact bit pattern
        import struct
        v = int.from_bytes(bytes(bs), 'little')
        return {'bits': v, 'f64': repr(struct.unpack('<d', bytes(bs))[0])}, f'f64::from_bits({v}u64)'
    raise Undecided(f'counterexample decode: unsupported input type {ty}')


def parse_playback(out, twin, guards=None):
    """--concrete-playback=print -> {name: value}.  One byte vector per kani::any() of a primitive, in call order; the
    harness draws its named inputs first and in the order of twin['inputs']."""
    blocks = re.findall(r'```\n(.*?)```', out, flags=re.S)
    if not blocks:
        return None, None, None
    guards = [re.compile(g) for g in twin.get('guard_panics', [])] if guards is None else guards
    blocks = [b for b in blocks if not any(g.search(b) for g in guards)] or blocks
    pick = None
    for b in blocks:
        if twin['label'] in b:
            pick = b; break
    pick = pick or blocks[0]
    vecs = [[int(x) for x in m.group(1).split(',') if x.strip()] for m in re.finditer(r'^\s*vec!\[([0-9,\s]*)\],?\s*$', pick, flags=re.M)]
    ins = twin['inputs']
    if len(vecs) < len(ins):
        raise Undecided(f'counterexample decode: {len(vecs)} concrete values for {len(ins)} declared inputs')
    vals, lits = {}, {}
    for (name, ty), bs in zip(ins, vecs):
        vals[name], lits[name] = decode_value(ty, bs)
        if ty == 'f64bits':
            lits[name + '_raw'] = f"{vals[name]['bits']}u64"   # @name_raw@ = the bit pattern, @name@ = the f64 expression
    return vals, lits, pick


def run_kani(spec, twin, crate, harness=None):
    env = dict(os.environ, CARGO_NET_OFFLINE='true', CARGO_TARGET_DIR=os.path.join(os.path.dirname(crate), 'kani-target'))
    env.pop('RUSTFLAGS', None)
    cmd = kani_cmd(spec, twin, harness)
    rc, out, wall, why, peak = run_watched(cmd, crate, env, twin.get('timeout', spec.get('timeout', TIMEOUT)), MAX_RSS_KB)
    res = {'cmd': 'CARGO_NET_OFFLINE=true ' + ' '.join(cmd), 'kani_exit': rc, 'kani_time_s': wall, 'peak_rss_mb': peak // 1024}
    m = re.search(r'Verification Time: ([0-9.]+)s', out)
    if m:
        res['cbmc_time_s'] = round(float(m.group(1)), 2)
    if why:
        res.update(kani='undecided', why=f'kani {why}', tail=out[-1500:])
        return res
    failed = re.findall(r'Failed Checks: (.*)', out)
    # Guard panics (twin['guard_panics'], regexes over the check description): an `assert!`/`panic!` that the Verus unit reads
    # as a guard (prelude idiom_panic_unless: "returns only if the condition holds").  Kani reports such a panic as a failed
    # check; for the twin it means "the function did not return on this input", which violates no clause.
    guards = [re.compile(g) for g in twin.get('guard_panics', spec.get('guard_panics', []))]
    res['guard_panics_seen'] = [f for f in failed if any(g.search(f) for g in guards)][:20]
    failed = [f for f in failed if not any(g.search(f) for g in guards)]
    res['failed_checks'] = failed[:20]
    if 'VERIFICATION:- SUCCESSFUL' in out and rc == 0:
        res['kani'] = 'pass'
    elif 'VERIFICATION:- FAILED' in out and not failed and res['guard_panics_seen']:
        res['kani'] = 'pass'          # every failed check is a declared guard panic
    elif 'VERIFICATION:- FAILED' in out:
        unwind_only = failed and all('unwinding assertion' in f for f in failed)
        if unwind_only:
            res.update(kani='undecided', why='only unwinding assertions failed: the declared bound is too small for this input space')
        else:
            res['kani'] = 'fail'
            res['_out'] = out
    else:
        res.update(kani='undecided', why='kani did not reach a verdict (build error or tool failure)', tail=out[-2500:])
    return res


# ------------------------------------------------------------------------------------------------ replay on the real code
def replay_section(spec, twin):
    t = open(os.path.join(VERIF, spec['replay']['template'])).read()
    parts = re.split(r'^//@@REPLAY (\w+)@@[^\n]*\n', t, flags=re.M)
    common = parts[0]
    secs = {parts[i]: parts[i + 1] for i in range(1, len(parts), 2)}
    if twin['harness'] not in secs:
        raise Undecided(f"replay template {spec['replay']['template']} has no section for {twin['harness']}")
    return common, secs[twin['harness']]


def replay(spec, twin, lits, repo):
    """Append a #[test] calling the REAL function with the counterexample to the real source file in a scratch copy of
    the working tree; the real code `replays` the counterexample iff that test fails after its set-up completed."""
    common, sec = replay_section(spec, twin)
    body = common + sec
    for k, v in lits.items():
        body = body.replace(f'@{k}@', v)
    left = re.findall(r'@[a-z_][a-z0-9_]*@', body)
    if left:
        raise Undecided(f'replay template: unfilled placeholders {sorted(set(left))}')
    modname = 'kani_replay_' + re.sub(r'\W', '_', spec['name'])
    test_mod = (f'\n\n// ---- appended by vp/kanitwin.py (scratch copy only): replay of the Kani counterexample for [{twin["label"]}]\n'
                f'#[cfg(test)]\n#[allow(unused_imports, unused_variables, unused_mut, dead_code)]\nmod {modname} {{\n{body}\n}}\n')
    os.makedirs(CACHE, exist_ok=True)
    lock = open(os.path.join(CACHE, 'kani-replay.lock'), 'w')
    fcntl.flock(lock, fcntl.LOCK_EX)       # one replay build at a time: stable scratch path => incremental rebuilds
    try:
        os.makedirs(REPLAY_SRC, exist_ok=True)
        # content-based sync WITHOUT preserving mtimes (-rlpc, no -t): a file whose bytes differ from the cached copy gets
        # mtime = now, everything else keeps its mtime.  cargo's freshness check is mtime-based: with `rsync -a` a tree
        # edited before the previous replay build (older mtime, different content) was taken for fresh and the replay
        # ran the previous tree's code; rsync's size+mtime quick check also skipped equal-sized edits.
        subprocess.run(['rsync', '-rlpc', '--delete', '--exclude', 'target', '--exclude', '.git', '--exclude', '.verif-replays',
                        repo.rstrip('/') + '/', REPLAY_SRC + '/'], check=True)
        tgt = os.path.join(REPLAY_SRC, spec['replay']['append_to'])
        orig = open(tgt).read()
        open(tgt, 'w').write(orig + test_mod)
        test_path = f'{modname}::{twin["harness"]}'
        cmd = ['cargo', 'test', '--offline', '-p', spec['package'], '--lib']
        if spec['replay'].get('features'):
            cmd += ['--features', ','.join(spec['replay']['features'])]
        cmd += ['--', test_path, '--nocapture', '--test-threads=1']   # substring filter: the module path prefix depends on append_to
        env = dict(os.environ, CARGO_TARGET_DIR=REPLAY_TARGET, CARGO_NET_OFFLINE='true', RUST_BACKTRACE='0')
        env.pop('RUSTFLAGS', None)
        rc, out, wall, why, _ = run_watched(cmd, REPLAY_SRC, env, REPLAY_TIMEOUT, MAX_RSS_KB)
        try:
            open(tgt, 'w').write(orig)
        except OSError:
            pass
    finally:
        fcntl.flock(lock, fcntl.LOCK_UN)
        lock.close()
    # --nocapture interleaves the test's own output with the `test NAME ... ` line: read the summary instead
    one_ran = re.search(r'^running 1 test$', out, flags=re.M) is not None
    ran_failed = one_ran and re.search(r'^test result: FAILED\. 0 passed; 1 failed', out, flags=re.M) is not None \
        and re.search(r'^    \S*' + re.escape(test_path) + r'$', out, flags=re.M) is not None
    ran_ok = one_ran and re.search(r'^test result: ok\. 1 passed; 0 failed', out, flags=re.M) is not None
    setup_done = 'REPLAY-SETUP-DONE' in out
    observed = [l for l in out.split('\n') if l.startswith('REPLAY-') or 'panicked at' in l or l.startswith('assertion') or 'REPLAY-VIOLATION' in l]
    r = {'replay_cmd': f'(in a scratch copy of the working tree, test appended to {spec["replay"]["append_to"]}) ' + ' '.join(cmd),
         'replay_time_s': wall, 'replay_test': test_mod.strip()}
    guards = [re.compile(g) for g in twin.get('guard_panics', spec.get('guard_panics', []))]
    guard_hit = [l for l in out.split('\n') if any(g.search(l) for g in guards)] if 'REPLAY-VIOLATION' not in out else []
    if why:
        r.update(replayed=False, replay_output=f'replay {why}\n' + out[-1500:])
    elif ran_failed and setup_done and guard_hit:
        r.update(replayed=False, replay_output='the real code stopped at a declared guard panic (it did not return, no clause is violated): ' + guard_hit[0][:300])
    elif ran_failed and setup_done:
        r.update(replayed=True, replay_output='\n'.join(observed)[-3000:])
    elif ran_ok:
        r.update(replayed=False, replay_output='the real code SATISFIES the clause on this input (counterexample of the twin does not reproduce)\n' + '\n'.join(observed)[-2000:])
    else:
        r.update(replayed=False, replay_output='replay test did not run to a verdict (build error or set-up failure)\n' + out[-3000:])
    return r


# ------------------------------------------------------------------------------------------------ one twin
def run_twin(spec, twin, repo, work, crate_cache):
    t0 = time.time()
    res = {'label': twin['label'], 'property': spec['property'], 'spec': spec['name'], 'harness': 'h::' + twin['harness'],
           'backend': twin.get('backend', spec.get('backend', 'kani-complete')), 'status': 'undecided', 'failing_input': None,
           'replayed': False, 'replay_output': '', 'kani_time_s': 0.0, 'cmd': '', 'functions': [e['sel'] for e in spec['extract'] if e['kind'] == 'fn'],
           'clause': twin['clause'], 'trusted_stubs': spec.get('stubs', [])}
    try:
        if spec['name'] not in crate_cache:
            crate_cache[spec['name']] = build_crate(spec, repo, work)
        crate, htext, xlog = crate_cache[spec['name']]
        res['extraction'] = xlog
        check_fresh(spec, twin, htext)
        k = run_kani(spec, twin, crate)
        out = k.pop('_out', '')
        res.update({a: b for a, b in k.items() if a not in ('kani',)})
        if k['kani'] == 'pass':
            res['status'] = 'pass'
        elif k['kani'] == 'undecided':
            res['why'] = k.get('why', '')
        else:
            # Witness harness (optional): the same assertion over the sub-domain of inputs the replay test can execute
            # (e.g. a buffer length that can be allocated).  It only ever supplies the counterexample; the verdict
            # `pass` comes from the full-domain harness alone.
            wl = twin.get('witness_harness') or []
            for wh in ([wl] if isinstance(wl, str) else wl):      # a list is tried in order (cheapest sub-domain first)
                kw = run_kani(spec, twin, crate, wh)
                res.setdefault('witness', []).append({'harness': 'h::' + wh, 'kani': kw['kani'], 'kani_time_s': kw['kani_time_s'], 'cmd': kw['cmd']})
                res['kani_time_s'] = round(res['kani_time_s'] + kw['kani_time_s'], 2)
                if kw['kani'] == 'fail':
                    out = kw['_out']
                    break
            vals, lits, block = parse_playback(out, twin, [re.compile(g) for g in twin.get('guard_panics', spec.get('guard_panics', []))])
            if vals is None:
                res['why'] = 'Kani reported FAILED but printed no concrete playback (no counterexample to replay)'
                res['tail'] = out[-2000:]
            else:
                res['failing_input'] = vals
                res['failing_input_rust'] = lits
                res['kani_playback'] = block.strip()
                rp = replay(spec, twin, lits, repo)
                res.update(rp)
                res['replayed_on_real_code'] = rp['replayed']
                if rp['replayed']:
                    res['status'] = 'fail'
                else:
                    # a counterexample that does not reproduce on the real code is never a violation
                    res['why'] = 'Kani counterexample did not reproduce on the real code'
    except Undecided as e:
        res['why'] = str(e)
    except subprocess.CalledProcessError as e:
        res['why'] = f'helper command failed: {e}'
    res['wall_s'] = round(time.time() - t0, 2)
    return res


def run_many(pairs, repo):
    work = tempfile.mkdtemp(prefix=f'turmoil-verif-kani-{os.getpid()}-')
    results = []
    try:
        cache = {}
        for spec, twin in pairs:
            r = run_twin(spec, twin, repo, work, cache)
            results.append(r)
            inp = f" input={json.dumps(r['failing_input'])} replayed={r['replayed']}" if r['failing_input'] else ''
            print(f"kani-twin {r['label']:28s} {r['status']:9s} {r['backend']:18s} kani={r['kani_time_s']}s{inp}"
                  + (f"  ({r.get('why')})" if r['status'] == 'undecided' else ''), flush=True)
    finally:
        shutil.rmtree(work, ignore_errors=True)
    return results


def summarize(results):
    st = 'pass'
    if any(r['status'] == 'fail' for r in results):
        st = 'fail'
    elif any(r['status'] == 'undecided' for r in results) or not results:
        st = 'undecided'
    first = next((r for r in results if r['status'] == 'fail'), None)
    if len(results) == 1:
        top = dict(results[0])
    else:
        top = {'status': st, 'twins': results, 'failing_input': first['failing_input'] if first else None,
               'replayed_on_real_code': bool(first), 'label': first['label'] if first else None}
    return st, top


# ------------------------------------------------------------------------------------------------ self-test
def selftest(pats):
    """kani/selftest.json: [{id, spec, label, file, old, new, expect_input?}].  For every spec named there: all twins pass
    on the pristine tree; for every entry: the edit (scratch copy of the tree) makes the twin of `label` FAIL with a
    counterexample that replays on the edited real code."""
    entries = json.load(open(os.path.join(KANI_DIR, 'selftest.json')))
    if pats:
        entries = [e for e in entries if any(p in e['id'] or p in e['spec'] for p in pats)]
    specs = load_specs()
    idx = twin_index(specs)
    repo = os.environ.get('VERIF_REPO', '/repo')
    rows, bad = [], 0
    # 1. pristine tree
    names = sorted({e['spec'] for e in entries})
    pristine = run_many([(specs[n], t) for n in names for t in specs[n]['twins']], repo)
    for r in pristine:
        ok = r['status'] == 'pass'
        bad += 0 if ok else 1
        rows.append({'id': 'pristine:' + r['label'], 'ok': ok, 'status': r['status'], 'kani_time_s': r['kani_time_s'], 'backend': r['backend'], 'why': r.get('why', '')})
    # 2. deliberate wrong edits
    for e in entries:
        scratch = tempfile.mkdtemp(prefix=f'turmoil-verif-kanimut-{os.getpid()}-')
        try:
            subprocess.run(['rsync', '-a', '--exclude', 'target', '--exclude', '.git', repo.rstrip('/') + '/', scratch + '/'], check=True)
            lost = False
            if e.get('patch'):      # a unified diff relative to the tree root (e.g. an independently seeded change under seeded/)
                pr = subprocess.run(['patch', '-p1', '-s', '-d', scratch, '-i', os.path.join(VERIF, e['patch'])], capture_output=True, text=True)
                lost = pr.returncode != 0
            for ed in ([e] if 'old' in e else []) + e.get('edits', []):     # exact, unique text replacements
                path = os.path.join(scratch, ed.get('file', e.get('file')))
                src = open(path).read()
                if src.count(ed['old']) != 1:
                    lost = True; break
                open(path, 'w').write(src.replace(ed['old'], ed['new']))
            if lost:
                rows.append({'id': e['id'], 'ok': False, 'status': 'ANCHOR-LOST'}); bad += 1
                print(f"selftest {e['id']:34s} ANCHOR-LOST", flush=True)
                continue
            spec, twin = idx[e['label']]
            r = run_many([(spec, twin)], scratch)[0]
            if e.get('expect_status') == 'undecided':
                # an edit Kani refutes but whose counterexample the replay test cannot observe on the real code:
                # the only acceptable outcome is `undecided` with the input recorded - never a violation
                ok = r['status'] == 'undecided' and bool(r['failing_input']) and not r['replayed']
            else:
                ok = r['status'] == 'fail' and r['replayed']
            if ok and e.get('expect'):
                ok = all(eval(c, {}, dict(r['failing_input'])) for c in e['expect'])   # trusted file of this repo
            bad += 0 if ok else 1
            rows.append({'id': e['id'], 'ok': ok, 'status': r['status'], 'label': e['label'], 'failing_input': r['failing_input'],
                         'replayed': r['replayed'], 'replay_output': r.get('replay_output', '')[:600], 'kani_time_s': r['kani_time_s'],
                         'why': r.get('why', '')})
            print(f"selftest {e['id']:34s} {'OK  ' if ok else 'BAD '} {r['status']} input={json.dumps(r['failing_input'])} replayed={r['replayed']}", flush=True)
        finally:
            shutil.rmtree(scratch, ignore_errors=True)
    print(f"selftest: {len(rows)} rows, {bad} bad")
    print('RESULT-JSON: ' + json.dumps({'status': 'pass' if not bad else 'fail', 'rows': rows}))
    return 0 if not bad else 1


# ------------------------------------------------------------------------------------------------ cli
def main():
    a = sys.argv[1:]
    if not a or a[0] in ('-h', '--help'):
        print(__doc__); return 2
    if a[0] == '--selftest':
        return selftest(a[1:])
    specs = load_specs()
    idx = twin_index(specs)
    if a[0] == '--list':
        for l, (s, t) in sorted(idx.items()):
            print(f"{l:30s} spec={s['name']:16s} harness=h::{t['harness']:22s} {t.get('backend', s.get('backend'))}  fn={','.join(e['sel'] for e in s['extract'] if e['kind']=='fn')}")
        return 0
    repo = os.environ.get('VERIF_REPO', '/repo')
    pairs = []
    i = 0
    while i < len(a):
        if a[i] == '--label':
            if a[i + 1] not in idx:
                print('RESULT-JSON: ' + json.dumps({'status': 'undecided', 'why': f'no twin for {a[i+1]}'})); return 2
            pairs.append(idx[a[i + 1]]); i += 2
        elif a[i] == '--spec':
            pairs += [(specs[a[i + 1]], t) for t in specs[a[i + 1]]['twins']]; i += 2
        elif a[i] == '--prop':
            pairs += [(s, t) for s in specs.values() if s['property'] == a[i + 1] for t in s['twins']]; i += 2
        elif a[i] == '--all':
            pairs += [(s, t) for s in specs.values() for t in s['twins']]; i += 1
        else:
            print('unknown argument', a[i]); return 2
    results = run_many(pairs, repo)
    st, top = summarize(results)
    print('RESULT-JSON: ' + json.dumps(top))
    return {'pass': 0, 'fail': 1, 'undecided': 2}[st]


if __name__ == '__main__':
    sys.exit(main())
