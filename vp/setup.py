#!/usr/bin/env python3
"""MANIFEST.setup_cmd: nothing is compiled ahead of time (every check regenerates its Verus
files from /repo's working tree).  Setup only checks that the tools answer and warms Verus."""
import os, subprocess, sys, tempfile
VERIF = os.path.dirname(os.path.dirname(os.path.abspath(__file__)))
os.makedirs(os.path.join(VERIF, '.cache', 'gen'), exist_ok=True)
os.makedirs(os.path.join(VERIF, 'evidence'), exist_ok=True)
os.makedirs(os.path.join(VERIF, 'replays'), exist_ok=True)
p = os.path.join(VERIF, '.cache', 'warm.rs')
open(p, 'w').write('use vstd::prelude::*;\nverus!{ fn f(x: u8) -> (r: u8) ensures r == x { x } }\nfn main(){}\n')
r = subprocess.run(['verus', p], capture_output=True, text=True, cwd=os.path.join(VERIF, '.cache'))
print(r.stdout.strip().split('\n')[-1] if r.stdout else r.stderr[-300:])
# build the stub differential tester once (used by the thorough tier); a build failure is reported, not fatal
env = dict(os.environ, CARGO_NET_OFFLINE='true', CARGO_TARGET_DIR=os.path.join(VERIF, '.cache', 'stubcheck-target'))
b = subprocess.run(['cargo', 'build', '--offline', '-q', '--release'], cwd=os.path.join(VERIF, 'stubcheck'), capture_output=True, text=True, env=env)
print('stubcheck build:', 'ok' if b.returncode == 0 else b.stderr[-400:])
sys.exit(0 if 'verified' in r.stdout else 1)
