#!/bin/bash
# usage: confirm_seed.sh <worktree> <patch.diff> <demo.rs> <crate> <testname>
# Confirms: (a) clean tree + demo passes, (b) patched + demo fails, (c) patched tree passes the existing suite.
set -u
WT=$1; PATCH=$2; DEMO=$3; CRATE=$4; TN=$5
export CARGO_TARGET_DIR=$WT/target CARGO_NET_OFFLINE=true
cd $WT && git checkout -q -- . && git clean -fdq crates
TESTDIR=$WT/crates/$CRATE/tests
mkdir -p $TESTDIR; cp $DEMO $TESTDIR/$TN.rs
FEAT="${FEAT_OVERRIDE:-}"
if grep -q "unstable-fs\|turmoil::fs\|turmoil_fs" $DEMO; then FEAT="--all-features"; fi
cargo test -p $CRATE --test $TN --offline $FEAT >/tmp/confirm.$$.a 2>&1; A=$?
git apply $PATCH || { echo "PATCH-FAILED"; exit 3; }
cargo test -p $CRATE --test $TN --offline $FEAT >/tmp/confirm.$$.b 2>&1; B=$?
rm -f $TESTDIR/$TN.rs
cargo nextest run --workspace --no-fail-fast --offline >/tmp/confirm.$$.c 2>&1; C=$?
SUMMARY=$(grep -E "Summary|tests run" /tmp/confirm.$$.c | tail -1)
git checkout -q -- . ; git clean -fdq crates
echo "clean+demo exit=$A (want 0); patched+demo exit=$B (want !=0); patched suite exit=$C (want 0) $SUMMARY"
tail -3 /tmp/confirm.$$.b | head -3
rm -f /tmp/confirm.$$.*
[ $A -eq 0 ] && [ $B -ne 0 ] && [ $C -eq 0 ] && echo CONFIRMED || echo NOT-CONFIRMED
