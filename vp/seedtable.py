#!/usr/bin/env python3
"""Rewrite the table between the SEEDTABLE markers of DESIGN.md from the output of vp/seeded.py (file given as argv[1];
later lines for the same seed override earlier ones) and seeded/<id>/meta.json."""
import json, os, re, sys
VERIF = os.path.dirname(os.path.dirname(os.path.abspath(__file__)))
res = {}
for l in open(sys.argv[1]):
    m = re.match(r'(C\d\d-[A-Z])\s+(DETECTED|UNDECIDED|MISSED|PATCH-FAILED)\s*(.*)$', l.rstrip())
    if m: res[m.group(1)] = (m.group(2), m.group(3))
rows = ['| seed | change (needs) | result | failing obligation(s) / reason undecided |', '|------|----------------|--------|------------------------------------------|']
cnt = {}
for sid in sorted(res):
    st, detail = res[sid]
    cnt[st] = cnt.get(st, 0) + 1
    meta = json.load(open(os.path.join(VERIF, 'seeded', sid, 'meta.json')))
    what = meta.get('what', '').replace('|', '\\|')
    needs = meta.get('needs', '').replace('|', '\\|')
    if st == 'DETECTED':
        labs = []
        for part in detail.split(';'):
            m = re.match(r'\s*(C\d\d):exit1:(.*)$', part)
            if m:
                for x in m.group(2).split(','):
                    x = x.strip()
                    if x.startswith(m.group(1) + '.'): x = x[len(m.group(1)) + 1:]
                    labs.append('`' + x.replace('__', '::') + '`')
        d = ', '.join(dict.fromkeys(labs))
    elif st == 'UNDECIDED':
        m = re.search(r'UNDECIDED property=C\d\d (.*)$', detail)
        d = (m.group(1) if m else detail)[:170].replace('|', '\\|').replace('`', "'")
    else:
        d = '-'
    rows.append(f"| {sid} | {what}{' (' + needs + ')' if needs else ''} | {'**' + st + '**' if st != 'DETECTED' else st} | {d} |")
rows.append('')
rows.append('Totals: ' + ', '.join(f'{k} {v}' for k, v in sorted(cnt.items())) + f' of {len(res)}.')
p = os.path.join(VERIF, 'DESIGN.md'); s = open(p).read()
a, b = '<!-- SEEDTABLE BEGIN -->', '<!-- SEEDTABLE END -->'
s = s[:s.index(a) + len(a)] + '\n' + '\n'.join(rows) + '\n' + s[s.index(b):]
open(p, 'w').write(s)
print(cnt)
