"""Run one verification unit through Verus and classify every obligation."""
import json
import os
import re
import subprocess
import sys
import time

sys.path.insert(0, os.path.dirname(os.path.abspath(__file__)))
import gen

VERIF = gen.VERIF
CACHE = os.path.join(VERIF, '.cache', 'gen')
RLIMIT = os.environ.get('VERIF_RLIMIT', '60')
MULTI = '40'

UNDECIDED_PAT = re.compile(r'rlimit|resource limit|timed? ?out|not supported|unsupported|does not (yet )?support|'
                           r'unimplemented|internal error|panicked|cannot find|mismatched types|expected .* found|'
                           r'loop must have a decreases|decreases clause|termination', re.I)


def scan_trusted(text):
    """Mechanical scan of the generated file for every assumption-introducing construct."""
    out = []
    lines = text.split('\n')
    cur_impl = ''
    for i, ln in enumerate(lines):
        m = re.match(r'^\s*impl(?:<[^>]*>)?\s+(.*?)\s*\{', ln)
        if m:
            cur_impl = m.group(1)
        if re.match(r'^\}', ln):
            cur_impl = ''
        st = ln.lstrip()
        if st.startswith('//'):
            continue
        kind = None
        for kw in ('external_body', 'assume_specification', 'assume(', 'admit(', 'axiom fn', 'uninterp spec fn',
                   'external_type_specification', 'external_fn_specification'):
            if kw in ln:
                kind = kw.rstrip('('); break
        if not kind:
            continue
        name = None
        for k in range(i, min(i + 8, len(lines))):
            mm = re.search(r'\b(?:fn|struct|enum|trait)\s+(\w+)', lines[k])
            if mm:
                name = mm.group(1); break
            mm = re.search(r'assume_specification.*?\[\s*([^\]]+)\]', lines[k])
            if mm:
                name = mm.group(1).strip(); break
        if name is None:
            name = st[:60]
        where = f'{cur_impl}::' if cur_impl and kind in ('external_body', 'uninterp spec fn') and not re.search(r'\b(struct|enum)\b', ' '.join(lines[i:i+4])) else ''
        out.append((kind, where + name, i + 1))
    return out


def r32_requests(errors, g, text):
    """R32: unknown free fn / method / associated fn that IS an item of the same source file as the failing region (a helper a
    change has split off) -> [(sidecar line of the @item, file, selector, call form)].  Guard: in that region every call of that
    form and name is reported unknown (so no call that resolves to something else is ever rewritten)."""
    import rustlex as rl
    pats = (('free', r'cannot find function `(\w+)` in this scope'),
            ('method', r'no method named `(\w+)` found for .*`([^`]+)` in the current scope'),
            ('assoc', r'no (?:function or associated item|associated function or constant|associated item) named `(\w+)` found for .*`([^`]+)` in the current scope'))
    hits = {}
    for d in errors:
        for form, pat in pats:
            m = re.match(pat, d.get('message', ''))
            if not m:
                continue
            ln = next((sp['line_start'] for sp in d.get('spans', []) if sp.get('is_primary')), None)
            reg = next((r for r in g.regions if ln is not None and r['line0'] <= ln <= r['line1'] and r.get('src') and r.get('iline')), None)
            if reg:
                ty = re.sub(r'<.*', '', m.group(2).replace('&', '').replace('mut ', '').strip()).split('::')[-1] if form != 'free' else ''
                cfile = reg['src'].rsplit(':', 1)[0]
                key = (reg['iline'], cfile, gen.mod_prefix(cfile, reg['sel']) + (f'{ty}::{m.group(1)}' if ty else m.group(1)), form)
                hits.setdefault(key, [reg, 0])[1] += 1
    want = []
    lines = text.split('\n')
    for (iline, cfile, sel, form), (reg, n_err) in hits.items():
        try:
            gen.find_item(cfile, 'fn', sel)
        except Exception:
            continue
        ct = rl.code_toks(rl.lex('\n'.join(lines[reg['line0'] - 1:reg['line1']])))
        if len(gen.call_sites(ct, sel.split('::')[-1], form)) == n_err:
            want.append((iline, cfile, sel, form))
    return want


def run_unit(unit_name, extra_args=(), keep=True, inject=None, inject_false=None, tag='', extra_consts=None, inline=None, r32_round=0, skip_hints=None):
    """Returns a result dict.  inject: optional function(text)->text used by the vacuity self-test."""
    t0 = time.time()
    res = {'unit': unit_name, 'status': 'ok', 'undecided': [], 'obligations': [], 'errors': [],
           'wall_s': 0.0, 'solver_ms': {}, 'functions': [], 'dropped': [], 'trusted': [], 'cmd': ''}
    try:
        u, g, text = gen.generate(unit_name, inject_false=inject_false, extra_consts=extra_consts, inline=inline, skip_hints=skip_hints)
    except gen.SpecError as e:
        res['status'] = 'undecided'; res['hard_fail'] = True
        res['undecided'].append(str(e))
        res['wall_s'] = time.time() - t0
        return res
    except Exception as e:  # extractor crash = machinery problem, never an alarm
        res['status'] = 'undecided'; res['hard_fail'] = True
        res['undecided'].append(f'extractor error: {type(e).__name__}: {e}')
        res['wall_s'] = time.time() - t0
        return res
    if inject:
        text = inject(text, g)
    os.makedirs(CACHE, exist_ok=True)
    path = os.path.join(CACHE, unit_name + tag + '.rs')
    open(path, 'w').write(text)
    cmd = ['verus', path, '--output-json', '--time', '--error-format=json', '--multiple-errors', MULTI,
           '--rlimit', RLIMIT] + list(extra_args)
    res['cmd'] = ' '.join(cmd)
    p = subprocess.run(cmd, capture_output=True, text=True, cwd=CACHE)
    res['verus_exit'] = p.returncode
    res['serves'] = u.serves
    res['dropped'] = g.dropped
    res['functions'] = g.sources
    res['trusted'] = [f'{kw} {name} (gen line {ln})' for kw, name, ln in scan_trusted(text)]
    res['gen_path'] = path
    # ---- parse JSON summary
    js = None
    so = p.stdout
    if '{' in so:
        try:
            js = json.loads(so[so.index('{'):])
        except Exception:
            js = None
    diags = []
    for ln in p.stderr.split('\n'):
        ln = ln.strip()
        if ln.startswith('{') and '"$message_type"' in ln:
            try:
                d = json.loads(ln)
            except Exception:
                continue
            if d.get('$message_type') == 'diagnostic':
                diags.append(d)
    errors = [d for d in diags if d.get('level') == 'error' and not d['message'].startswith('aborting due to')]
    # Hint drop: a compile (rustc-level) error whose primary span lies inside a PROOF HINT spliced from the sidecar (@before/@after/@head/
    # @tail/@loophead/@loopend/@inarm text naming a local the change removed or renamed) says nothing about the code.  The hint is dropped,
    # its fn degraded (failures there become undecided) and the unit run again, so every other fn of the unit is still decided.  Errors in
    # contract text (@sig, loop invariants, closure annotations) or in extracted code are not touched.
    if skip_hints is None:
        drop = set()
        rustc = [d for d in errors if (d.get('code') or {}).get('code', '').startswith('E')]
        for d in rustc:
            ln = next((sp['line_start'] for sp in d.get('spans', []) if sp.get('is_primary')), None)
            h = next((h for h in g.hint_lines if ln is not None and h['line0'] <= ln <= h['line1']), None)
            if h:
                drop.add((h['region'], h['ann_line']))
        if drop and len(drop) <= 12:
            r2 = run_unit(unit_name, extra_args, keep, inject, inject_false, tag, extra_consts=extra_consts, inline=inline, r32_round=r32_round,
                          skip_hints=sorted(drop))
            r2.setdefault('dropped_hints', sorted(drop))
            return r2
    # R31: unknown ALL_CAPS value = a const of the same source file the sidecar does not list yet: extract it too and run again (once)
    if extra_consts is None:
        want = []
        for d in errors:
            m = re.match(r'cannot find value `([A-Z][A-Z0-9_]*)` in this scope', d.get('message', ''))
            if not m:
                continue
            ln = next((sp['line_start'] for sp in d.get('spans', []) if sp.get('is_primary')), None)
            reg = next((r for r in g.regions if ln is not None and r['line0'] <= ln <= r['line1'] and r.get('src')), None)
            if reg:
                cfile = reg['src'].rsplit(':', 1)[0]
                try:
                    gen.find_item(cfile, 'const', m.group(1))
                    if (cfile, m.group(1)) not in want:
                        want.append((cfile, m.group(1)))
                except Exception:
                    pass
        if want:
            r2 = run_unit(unit_name, extra_args, keep, inject, inject_false, tag, extra_consts=want, inline=inline, r32_round=r32_round, skip_hints=skip_hints)
            r2.setdefault('auto_consts', want)
            return r2
    # R32: unknown fn/method = a helper of the same source file that a change has split off a contracted fn: inline its body at the
    # call sites (gen.inline_helper) and run again; a helper may call a further one, so up to 4 rounds.  When the rule refuses, or the
    # rewritten text does not reach the solver, this run is classified exactly as before.
    new = [w for w in r32_requests(errors, g, text) if w not in (inline or [])]
    if new and r32_round < 4:
        try:
            g2 = gen.generate(unit_name, inject_false=inject_false, extra_consts=extra_consts, inline=(inline or []) + new, skip_hints=skip_hints)[1]
            grew = sum(1 for x in g2.dropped if x['rule'] == 'R32') > sum(1 for x in g.dropped if x['rule'] == 'R32')
            res['r32_refused'] = g2.r32_refused
        except Exception as e:
            grew = False
            res['r32_refused'] = [f'{type(e).__name__}: {e}']
        if grew:
            r2 = run_unit(unit_name, extra_args, keep, inject, inject_false, tag, extra_consts=extra_consts, inline=(inline or []) + new,
                          r32_round=r32_round + 1, skip_hints=skip_hints)
            if not r2.get('hard_fail'):
                r2.setdefault('auto_inline', (inline or []) + new)
                return r2
            res['r32_refused'] = r2.get('r32_refused', []) + ['R32 applied, but the rewritten text did not reach the solver: ' + '; '.join(r2['undecided'])[:600]]
    vr = (js or {}).get('verification-results', {})
    res['verus_summary'] = vr
    if js:
        try:
            for m in js['times-ms']['smt']['smt-run-module-times']:
                for fb in m.get('function-breakdown', []):
                    res['solver_ms'][fb['function']] = res['solver_ms'].get(fb['function'], 0) + fb['time']
            res['smt_total_ms'] = js['times-ms']['smt']['total']
            res['verus_total_ms'] = js['times-ms']['total']
        except Exception:
            pass
    # ---- regions / labels
    regions = g.regions
    labels = g.labels

    def region_of(line):
        best = None
        for r in regions:
            if r['line0'] <= line <= r['line1']:
                if best is None or (r['line1'] - r['line0']) < (best['line1'] - best['line0']):
                    best = r
        return best

    def labels_at(line0, line1):
        return [l for l in labels if not (line1 < l['line0'] or line0 > l['line1'])]

    failed = {}      # obligation -> [messages]
    undecided = []
    undecided_regions = set()
    hard_fail = vr == {} or vr.get('encountered-vir-error') or (js is None)
    for e in errors:
        msg = e['message']
        spans = e.get('spans', [])
        prim = [s for s in spans if s.get('is_primary')] or spans
        rendered = e.get('rendered', msg)
        rec = {'message': msg, 'rendered': rendered[:4000]}
        if not spans:
            undecided.append(msg); rec['class'] = 'undecided'; res['errors'].append(rec); continue
        pline = prim[0]['line_start']
        reg = region_of(pline)
        rec['region'] = reg['name'] if reg else None
        rec['line'] = pline
        verification_failure = bool(re.search(
            r'postcondition not satisfied|precondition not satisfied|assertion failed|invariant not satisfied|'
            r'possible arithmetic underflow/overflow|possible division by zero|index out of bounds|'
            r'unreachable|cannot show|might not be allowed|failed|possible|unable to prove|cannot prove|could not prove|not satisfied|decreases not satisfied', msg, re.I)) and not UNDECIDED_PAT.search(msg)
        # a diagnostic that carries a rustc error code (E0277 "the trait bound .. is not satisfied", E0308, ..) is a COMPILE error:
        # Verus never reached the solver for this unit; it is never a verification failure, whatever words its message contains
        if ((e.get('code') or {}).get('code') or '').startswith('E'):
            verification_failure = False
        if not verification_failure:
            undecided_regions.add(rec['region'])
            undecided.append(f'{msg} (gen line {pline}, region {rec["region"]})')
            rec['class'] = 'undecided'; res['errors'].append(rec); continue
        hit = []
        for s in spans:
            # a clause's span starts inside its label's line range; big spans (whole bodies) start elsewhere
            hit += labels_at(s['line_start'], s['line_start'])
        obls = []
        if hit:
            for l in hit:
                if l.get('prelude'):
                    # ambient-nondeterminism (or other prelude-labelled) precondition failed at a call site
                    fn = (reg or {}).get('fn') or (reg or {}).get('name', '?')
                    obls.append(f'C01.nd.{unit_name}.{fn}')
                    rec['prelude_label'] = l['label']
                else:
                    obls.append(l['label'])
        else:
            if reg is None or reg['kind'] == 'prelude':
                undecided.append(f'{msg} in prelude (gen line {pline})')
                rec['class'] = 'undecided'; res['errors'].append(rec); continue
            obls.append(f"{reg['name']}.body")
        rec['class'] = 'failed'; rec['obligations'] = sorted(set(obls))
        for o in set(obls):
            failed.setdefault(o, []).append(rendered[:4000])
        res['errors'].append(rec)
    if undecided and vr.get('verified', 0) == 0 and vr.get('errors', 0) == 0:
        hard_fail = True   # rustc / VIR error: Verus never reached the solver
    if vr.get('encountered-error') and vr.get('verified', 0) == 0 and vr.get('errors', 0) == 0:
        # safety net: Verus reports an error but neither a verified nor a failed function: nothing was verified, so nothing may count
        # as discharged and nothing as a verification failure
        hard_fail = True
        for o_, msgs_ in failed.items():
            undecided.append(f'{o_}: diagnostic without any verification result (compile error?): {msgs_[0][:300]}')
        failed = {}
    res['hard_fail'] = bool(hard_fail and not failed)
    if hard_fail and not failed:
        res['status'] = 'undecided'
        if not undecided:
            undecided.append('verus produced no verification results: ' + p.stderr[-1500:])
    if undecided:
        res['status'] = 'undecided'
        res['undecided'] += undecided + ['R32 not applied: ' + x for x in res.get('r32_refused', [])]
    # ---- enumerate obligations
    obl = []
    unit_props = u.serves
    for l in labels:
        if l.get('prelude'):
            continue
        reg = next((r for r in regions if r['name'] == l['region']), None)
        props = ([l['label'].split('.')[0]] + l.get('also', [])) if re.match(r'C\d\d', l['label']) else (reg or {}).get('props') or unit_props
        obl.append({'label': l['label'], 'region': l['region'], 'props': props, 'kind': 'clause',
                    'gen_line': l['line0'], 'src': (reg or {}).get('src', '')})
    for r in regions:
        if r['kind'] == 'fn' or r['kind'] in ('spec-proof', 'spec-exec'):
            props = r.get('props') or unit_props
            obl.append({'label': f"{r['name']}.body", 'region': r['name'], 'props': props, 'kind': 'body',
                        'gen_line': r['line0'], 'src': r.get('src', '')})
        if r['kind'] == 'fn':
            obl.append({'label': f"C01.nd.{unit_name}.{r['fn']}", 'region': r['name'], 'props': ['C01'], 'kind': 'nd',
                        'gen_line': r['line0'], 'src': r.get('src', '')})
    # duplicate labels are a sidecar bug
    seen = {}
    for o in obl:
        if o['label'] in seen:
            res['status'] = 'undecided'
            res['undecided'].append(f"duplicate label {o['label']}")
        seen[o['label']] = o
    degraded = getattr(g, 'degraded', {})
    res['degraded'] = degraded
    for o in obl:
        if o['label'] in failed and o['region'] in degraded:
            # the function lost a proof-hint anchor: a failure there may be proof incompleteness, not a defect
            o['status'] = 'undecided'; o['detail'] = failed[o['label']][0]
            res['status'] = 'undecided'
            res['undecided'].append(f"{o['label']} fails in {o['region']}, whose proof hints lost their anchors ({'; '.join(degraded[o['region']])}): undecided")
        elif o['label'] in failed:
            o['status'] = 'failed'; o['detail'] = failed[o['label']][0]
        elif res['status'] == 'undecided' and (hard_fail or o['region'] in undecided_regions):
            o['status'] = 'undecided'
        else:
            o['status'] = 'discharged'
    for f in failed:
        if f not in seen:
            res['status'] = 'undecided'
            res['undecided'].append(f'failure attributed to unknown obligation {f}')
    res['obligations'] = obl
    res['wall_s'] = round(time.time() - t0, 2)
    return res


if __name__ == '__main__':
    r = run_unit(sys.argv[1])
    summ = {k: r[k] for k in ('unit', 'status', 'undecided', 'wall_s', 'verus_summary') if k in r}
    print(json.dumps(summ, indent=1))
    for o in r['obligations']:
        if o['status'] != 'discharged':
            print(o['status'], o['label'])
            print('   ', o.get('detail', '')[:1500])
    for e in r['errors']:
        if e.get('class') == 'undecided':
            print('UNDECIDED:', e['rendered'][:1500])
    for k in ('auto_inline', 'r32_refused'):
        if r.get(k):
            print(k + ':', r[k])
    for x in r['dropped']:
        if x['rule'] == 'R32':
            print('R32', x['at'], x['text'], '--', x['note'])
    print(len(r['obligations']), 'obligations,', sum(1 for o in r['obligations'] if o['status'] == 'discharged'), 'discharged')
