#!/usr/bin/env python3
"""Link check for assumed neighbour contracts.

A unit that calls a function verified in another unit does not re-verify it: it carries an assumed stub whose comment
quotes the labels of the clauses the neighbour's own unit proves (`// ASSUMED: exactly [C08.topo.hold] of unit top`,
`/* C16.send.err (unit nettcp) */`).  Nothing in Verus connects the two files, so this script does the bookkeeping
mechanically on every run: every label quoted in a comment of unit A must be DEFINED (as a labelled clause) in some
unit, and must be in specs/obligations.lock (= discharged on the pinned tree) or be a recorded known finding.  A quoted
label that no unit defines any more (renamed, removed, weakened away) is a broken link: the properties served by A are
UNDECIDED until the stub is re-derived.  The check is about names, not about logical equivalence of the two texts:
that the stub says no more than the quoted clauses is reviewed by hand and listed as an assumption.
"""
import glob, json, os, re, sys
VERIF = os.path.dirname(os.path.dirname(os.path.abspath(__file__)))
LAB = r'C\d\d\.[A-Za-z0-9_.]*[A-Za-z0-9_*]'


def scan():
    defined, quoted = {}, {}
    for p in sorted(glob.glob(os.path.join(VERIF, 'specs', 'units', '*.vspec'))):
        u = os.path.basename(p)[:-6]
        for n, line in enumerate(open(p), 1):
            code, _, com = line.partition('//')
            for m in re.finditer(r'\[(' + LAB + r')(?:\|[C0-9|]+)?\]', code):
                if '/*' in code[:m.start()] and '*/' not in code[:m.start()].split('/*')[-1]:
                    continue
                defined.setdefault(m.group(1), set()).add(u)
            refs = [m.group(1) for m in re.finditer(r'\[(' + LAB + r')(?:\|[C0-9|]+)?\]', com)]
            refs += [m.group(1) for m in re.finditer(r'/\*\s*(' + LAB + r')\s*\(unit \w+\)\s*\*/', line)]
            for r in refs:
                quoted.setdefault(u, []).append((r, n))
    return defined, quoted


def links(units=None):
    defined, quoted = scan()
    try:
        lock = {l.strip() for l in open(os.path.join(VERIF, 'specs', 'obligations.lock')) if l.strip() and not l.startswith('#')}
    except OSError:
        lock = None
    known = set()
    try:
        for l in open(os.path.join(VERIF, 'known_findings.txt')):
            m = re.match(r'known: property=\S+ obligation=(\S+)', l)
            if m: known.add(m.group(1))
    except OSError:
        pass
    out = {}
    for u, refs in quoted.items():
        if units is not None and u not in units: continue
        rows = {}
        for r, n in refs:
            if r.endswith('*'):
                hits = sorted(l for l in defined if l.startswith(r[:-1]))
            else:
                hits = [r] if r in defined else []
            foreign = sorted({x for h in hits for x in defined[h]} - {u})
            own = all(u in defined[h] for h in hits) and bool(hits)
            if own: continue            # a unit documenting its own label
            st = 'unresolved' if not hits else ('known-finding' if all(h in known for h in hits) else
                                                 ('locked' if lock is None or all(h in lock or h in known for h in hits) else 'not-locked'))
            rows[r] = {'quoted_at_line': n, 'defined_in': foreign, 'status': st}
        out[u] = rows
    return out


if __name__ == '__main__':
    res = links(sys.argv[1:] or None)
    bad = 0
    for u, rows in res.items():
        for r, d in rows.items():
            if d['status'] in ('unresolved', 'not-locked'):
                bad += 1
                print(f"{u}: [{r}] quoted at line {d['quoted_at_line']}: {d['status']}")
    print({u: len(r) for u, r in res.items() if r}, 'broken:', bad)
    sys.exit(1 if bad else 0)
