#!/usr/bin/env python3
"""Regenerate MANIFEST.json's checks / not_applicable from specs/properties.json."""
import json, os
VERIF = os.path.dirname(os.path.dirname(os.path.abspath(__file__)))
cfg = json.load(open(os.path.join(VERIF, 'specs', 'properties.json')))
man = json.load(open(os.path.join(VERIF, 'MANIFEST.json')))
checks, na = [], []
ids = [json.loads(l)['id'] for l in open(os.path.join(VERIF, 'properties.jsonl'))]
for pid in ids:
    c = cfg.get(pid)
    if not c or not c.get('claimed'):
        na.append({'property_id': pid, 'reason': (c or {}).get('na_reason', 'unit not completed yet: no contract for this property discharges on the pinned tree so far')})
        continue
    checks.append({
        'property_id': pid,
        'quick_cmd': f'./check {pid} --tier quick',
        'thorough_cmd': f'./check {pid} --tier thorough',
        'evidence_file': f'/verif/evidence/{pid}.json',
        'replay_cmd_template': './check --replay {path}',
        'engine': 'verus-extract',
        'level_claimed': {'category': c.get('level', 'proof'), 'text': c['level_text'], 'design_ref': c.get('design_ref', f'DESIGN.md section 4, {pid}')},
        'level_note': c['level_note'],
        'technique': c.get('technique', 'contract-based deductive verification (Verus) of functions extracted from /repo on every run; where a failed clause has a Kani twin (vp/kanitwin.py) its counterexample is replayed on the real code'),
    })
man['checks'] = checks
man['not_applicable'] = na
served = [c['property_id'] for c in checks]
for e in man.get('engines', []):
    e['serves_properties'] = served
json.dump(man, open(os.path.join(VERIF, 'MANIFEST.json'), 'w'), indent=1)
print('claimed:', served, 'not applicable:', [x['property_id'] for x in na])
