//! NOT one of the three variants. This probe FAILS ON THE CLEAN HEAD: it shows
//! an existing violation of C01 found while reading `Sim::step`.
//!
//! `Sim::step` computes the fs/io_uring `now` with `host.timer.since_epoch()`
//! (sim.rs, "let (fs_arc, now) = ...") right after `timer.now(rt.now())` has set
//! the in-step mark but *outside* of the host's tokio runtime context. There
//! `tokio::time::Instant::now()` is the wall clock, so `mark.elapsed()` is
//! `wall_now - (runtime_creation + virtual_elapsed)`, saturating at zero. On a
//! host's first tick virtual_elapsed is only 1 ms, so any wall-clock time
//! beyond 1 ms spent between `sim.client()/host()` and the first `step()` leaks
//! into every file timestamp written in that tick (and into the io_uring
//! `now`). Observed: mtime 1000000 s vs 1000000.02935775 s with a 30 ms pause.
//!
//! Put into `crates/turmoil/tests/`, run with `--features unstable-fs`.

#![cfg(feature = "unstable-fs")]
use std::sync::{Arc, Mutex};
use std::time::{Duration, UNIX_EPOCH};
use turmoil::fs::shim::std::fs::{metadata, write};
use turmoil::Builder;

fn run(pause_ms: u64) -> Duration {
    let out = Arc::new(Mutex::new(Duration::ZERO));
    let o = out.clone();
    let mut b = Builder::new();
    b.rng_seed(7).epoch(UNIX_EPOCH + Duration::from_secs(1_000_000));
    let mut sim = b.build();
    sim.client("c", async move {
        write("/f", b"x")?;
        let m = metadata("/f")?.modified()?;
        *o.lock().unwrap() = m.duration_since(UNIX_EPOCH).unwrap();
        Ok(())
    });
    std::thread::sleep(Duration::from_millis(pause_ms));
    sim.run().unwrap();
    let v = *out.lock().unwrap();
    v
}

#[test]
fn probe() {
    let a = run(0);
    let b = run(30);
    println!("a={a:?} b={b:?}");
    assert_eq!(a, b);
}
