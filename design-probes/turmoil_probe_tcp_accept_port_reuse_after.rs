use std::time::Duration;
use turmoil::{
    net::{TcpListener, TcpStream},
    Builder, Result,
};

// The server keeps the first accepted stream; the client drops its end and connects again.  With a one-port ephemeral
// range the client gets the same local port, i.e. the pair (server:80, client:49152) is still in use on the server.
// Before the repair: panic "... is already connected" in Tcp::new_stream.  After: the second connect is refused, the
// listener keeps working for fresh pairs.
#[test]
fn reconnect_from_reused_port_while_server_keeps_old_stream() -> Result {
    let mut sim = Builder::new().ephemeral_ports(49152..=49152).build();
    sim.host("server", || async {
        let l = TcpListener::bind(("0.0.0.0", 80)).await?;
        let mut keep = vec![];
        loop {
            let (s, _) = l.accept().await?;
            keep.push(s);
        }
    });
    sim.client("client", async {
        let s = TcpStream::connect(("server", 80)).await?;
        drop(s);
        tokio::time::sleep(Duration::from_secs(1)).await;
        let again = TcpStream::connect(("server", 80)).await;
        assert_eq!(
            again.unwrap_err().kind(),
            std::io::ErrorKind::ConnectionRefused
        );
        // the refused connect released its entry and port: nothing leaks on the client
        assert_eq!(turmoil::established_tcp_stream_count(), 0);
        Ok(())
    });
    sim.client("other", async {
        tokio::time::sleep(Duration::from_secs(3)).await;
        // a fresh pair is still accepted after a request was refused
        let _s = TcpStream::connect(("server", 80)).await?;
        Ok(())
    });
    sim.run()
}
