use std::time::Duration;
use tokio::io::{AsyncReadExt, AsyncWriteExt};
use turmoil::net::{TcpListener, TcpStream, UdpSocket};
use turmoil::{Builder, Result};

// F2: random partition/repair heals an explicit one-way partition
#[test]
fn f2_rand_repair_heals_oneway() -> Result {
    let mut sim = Builder::new()
        .fail_rate(1.0)
        .repair_rate(1.0)
        .rng_seed(1)
        .min_message_latency(Duration::from_millis(1))
        .max_message_latency(Duration::from_millis(1))
        .build();
    let got = std::rc::Rc::new(std::cell::Cell::new(0u32));
    let got2 = got.clone();
    sim.host("b", move || {
        let got = got2.clone();
        async move {
            let s = UdpSocket::bind(("0.0.0.0", 9000)).await?;
            let mut buf = [0u8; 8];
            loop {
                let (_n, _from) = s.recv_from(&mut buf).await?;
                got.set(got.get() + 1);
            }
        }
    });
    sim.client("a", async move {
        let s = UdpSocket::bind(("0.0.0.0", 9001)).await?;
        turmoil::partition_oneway("a", "b");
        for i in 0..6u8 {
            s.send_to(&[i], ("b", 9000)).await?;
            tokio::time::sleep(Duration::from_millis(5)).await;
        }
        Ok(())
    });
    sim.run()?;
    println!("F2 received across explicit oneway partition: {}", got.get());
    assert_eq!(got.get(), 0, "messages crossed an explicitly partitioned direction");
    Ok(())
}

// F3: FIN arriving while receive queue is full is parked forever
#[test]
fn f3_fin_parked_when_queue_full() -> Result {
    let mut sim = Builder::new()
        .tcp_capacity(std::env::var("CAP").map(|s| s.parse().unwrap()).unwrap_or(1))
        .simulation_duration(Duration::from_secs(5))
        .min_message_latency(Duration::from_millis(1))
        .max_message_latency(Duration::from_millis(1))
        .build();
    sim.host("server", || async {
        let l = TcpListener::bind(("0.0.0.0", 80)).await?;
        let (mut s, _) = l.accept().await?;
        // let data + FIN arrive before reading
        tokio::time::sleep(Duration::from_millis(100)).await;
        let mut v = Vec::new();
        let n = s.read_to_end(&mut v).await?;
        println!("F3 server read {n} bytes then EOF");
        Ok(())
    });
    sim.client("client", async {
        let mut c = TcpStream::connect(("server", 80)).await?;
        c.write_all(b"x").await?;
        c.shutdown().await?;
        // keep the stream alive; wait for server to finish reading
        tokio::time::sleep(Duration::from_secs(2)).await;
        Ok(())
    });
    // run client to completion, then check server finished
    sim.run()?;
    assert!(!sim.is_host_running("server"), "server never saw EOF (FIN parked)");
    Ok(())
}

// F6: refused connects leak stream table entries / ephemeral ports
#[test]
fn f6_refused_connect_leaks() -> Result {
    let mut sim = Builder::new().ephemeral_ports(49152..=49154).build();
    sim.host("server", || async {
        std::future::pending::<()>().await;
        Ok(())
    });
    sim.client("client", async {
        for i in 0..5 {
            let r = TcpStream::connect(("server", 81)).await;
            assert!(r.is_err());
            println!("F6 attempt {i}: refused; established count = {}", turmoil::established_tcp_stream_count());
        }
        Ok(())
    });
    sim.run()
}
