#![cfg(feature = "unstable-fs")]
use std::os::unix::fs::FileExt;
use turmoil::fs::shim::std::fs::{create_dir_all, read, rename, sync_dir, OpenOptions};
use turmoil::{Builder, Result};

fn rw() -> OpenOptions { let mut o = OpenOptions::new(); o.read(true).write(true).create(true); o }

// write through the NEW name after a pending rename
#[test]
fn write_after_rename_new_name() -> Result {
    let mut sim = Builder::new().build();
    sim.client("t", async {
        create_dir_all("/d")?; sync_dir("/")?;
        let f = rw().open("/d/c")?;
        f.write_all_at(b"old", 0)?; f.sync_all()?; sync_dir("/d")?;
        drop(f);
        rename("/d/c", "/d/a")?;
        let g = OpenOptions::new().read(true).write(true).open("/d/a")?;
        g.write_all_at(b"NEWDATA", 0)?;
        println!("WAR after write via new name: len={} content={:?}", g.metadata()?.len(), String::from_utf8_lossy(&read("/d/a")?));
        g.sync_all()?;
        println!("WAR after sync_all(new name): len={} content={:?}", g.metadata()?.len(), String::from_utf8_lossy(&read("/d/a")?));
        sync_dir("/d")?;
        println!("WAR after sync_dir: len={} content={:?}", g.metadata()?.len(), String::from_utf8_lossy(&read("/d/a")?));
        Ok(())
    });
    sim.run()
}

// truncate then extend without sync: the bytes between must read as zeros
#[test]
fn truncate_then_extend_reads_zeros() -> Result {
    let mut sim = Builder::new().build();
    sim.client("t", async {
        create_dir_all("/d")?; sync_dir("/")?;
        let f = rw().open("/d/x")?;
        f.write_all_at(b"hello", 0)?; f.sync_all()?; sync_dir("/d")?;
        f.set_len(2)?;
        f.set_len(5)?;
        println!("TTE persisted+truncate+extend: len={} content={:?}", f.metadata()?.len(), read("/d/x")?);
        let g = rw().open("/d/y")?;
        g.write_all_at(b"world", 0)?;
        g.set_len(1)?;
        g.set_len(4)?;
        println!("TTE pending write+truncate+extend: len={} content={:?}", g.metadata()?.len(), read("/d/y")?);
        Ok(())
    });
    sim.run()
}
