use vstd::prelude::*;
verus! {

enum Op { Create(u32), Remove(u32), Other }

struct Fs { pending: Vec<Op>, persisted: Vec<u32> }

spec fn fold_exists(init: bool, ops: Seq<Op>, path: u32) -> bool
    decreases ops.len()
{
    if ops.len() == 0 { init } else {
        let prev = fold_exists(init, ops.drop_last(), path);
        match ops.last() {
            Op::Create(p) => if p == path { true } else { prev },
            Op::Remove(p) => if p == path { false } else { prev },
            Op::Other => prev,
        }
    }
}

impl Fs {
    fn file_exists(&self, path: u32, init: bool) -> (r: bool)
        ensures r == fold_exists(init, self.pending@, path)
    {
        let mut exists = init;
        for op in it: &self.pending
            invariant exists == fold_exists(init, self.pending@.take(it.index@ as int), path)
        {
            match op {
                Op::Create(p) if *p == path => exists = true,
                Op::Remove(p) if *p == path => exists = false,
                _ => {}
            }
        }
        proof { assert(self.pending@.take(self.pending@.len() as int) =~= self.pending@); }
        exists
    }
}

} // verus!
fn main() {}
