use vstd::prelude::*;
verus! {

struct Tcb { snd_nxt: u32, snd_una: u32, state: u8 }
struct Socket { tcb: Option<Tcb>, fd_closed: bool }

struct Table { v: Vec<Socket> }

impl Table {
    fn get_mut(&mut self, i: usize) -> (r: Option<&mut Socket>)
        ensures
            i < old(self).v@.len() ==> r.is_some(),
            match r {
                Some(s) => *s == old(self).v@[i as int]
                    && final(self).v@ == old(self).v@.update(i as int, *final(s)),
                None => final(self).v@ == old(self).v@,
            }
    {
        if i < self.v.len() { Some(&mut self.v[i]) } else { None }
    }
}

fn rewind(t: &mut Table, i: usize)
    requires i < old(t).v@.len(), old(t).v@[i as int].tcb.is_some(),
    ensures final(t).v@.len() == old(t).v@.len(),
        final(t).v@[i as int].tcb.unwrap().snd_nxt == old(t).v@[i as int].tcb.unwrap().snd_una,
{
    let tcb = t.get_mut(i).unwrap().tcb.as_mut().unwrap();
    tcb.snd_nxt = tcb.snd_una;
}

} // verus!
fn main() {}
