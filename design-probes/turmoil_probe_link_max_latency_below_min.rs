use std::time::Duration;
use turmoil::net::UdpSocket;
use turmoil::Builder;

// Sim::set_link_max_message_latency below the (global) minimum: the setter accepts it, the next send on that link panics
// in Link::delay (`max - min` on Durations).  Builder::build rejects the same configuration up front.
#[test]
fn link_max_latency_below_min_panics_on_send() {
    let mut sim = Builder::new()
        .min_message_latency(Duration::from_millis(10))
        .max_message_latency(Duration::from_millis(100))
        .build();
    sim.host("server", || async {
        let s = UdpSocket::bind(("0.0.0.0", 9)).await?;
        let mut buf = [0u8; 8];
        let _ = s.recv_from(&mut buf).await?;
        Ok(())
    });
    sim.client("client", async {
        let s = UdpSocket::bind(("0.0.0.0", 0)).await?;
        s.send_to(b"x", ("server", 9)).await?;
        Ok(())
    });
    sim.set_link_max_message_latency("client", "server", Duration::from_millis(5));
    let r = std::panic::catch_unwind(std::panic::AssertUnwindSafe(|| sim.run()));
    match r {
        Ok(res) => println!("WITNESS no panic; run() = {:?}", res.map_err(|e| e.to_string())),
        Err(p) => println!("WITNESS panic: {:?}", p.downcast_ref::<String>().cloned().or(p.downcast_ref::<&str>().map(|s| s.to_string()))),
    }
}
