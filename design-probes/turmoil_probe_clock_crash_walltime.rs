use std::{sync::{Arc, Mutex}, time::Duration};
use turmoil::Builder;

struct Guard(Arc<Mutex<Vec<(Duration, Duration)>>>);
impl Drop for Guard {
    fn drop(&mut self) {
        if let Some(t) = turmoil::sim_elapsed() {
            self.0.lock().unwrap().push((t, turmoil::elapsed()));
        }
    }
}

#[test]
fn crash_destructor_time() {
    let mut sim = Builder::new().tick_duration(Duration::from_millis(10)).build();
    let log = Arc::new(Mutex::new(vec![]));
    let obs = Arc::new(Mutex::new(vec![]));
    let fac = Arc::new(Mutex::new(vec![]));
    let (l2, o2, f2) = (log.clone(), obs.clone(), fac.clone());
    sim.host("h", move || {
        let l = l2.clone();
        let o = o2.clone();
        // synchronous part of the factory: runs inside Sim::host / Sim::bounce
        f2.lock().unwrap().push(turmoil::sim_elapsed());
        async move {
            let _g = Guard(l);
            loop {
                o.lock().unwrap().push(turmoil::sim_elapsed().unwrap());
                tokio::time::sleep(Duration::from_millis(1)).await;
            }
        }
    });
    for _ in 0..3 {
        sim.step().unwrap();
    }
    let sim_t = sim.elapsed();
    let last_obs = *obs.lock().unwrap().last().unwrap();
    std::thread::sleep(Duration::from_millis(250)); // wall-clock delay only
    sim.crash("h");
    println!("Sim::elapsed at crash = {:?}; last in-step observation = {:?}; destructor saw (sim_elapsed, elapsed) = {:?}", sim_t, last_obs, log.lock().unwrap());
    sim.step().unwrap();
    sim.step().unwrap();
    let n = obs.lock().unwrap().len();
    println!("Sim::elapsed before bounce = {:?}", sim.elapsed());
    sim.bounce("h");
    println!("factory observations (registration, bounce) = {:?}", fac.lock().unwrap());
    sim.step().unwrap();
    println!("first observation after bounce = {:?}; Sim::elapsed = {:?}", obs.lock().unwrap()[n], sim.elapsed());
}
