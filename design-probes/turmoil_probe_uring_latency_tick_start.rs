// Witness for C18 "no completion becomes visible before the operation's simulated latency has elapsed".
use std::os::fd::AsRawFd;
use std::time::Duration;
use turmoil::fs::shim::std::fs::{create_dir_all, OpenOptions};
use turmoil::io_uring::{opcode, types, IoUring};
use turmoil::{Builder, Result};

#[test]
fn completion_visible_before_its_latency_elapsed() -> Result {
    let mut b = Builder::new();
    b.tick_duration(Duration::from_millis(10));
    b.fs()
        .io_latency()
        .min_latency(Duration::from_millis(6))
        .max_latency(Duration::from_millis(6));
    let mut sim = b.build();
    sim.client("c", async {
        create_dir_all("/w")?;
        let file = OpenOptions::new().read(true).write(true).create(true).open("/w/f")?;
        let fd = types::Fd(file.as_raw_fd());
        let mut ring = IoUring::new(4).expect("ring");

        // move into the middle of a 10 ms tick
        tokio::time::sleep(Duration::from_millis(25)).await;

        let payload = b"x".to_vec();
        let w = opcode::Write::new(fd, payload.as_ptr(), 1).build().user_data(7);
        unsafe { ring.submission().push(&w).expect("push"); }
        let submitted = tokio::time::Instant::now();
        ring.submit().expect("submit");

        // poll the CQ every simulated millisecond
        let seen = loop {
            let cqe = { let mut cq = ring.completion(); cq.sync(); cq.next() };
            if let Some(c) = cqe { assert_eq!(c.user_data(), 7); break submitted.elapsed(); }
            tokio::time::sleep(Duration::from_millis(1)).await;
        };
        println!("WITNESS completion visible after {:?} (configured latency 6ms)", seen);
        assert!(seen >= Duration::from_millis(6), "completion visible after {:?}, before its 6ms latency", seen);
        drop(file);
        Ok(())
    });
    sim.run()
}
