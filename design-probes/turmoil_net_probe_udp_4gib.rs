use turmoil_net::fixture;
use turmoil_net::shim::tokio::net::UdpSocket;

// C16 witness: a datagram of 2^32 + 5 bytes passes the `buf.len() as u32 > max_payload` check (truncating cast)
#[test]
fn udp_4gib_datagram_is_rejected() {
    fixture::lo(async {
        let s = UdpSocket::bind("127.0.0.1:0").await.unwrap();
        let huge = vec![0u8; (1usize << 32) + 5];
        let r = s.send_to(&huge, "127.0.0.1:7000").await;
        println!("W16 send_to(2^32+5 bytes) = {:?}", r.as_ref().map_err(|e| e.raw_os_error()));
        assert_eq!(r.unwrap_err().raw_os_error(), Some(90));
    });
}
