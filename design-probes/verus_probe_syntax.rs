use vstd::prelude::*;
verus! {

pub trait RngCore { fn next_u64(&mut self) -> u64; }

enum Seg { Syn(u32), Data(u64, u32), Fin(u64), Rst }

fn f_dyn(r: &mut dyn RngCore) -> u64 { r.next_u64() }

fn f_panic(x: u32) -> u32
    requires x < 10
{
    if x == 11 { panic!("bad {x}"); }
    assert!(x < 10, "unknown {x}");
    x
}

fn f_letelse(o: Option<u32>) -> u32 {
    let Some(v) = o else { return 0; };
    v
}

fn f_q(o: Result<u32, u8>) -> Result<u32, u8> {
    let v = o?;
    Ok(v)
}

fn f_matches(s: &Seg) -> bool {
    matches!(s, Seg::Data(_, _) | Seg::Fin(_))
}

fn f_guard(s: Seg, cap: u32) -> u32 {
    match s {
        Seg::Syn(n) if n == cap => 1,
        Seg::Syn(_) => 2,
        Seg::Data(_, d) => d,
        _ => 0,
    }
}

} // verus!
fn main() {}
