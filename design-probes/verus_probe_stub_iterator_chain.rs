use vstd::prelude::*;
verus! {

#[verifier::external_body]
#[verifier::reject_recursive_types(K)]
#[verifier::reject_recursive_types(V)]
pub struct IndexMap<K, V> { k: std::marker::PhantomData<(K, V)> }

#[verifier::external_body]
#[verifier::reject_recursive_types(K)]
#[verifier::reject_recursive_types(V)]
pub struct Keys<'a, K, V> { k: std::marker::PhantomData<&'a (K, V)> }

impl<K, V> IndexMap<K, V> {
    pub uninterp spec fn keys_view(&self) -> Seq<K>;
    pub open spec fn has_key(&self, k: K) -> bool { exists|i: int| 0 <= i < self.keys_view().len() && #[trigger] self.keys_view()[i] == k }

    #[verifier::external_body]
    pub fn keys(&self) -> (r: Keys<'_, K, V>)
        ensures r@ == self.keys_view()
    { unimplemented!() }
}
impl<'a, K, V> Keys<'a, K, V> {
    pub uninterp spec fn view(&self) -> Seq<K>;

    #[verifier::external_body]
    pub fn any<F: FnMut(&K) -> bool>(&mut self, f: F) -> (r: bool)
        requires forall|k: &K| #[trigger] f.requires((k,)),
        ensures
            r ==> exists|i: int| 0 <= i < old(self)@.len() && #[trigger] f.ensures((&old(self)@[i],), true),
            !r ==> forall|i: int| #![trigger old(self)@[i]] 0 <= i < old(self)@.len() ==> f.ensures((&old(self)@[i],), false),
    { unimplemented!() }
}

struct UdpBind { port_copy: u16 }
struct Udp { binds: IndexMap<u16, UdpBind>, capacity: usize }

impl Udp {
    fn is_port_assigned(&self, port: u16) -> (r: bool)
        ensures r == self.binds.has_key(port)
    {
        self.binds.keys().any(|p: &u16| -> (b: bool) ensures b == (*p == port) { *p == port })
    }
}

} // verus!
fn main() {}
