use vstd::prelude::*;
use std::collections::VecDeque;
verus! {

// ---- prelude stubs (trusted) ----
#[derive(Clone, Copy, PartialEq, Eq)]
pub struct Instant { pub t: u64 }
impl Instant {
    #[verifier::external_body]
    pub fn le(&self, other: &Instant) -> (b: bool) ensures b == (self.t <= other.t) { self.t <= other.t }
}
#[derive(Clone, Copy, PartialEq, Eq)]
pub struct IpAddr { pub a: u128 }
#[derive(Clone, Copy, PartialEq, Eq)]
pub struct SocketAddr { pub ip_: IpAddr, pub port_: u16 }
impl SocketAddr {
    pub fn ip(&self) -> (r: IpAddr) ensures r == self.ip_ { self.ip_ }
}
pub struct Protocol { pub id: u64 }
pub struct Envelope { pub src: SocketAddr, pub dst: SocketAddr, pub message: Protocol }

#[verifier::external_body]
#[verifier::reject_recursive_types(K)]
#[verifier::reject_recursive_types(V)]
pub struct IndexMap<K, V> { k: std::marker::PhantomData<(K,V)> }
impl<K, V> IndexMap<K, V> {
    pub uninterp spec fn view(&self) -> Seq<(K, V)>;
}

// ---- extracted (verbatim bodies) ----
struct Sent {
    src: SocketAddr,
    dst: SocketAddr,
    status: DeliveryStatus,
    protocol: Protocol,
}
enum DeliveryStatus {
    DeliverAfter(Instant),
    Hold,
}
struct Link {
    sent: VecDeque<Sent>,
    deliverable: Vec<Envelope>,
    now: Instant,
}

spec fn due(s: Sent, now: Instant) -> bool {
    match s.status { DeliveryStatus::DeliverAfter(t) => t.t <= now.t, DeliveryStatus::Hold => false }
}

impl Link {
    fn process_deliverables(&mut self)
        ensures
            final(self).sent@ == old(self).sent@.filter(|s: Sent| !due(s, old(self).now)),
    {
        let mut deliverable = 0;
        for i in 0..self.sent.len() {
            let index = i - deliverable;
            let sent = &self.sent[index];
            if let DeliveryStatus::DeliverAfter(time) = sent.status {
                if time.t <= self.now.t {
                    let sent = self.sent.remove(index).unwrap();
                    let envelope = Envelope {
                        src: sent.src,
                        dst: sent.dst,
                        message: sent.protocol,
                    };
                    self.deliverable.push(envelope);
                    deliverable += 1;
                }
            }
        }
    }
}

} // verus!
fn main() {}
