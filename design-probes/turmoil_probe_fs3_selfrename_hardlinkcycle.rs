#![cfg(feature = "unstable-fs")]
use std::os::unix::fs::FileExt;
use turmoil::fs::shim::std::fs::{create_dir_all, exists, hard_link, remove_file, rename, OpenOptions};
use turmoil::{Builder, Result};

fn rw() -> OpenOptions { let mut o = OpenOptions::new(); o.read(true).write(true).create(true); o }

// rename of a file onto itself: POSIX no-op; file must still exist
#[test]
fn self_rename_keeps_file() -> Result {
    let mut sim = Builder::new().build();
    sim.client("t", async {
        create_dir_all("/d")?;
        let f = rw().open("/d/x")?;
        f.write_all_at(b"hello", 0)?;
        drop(f);
        println!("SELF-RENAME before: exists={:?}", exists("/d/x"));
        let r = rename("/d/x", "/d/x");
        println!("SELF-RENAME rename result: {:?}", r);
        println!("SELF-RENAME after: exists={:?}", exists("/d/x"));
        Ok(())
    });
    sim.run()
}

// two pending hard links pointing at each other: metadata().len() recurses without bound
#[test]
fn hardlink_cycle_len() -> Result {
    let mut sim = Builder::new().build();
    sim.client("t", async {
        create_dir_all("/d")?;
        let f = rw().open("/d/a")?;
        drop(f);
        hard_link("/d/a", "/d/b")?;      // b -> a
        remove_file("/d/a")?;
        hard_link("/d/b", "/d/a")?;      // a -> b
        println!("HL-CYCLE links created; asking for len of /d/a");
        let g = OpenOptions::new().read(true).open("/d/a")?;
        println!("HL-CYCLE len = {}", g.metadata()?.len());
        Ok(())
    });
    sim.run()
}
