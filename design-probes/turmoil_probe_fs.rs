#![cfg(feature = "unstable-fs")]
use std::os::unix::fs::FileExt;
use turmoil::fs::shim::std::fs::{create_dir, create_dir_all, read, read_dir, remove_file, rename, sync_dir, exists, metadata, OpenOptions};
use turmoil::{Builder, Result};

fn rw() -> OpenOptions { let mut o = OpenOptions::new(); o.read(true).write(true).create(true); o }

// F1: read_dir order depends on process-random hasher
#[test]
fn f1_read_dir_order() -> Result {
    let mut sim = Builder::new().rng_seed(1).build();
    sim.client("t", async {
        create_dir_all("/d")?;
        for n in ["a","b","c","d","e","f","g","h"] { rw().open(format!("/d/{n}"))?; }
        let names: Vec<String> = read_dir("/d")?.map(|e| e.unwrap().file_name().into_string().unwrap()).collect();
        println!("F1 ORDER {}", names.join(""));
        Ok(())
    });
    sim.run()
}

// F4a: remove + re-create of a synced file resurrects old bytes
#[test]
fn f4a_recreate_resurrects() -> Result {
    let mut sim = Builder::new().build();
    sim.client("t", async {
        create_dir_all("/d")?; sync_dir("/")?;
        let f = rw().open("/d/x")?;
        f.write_all_at(b"hello", 0)?; f.sync_all()?; sync_dir("/d")?;
        drop(f);
        remove_file("/d/x")?;
        let g = rw().open("/d/x")?;
        let len = g.metadata()?.len();
        let content = read("/d/x")?;
        println!("F4a after recreate: len={len} content={:?}", String::from_utf8_lossy(&content));
        assert_eq!(len, 0, "re-created file must be empty");
        Ok(())
    });
    sim.run()
}

// F4b: sync_dir of a rename changes the observable content
#[test]
fn f4b_sync_dir_changes_view() -> Result {
    let mut sim = Builder::new().build();
    sim.client("t", async {
        create_dir_all("/d")?; sync_dir("/")?;
        let f = rw().open("/d/a")?;
        f.write_all_at(b"old", 0)?; f.sync_all()?; sync_dir("/d")?;
        f.write_all_at(b"NEWDATA", 0)?;           // pending
        rename("/d/a", "/d/b")?;                  // pending
        let before = read("/d/b")?;
        sync_dir("/d")?;                          // must not change the view
        let after = read("/d/b")?;
        println!("F4b before sync_dir {:?} after {:?}", String::from_utf8_lossy(&before), String::from_utf8_lossy(&after));
        assert_eq!(before, after, "sync_dir changed observable content");
        Ok(())
    });
    sim.run()
}

// F4c: rename of an unsynced directory
#[test]
fn f4c_rename_unsynced_dir() -> Result {
    let mut sim = Builder::new().build();
    sim.client("t", async {
        create_dir("/p")?;
        rename("/p", "/q")?;
        let (ep, eq) = (exists("/p"), exists("/q"));
        println!("F4c exists(/p)={ep} exists(/q)={eq} meta(/q).is_dir={:?}", metadata("/q").map(|m| m.is_dir()));
        assert!(!ep && eq);
        Ok(())
    });
    sim.run()
}
