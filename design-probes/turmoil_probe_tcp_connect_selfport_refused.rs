// Witness (tests/ file for crates/turmoil): both tests FAIL on /repo @2dde0f5.
//  self_connect_to_free_ephemeral_port: panic `assertion left != right failed, 127.0.0.1:49152` in SocketPair::new (finding [C12.con.selfconnect])
//  refused_connects_do_not_exhaust_ports: panic "Host: client ports exhausted" at the 4th refused connect (F6); passes with the PendingConnect repair
use std::net::{IpAddr, Ipv4Addr, SocketAddr};
use turmoil::{net::TcpStream, Builder, Result};

// connect to this host's own next free ephemeral port on localhost: nobody listens there
#[test]
fn self_connect_to_free_ephemeral_port() -> Result {
    let mut sim = Builder::new().build();
    sim.client("client", async move {
        let dst = SocketAddr::new(IpAddr::V4(Ipv4Addr::LOCALHOST), 49152);
        let r = TcpStream::connect(dst).await;
        assert_eq!(r.unwrap_err().kind(), std::io::ErrorKind::ConnectionRefused);
        Ok(())
    });
    sim.run()
}

// a refused connect must not leak the stream-table entry / port (F6), here via a host that does not exist
#[test]
fn refused_connects_do_not_exhaust_ports() -> Result {
    let mut sim = Builder::new().ephemeral_ports(49152..=49154).build();
    sim.host("server", || async { std::future::pending::<()>().await; Ok(()) });
    sim.client("client", async move {
        for _ in 0..5 {
            let r = TcpStream::connect(("server", 80)).await;
            assert_eq!(r.unwrap_err().kind(), std::io::ErrorKind::ConnectionRefused);
        }
        Ok(())
    });
    sim.run()
}
