#![cfg(feature = "unstable-fs")]
use std::os::unix::fs::FileExt;
use std::sync::atomic::{AtomicU32, Ordering};
use std::sync::Arc;
use turmoil::fs::shim::std::fs::{create_dir_all, read, rename, sync_dir, OpenOptions};
use turmoil::{Builder, Result};

fn rw() -> OpenOptions { let mut o = OpenOptions::new(); o.read(true).write(true).create(true); o }

// F4d: data written before a rename can never be made durable through the new name
#[test]
fn f4d_fsync_after_rename_not_durable() -> Result {
    let mut sim = Builder::new().build();
    let phase = Arc::new(AtomicU32::new(0));
    let p = phase.clone();
    sim.host("server", move || {
        let p = p.clone();
        async move {
            if p.load(Ordering::SeqCst) == 0 {
                create_dir_all("/d")?; sync_dir("/")?;
                let f = rw().open("/d/a")?;
                f.write_all_at(b"old", 0)?; f.sync_all()?; sync_dir("/d")?;
                f.write_all_at(b"NEWDATA", 0)?;
                rename("/d/a", "/d/b")?;
                sync_dir("/d")?;
                let r_old_handle = f.sync_all();
                println!("F4d sync_all via pre-rename handle: {:?}", r_old_handle.as_ref().map_err(|e| e.to_string()));
                let g = rw().open("/d/b")?;
                println!("F4d view before fsync(b): {:?}", String::from_utf8_lossy(&read("/d/b")?));
                g.sync_all()?;
                sync_dir("/d")?;
                p.store(1, Ordering::SeqCst);
            } else if p.load(Ordering::SeqCst) == 2 {
                let c = read("/d/b")?;
                println!("F4d after crash: /d/b = {:?}", String::from_utf8_lossy(&c));
                p.store(3, Ordering::SeqCst);
            }
            std::future::pending::<()>().await;
            Ok(())
        }
    });
    while phase.load(Ordering::SeqCst) != 1 { sim.step()?; }
    sim.crash("server");
    phase.store(2, Ordering::SeqCst);
    sim.bounce("server");
    while phase.load(Ordering::SeqCst) != 3 { sim.step()?; }
    Ok(())
}
