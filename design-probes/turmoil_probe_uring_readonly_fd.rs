#![cfg(all(feature = "unstable-fs", feature = "unstable-io_uring"))]
use std::os::fd::AsRawFd;
use std::os::unix::fs::FileExt;
use turmoil::fs::shim::std::fs::{create_dir_all, OpenOptions};
use turmoil::io_uring::{opcode, types, IoUring};
use turmoil::{Builder, Result};

// C18 witness (U1): a Write SQE on a descriptor opened read-only succeeds and changes the file,
// while the synchronous API refuses the same write with PermissionDenied.
#[test]
fn write_sqe_on_readonly_fd() -> Result {
    let mut sim = Builder::new().build();
    sim.client("c", async {
        create_dir_all("/u")?;
        {
            let f = OpenOptions::new().read(true).write(true).create(true).open("/u/ro")?;
            f.write_all_at(b"AAAA", 0)?;
        }
        let file = OpenOptions::new().read(true).open("/u/ro")?;
        let sync_res = file.write_at(b"x", 0);
        println!("U1 sync write_at on read-only handle: {:?}", sync_res.as_ref().map_err(|e| e.kind()));
        let fd = types::Fd(file.as_raw_fd());
        let mut ring = IoUring::new(4).expect("ring");
        let payload = b"Z".to_vec();
        let w = opcode::Write::new(fd, payload.as_ptr(), 1).offset(0).build().user_data(7);
        unsafe { ring.submission().push(&w).expect("push"); }
        ring.submit().expect("submit");
        let mut res = None;
        for _ in 0..100 {
            {
                let mut cq = ring.completion();
                cq.sync();
                if let Some(c) = cq.next() { res = Some(c.result()); }
            }
            if res.is_some() { break; }
            tokio::time::sleep(std::time::Duration::from_millis(1)).await;
        }
        let mut buf = [0u8; 4];
        let n = file.read_at(&mut buf, 0)?;
        println!("U1 uring Write CQE result on read-only fd: {:?}; file now = {:?}", res, &buf[..n]);
        Ok(())
    });
    sim.run()
}
