// Witness (tests/ file for crates/turmoil): FAILS on /repo @478ecbe with
//   panicked at crates/turmoil/src/host.rs:493: SocketPair { local: 192.168.0.1:80, remote: 192.168.0.2:49152 } is already connected
// (finding [C12.acc.fresh]: accept panics when a connector re-uses an ephemeral port while the acceptor still holds the old stream)
use std::time::Duration;
use turmoil::{net::{TcpListener, TcpStream}, Builder, Result};

// The server keeps the first accepted stream; the client drops its end and connects again.  With a small ephemeral
// range the client gets the same local port, so the second accept builds the pair (server:80, client:49152) again.
#[test]
fn reconnect_from_reused_port_while_server_keeps_old_stream() -> Result {
    let mut sim = Builder::new().ephemeral_ports(49152..=49152).build();
    sim.host("server", || async {
        let l = TcpListener::bind(("0.0.0.0", 80)).await?;
        let mut keep = vec![];
        loop {
            let (s, _) = l.accept().await?;
            keep.push(s);
        }
    });
    sim.client("client", async {
        let s = TcpStream::connect(("server", 80)).await?;
        drop(s);
        tokio::time::sleep(Duration::from_secs(1)).await;
        let s2 = TcpStream::connect(("server", 80)).await?;
        drop(s2);
        Ok(())
    });
    sim.run()
}
