#![cfg(feature = "unstable-fs")]
use std::io::{Read, Seek, SeekFrom, Write};
use std::os::unix::fs::FileExt;
use turmoil::fs::shim::std::fs::{create_dir_all, OpenOptions};
use turmoil::{Builder, Result};

fn rw() -> OpenOptions { let mut o = OpenOptions::new(); o.read(true).write(true).create(true); o }

#[test]
fn write_at_huge_offset() -> Result {
    let mut sim = Builder::new().build();
    sim.client("t", async {
        create_dir_all("/d")?;
        let f = rw().open("/d/x")?;
        let r = f.write_at(&[1u8], u64::MAX);
        println!("WHO write_at(&[1], u64::MAX) = {:?}", r);
        Ok(())
    });
    sim.run()
}

#[test]
fn read_at_huge_offset() -> Result {
    let mut sim = Builder::new().build();
    sim.client("t", async {
        create_dir_all("/d")?;
        let f = rw().open("/d/x")?;
        f.write_at(b"abc", 0)?;
        let mut b = [0u8; 4];
        let r = f.read_at(&mut b, u64::MAX);
        println!("RHO read_at(buf4, u64::MAX) = {:?}", r);
        let r = f.read_at(&mut b, u64::MAX - 1);
        println!("RHO read_at(buf4, u64::MAX-1) = {:?}", r);
        Ok(())
    });
    sim.run()
}

#[test]
fn seek_negative_and_huge() -> Result {
    let mut sim = Builder::new().build();
    sim.client("t", async {
        create_dir_all("/d")?;
        let mut f = rw().open("/d/x")?;
        f.write_all(b"abc")?;
        println!("SK seek(End(-10)) = {:?}", f.seek(SeekFrom::End(-10)));
        println!("SK seek(Current(-10)) = {:?}", f.seek(SeekFrom::Current(-10)));
        println!("SK seek(Start(u64::MAX)) = {:?}", f.seek(SeekFrom::Start(u64::MAX)));
        println!("SK pos after = {:?}", f.stream_position());
        println!("SK seek(Start(1<<63)) = {:?}", f.seek(SeekFrom::Start(1u64 << 63)));
        println!("SK seek(Start(i64::MAX)) = {:?}", f.seek(SeekFrom::Start(i64::MAX as u64)));
        Ok(())
    });
    sim.run()
}

#[test]
fn seek_current_overflow() -> Result {
    let mut sim = Builder::new().build();
    sim.client("t", async {
        create_dir_all("/d")?;
        let mut f = rw().open("/d/x")?;
        f.seek(SeekFrom::Start(i64::MAX as u64))?;
        println!("SKO seek(Current(1)) from i64::MAX = {:?}", f.seek(SeekFrom::Current(1)));
        Ok(())
    });
    sim.run()
}

#[test]
fn write_at_cursor_near_max() -> Result {
    let mut sim = Builder::new().build();
    sim.client("t", async {
        create_dir_all("/d")?;
        let mut f = rw().open("/d/x")?;
        f.seek(SeekFrom::Start(i64::MAX as u64))?;
        println!("WCM write 2 bytes at i64::MAX = {:?}", f.write(&[1u8, 2]));
        Ok(())
    });
    sim.run()
}

#[test]
fn set_len_huge() -> Result {
    let mut sim = Builder::new().build();
    sim.client("t", async {
        create_dir_all("/d")?;
        let f = rw().open("/d/x")?;
        println!("SLH set_len(u64::MAX) = {:?}", f.set_len(u64::MAX));
        println!("SLH len = {:?}", f.metadata().map(|m| m.len()));
        Ok(())
    });
    sim.run()
}
