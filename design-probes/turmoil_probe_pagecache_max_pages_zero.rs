// Witness: PageCacheConfig::max_pages(0) makes PageCache::insert spin forever (`while pages.len() >= 0`).
use std::os::fd::AsRawFd;
use turmoil::fs::shim::std::fs::{create_dir_all, OpenOptions};
use turmoil::io_uring::{opcode, types, IoUring};
use turmoil::{Builder, Result};

#[test]
fn submit_with_zero_page_cache_returns() -> Result {
    let mut b = Builder::new();
    b.fs().page_cache().max_pages(0);
    let mut sim = b.build();
    sim.client("c", async {
        create_dir_all("/w")?;
        let file = OpenOptions::new().read(true).write(true).create(true).open("/w/f")?;
        let fd = types::Fd(file.as_raw_fd());
        let mut ring = IoUring::new(4).expect("ring");
        let payload = b"x".to_vec();
        let w = opcode::Write::new(fd, payload.as_ptr(), 1).build().user_data(7);
        unsafe { ring.submission().push(&w).expect("push"); }
        println!("WITNESS before submit");
        ring.submit().expect("submit");
        println!("WITNESS submit returned");
        drop(file);
        Ok(())
    });
    sim.run()
}
