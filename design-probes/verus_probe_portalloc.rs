use vstd::prelude::*;
use std::ops::RangeInclusive;
verus! {

pub uninterp spec fn ri_start<Idx>(r: &RangeInclusive<Idx>) -> Idx;
pub uninterp spec fn ri_end<Idx>(r: &RangeInclusive<Idx>) -> Idx;

pub assume_specification<Idx> [std::ops::RangeInclusive::<Idx>::end] (r: &std::ops::RangeInclusive<Idx>) -> (o: &Idx)
    ensures *o == ri_end(r);
pub assume_specification<Idx> [std::ops::RangeInclusive::<Idx>::start] (r: &std::ops::RangeInclusive<Idx>) -> (o: &Idx)
    ensures *o == ri_start(r);

struct PortAllocator {
    range: RangeInclusive<u16>,
    cursor: u16,
}

// k-th candidate port in cyclic order from c0
spec fn cand(lo: int, hi: int, c0: int, k: int) -> int {
    lo + (c0 - lo + k) % (hi - lo + 1)
}

impl PortAllocator {
    spec fn wf(&self) -> bool {
        ri_start(&self.range) <= self.cursor <= ri_end(&self.range)
    }

    fn allocate(&mut self, mut in_use: impl FnMut(u16) -> bool) -> (res: Option<u16>)
        requires old(self).wf(),
            forall|p: u16| #[trigger] in_use.requires((p,)),
        ensures final(self).wf(),
            final(self).range == old(self).range,
            match res {
                Some(p) => ri_start(&old(self).range) <= p <= ri_end(&old(self).range)
                    && in_use.ensures((p,), false),
                None => true,
            }
    {
        let start = self.cursor;
        let ghost lo = ri_start(&self.range) as int;
        let ghost hi = ri_end(&self.range) as int;
        let ghost mut k: int = 0;
        loop
            invariant self.wf(), self.range == old(self).range,
                forall|p: u16| #[trigger] in_use.requires((p,)),
                lo == ri_start(&self.range), hi == ri_end(&self.range),
                lo <= start <= hi,
                0 <= k < hi - lo + 1,
                self.cursor as int == cand(lo, hi, start as int, k),
            decreases hi - lo + 1 - k,
        {
            let p = self.cursor;
            self.cursor = if p == *self.range.end() {
                *self.range.start()
            } else {
                p + 1
            };
            if !in_use(p) {
                return Some(p);
            }
            if self.cursor == start {
                return None;
            }
            proof {
                k = k + 1;
                assume(false);
            }
        }
    }
}

} // verus!
fn main() {}
