use std::future::{poll_fn, Future};
use std::task::Poll;
use std::time::Duration;
use tokio::io::{AsyncReadExt, AsyncWriteExt};
use turmoil_net::fixture::{self, ClientServer};
use turmoil_net::shim::tokio::net::{TcpListener, TcpStream};
use turmoil_net::{rule, KernelConfig, Latency};

// F5: zero window never re-opened by small reads
#[test]
fn f5_small_reads_stall() {
    let cfg = KernelConfig::default().recv_buf_cap(64).send_buf_cap(64);
    fixture::lo_with_config(cfg, async {
        let listener = TcpListener::bind("127.0.0.1:7600").await.unwrap();
        let (mut client, (mut server, _)) =
            tokio::try_join!(TcpStream::connect("127.0.0.1:7600"), listener.accept(),).unwrap();
        const N: usize = 512;
        let writer = tokio::spawn(async move {
            client.write_all(&vec![7u8; N]).await.unwrap();
            client.shutdown().await.unwrap();
            client
        });
        // let the pipe fill
        tokio::time::sleep(Duration::from_millis(50)).await;
        let rd = async {
            let mut got = 0usize;
            let mut buf = vec![0u8; std::env::var("RB").map(|s| s.parse().unwrap()).unwrap_or(8)];
            loop {
                let n = server.read(&mut buf).await.unwrap();
                if n == 0 { break; }
                got += n;
            }
            got
        };
        match tokio::time::timeout(Duration::from_secs(30), rd).await {
            Ok(got) => { println!("F5 read {got} bytes"); assert_eq!(got, N); }
            Err(_) => panic!("F5 STALL: reader with 8-byte reads never finished"),
        }
        let _ = writer.await;
    });
}

// F7: SynReceived child aborted by RST is never reaped
#[test]
fn f7_orphan_child_after_cancelled_connect() {
    ClientServer::new()
        .server("server", async move {
            let _l = TcpListener::bind("0.0.0.0:9000").await.unwrap();
            std::future::pending::<()>().await;
        })
        .run("client", async move {
            rule(Latency::fixed(Duration::from_millis(5))).forget();
            let mut fut: std::pin::Pin<Box<dyn Future<Output = _>>> =
                Box::pin(TcpStream::connect("server:9000"));
            poll_fn(|cx| {
                assert!(fut.as_mut().poll(cx).is_pending());
                Poll::Ready(())
            })
            .await;
            tokio::time::sleep(Duration::from_millis(8)).await;
            println!("F7 before cancel: server {:?}", turmoil_net::probe_table_counts("server"));
            drop(fut);
            tokio::time::sleep(Duration::from_millis(200)).await;
            let (n, s) = turmoil_net::probe_table_counts("server");
            println!("F7 after cancel+200ms: server table has {n} sockets: {s}");
            println!("F7 client: {:?}", turmoil_net::probe_table_counts("client"));
            assert_eq!(n, 1, "server should hold only the listener");
        });
}
